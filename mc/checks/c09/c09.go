// Package c09 checks property C09: String methods follow ES5 15.5 with UTF-16
// code-unit indexing. Every family enumerates a finite product of strings over
// a small code-unit alphabet, argument values and receivers completely, runs the
// real otto built-in through a precompiled JavaScript driver function and
// compares the result, read back as UTF-16 code units, with ref/str16.
package c09

import (
	"fmt"
	"math"
	"strings"
	"time"

	"github.com/robertkrimen/otto"

	"verif/mc/engine"
	"verif/mc/ox"
	"verif/mc/ref/str16"
)

func init() {
	engine.Register(&engine.Check{
		ID:    "C09",
		Title: "String methods follow ES5 15.5 with UTF-16 code-unit indexing",
		Rule: "strings = all sequences of length <= 3 (quick: <= 2) over the code units {a,b,A,U+00E9,U+20AC,D83D,DE00,space}, built in-script with String.fromCharCode and, " +
			"where well-formed, also passed as Go strings (second internal representation); search/separator strings of length <= 2; position arguments " +
			"{omitted,undefined,null,NaN,-Inf,-1,-0.5,0,0.5,1,2,3,4,+Inf,1e19,-1e19,\"1\",true}; receivers: primitive, String object, object with toString, array, 12, true, undefined, null; " +
			"order family: receiver and arguments are objects whose toString/valueOf log, draw from a shared counter and behave in 5 ways (primitive, fallback, throw, object-then-throw, never primitive), every argument count, checked against the replay of the 15.5.4.x step order (log, result, surfacing exception); " +
			"wrappers family: every method probed on receivers whose ToString was customised (String/Number/Boolean objects and primitives with own or prototype toString/valueOf replaced, non-callable or returning objects; arrays with replaced join/toString; plain objects), fresh runtime per case, expected = [[DefaultValue]] 8.12.8 with the log of user functions called; " +
			"history family: every operation sequence of depth <= 2 over {s[n]=v, three defineProperty shapes, delete s[n]} x n in {1, 3, 5, \"01\", \"-0\", \"4294967295\", length, expando} on a fresh new String(\"abc\"), then every observer (get, in, hasOwnProperty, propertyIsEnumerable, descriptor, keys, getOwnPropertyNames, for-in, charAt, String, valueOf, length) against ref/str16.StrObj (15.5.5.2 + 8.12); " +
			"multi family: A = new String(s1) followed by every sequence of <= 2 actions over 9 kinds (second live String object, boxing a primitive for length/charAt/[i]/charCodeAt, dropped String object, Object(v)[1], for-in, reading A) x 7 non-ASCII/astral/ASCII strings, then every read form of every retained object in two orders and A once more (a String object depends on its own value only), one shared runtime per worker; " +
			"boundary family: the unit-indexing families re-run on the boundary code points of every UTF-8/UTF-16 length class (7F,80,7FF,800,D7FF,E000,FFFF,10000,10001,FFFFF,100000,10FFFF) alone, doubled and flanked by ASCII; " +
			"each (method, receiver route, representation, string, argument tuple) is one case; a case is non-trivial when the expected result is not the trivial one of its method " +
			"(empty string / -1 / NaN / the unchanged receiver / TypeError).",
		Families: []engine.Family{
			{Name: "charat", Run: runCharAt},
			{Name: "indexof", Run: runIndexOf},
			{Name: "slice", Run: runSlice},
			{Name: "split", Run: runSplit},
			{Name: "concat", Run: runConcat},
			{Name: "unary", Run: runUnary},
			{Name: "tables", Run: runTables},
			{Name: "localecompare", Run: runLocaleCompare},
			{Name: "fromcharcode", Run: runFromCharCode},
			{Name: "index", Run: runIndex},
			{Name: "receivers", Run: runReceivers},
			{Name: "argconv", Run: runArgConv},
			{Name: "repr", Run: runRepr},
			{Name: "order", Run: runOrder},
			{Name: "wrappers", Run: runWrappers},
			{Name: "history", Run: runHistory},
			{Name: "multi", Run: runMulti},
			{Name: "boundary", Run: runBoundary},
			{Name: "len4", Run: runLen4, ThoroughOnly: true},
		},
		Assumptions: []string{
			"ref/str16 is a faithful transcription of ES5.1 15.5.3.2, 15.5.4.4-15.5.4.20, 15.5.5.1-2, B.2.3 and 9.4-9.7 (trusted model; cross-checked against V8 at development time)",
			"string results are read as UTF-16 code units from the returned otto.Value (Go string re-encoded, or the []uint16 payload); the fromcharcode, repr and charat families additionally read strings back in-script through length/charCodeAt",
			"the driver functions use only function calls, member access, new String, object/array literals and Function.prototype.call/apply/bind of the runtime under test",
			"a reused runtime carries no state between cases (drivers are pure functions of their arguments); it is replaced after every Go panic",
		},
		CrashIsViolation: true,
		QuickBudget:      80 * time.Second,
		ThoroughBudget:   14 * time.Minute,
	})
}

// ---------------------------------------------------------------- alphabets

var alphabet = []uint16{'a', 'b', 'A', 0xE9, 0x20AC, 0xD83D, 0xDE00, ' '}

// jsStr is one enumerated string with its otto values.
type jsStr struct {
	u     []uint16
	hex   string     // key form
	wf    bool       // well-formed UTF-16
	v16   otto.Value // built in-script by String.fromCharCode ([]uint16 payload)
	vgo   otto.Value // Go string payload (what Otto.Set / call arguments produce); only when wf
	goStr string
}

func hexKey(u []uint16) string {
	if len(u) == 0 {
		return "e"
	}
	var sb strings.Builder
	for i, c := range u {
		if i > 0 {
			sb.WriteByte('.')
		}
		fmt.Fprintf(&sb, "%X", c)
	}
	return sb.String()
}

func parseHexKey(s string) ([]uint16, bool) {
	if s == "e" {
		return []uint16{}, true
	}
	var out []uint16
	for _, p := range strings.Split(s, ".") {
		var v uint
		if _, err := fmt.Sscanf(p, "%X", &v); err != nil || v > 0xFFFF {
			return nil, false
		}
		out = append(out, uint16(v))
	}
	return out, true
}

// fromCharCodeSrc renders the in-script constructor expression for u.
func fromCharCodeSrc(u []uint16) string {
	parts := make([]string, len(u))
	for i, c := range u {
		parts[i] = fmt.Sprint(int(c))
	}
	return "String.fromCharCode(" + strings.Join(parts, ",") + ")"
}

// builder is the runtime in which string values are constructed; primitive
// otto.Values are runtime-independent, so they are passed to the case runtimes
// as call arguments.
var builder *otto.Otto

func mkStr(u []uint16) *jsStr {
	if builder == nil {
		builder = otto.New()
	}
	s := &jsStr{u: u, hex: hexKey(u), wf: !str16.HasLoneSurrogate(u)}
	v, err := builder.Run(fromCharCodeSrc(u))
	if err != nil {
		panic("c09: cannot build string: " + err.Error())
	}
	s.v16 = v
	if s.wf {
		rs := str16.CodePoints(u)
		s.goStr = string(rs)
		gv, err := otto.ToValue(s.goStr)
		if err != nil {
			panic(err)
		}
		s.vgo = gv
	}
	return s
}

var strCache = map[int][]*jsStr{}

// allStrings returns every string of length <= n over the alphabet, shortest first.
func allStrings(n int) []*jsStr {
	if l, ok := strCache[n]; ok {
		return l
	}
	var out []*jsStr
	var rec func(prefix []uint16, left int)
	for ln := 0; ln <= n; ln++ {
		rec = func(prefix []uint16, left int) {
			if left == 0 {
				out = append(out, mkStr(append([]uint16{}, prefix...)))
				return
			}
			for _, c := range alphabet {
				rec(append(prefix, c), left-1)
			}
		}
		rec(nil, ln)
	}
	strCache[n] = out
	return out
}

func maxLen(r *engine.Run) int {
	if r.Thorough() {
		return 3
	}
	return 2
}

// reprs of a string: "u16" always, "go" when well-formed.
var reprNames = []string{"u16", "go"}

func (s *jsStr) val(repr string) (otto.Value, bool) {
	if repr == "u16" {
		return s.v16, true
	}
	if s.wf {
		return s.vgo, true
	}
	return otto.Value{}, false
}

// argVal picks the argument representation matching the receiver's, falling
// back to u16 for ill-formed strings.
func (s *jsStr) argVal(repr string) otto.Value {
	if v, ok := s.val(repr); ok {
		return v
	}
	return s.v16
}

// posArg is one value of the position-argument alphabet.
type posArg struct {
	name    string
	omitted bool
	js      string     // source form, for rendering
	val     otto.Value // value passed to the driver
	arg     str16.Arg  // after ToNumber
	prop    string     // ToString(value), the property name used by s[value]
}

func mustVal(x interface{}) otto.Value {
	v, err := otto.ToValue(x)
	if err != nil {
		panic(err)
	}
	return v
}

func numArg(name string, f float64, prop string) posArg {
	return posArg{name: name, js: ox.JSNum(f), val: mustVal(f), arg: str16.N(f), prop: prop}
}

var posArgs = []posArg{
	{name: "omitted", omitted: true, js: "", arg: str16.Undefined, prop: "undefined"},
	{name: "undefined", js: "undefined", val: otto.UndefinedValue(), arg: str16.Undefined, prop: "undefined"},
	{name: "null", js: "null", val: otto.NullValue(), arg: str16.N(0), prop: "null"},
	numArg("NaN", math.NaN(), "NaN"),
	numArg("-Infinity", math.Inf(-1), "-Infinity"),
	numArg("-1", -1, "-1"),
	numArg("-0.5", -0.5, "-0.5"),
	numArg("0", 0, "0"),
	numArg("0.5", 0.5, "0.5"),
	numArg("1", 1, "1"),
	numArg("2", 2, "2"),
	numArg("3", 3, "3"),
	numArg("4", 4, "4"),
	numArg("Infinity", math.Inf(1), "Infinity"),
	numArg("1e19", 1e19, "10000000000000000000"),
	numArg("-1e19", -1e19, "-10000000000000000000"),
	{name: "str1", js: `"1"`, val: mustVal("1"), arg: str16.N(1), prop: "1"},
	{name: "true", js: "true", val: mustVal(true), arg: str16.N(1), prop: "true"},
}

// extraArgs: argument values of the index / argconv families (resolvable by name from Aux data).
var extraArgs []posArg

func posByName(name string) (posArg, bool) {
	if name == "-" {
		return noArg, true
	}
	for _, l := range [][]posArg{posArgs, limitArgs, extraArgs} {
		for _, p := range l {
			if p.name == name {
				return p, true
			}
		}
	}
	return posArg{}, false
}

// limitArgs is the limit alphabet of split.
var limitArgs = []posArg{
	posArgs[0], posArgs[1],
	numArg("0", 0, ""), numArg("1", 1, ""), numArg("2", 2, ""), numArg("3", 3, ""),
	numArg("4294967296", 4294967296, ""), numArg("4294967297", 4294967297, ""),
	numArg("-1", -1, ""), numArg("1.9", 1.9, ""), numArg("NaN", math.NaN(), ""),
	{name: "str2", js: `"2"`, val: mustVal("2"), arg: str16.N(2)},
}

// route is one way a receiver reaches the method.
type route struct {
	name string
	recv string // receiver expression in terms of the parameter s
	call bool   // through String.prototype.m.call(recv, ...)
}

var routes = []route{
	{"dot", "s", false},
	{"objdot", "new String(s)", false},
	{"call", "s", true},
	{"objcall", "new String(s)", true},
	{"tos", "{toString: function(){ return s }}", true},
	{"arr", "[s]", true},
}

func routeByName(n string) (route, bool) {
	for _, r := range append(append([]route{}, routes...), fixedRoutes...) {
		if r.name == n {
			return r, true
		}
	}
	return route{}, false
}

// driverSrc renders the precompiled driver for method m on a route with nargs
// arguments (parameters a, b).
func driverSrc(m string, rt route, nargs int) string {
	args := []string{"a", "b", "c"}[:nargs]
	if rt.call {
		all := append([]string{rt.recv}, args...)
		return fmt.Sprintf("(function(s,a,b,c){ return String.prototype.%s.call(%s); })", m, strings.Join(all, ", "))
	}
	return fmt.Sprintf("(function(s,a,b,c){ return (%s).%s(%s); })", rt.recv, m, strings.Join(args, ", "))
}

// ---------------------------------------------------------------- runtime

// env is a reused runtime with its compiled drivers.
type env struct {
	vm  *otto.Otto
	fns map[string]otto.Value
	r   *engine.Run
}

func newEnv(r *engine.Run) *env {
	return &env{vm: otto.New(), fns: map[string]otto.Value{}, r: r}
}

func (e *env) reset() {
	e.vm = otto.New()
	e.fns = map[string]otto.Value{}
}

func (e *env) fn(src string) otto.Value {
	if f, ok := e.fns[src]; ok {
		return f
	}
	res := ox.Run(e.vm, src)
	if res.Panicked || res.Err != nil || !res.Value.IsFunction() {
		e.r.HarnessError(fmt.Sprintf("driver does not compile: %s: %v %v", src, res.Err, res.PanicVal))
		panic("c09: driver does not compile: " + src)
	}
	e.fns[src] = res.Value
	return res.Value
}

// invoke calls a driver and returns the raw guarded result.
func (e *env) invoke(src string, this otto.Value, args []otto.Value) ox.Result {
	f := e.fn(src)
	res := ox.Guard(func() (otto.Value, error) { return f.Call(this, args) })
	if res.Panicked {
		e.reset()
	}
	return res
}

// call runs a driver and canonicalises the outcome.
func (e *env) call(src string, args ...otto.Value) string {
	return canonResult(e.invoke(src, otto.UndefinedValue(), args))
}

func canonResult(res ox.Result) string {
	switch {
	case res.Panicked:
		return "panic:" + panicClass(res.PanicVal)
	case res.Err != nil:
		return "throw:" + ox.ErrClass(res.Err)
	}
	return canonValue(res.Value)
}

func panicClass(p interface{}) string {
	s := fmt.Sprint(p)
	switch {
	case strings.Contains(s, "nil pointer dereference"):
		return "nil-deref"
	case strings.Contains(s, "slice bounds out of range"):
		return "slice-bounds"
	case strings.Contains(s, "index out of range"):
		return "index-range"
	}
	if len(s) > 80 {
		s = s[:80]
	}
	return s
}

// canonValue renders a result value: primitives as in ox.Canon, arrays element-wise.
func canonValue(v otto.Value) string {
	if v.IsObject() && v.Class() == "Array" {
		o := v.Object()
		lv, err := o.Get("length")
		if err != nil {
			return "o:Array:length-error"
		}
		n, _ := lv.ToInteger()
		parts := make([]string, 0, n)
		for i := int64(0); i < n && i < 64; i++ {
			ev, err := o.Get(fmt.Sprint(i))
			if err != nil {
				parts = append(parts, "error")
				continue
			}
			parts = append(parts, ox.Canon(ev))
		}
		return "[" + strings.Join(parts, ",") + "]"
	}
	return ox.Canon(v)
}

// model-side renderers (same canonical forms)

func cStr(u []uint16) string { return ox.Str16(u) }
func cNum(f float64) string  { return "d:" + ox.Num(f) }
func cArr(l [][]uint16) string {
	parts := make([]string, len(l))
	for i, e := range l {
		parts[i] = cStr(e)
	}
	return "[" + strings.Join(parts, ",") + "]"
}

const typeError = "throw:TypeError"

// jsRender renders a string value as JS source for human-readable inputs.
func jsRender(u []uint16, repr string) string {
	if repr == "go" || str16.IsASCII(u) {
		var sb strings.Builder
		sb.WriteByte('"')
		for _, c := range u {
			switch {
			case c == '"' || c == '\\':
				sb.WriteByte('\\')
				sb.WriteByte(byte(c))
			case c >= 0x20 && c < 0x7f:
				sb.WriteByte(byte(c))
			default:
				fmt.Fprintf(&sb, "\\u%04X", c)
			}
		}
		sb.WriteByte('"')
		if repr == "go" && !str16.IsASCII(u) {
			return sb.String() + "/*Go string*/"
		}
		return sb.String()
	}
	return fromCharCodeSrc(u)
}

// batch decides whether this worker runs the batch of cases with the given key
// prefix: sharding is per batch, replay is by exact case key (or batch prefix).
func batch(r *engine.Run, prefix string) bool {
	if r.ReplayKey != "" {
		return r.ReplayKey == prefix || strings.HasPrefix(r.ReplayKey, prefix+"/")
	}
	return r.Mine()
}

// one decides whether a case inside an owned batch runs (replay filter).
func one(r *engine.Run, prefix, key string) bool {
	return r.ReplayKey == "" || r.ReplayKey == key || r.ReplayKey == prefix
}
