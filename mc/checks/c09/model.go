package c09

import (
	"math"
	"strconv"
	"strings"

	"verif/mc/engine"
	"verif/mc/ref/str16"
)

// kase is one case of a method family in model terms: the receiver's string
// value (after ToString), the string argument and the numeric arguments.
type kase struct {
	m     string // method: charAt charCodeAt index indexOf lastIndexOf slice substring substr split concat concat2 trim toLowerCase toUpperCase length forin
	route string
	repr  string
	s     []uint16
	tKind string // "-" none, "str", "undef" (explicit undefined), "omitted"
	t     []uint16
	t2    []uint16 // second string argument (concat2)
	a, b  posArg
	nums  []float64 // fromCharCode: the arguments after ToNumber
	san   bool      // set on the copy made by sanitized()
}

func (k *kase) key() string {
	var sb strings.Builder
	sb.WriteString(k.m)
	sb.WriteByte('/')
	sb.WriteString(k.route)
	sb.WriteByte('/')
	sb.WriteString(k.repr)
	sb.WriteByte('/')
	sb.WriteString(hexKey(k.s))
	sb.WriteByte('/')
	sb.WriteString(k.tKey())
	sb.WriteByte('/')
	sb.WriteString(k.a.name)
	sb.WriteByte('/')
	sb.WriteString(k.b.name)
	return sb.String()
}

func (k *kase) tKey() string {
	switch k.tKind {
	case "str":
		if k.m == "concat2" {
			return hexKey(k.t) + "+" + hexKey(k.t2)
		}
		return hexKey(k.t)
	case "", "-":
		return "-"
	}
	return k.tKind
}

func (k *kase) aux() map[string]string {
	a := map[string]string{"m": k.m, "route": k.route, "repr": k.repr, "s": hexKey(k.s), "t": k.tKey(), "a": k.a.name, "b": k.b.name}
	if k.nums != nil {
		parts := make([]string, len(k.nums))
		for i, x := range k.nums {
			parts[i] = strconv.FormatFloat(x, 'g', -1, 64)
		}
		a["nums"] = strings.Join(parts, " ")
	}
	return a
}

// kaseFromAux rebuilds the case a mismatch was filed for.
// (memoised for the mismatch being classified: every open entry's predicate asks for it)
var lastAuxFor *engine.Mismatch
var lastAuxKase *kase
var lastAuxOK bool

func kaseFromAux(m *engine.Mismatch) (*kase, bool) {
	if m == lastAuxFor {
		return lastAuxKase, lastAuxOK
	}
	k, ok := kaseFromAux1(m)
	lastAuxFor, lastAuxKase, lastAuxOK = m, k, ok
	return k, ok
}

func kaseFromAux1(m *engine.Mismatch) (*kase, bool) {
	a := m.Aux
	if a == nil || a["m"] == "" {
		return nil, false
	}
	k := &kase{m: a["m"], route: a["route"], repr: a["repr"]}
	var ok bool
	if k.s, ok = parseHexKey(a["s"]); !ok {
		return nil, false
	}
	switch t := a["t"]; t {
	case "-":
		k.tKind = "-"
	case "undef", "omitted":
		k.tKind = t
	default:
		k.tKind = "str"
		if k.m == "concat2" {
			p := strings.SplitN(t, "+", 2)
			if len(p) != 2 {
				return nil, false
			}
			if k.t, ok = parseHexKey(p[0]); !ok {
				return nil, false
			}
			if k.t2, ok = parseHexKey(p[1]); !ok {
				return nil, false
			}
		} else if k.t, ok = parseHexKey(t); !ok {
			return nil, false
		}
	}
	if ns, has := a["nums"]; has {
		k.nums = []float64{}
		for _, f := range strings.Fields(ns) {
			x, err := strconv.ParseFloat(f, 64)
			if err != nil {
				return nil, false
			}
			k.nums = append(k.nums, x)
		}
	}
	if k.a, ok = posByName(a["a"]); !ok {
		return nil, false
	}
	if k.b, ok = posByName(a["b"]); !ok {
		return nil, false
	}
	return k, true
}

var undefinedUnits = []uint16{'u', 'n', 'd', 'e', 'f', 'i', 'n', 'e', 'd'}

// searchUnits is ToString(search argument).
func (k *kase) searchUnits() []uint16 {
	if k.tKind == "str" {
		return k.t
	}
	return undefinedUnits
}

// spec is the oracle: the canonical expected outcome of the case by ref/str16,
// and whether that outcome is a non-trivial one.
func spec(k *kase) (exp string, nontrivial bool) {
	s := k.s
	switch k.m {
	case "charAt":
		c, ok := str16.CharAt(s, k.a.arg)
		if !ok {
			return cStr(nil), false
		}
		return cStr([]uint16{c}), true
	case "charCodeAt":
		c, ok := str16.CharAt(s, k.a.arg)
		if !ok {
			return cNum(math.NaN()), false
		}
		return cNum(float64(c)), true
	case "index":
		c, ok := str16.OwnIndex(s, k.a.prop, propToInteger(k.a))
		if !ok {
			return "u", false
		}
		return cStr([]uint16{c}), true
	case "indexOf":
		i := str16.IndexOf(s, k.searchUnits(), k.a.arg)
		return cNum(float64(i)), i > 0
	case "lastIndexOf":
		i := str16.LastIndexOf(s, k.searchUnits(), k.a.arg)
		return cNum(float64(i)), i > 0
	case "slice":
		o := str16.Slice(s, k.a.arg, k.b.arg)
		return cStr(o), len(o) > 0 && len(o) < len(s)
	case "substring":
		o := str16.Substring(s, k.a.arg, k.b.arg)
		return cStr(o), len(o) > 0 && len(o) < len(s)
	case "substr":
		o := str16.Substr(s, k.a.arg, k.b.arg)
		return cStr(o), len(o) > 0 && len(o) < len(s)
	case "split":
		o := str16.Split(s, k.tKind != "str", k.t, k.a.arg)
		return cArr(o), len(o) > 1
	case "concat":
		if k.tKind == "omitted" {
			return cStr(s), false
		}
		return cStr(str16.Concat(s, k.searchUnits())), len(k.searchUnits()) > 0
	case "concat2":
		return cStr(str16.Concat(s, k.t, k.t2)), true
	case "trim":
		o, _ := str16.Trim(s)
		return cStr(o), len(o) != len(s)
	case "toLowerCase":
		o, ok := str16.ToLowerCase(s)
		if !ok {
			return "outside-model", false
		}
		return cStr(o), cStr(o) != cStr(s)
	case "toUpperCase":
		o, ok := str16.ToUpperCase(s)
		if !ok {
			return "outside-model", false
		}
		return cStr(o), cStr(o) != cStr(s)
	case "length":
		return cNum(float64(len(s))), len(s) > 0
	case "forin":
		parts := make([]string, len(s))
		for i := range s {
			parts[i] = str16.NumberToString(float64(i))
		}
		return "keys:" + strings.Join(parts, ","), len(s) > 0
	}
	return "no-model:" + k.m, false
}

// propToInteger is ToInteger(ToNumber(P)) for the property names the position
// alphabet produces.
func propToInteger(p posArg) float64 {
	switch p.prop {
	case "undefined", "null", "NaN", "true":
		return 0 // ToNumber gives NaN -> ToInteger 0
	}
	return str16.ToInteger(p.arg.Num)
}

// sanitize replaces every lone surrogate by U+FFFD: what the conversion of a
// UTF-16 string to a Go (UTF-8) string and back does.
func sanitize(u []uint16) []uint16 {
	cps := str16.CodePoints(u)
	for i, c := range cps {
		if c >= 0xD800 && c < 0xE000 {
			cps[i] = 0xFFFD
		}
	}
	return str16.Encode(cps)
}

func (k *kase) sanitized() *kase {
	c := *k
	c.san = true
	c.s = sanitize(k.s)
	if k.t != nil {
		c.t = sanitize(k.t)
	}
	if k.t2 != nil {
		c.t2 = sanitize(k.t2)
	}
	return &c
}

func (k *kase) hasLoneSurrogate() bool {
	return str16.HasLoneSurrogate(k.s) || str16.HasLoneSurrogate(k.t) || str16.HasLoneSurrogate(k.t2)
}

func (k *kase) allASCII() bool {
	return str16.IsASCII(k.s) && str16.IsASCII(k.t) && str16.IsASCII(k.t2)
}
