package c09

import (
	"fmt"
	"strings"

	"github.com/robertkrimen/otto"

	"verif/mc/engine"
	"verif/mc/ox"
	"verif/mc/ref/str16"
)

// ---------------------------------------------------------------- history: writes, defines and deletes on String objects, then every observer
//
// 15.5.5.2: the index properties of the string value are own data properties
// {writable:false, enumerable:true, configurable:false} that exist only when no
// ordinary own property of that name does (steps 1-2 look at the property table
// first); every other name - beyond the length, non-canonical ("01", "-0"),
// 2^32-1 - is an ordinary property under 8.12. All operation sequences of depth
// <= 2 over the alphabet below are applied to a fresh new String("abc") in a fresh
// runtime; after the sequence every observer is evaluated and compared with the
// reference model ref/str16.StrObj (results of the operations included).

var histNames = []string{"1", "3", "5", "01", "-0", "4294967295", "length", "expando"}

type histOp struct {
	kind string // set | defFull | defFrozen | defAccessor | delete
	name string
}

func (op histOp) key() string { return op.kind + ":" + op.name }

// js renders the operation as an expression.
func (op histOp) js() string {
	n := ox.JSLit(op.name)
	switch op.kind {
	case "set":
		return "(s[" + n + `] = "X")`
	case "defFull":
		return "(Object.defineProperty(s, " + n + `, {value: "D", writable: true, enumerable: true, configurable: true}), "ok")`
	case "defFrozen":
		return "(Object.defineProperty(s, " + n + `, {value: "F"}), "ok")`
	case "defAccessor":
		return "(Object.defineProperty(s, " + n + `, {get: function(){ return "G" }, enumerable: true, configurable: true}), "ok")`
	case "delete":
		return "(delete s[" + n + "])"
	}
	panic(op.kind)
}

// apply performs the operation on the model and renders its result.
func (op histOp) apply(o *str16.StrObj) string {
	switch op.kind {
	case "set":
		o.Put(op.name, "s:X")
		return "X"
	case "defFull":
		if !o.DefineOwnProperty(op.name, str16.Prop{Value: "s:D", HasV: true, W: true, HasW: true, E: true, HasE: true, C: true, HasC: true}) {
			return "throw:TypeError"
		}
		return "ok"
	case "defFrozen":
		if !o.DefineOwnProperty(op.name, str16.Prop{Value: "s:F", HasV: true}) {
			return "throw:TypeError"
		}
		return "ok"
	case "defAccessor":
		if !o.DefineOwnProperty(op.name, str16.Prop{Accessor: true, Getter: "G", HasGet: true, E: true, HasE: true, C: true, HasC: true}) {
			return "throw:TypeError"
		}
		return "ok"
	case "delete":
		return fmt.Sprint(o.Delete(op.name))
	}
	panic(op.kind)
}

// histObservers is evaluated after the operations; it prints one field per observer.
const histObservers = `
  function show(v) { return typeof v === "string" ? "s:" + v : typeof v === "number" ? "n:" + v : String(v); }
  function flag(b) { return b === undefined ? "-" : b ? "1" : "0"; }
  function desc(n) {
    var d = Object.getOwnPropertyDescriptor(s, n);
    if (!d) return "none";
    if ("get" in d || "set" in d) return "A:" + (d.get ? show(d.get()) : "undefined") + ":" + flag(d.writable) + flag(d.enumerable) + flag(d.configurable);
    return "D:" + show(d.value) + ":" + flag(d.writable) + flag(d.enumerable) + flag(d.configurable);
  }
  var out = ["ops=" + res.join("|")];
  for (var i = 0; i < names.length; i++) {
    var n = names[i];
    out.push(n + ": get=" + show(s[n]) + " in=" + (n in s) + " own=" + Object.prototype.hasOwnProperty.call(s, n) + " enum=" + Object.prototype.propertyIsEnumerable.call(s, n) + " desc=" + desc(n));
  }
  var forin = []; for (var k in s) forin.push(k);
  out.push("keys=" + Object.keys(s).sort().join(","));
  out.push("names=" + Object.getOwnPropertyNames(s).sort().join(","));
  out.push("forin=" + forin.sort().join(","));
  out.push("charAt1=" + show(s.charAt(1)) + " charAt3=" + show(s.charAt(3)) + " String=" + show(String(s)) + " valueOf=" + show(s.valueOf()) + " length=" + show(s.length) + " index0=" + show(s[0]) + " index2=" + show(s[2]));
  return out.join("\n");
`

func histExpect(ops []histOp) string {
	o := str16.NewStrObj(asciiUnits("abc"))
	var res []string
	for _, op := range ops {
		res = append(res, op.apply(o))
	}
	flag := func(b bool) string {
		if b {
			return "1"
		}
		return "0"
	}
	out := []string{"ops=" + strings.Join(res, "|")}
	for _, n := range histNames {
		d := o.GetOwnProperty(n)
		desc := "none"
		enum := false
		if d != nil {
			enum = d.E
			if d.Accessor {
				g := "undefined"
				if d.Getter != "" {
					g = "s:" + d.Getter
				}
				desc = "A:" + g + ":-" + flag(d.E) + flag(d.C)
			} else {
				desc = "D:" + d.Value + ":" + flag(d.W) + flag(d.E) + flag(d.C)
			}
		}
		out = append(out, fmt.Sprintf("%s: get=%s in=%v own=%v enum=%v desc=%s", n, o.Get(n), o.HasProperty(n), d != nil, enum, desc))
	}
	keys := strings.Join(o.OwnNames(true), ",")
	out = append(out, "keys="+keys, "names="+strings.Join(o.OwnNames(false), ","), "forin="+keys)
	out = append(out, "charAt1=s:b charAt3=s: String=s:abc valueOf=s:abc length=n:3 index0=s:a index2=s:c")
	return strings.Join(out, "\n")
}

func runHistory(r *engine.Run) {
	var alphabet []histOp
	for _, n := range histNames {
		for _, k := range []string{"set", "defFull", "defFrozen", "defAccessor", "delete"} {
			alphabet = append(alphabet, histOp{k, n})
		}
	}
	histories := [][]histOp{{}}
	for _, a := range alphabet {
		histories = append(histories, []histOp{a})
	}
	for _, a := range alphabet {
		for _, b := range alphabet {
			histories = append(histories, []histOp{a, b})
		}
	}
	namesJS := make([]string, len(histNames))
	for i, n := range histNames {
		namesJS[i] = ox.JSLit(n)
	}
	for _, h := range histories {
		ks := make([]string, len(h))
		var prog strings.Builder
		prog.WriteString("(function(){ var s = new String(\"abc\"); var res = []; var names = [" + strings.Join(namesJS, ",") + "];\n")
		for i, op := range h {
			ks[i] = op.key()
			prog.WriteString("  try { res.push(String(" + op.js() + ")); } catch (e) { res.push(\"throw:\" + e.name); }\n")
		}
		prog.WriteString(histObservers + "})()")
		key := "hist/" + strings.Join(ks, "/")
		if !r.MineKey(key) {
			continue
		}
		r.Begin(key)
		vm := otto.New()
		res := ox.Run(vm, prog.String())
		r.End()
		obs := canonResult(res)
		if res.Err == nil && !res.Panicked && res.Value.IsString() {
			obs, _ = res.Value.ToString()
		}
		exp := histExpect(h)
		r.Tree(1, int64(len(h)))
		// report only the observer lines that differ
		input := "var s = new String(\"abc\"); " + func() string {
			l := make([]string, len(h))
			for i, op := range h {
				l[i] = op.js()
			}
			return strings.Join(l, "; ")
		}()
		if exp == obs {
			r.Eval(len(h) > 0)
			r.Outcome(obs)
			if r.WantSample() && len(h) == 2 {
				r.Sample(input + " => " + strings.SplitN(obs, "\n", 2)[0] + "; " + fmt.Sprint(strings.Count(obs, "\n")) + " observer lines agree")
			}
			continue
		}
		el, ol := strings.Split(exp, "\n"), strings.Split(obs, "\n")
		var de, do []string
		for i := 0; i < len(el) || i < len(ol); i++ {
			a, b := "", ""
			if i < len(el) {
				a = el[i]
			}
			if i < len(ol) {
				b = ol[i]
			}
			if a != b {
				de = append(de, a)
				do = append(do, b)
			}
		}
		filed(r, key, input, strings.Join(de, " ; "), strings.Join(do, " ; "), map[string]string{"m": "hist", "ops": strings.Join(ks, "/")})
	}
	r.Bound("operations", fmt.Sprintf("%d (set, 3 defineProperty shapes, delete) x names %v", len(alphabet), histNames))
	r.Bound("depth", "2 (all sequences), every observer after each sequence")
}
