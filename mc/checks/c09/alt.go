package c09

import (
	"fmt"
	"math"
	"strconv"
	"strings"
	"unicode/utf8"

	"verif/mc/engine"
	"verif/mc/ox"
	"verif/mc/ref/str16"
)

// Alternative models. Each known finding of C09 is pinned by a predicate of the
// form "the observed outcome equals what THIS wrong model computes for the case,
// and the case lies in the input class where the wrong model applies". A
// different wrong answer on the same input, or the same answer outside the
// class, matches nothing and stays a VIOLATION.
//
// otto stores strings as Go (UTF-8) strings; three consequences are
// architectural and recorded as findings rather than repaired:
//
//   - lone surrogates cannot be represented: every conversion of a string value
//     replaces them by U+FFFD (on the way into a method and in its result);
//   - indexOf/lastIndexOf apply the position argument to the UTF-8 bytes;
//   - slice/substring/substr/split("") count code points.
//
// The remaining alternative models describe small defects for which a repair is
// proposed under /verif/fixes; their entries become obsolete once it is applied.

type altModel struct {
	sig string
	doc string
	f   func(k *kase) (string, bool) // outcome under the wrong model; false = model does not apply to this case
	// more: further outcomes of this model composed with another OPEN model (same case, later stage)
	more func(k *kase) []string
}

func (a *altModel) outcomes(k *kase) []string {
	var out []string
	if o, ok := a.f(k); ok {
		out = append(out, o)
	}
	if a.more != nil {
		out = append(out, a.more(k)...)
	}
	return out
}

var alts []altModel

func am(sig, doc string, f func(k *kase) (string, bool)) altModel {
	return altModel{sig: sig, doc: doc, f: f}
}

func init() {
	alts = []altModel{
		am("c09-charat-receiver-not-string-object",
			"charAt/charCodeAt called (through call/apply) with a this value that is not a String object: Go nil-pointer panic escapes (the built-in reads call.This.object().stringValue() without ToObject/ToString)",
			altCharAtReceiver),
		am("c09-fffd-sentinel",
			"charAt/charCodeAt use utf8.RuneError (U+FFFD) as the out-of-range sentinel: a genuine U+FFFD unit at the position reads as out of range ([[GetOwnProperty]] was repaired by aa072f0)",
			altFFFDSentinel),
		am("c09-lastindexof-nan",
			"lastIndexOf: a position that converts to NaN is treated as 0 instead of +Infinity (15.5.4.8 step 5)",
			func(k *kase) (string, bool) { return altLastIndexOfPos(k, true) }),
		am("c09-lastindexof-neginf",
			"lastIndexOf: position -Infinity is treated like +Infinity (whole string searched) instead of 0",
			func(k *kase) (string, bool) { return altLastIndexOfPos(k, false) }),
		am("c09-indexof-byte-position",
			"indexOf: on a receiver with non-ASCII text the position argument is clamped against and applied to the UTF-8 bytes; the result is that byte offset plus the UTF-16 length of the text between it and the match",
			altIndexOfBytes),
		am("c09-lastindexof-byte-position",
			"lastIndexOf: on a receiver with non-ASCII text the (finite) position argument bounds the match start in UTF-8 bytes; the returned index itself is converted to UTF-16 units",
			altLastIndexOfBytes),
		am("c09-codepoint-positions",
			"slice/substring/substr/split(\"\"): positions and lengths are counted in code points, so an astral pair counts as one position and is never split",
			altCodePoints),
		am("c09-substr-infinite-length",
			"substr(start, length) with length >= 2^63 (e.g. +Infinity) and 0 < start < size: start+length overflows int64 and a Go slice-bounds panic escapes",
			altSubstrInf),
		am("c09-lastindexof-huge-position",
			"lastIndexOf(target, pos) with a finite pos >= 2^63, non-empty target and receiver: pos+len(target) overflows int64 and a Go slice-bounds panic escapes",
			altLastIndexOfHuge),
		am("c09-index-noncanonical-name",
			"String [[GetOwnProperty]]: any name strconv.ParseInt accepts (\"01\", \"+1\", \"-0\", \"00\") is treated as an index; 15.5.5.2 step 3 requires the canonical form",
			altNonCanonicalIndex),
		am("c09-touint16-beyond-int64",
			"String.fromCharCode: ToUint16 of a finite value with |x| >= 2^63 yields 0 (float-to-int64 conversion overflows) instead of x modulo 2^16",
			altToUint16Large),
		am("c09-position-string-go-number-syntax",
			"a position given as a String that is not a StringNumericLiteral (ToNumber: NaN, position 0) but that strconv accepts (inf, infinity, +Inf, digits separated by underscores) is converted to strconv's value",
			altGoNumberSyntax),
	}
	// fromCharCode read back in-script: the wrong units then pass through charCodeAt (U+FFFD sentinel model)
	large := 0
	for i := range alts {
		if alts[i].sig == "c09-touint16-beyond-int64" {
			large = i
		}
	}
	alts[large].more = func(k *kase) []string {
		u, ok := largeUnits(k)
		if !ok || k.m != "readback" || !openSigs()["c09-fffd-sentinel"] {
			return nil
		}
		c := *k
		c.s = u
		if o, ok := altFFFDSentinel(&c); ok {
			return []string{o}
		}
		return nil
	}
	for i := range alts {
		a := alts[i]
		engine.RegisterSignature(a.sig, func(m *engine.Mismatch) bool {
			k, ok := kaseFromAux(m)
			if !ok || (k.hasLoneSurrogate() && k.m != "fccValue") {
				// lone surrogates on input: the surrogate finding composes with this model
				// (fccValue: the units are the raw result of fromCharCode, nothing was converted)
				return false
			}
			for _, out := range a.outcomes(k) {
				if out == m.Observed {
					return true
				}
			}
			return false
		})
	}
	engine.RegisterSignature("c09-lone-surrogate-fffd", sigLoneSurrogate)
	engine.RegisterSignature("c09-literal-escape-surrogate", sigLiteralEscape)
	engine.RegisterSignature("c09-undefined-this-global", sigUndefinedThis)
}

// openSigs: the signatures of the currently open C09 findings (composition with
// the surrogate / undefined-this findings is allowed only with open entries).
var openSigCache map[string]bool

func openSigs() map[string]bool {
	if openSigCache != nil {
		return openSigCache
	}
	out := map[string]bool{}
	openSigCache = out
	for _, f := range engine.KnownFor("C09") {
		if f.Status == "open" && f.Signature != "" {
			out[f.Signature] = true
		}
	}
	return out
}

// specAny dispatches to the oracle of the case's family.
func specAny(k *kase) string {
	switch k.m {
	case "prop":
		e, _ := specProp(k)
		return e
	case "localeCompare":
		return lcExpect(k.s, k.t)
	case "fccValue", "value":
		return cStr(k.s)
	case "readback":
		return readbackExpect(k.s)
	}
	e, _ := spec(k)
	return e
}

// acceptable lists the outcomes the check currently accepts for a case: the
// oracle's and those of the open alternative models.
func acceptable(k *kase) []string {
	out := []string{specAny(k)}
	open := openSigs()
	for _, a := range alts {
		if !open[a.sig] {
			continue
		}
		out = append(out, a.outcomes(k)...)
	}
	return out
}

// sanitizeText replaces lone-surrogate escapes in a canonical outcome by the
// escape of U+FFFD (adjacent high+low escapes inside one string are a pair and stay).
func sanitizeText(s string) string {
	var sb strings.Builder
	for i := 0; i < len(s); {
		if u, ok := escAt(s, i); ok && u >= 0xD800 && u < 0xE000 {
			if u < 0xDC00 {
				if v, ok2 := escAt(s, i+6); ok2 && v >= 0xDC00 && v < 0xE000 {
					sb.WriteString(s[i : i+12])
					i += 12
					continue
				}
			}
			sb.WriteString("\\uFFFD")
			i += 6
			continue
		}
		sb.WriteByte(s[i])
		i++
	}
	return sb.String()
}

func escAt(s string, i int) (uint16, bool) {
	if i+6 > len(s) || s[i] != '\\' || s[i+1] != 'u' {
		return 0, false
	}
	v, err := strconv.ParseUint(s[i+2:i+6], 16, 16)
	if err != nil {
		return 0, false
	}
	return uint16(v), true
}

// sigLoneSurrogate: "lone surrogate replaced by U+FFFD". Input class: the
// receiver or a string argument contains a lone surrogate, or the result the
// model computes does. Relation: observed == R(M(R(inputs))) where R replaces
// lone surrogates by U+FFFD and M is the oracle or one of the open alternative
// models; the replacement must actually have changed something.
func sigLoneSurrogate(m *engine.Mismatch) bool {
	k, ok := kaseFromAux(m)
	if !ok || k.route == "escaped" { // \\uXXXX literals: separate finding
		return false
	}
	inputs := k.hasLoneSurrogate()
	sk := k.sanitized()
	for _, out := range acceptable(sk) {
		so := sanitizeText(out)
		if so == m.Observed && (inputs || so != out) {
			return true
		}
	}
	return false
}

// sigLiteralEscape: a string literal written with \uXXXX escapes turns EVERY
// surrogate code unit into U+FFFD, even a well-formed pair (the parser decodes
// escape by escape into runes). Input class: repr family, route "escaped",
// string contains a surrogate unit. Relation: observed == oracle (or an open
// alternative model) on the string with all surrogate units replaced.
func sigLiteralEscape(m *engine.Mismatch) bool {
	k, ok := kaseFromAux(m)
	if !ok || k.route != "escaped" || (k.m != "value" && k.m != "readback") {
		return false
	}
	has := false
	c := *k
	c.s = append([]uint16{}, k.s...)
	for i, u := range c.s {
		if u >= 0xD800 && u < 0xE000 {
			c.s[i] = 0xFFFD
			has = true
		}
	}
	if !has {
		return false
	}
	for _, out := range acceptable(&c) {
		if out == m.Observed {
			return true
		}
	}
	return false
}

// sigUndefinedThis: Function.prototype.call/apply/bind replace an undefined
// thisArg by the global object also when the target is a built-in (15.3.4.3-5
// pass thisArg unmodified), so the String method sees the global object instead
// of rejecting undefined. Input class: receivers family, receiver undefined,
// delivered through call/apply/bind. Relation: observed == the outcome the check
// accepts for the same method on a non-String object whose ToString is
// String(global object) (measured in the same runtime, carried in Aux).
func sigUndefinedThis(m *engine.Mismatch) bool {
	a := m.Aux
	if a == nil || a["m"] != "reject" || a["recv"] != "undefined" {
		return false
	}
	switch a["delivery"] {
	case "call", "apply", "bind", "globalvar":
	default:
		return false
	}
	k := rejectKase(a["method"], ox.Units(a["global"]), a["args"])
	if k == nil {
		return false
	}
	if k.m == "localeCompare" {
		// sign only: the strings differ, any non-zero number is accepted
		return m.Observed == "d:1" || m.Observed == "d:-1"
	}
	for _, out := range acceptable(k) {
		if out == m.Observed {
			return true
		}
	}
	return false
}

// rejectKase is the case "method applied to an object whose ToString is g" with
// the receivers family's argument sets (none, or ("e", 1)).
func rejectKase(method string, g []uint16, argset string) *kase {
	k := &kase{m: method, route: "tos", repr: "u16", s: g, tKind: "-", a: posArgs[0], b: posArgs[0]}
	withArgs := argset == "args"
	e := posArg{name: "x:e", js: `"e"`, arg: str16.N(math.NaN())}
	one, _ := posByName("1")
	switch method {
	case "charAt", "charCodeAt":
		if withArgs {
			k.a = e
		}
		k.b = noArg
	case "indexOf", "lastIndexOf":
		k.tKind = "undef"
		if withArgs {
			k.tKind, k.t, k.a = "str", []uint16{'e'}, one
		}
		k.b = noArg
	case "slice", "substring":
		if withArgs {
			k.a, k.b = e, one
		}
	case "split":
		k.tKind = "omitted"
		if withArgs {
			k.tKind, k.t, k.a = "str", []uint16{'e'}, one
		}
		k.b = noArg
	case "concat":
		k.tKind = "omitted"
		if withArgs {
			k.m, k.tKind, k.t, k.t2 = "concat2", "str", []uint16{'e'}, []uint16{'1'}
		}
		k.a, k.b = noArg, noArg
	case "trim", "toLowerCase", "toUpperCase":
		k.a, k.b = noArg, noArg
	case "substr":
		if withArgs {
			k.a, k.b = e, one
		}
	case "localeCompare":
		k.tKind, k.t = "str", undefinedUnits
		if withArgs {
			k.t = []uint16{'e'}
		}
	default:
		return nil
	}
	return k
}

// ---------------------------------------------------------------- the alternative models

func isCallRoute(route string) bool {
	switch route {
	case "call", "tos", "arr", "num12", "booltrue":
		return true
	}
	return false
}

func altCharAtReceiver(k *kase) (string, bool) {
	if (k.m == "charAt" || k.m == "charCodeAt") && isCallRoute(k.route) {
		return "panic:nil-deref", true
	}
	return "", false
}

func altFFFDSentinel(k *kase) (string, bool) {
	switch k.m {
	case "charAt", "charCodeAt":
		c, ok := str16.CharAt(k.s, k.a.arg)
		if !ok || c != 0xFFFD {
			return "", false
		}
		if k.m == "charAt" {
			return cStr(nil), true
		}
		return cNum(math.NaN()), true
	case "readback":
		has := false
		parts := []string{fmt.Sprint(len(k.s))}
		for _, c := range k.s {
			if c == 0xFFFD {
				has = true
				parts = append(parts, "NaN")
			} else {
				parts = append(parts, fmt.Sprint(int(c)))
			}
		}
		if !has {
			return "", false
		}
		return "s:" + strings.Join(parts, ","), true
	}
	return "", false
}

func altLastIndexOfPos(k *kase, nan bool) (string, bool) {
	if k.m != "lastIndexOf" || k.a.omitted || k.a.arg.Undef {
		return "", false
	}
	x := k.a.arg.Num
	switch {
	case nan && math.IsNaN(x):
		return cNum(float64(str16.LastIndexOf(k.s, k.searchUnits(), str16.N(0)))), true
	case !nan && math.IsInf(x, -1):
		if len(k.s) == 0 {
			return "", false
		}
		return cNum(float64(str16.LastIndexOf(k.s, k.searchUnits(), str16.N(math.Inf(1))))), true
	}
	return "", false
}

func altLastIndexOfHuge(k *kase) (string, bool) {
	if k.m != "lastIndexOf" || k.a.omitted || k.a.arg.Undef || len(k.s) == 0 || len(k.searchUnits()) == 0 {
		return "", false
	}
	if x := k.a.arg.Num; x >= 9223372036854775808 && !math.IsInf(x, 1) {
		return "panic:slice-bounds", true
	}
	return "", false
}

func utf8Of(u []uint16) []byte { return []byte(string(str16.CodePoints(u))) }

// utf16Len counts UTF-16 units of a byte string the way a UTF-8 decoder that
// maps every ill-formed byte to U+FFFD does.
func utf16Len(b []byte) int {
	n := 0
	for len(b) > 0 {
		r, size := utf8.DecodeRune(b)
		if r >= 0x10000 {
			n += 2
		} else {
			n++
		}
		b = b[size:]
	}
	return n
}

func byteIndex(b, t []byte, last bool) int {
	if last {
		for i := len(b) - len(t); i >= 0; i-- {
			if string(b[i:i+len(t)]) == string(t) {
				return i
			}
		}
		return -1
	}
	for i := 0; i+len(t) <= len(b); i++ {
		if string(b[i:i+len(t)]) == string(t) {
			return i
		}
	}
	return -1
}

func altIndexOfBytes(k *kase) (string, bool) {
	if k.m != "indexOf" || k.a.omitted || str16.IsASCII(k.s) {
		return "", false
	}
	sb, tb := utf8Of(k.s), utf8Of(k.searchUnits())
	pos := 0.0
	if !k.a.arg.Undef {
		pos = str16.ToInteger(k.a.arg.Num)
	}
	if pos < 0 {
		pos = 0
	} else if pos >= float64(len(sb)) {
		if len(tb) == 0 {
			return cNum(float64(len(sb))), true
		}
		return cNum(-1), true
	}
	start := int(pos)
	i := byteIndex(sb[start:], tb, false)
	if i < 0 {
		return cNum(-1), true
	}
	return cNum(float64(start + utf16Len(sb[start:start+i]))), true
}

func altLastIndexOfBytes(k *kase) (string, bool) {
	if k.m != "lastIndexOf" || k.a.omitted || k.a.arg.Undef || str16.IsASCII(k.s) {
		return "", false
	}
	x := k.a.arg.Num
	if math.IsNaN(x) || math.IsInf(x, 0) {
		return "", false
	}
	sb, tb := utf8Of(k.s), utf8Of(k.searchUnits())
	start := math.Max(str16.ToInteger(x), 0)
	end := math.Min(start+float64(len(tb)), float64(len(sb)))
	i := byteIndex(sb[:int(end)], tb, true)
	if i < 0 {
		return cNum(-1), true
	}
	return cNum(float64(utf16Len(sb[:i]))), true
}

func hasAstral(u []uint16) bool { return len(str16.CodePoints(u)) != len(u) }

func altCodePoints(k *kase) (string, bool) {
	if !hasAstral(k.s) {
		return "", false
	}
	cps := str16.CodePoints(k.s)
	switch k.m {
	case "slice":
		return cStr(str16.Encode(str16.Slice(cps, k.a.arg, k.b.arg))), true
	case "substring":
		return cStr(str16.Encode(str16.Substring(cps, k.a.arg, k.b.arg))), true
	case "substr":
		return cStr(str16.Encode(str16.Substr(cps, k.a.arg, k.b.arg))), true
	case "split":
		if k.tKind != "str" || len(k.t) != 0 {
			return "", false
		}
		parts := str16.Split(cps, false, []rune{}, k.a.arg)
		out := make([][]uint16, len(parts))
		for i, p := range parts {
			out[i] = str16.Encode(p)
		}
		return cArr(out), true
	}
	return "", false
}

func altSubstrInf(k *kase) (string, bool) {
	if k.m != "substr" || k.b.omitted || k.b.arg.Undef || !(k.b.arg.Num >= 9223372036854775808) {
		return "", false
	}
	size := float64(len(str16.CodePoints(k.s))) // otto counts code points here
	start := 0.0
	if !k.a.arg.Undef {
		start = str16.ToInteger(k.a.arg.Num)
	}
	if start < 0 {
		start = math.Max(size+start, 0)
	}
	if start > 0 && start < size {
		return "panic:slice-bounds", true
	}
	return "", false
}

func altNonCanonicalIndex(k *kase) (string, bool) {
	if k.m != "prop" && k.m != "index" {
		return "", false
	}
	p := k.a.prop
	n, err := strconv.ParseInt(p, 10, 64)
	if err != nil || n < 0 || n >= math.MaxUint32 || strconv.FormatInt(n, 10) == p {
		return "", false
	}
	if int(n) >= len(k.s) {
		return "", false // out of range either way: no disagreement to explain
	}
	if k.m == "index" {
		return cStr(k.s[n : n+1]), true
	}
	return propOutcome(k.route, k.s[n], true), true
}

// largeUnits: the fromCharCode result with ToUint16 of |x| >= 2^63 taken as 0
// (and, inside the lone-surrogate composition, lone surrogates replaced).
func largeUnits(k *kase) ([]uint16, bool) {
	if (k.m != "fccValue" && k.m != "readback") || k.nums == nil {
		return nil, false
	}
	hit := false
	u := make([]uint16, len(k.nums))
	for i, x := range k.nums {
		if !math.IsInf(x, 0) && math.Abs(x) >= 9223372036854775808 {
			hit = true
			u[i] = 0
		} else {
			u[i] = str16.ToUint16(x)
		}
	}
	if !hit {
		return nil, false
	}
	if k.san && k.m == "readback" {
		u = sanitize(u)
	}
	return u, true
}

func altToUint16Large(k *kase) (string, bool) {
	u, ok := largeUnits(k)
	if !ok {
		return "", false
	}
	if k.m == "readback" {
		return readbackExpect(u), true
	}
	return cStr(u), true
}

func altGoNumberSyntax(k *kase) (string, bool) {
	if !strings.HasPrefix(k.a.name, "x:") {
		return "", false
	}
	for _, a := range numObjArgs {
		if "x:"+a.name == k.a.name && a.goSyntax {
			c := *k
			c.a.arg = str16.N(a.goNum)
			out, _ := spec(&c)
			return out, true
		}
	}
	return "", false
}
