package c16

import (
	"fmt"
	"reflect"
	"strings"

	"verif/mc/checks/brig"
	"verif/mc/engine"
	"verif/mc/ox"
	"verif/mc/ref/bridge"
)

// objstruct: JavaScript object -> Go struct. Every member-value class (absent,
// undefined, null, convertible, inconvertible kind, overflow, fraction) for every
// field kind, under every member-name form (Go name, json tag, unknown name, case
// variant), through every sink (parameter T, *T, []T, map[string]T, nested
// struct{N T}, store into a struct-typed field of a bridged struct). Oracle: the
// exact-or-loud model of model.go (a member naming no field, or a member whose
// value does not denote a value of the field's type, makes the conversion fail
// with a TypeError/RangeError; nothing is silently zeroed). Where the statement
// is silent the lenient readings of model.go apply (undefined/null for pointer,
// interface, slice and string fields; ToBoolean for bool).

type OSIn struct {
	X int
}

type OS struct {
	S string `json:"s"`
	I int    `json:"i"`
	U uint8
	B bool
	F float64
	L []int
	N OSIn
	P *OSIn
	A interface{}
}

type osMember struct {
	name string
	src  string
	n    *anode
}

func osValues() []osMember {
	return []osMember{
		{"undefined", "undefined", &anode{k: aUndef}},
		{"null", "null", &anode{k: aNull}},
		{"1", "1", nNum(1)},
		{"1.5", "1.5", nNum(1.5)},
		{"300", "300", nNum(300)},
		{"-1", "-1", nNum(-1)},
		{"str", `"v"`, nStr("v")},
		{"true", "true", &anode{k: aBool, b: true}},
		{"[1,2]", "[1,2]", nArr(nNum(1), nNum(2))},
		{"{X:7}", "({X:7})", nObj("X", nNum(7))},
		{"{X:undefined}", "({X:undefined})", nObj("X", &anode{k: aUndef})},
		{"{}", "({})", nObj()},
	}
}

func runObjStruct(r *engine.Run) {
	tOS := reflect.TypeOf(OS{})
	types := []ptype{
		{"OS", tOS},
		{"*OS", reflect.PtrTo(tOS)},
		{"[]OS", reflect.SliceOf(tOS)},
		{"map[string]OS", reflect.MapOf(reflect.TypeOf(""), tOS)},
		{"struct{N OS}", reflect.StructOf([]reflect.StructField{{Name: "N", Type: tOS}})},
	}
	// member names: every field by Go name, by tag where it has one, by a case
	// variant, plus a name no field has
	type mname struct{ field, name string }
	var names []mname
	for i := 0; i < tOS.NumField(); i++ {
		f := tOS.Field(i)
		names = append(names, mname{f.Name, f.Name})
		if tag := strings.Split(f.Tag.Get("json"), ",")[0]; tag != "" {
			names = append(names, mname{f.Name, tag})
		} else {
			names = append(names, mname{f.Name, strings.ToLower(f.Name)}) // case variant: names no field
		}
	}
	names = append(names, mname{"", "nope"})
	vals := osValues()
	r.Bound("sinks", "OS, *OS, []OS, map[string]OS, struct{N OS}, store into a struct-typed field")
	r.Bound("member_names", fmt.Sprint(len(names)))
	r.Bound("member_values", fmt.Sprint(len(vals)+1))
	var m *matrixRig
	for ti, pt := range types {
		for _, nm := range names {
			for vi := -1; vi < len(vals); vi++ {
				// the object: a known good member plus the member under test
				obj := nObj("s", nStr("A"))
				src := `{s:"A"`
				vname := "absent"
				if vi >= 0 {
					vname = vals[vi].name
					if nm.field == "S" {
						obj = nObj()
						src = "{"
					} else {
						src += ", "
					}
					obj.keys = append(obj.keys, nm.name)
					obj.vals[nm.name] = vals[vi].n
					src += fmt.Sprintf("%q: %s", nm.name, vals[vi].src)
				} else if nm.name != "S" {
					continue // "absent" once per sink
				}
				src += "}"
				var a jsArg
				switch ti {
				case 0, 1:
					a = jsArg{name: nm.name + "=" + vname, src: "(" + src + ")", n: obj}
				case 2:
					a = jsArg{name: nm.name + "=" + vname, src: "[" + src + "]", n: nArr(obj)}
				case 3:
					a = jsArg{name: nm.name + "=" + vname, src: "({k: " + src + "})", n: nObj("k", obj)}
				case 4:
					a = jsArg{name: nm.name + "=" + vname, src: "({N: " + src + "})", n: nObj("N", obj)}
				}
				key := pt.name + "/" + a.name
				if !r.MineKey(key) {
					continue
				}
				if m == nil {
					m = newMatrixRig(types, nil)
				}
				r.Begin(key)
				ok := m.matrixCase(r, key, ti, pt, "sole", a)
				r.End()
				if !ok {
					m = nil
				}
			}
		}
	}
	// store into a struct-typed field of a bridged struct: h.Fld = {...}
	type holder struct {
		Fld OS
		Ptr *OS
	}
	var g *brig.Rig
	for _, fld := range []string{"Fld", "Ptr"} {
		for _, nm := range names {
			for _, v := range vals {
				key := "store h." + fld + "/" + nm.name + "=" + v.name
				if !r.MineKey(key) {
					continue
				}
				if g == nil {
					g = brig.NewRig()
				}
				obj := nObj("s", nStr("A"))
				src := `{s:"A", `
				if nm.field == "S" {
					obj = nObj()
					src = "{"
				}
				obj.keys = append(obj.keys, nm.name)
				obj.vals[nm.name] = v.n
				src += fmt.Sprintf("%q: %s}", nm.name, v.src)
				h := &holder{Fld: OS{S: "before", I: 5, U: 6}, Ptr: &OS{S: "before", I: 5}}
				before := bridge.Render(h)
				g.VM.Set("h", h)
				r.Begin(key)
				res := ox.Run(g.VM, "h."+fld+" = "+src+"; 0")
				r.End()
				ft := reflect.TypeOf(OS{})
				var slot reflect.Value
				if fld == "Fld" {
					slot = reflect.ValueOf(h).Elem().Field(0)
				} else {
					slot = reflect.ValueOf(h).Elem().Field(1)
					ft = reflect.PtrTo(ft)
				}
				verdict := "accepted"
				switch {
				case res.Panicked:
					verdict = "Go panic reached Run: " + brig.OneLine(fmt.Sprint(res.PanicVal))
					g = nil
				case res.Err != nil:
					c := ox.ErrClass(res.Err)
					switch {
					case c != "TypeError" && c != "RangeError":
						verdict = "failure not visible as TypeError/RangeError: " + c
					case bridge.Render(h) != before:
						verdict = "failed loudly but the live struct changed: " + bridge.Render(h)
					case !loudOK(ft, obj):
						verdict = "loud although every member is representable"
					}
				default:
					if !match(ft, obj, slot) {
						verdict = "stored " + bridge.Render(slot.Interface())
					}
				}
				r.Eval(res.Err == nil && !res.Panicked)
				r.Tree(1, 1)
				r.Outcome(verdict)
				if verdict != "accepted" {
					r.Mismatch(engine.Mismatch{Key: key, Input: "h = &holder{...}; h." + fld + " = " + src,
						Expected: "accepted -- " + describe(ft, obj), Observed: verdict,
						Aux: map[string]string{"T": ft.String(), "shape": "store", "arg": nm.name + "=" + v.name}})
				}
			}
		}
	}
}
