package c16

import (
	"fmt"
	"strings"
	"unsafe"

	"verif/mc/checks/brig"
	"verif/mc/engine"
	"verif/mc/ox"
	"verif/mc/ref/bridge"
)

// alias: bridged values (a struct, a nested struct field, an array field, a
// pointer field, a slice, a map, a slice element, a map value) are passed back
// to Go functions whose parameter is a pointer / value / slice / map, and the
// callee MUTATES through the parameter. Afterwards the Go view of the live
// object, the script's view of it and the callee's result must be what the
// corresponding direct Go call gives on a twin object: a pointer to an
// addressable field aliases the field, a by-value struct or array is a copy,
// slices alias their backing array, maps alias.

type AInner struct {
	X   int
	Arr [3]int
}

type AOuter struct {
	Name  string
	Inner AInner
	P     *AInner
	L     []int
	M     map[string]int
	Items []AInner
	IM    map[string]AInner
}

func newAOuter() *AOuter {
	return &AOuter{
		Name:  "n",
		Inner: AInner{X: 1, Arr: [3]int{1, 2, 3}},
		P:     &AInner{X: 10, Arr: [3]int{4, 5, 6}},
		L:     []int{1, 2, 3},
		M:     map[string]int{"a": 1},
		Items: []AInner{{X: 20}, {X: 21}},
		IM:    map[string]AInner{"k": {X: 30}},
	}
}

type aliasCell struct {
	name  string
	js    string                                    // script: the call (callee is f)
	fn    func(o *AOuter, note *string) interface{} // the Go callee, bound to the live object for identity notes
	model func(s *AOuter) interface{}               // the direct Go call on the twin; returns the callee's result
	alias bool                                      // the parameter must alias live data (a loud failure is not acceptable)
	// copyModel: the twin's state when the argument is rebuilt element-wise (known finding F-C16-010)
	copyModel func(s *AOuter)
}

func aliasCells() []aliasCell {
	same := func(note *string, ok bool) {
		if ok {
			*note = "same address"
		} else {
			*note = "different address"
		}
	}
	bumpP := func(p *AInner) int { p.X += 5; return p.X }
	bumpV := func(v AInner) int { v.X += 5; v.Arr[0] = 9; return v.X }
	pokeP := func(p *[3]int) int { p[1] = 7; return p[1] }
	pokeV := func(a [3]int) int { a[1] = 7; return a[1] }
	setL := func(l []int) int { l[0] = 99; return len(l) }
	setM := func(m map[string]int) int { m["new"] = 1; m["a"]++; return len(m) }
	setItems := func(s []AInner) int { s[0].X = 77; return len(s) }
	return []aliasCell{
		{"bumpP(o.Inner)", "o.Inner.X = 2; f(o.Inner)",
			func(o *AOuter, n *string) interface{} {
				return func(p *AInner) int { same(n, p == &o.Inner); return bumpP(p) }
			},
			func(s *AOuter) interface{} { s.Inner.X = 2; return bumpP(&s.Inner) }, true, nil},
		{"bumpV(o.Inner)", "f(o.Inner)", func(o *AOuter, n *string) interface{} { return bumpV },
			func(s *AOuter) interface{} { return bumpV(s.Inner) }, false, nil},
		{"pokeP(o.Inner.Arr)", "f(o.Inner.Arr)",
			func(o *AOuter, n *string) interface{} {
				return func(p *[3]int) int { same(n, p == &o.Inner.Arr); return pokeP(p) }
			},
			func(s *AOuter) interface{} { return pokeP(&s.Inner.Arr) }, true, nil},
		{"pokeV(o.Inner.Arr)", "f(o.Inner.Arr)", func(o *AOuter, n *string) interface{} { return pokeV },
			func(s *AOuter) interface{} { return pokeV(s.Inner.Arr) }, false, nil},
		{"bumpP(o.P)", "f(o.P)",
			func(o *AOuter, n *string) interface{} {
				return func(p *AInner) int { same(n, p == o.P); return bumpP(p) }
			},
			func(s *AOuter) interface{} { return bumpP(s.P) }, true, nil},
		{"bumpV(o.P)", "f(o.P)", func(o *AOuter, n *string) interface{} { return bumpV },
			func(s *AOuter) interface{} { return bumpV(*s.P) }, false, nil},
		{"pokeP(o.P.Arr)", "f(o.P.Arr)",
			func(o *AOuter, n *string) interface{} {
				return func(p *[3]int) int { same(n, p == &o.P.Arr); return pokeP(p) }
			},
			func(s *AOuter) interface{} { return pokeP(&s.P.Arr) }, true, nil},
		// reading an element of a bridged slice yields a COPY of the struct (issue_test.go
		// Test_issue79 pins abc.sort(...) over []abcStruct, which only works with copies):
		// like a map value, it is not addressable through the bridge
		{"bumpP(o.Items[0])", "f(o.Items[0])", func(o *AOuter, n *string) interface{} { return bumpP },
			func(s *AOuter) interface{} { tmp := s.Items[0]; return bumpP(&tmp) }, false, nil},
		{"bumpV(o.Items[1])", "f(o.Items[1])", func(o *AOuter, n *string) interface{} { return bumpV },
			func(s *AOuter) interface{} { return bumpV(s.Items[1]) }, false, nil},
		{"bumpV(o.IM.k)", "f(o.IM.k)", func(o *AOuter, n *string) interface{} { return bumpV },
			func(s *AOuter) interface{} { return bumpV(s.IM["k"]) }, false, nil},
		{"bumpP(o.IM.k)", "f(o.IM.k)", func(o *AOuter, n *string) interface{} { return bumpP },
			func(s *AOuter) interface{} { tmp := s.IM["k"]; return bumpP(&tmp) }, false, nil}, // a map value is not addressable in Go either
		{"setL(o.L)", "f(o.L)",
			func(o *AOuter, n *string) interface{} {
				return func(l []int) int {
					same(n, len(l) > 0 && unsafe.Pointer(&l[0]) == unsafe.Pointer(&o.L[0]))
					return setL(l)
				}
			},
			func(s *AOuter) interface{} { return setL(s.L) }, true, func(*AOuter) {}},
		{"setM(o.M)", "f(o.M)", func(o *AOuter, n *string) interface{} { return setM },
			func(s *AOuter) interface{} { return setM(s.M) }, true, func(*AOuter) {}},
		{"setItems(o.Items)", "f(o.Items)", func(o *AOuter, n *string) interface{} { return setItems },
			func(s *AOuter) interface{} { return setItems(s.Items) }, true, func(*AOuter) {}},
		{"bumpO(o)", "f(o)",
			func(o *AOuter, n *string) interface{} {
				return func(p *AOuter) int { same(n, p == o); p.Inner.X++; p.Name += "!"; p.L[1] = 55; return p.Inner.X }
			},
			func(s *AOuter) interface{} { s.Inner.X++; s.Name += "!"; s.L[1] = 55; return s.Inner.X }, true, nil},
		{"valO(o)", "f(o)",
			func(o *AOuter, n *string) interface{} {
				return func(v AOuter) int {
					v.Name = "copy"
					v.Inner.X = 100
					v.L[2] = 66
					v.M["via-copy"] = 1
					v.P.X = 11
					return v.Inner.X
				}
			},
			func(s *AOuter) interface{} { s.L[2] = 66; s.M["via-copy"] = 1; s.P.X = 11; return 100 }, false, // the copy shares slices, maps, pointers
			func(s *AOuter) { s.P.X = 11 }},
		{"script write after bumpP", "f(o.Inner); o.Inner.X = o.Inner.X + 1; o.Inner.X",
			func(o *AOuter, n *string) interface{} { return bumpP },
			func(s *AOuter) interface{} { bumpP(&s.Inner); s.Inner.X++; return s.Inner.X }, true, nil},
		{"twice bumpP(o.Inner)", "f(o.Inner); f(o.Inner)", func(o *AOuter, n *string) interface{} { return bumpP },
			func(s *AOuter) interface{} { bumpP(&s.Inner); return bumpP(&s.Inner) }, true, nil},
		{"held inner then bump", "var h = o.Inner; f(h); h.X", func(o *AOuter, n *string) interface{} { return bumpP },
			func(s *AOuter) interface{} { return bumpP(&s.Inner) }, true, nil},
	}
}

func runAlias(r *engine.Run) {
	cells := aliasCells()
	r.Bound("cells", fmt.Sprint(len(cells)))
	var g *brig.Rig
	for _, c := range cells {
		key := c.name
		if !r.MineKey(key) {
			continue
		}
		if g == nil {
			g = brig.NewRig()
		}
		r.Begin(key)
		o, s := newAOuter(), newAOuter()
		note := ""
		g.VM.Set("o", o)
		g.VM.Set("f", c.fn(o, &note))
		want := c.model(s)
		stmts := strings.Split(c.js, "; ")
		stmts[len(stmts)-1] = "return " + stmts[len(stmts)-1]
		res := ox.Run(g.VM, "__r = (function () { "+strings.Join(stmts, "; ")+"; })()")
		got, exp := brig.NewObs(), brig.NewObs()
		outcome := "ok"
		switch {
		case res.Panicked:
			outcome = "PANIC: " + brig.OneLine(fmt.Sprint(res.PanicVal))
		case res.Err != nil:
			outcome = "loud:" + ox.ErrClass(res.Err)
		}
		view := g.View("o")
		r.End()
		if isLoud(outcome) && !c.alias {
			// a loud refusal of a by-value/unaddressable cell: nothing may have changed
			s = newAOuter()
			exp.Put("outcome", outcome)
		} else {
			exp.Put("outcome", "ok")
			exp.Put("result", "d:"+fmt.Sprint(want))
			got.Put("result", ox.Canon(res.Value))
		}
		got.Put("outcome", outcome)
		exp.Put("Go view", bridge.Render(s))
		got.Put("Go view", bridge.Render(o))
		exp.Put("script view", bridge.Counterpart(s).Canon())
		got.Put("script view", view)
		if strings.Contains(c.js, "f(") && note != "" {
			exp.Put("parameter", "same address")
			got.Put("parameter", note)
		}
		r.Eval(outcome == "ok")
		r.Tree(1, 1)
		r.Outcome(got.String())
		if r.WantSample() {
			r.Sample(c.name + ": " + c.js + " => " + got.M["result"] + " Go X=" + fmt.Sprint(o.Inner.X))
		}
		aux := map[string]string{"cell": c.name, "alias": fmt.Sprint(c.alias)}
		if c.copyModel != nil {
			// what the views are when the bridged slice/map/struct is rebuilt
			// element-wise (a copy) instead of being handed over as the live value
			cs := newAOuter()
			c.copyModel(cs)
			aux["copy.Go view"] = bridge.Render(cs)
			aux["copy.script view"] = bridge.Counterpart(cs).Canon()
			aux["copy.parameter"] = "different address"
		}
		brig.Compare(r, key, "o = &AOuter{...}; "+c.js+"   ["+c.name+"]", exp, got, aux)
		if strings.HasPrefix(outcome, "PANIC") {
			g = nil
		}
	}
}
