package c16

import (
	"fmt"
	"math"
	"reflect"
	"strconv"
	"strings"

	"github.com/robertkrimen/otto"

	"verif/mc/checks/brig"
	"verif/mc/engine"
	"verif/mc/ox"
	"verif/mc/ref/bridge"
)

// ---------------------------------------------------------------------------
// the argument alphabet

type jsArg struct {
	name string
	src  string
	n    *anode
	glob string      // name of a Go-valued global the source refers to
	gov  interface{} // its value
	twin *anode      // what the argument would denote under a known defect (for its signature)
}

func numLit(f float64) string { return bridge.JSNumSrc(f) }

func jsArgs() []jsArg {
	var l []jsArg
	add := func(name, src string, n *anode) { l = append(l, jsArg{name: name, src: src, n: n}) }
	// integers: every integer type's min-1 / min / max / max+1 (as doubles), in two
	// representations: a decimal literal (otto keeps it as int64 when it fits) and a
	// computed double.
	ints := []float64{
		-129, -128, 127, 128, -32769, -32768, 32767, 32768, -2147483649, -2147483648, 2147483647, 2147483648,
		-9223372036854777856, -9223372036854775808, 9223372036854774784, 9223372036854775808,
		-1, 0, 1, 5, 255, 256, 65535, 65536, 4294967295, 4294967296, 18446744073709549568, 18446744073709551616,
		9007199254740992, 9007199254740994, 16777216, 16777217, 1e21,
	}
	for _, f := range ints {
		s := strconv.FormatFloat(f, 'f', 0, 64) // the exact integer digits
		add("int:"+s, s, nNum(f))
		add("dbl:"+s, "Number(\""+s+"\")", nNum(f))
	}
	fl := []float64{0.5, -0.5, 1.5, 0.1, math.NaN(), math.Inf(1), math.Inf(-1), math.Copysign(0, -1),
		math.MaxFloat32, 3.4028235677973366e38, 1e39, math.SmallestNonzeroFloat32, 1e-46, 2147483647.5, -128.5, 255.5}
	for _, f := range fl {
		add("num:"+ox.Num(f), numLit(f), nNum(f))
	}
	add("str:", `""`, nStr(""))
	add("str:5", `"5"`, nStr("5"))
	add("str:abc", `"abc"`, nStr("abc"))
	add("str:uni", `"é€😀"`, nStr("é€😀"))
	add("true", "true", &anode{k: aBool, b: true})
	add("false", "false", &anode{k: aBool, b: false})
	add("null", "null", &anode{k: aNull})
	add("undefined", "undefined", &anode{k: aUndef})
	add("{}", "({})", nObj())
	add("{a:1}", "({a:1})", nObj("a", nNum(1)))
	add("{A:1}", "({A:1})", nObj("A", nNum(1)))
	add("{A:1.5}", "({A:1.5})", nObj("A", nNum(1.5)))
	add("{a:1,B:x}", `({a:1,B:"x"})`, nObj("a", nNum(1), "B", nStr("x")))
	add("{a:300}", "({a:300})", nObj("a", nNum(300)))
	add("{zz:1}", "({zz:1})", nObj("zz", nNum(1)))
	add("[]", "[]", nArr())
	add("[1,2]", "[1,2]", nArr(nNum(1), nNum(2)))
	add("[1,x]", `[1,"x"]`, nArr(nNum(1), nStr("x")))
	add("[1,,3]", "[1,,3]", nArr(nNum(1), &anode{k: aHole}, nNum(3)))
	add("[1.5]", "[1.5]", nArr(nNum(1.5)))
	add("[300,-1]", "[300,-1]", nArr(nNum(300), nNum(-1)))
	add("[[1,2],[3]]", "[[1,2],[3]]", nArr(nArr(nNum(1), nNum(2)), nArr(nNum(3))))
	add("[a,b]", `["a","b"]`, nArr(nStr("a"), nStr("b")))
	add("[1,undefined]", "[1,undefined]", nArr(nNum(1), &anode{k: aUndef}))
	add("[null]", "[null]", nArr(&anode{k: aNull}))
	add("[1,get 9,3]", `(function(){ var a = [1,2,3]; Object.defineProperty(a, "1", {get: function(){ return 9 }, enumerable: true}); return a })()`,
		nArr(nNum(1), nNum(9), nNum(3)))
	l[len(l)-1].twin = nArr(nNum(1), &anode{k: aHole}, nNum(3)) // the accessor element skipped like a hole
	add("{a:get 4}", `(function(){ var o = {}; Object.defineProperty(o, "a", {get: function(){ return 4 }, enumerable: true}); return o })()`,
		nObj("a", nNum(4)))
	add("fn:inc", "(function(x){ return x + 1 })", &anode{k: aFunc, fn: "inc"})
	add("fn:frac", "(function(x){ return 1.5 })", &anode{k: aFunc, fn: "frac"})
	add("fn:throw", "(function(x){ throw new Error(\"boom\") })", &anode{k: aFunc, fn: "throw"})
	add("fn:str", "(function(x){ return \"r\" })", &anode{k: aFunc, fn: "str"})
	add("Date", "new Date(0)", &anode{k: aExotic, class: "Date"})
	add("new Number(5)", "new Number(5)", &anode{k: aExotic, class: "Number"})
	add("new String(s)", `new String("s")`, &anode{k: aExotic, class: "String"})
	// Go values handed to the script and passed back
	golb := func(name string, v interface{}) {
		l = append(l, jsArg{name: "go:" + name, src: name, n: fromGo(v), glob: name, gov: v})
	}
	golb("gS", S{A: 1, B: "x"})
	golb("gpS", &S{A: 2, B: "y"})
	golb("gsl", []int{1, 2})
	golb("gss", []string{"a", "b"})
	golb("gm", map[string]int{"a": 1})
	golb("gmk", map[string]int{"k": 1})
	golb("gmi", map[int]string{1: "one"})
	golb("garr", [2]int{7, 8})
	golb("gi", int(5))
	golb("gi8", int8(-128))
	golb("gu8", uint8(255))
	golb("gu64", uint64(math.MaxUint64))
	golb("gi64", int64(math.MinInt64))
	golb("gu53", uint64(1<<53+1))
	golb("gf32", float32(0.5))
	return l
}

// ---------------------------------------------------------------------------
// callees

type recorder struct {
	called int
	recv   []reflect.Value // parameters of the last invocation (the T-typed ones)
	desc   string          // for function-typed parameters: what calling it gave
}

func (r *recorder) reset() { r.called, r.recv, r.desc = 0, nil, "" }

type position int

const (
	posSole position = iota
	posSecond
	posVariadic
)

var tString = reflect.TypeOf("")

// mkCallee builds func(T) T, func(string, T) T or func(string, ...T) []T: it
// records what it received and returns it.
func mkCallee(rec *recorder, t reflect.Type, pos position) interface{} {
	var ft reflect.Type
	switch pos {
	case posSole:
		ft = reflect.FuncOf([]reflect.Type{t}, []reflect.Type{t}, false)
	case posSecond:
		ft = reflect.FuncOf([]reflect.Type{tString, t}, []reflect.Type{t}, false)
	case posVariadic:
		ft = reflect.FuncOf([]reflect.Type{tString, reflect.SliceOf(t)}, []reflect.Type{reflect.SliceOf(t)}, true)
	}
	fn := reflect.MakeFunc(ft, func(args []reflect.Value) []reflect.Value {
		rec.called++
		last := args[len(args)-1]
		rec.recv = []reflect.Value{last}
		if t.Kind() == reflect.Func && pos != posVariadic && t.NumIn() == 1 && t.NumOut() == 1 && !last.IsNil() {
			rec.desc = "fn(7) did not return"
			out := last.Call([]reflect.Value{reflect.ValueOf(7)})
			rec.desc = "fn(7)=" + bridge.Render(out[0].Interface())
		}
		return []reflect.Value{last}
	})
	return fn.Interface()
}

type matrixRig struct {
	g     *brig.Rig
	rec   *recorder
	types []ptype
}

func calleeName(ti int, pos position) string { return fmt.Sprintf("f%d_%d", ti, pos) }

func newMatrixRig(types []ptype, args []jsArg) *matrixRig {
	m := &matrixRig{g: brig.NewRig(), rec: &recorder{}, types: types}
	for ti, pt := range types {
		for _, pos := range []position{posSole, posSecond, posVariadic} {
			if err := m.g.VM.Set(calleeName(ti, pos), mkCallee(m.rec, pt.t, pos)); err != nil {
				panic(err)
			}
		}
	}
	for _, a := range args {
		if a.glob != "" {
			if err := m.g.VM.Set(a.glob, a.gov); err != nil {
				panic(err)
			}
		}
	}
	return m
}

// outcome of one script execution
type callOutcome struct {
	status string // ok | loud:<Class> | thrown:<what> | PANIC: ...
	called int
	recv   []reflect.Value
	desc   string
	ret    string // view of the returned value (status ok)
	same   string // __same(result, argument) for otto.Value parameters
}

func (m *matrixRig) run(call string, inTry bool, wantSame bool) callOutcome {
	m.rec.reset()
	var src string
	if inTry {
		src = "var __st; try { __r = " + call + "; __st = \"ok\"; } catch (e) { __st = \"caught:\" + __en(e); } __st"
	} else {
		src = "__r = " + call + "; \"ok\""
	}
	res := ox.Run(m.g.VM, src)
	out := callOutcome{called: m.rec.called, recv: m.rec.recv, desc: m.rec.desc}
	switch {
	case res.Panicked:
		out.status = "PANIC: " + brig.OneLine(fmt.Sprint(res.PanicVal))
		return out
	case res.Err != nil:
		out.status = "loud:" + ox.ErrClass(res.Err)
		return out
	}
	st, _ := res.Value.ToString()
	if strings.HasPrefix(st, "caught:") {
		out.status = "loud:" + st[7:]
		return out
	}
	out.status = "ok"
	out.ret = m.g.View("__r")
	if wantSame {
		out.same = m.g.EvalCanon("__same(__r, __a)")
	}
	return out
}

func isLoud(status string) bool {
	return status == "loud:TypeError" || status == "loud:RangeError"
}

// ---------------------------------------------------------------------------
// the matrix family

func runMatrix(r *engine.Run) {
	types := paramTypes()
	args := jsArgs()
	r.Bound("parameter_types", fmt.Sprint(len(types)))
	r.Bound("js_arguments", fmt.Sprint(len(args)))
	r.Bound("positions", "sole, second of two, variadic tail with 0/1/2 extras and an array as last argument")
	var m *matrixRig
	shapes := []string{"sole", "second", "var1", "var2", "vararr"}
	for ti, pt := range types {
		for _, shape := range shapes {
			for _, a := range args {
				key := pt.name + "/" + shape + "/" + a.name
				if !r.MineKey(key) {
					continue
				}
				if m == nil {
					m = newMatrixRig(types, args)
				}
				r.Begin(key)
				ok := m.matrixCase(r, key, ti, pt, shape, a)
				r.End()
				if !ok {
					m = nil // a Go panic went through the runtime: start over
				}
			}
		}
		// the variadic callee with no extras
		key := pt.name + "/var0"
		if r.MineKey(key) {
			if m == nil {
				m = newMatrixRig(types, args)
			}
			r.Begin(key)
			call := calleeName(ti, posVariadic) + "(\"p\")"
			o1 := m.run(call, false, false)
			o2 := m.run(call, true, false)
			r.End()
			got := brig.NewObs()
			exp := brig.NewObs()
			for i, o := range []callOutcome{o1, o2} {
				n := []string{"plain", "try"}[i]
				s := o.status
				if o.status == "ok" && (o.called != 1 || len(o.recv) != 1 || o.recv[0].Len() != 0) {
					s = fmt.Sprintf("ok but called=%d recv=%v", o.called, renderRecv(o.recv))
				}
				got.Put(n, s)
				exp.Put(n, "ok")
			}
			r.Eval(true)
			r.Tree(1, 1)
			r.Outcome(got.String())
			brig.Compare(r, key, call, exp, got, map[string]string{"T": pt.name, "shape": "var0"})
			if strings.HasPrefix(o1.status, "PANIC") || strings.HasPrefix(o2.status, "PANIC") {
				m = nil
			}
		}
	}
}

func renderRecv(recv []reflect.Value) string {
	parts := make([]string, len(recv))
	for i, v := range recv {
		if !v.IsValid() {
			parts[i] = "<invalid>"
		} else if v.Type() == tValue {
			parts[i] = "Value:" + ox.Canon(v.Interface().(otto.Value))
		} else if v.Kind() == reflect.Func {
			if v.IsNil() {
				parts[i] = "func(nil)"
			} else {
				parts[i] = "func"
			}
		} else {
			parts[i] = bridge.Render(v.Interface())
		}
	}
	return strings.Join(parts, ", ")
}

// matrixCase executes one (T, shape, a) cell plain and inside try and judges
// both executions with the model.
func (m *matrixRig) matrixCase(r *engine.Run, key string, ti int, pt ptype, shape string, a jsArg) bool {
	var call string
	var pos position
	// what the T-typed parameter should be made from
	want := a.n
	wantT := pt.t
	switch shape {
	case "sole":
		pos, call = posSole, calleeName(ti, posSole)+"(__a)"
	case "second":
		pos, call = posSecond, calleeName(ti, posSecond)+"(\"p\", __a)"
	case "var1":
		pos, call = posVariadic, calleeName(ti, posVariadic)+"(\"p\", __a)"
		want, wantT = nArr(a.n), reflect.SliceOf(pt.t)
	case "var2":
		pos, call = posVariadic, calleeName(ti, posVariadic)+"(\"p\", __a, __a)"
		want, wantT = nArr(a.n, a.n), reflect.SliceOf(pt.t)
	case "vararr":
		pos, call = posVariadic, calleeName(ti, posVariadic)+"(\"p\", [__a, __a])"
		want, wantT = nArr(a.n, a.n), reflect.SliceOf(pt.t)
	}
	if res := ox.Run(m.g.VM, "__a = "+a.src+"; __r = undefined;"); res.Err != nil || res.Panicked {
		r.HarnessError(fmt.Sprintf("argument %s does not evaluate: %v %v", a.src, res.Err, res.PanicVal))
		return false
	}
	isValueT := pt.t == tValue
	o1 := m.run(call, false, isValueT && pos != posVariadic)
	o2 := m.run(call, true, isValueT && pos != posVariadic)

	// alternative readings for the variadic shapes: a single extra that is itself
	// convertible to []T is the whole tail (documented in the call wrapper); an
	// array as last argument is the whole tail, or one element when T takes arrays.
	alts := []struct {
		t reflect.Type
		n *anode
	}{{wantT, want}}
	switch shape {
	case "var1":
		alts = append(alts, struct {
			t reflect.Type
			n *anode
		}{wantT, a.n})
	case "vararr":
		alts = append(alts, struct {
			t reflect.Type
			n *anode
		}{wantT, nArr(nArr(a.n, a.n))})
	}

	judge := func(o callOutcome) string {
		switch {
		case strings.HasPrefix(o.status, "PANIC"):
			return "Go panic reached Run: " + o.status
		case o.status == "ok":
			if o.called != 1 || len(o.recv) != 1 {
				return fmt.Sprintf("completed but callee called %d times", o.called)
			}
			recv := o.recv[0]
			accepted := false
			if pt.t.Kind() == reflect.Func && pos != posVariadic {
				accepted = matchFunc(pt.t, a.n, recv, o.desc)
			} else if isValueT {
				accepted = matchValue(shape, a.n, recv, o.same)
			} else {
				for _, alt := range alts {
					if match(alt.t, alt.n, recv) {
						accepted = true
						break
					}
				}
			}
			if !accepted {
				return "callee received " + renderRecv(o.recv) + " " + o.desc
			}
			if exp, ok := expectedReturn(pt.t, recv); ok && o.ret != exp {
				return "callee received " + renderRecv(o.recv) + " but the script got back " + o.ret + " (want " + exp + ")"
			}
			return "accepted"
		case strings.HasPrefix(o.status, "loud:") && pt.t.Kind() == reflect.Func && pos != posVariadic && a.n.k == aFunc &&
			pt.t.NumOut() == 1 && funcMayFailInside(pt.t, a.n) && o.called == 1 &&
			(isLoud(o.status) || (a.n.fn == "throw" && o.status == "loud:Error")):
			// the JS function was converted and called by the callee; its own
			// exception, or the failed conversion of its result, ends the call
			return "accepted"
		case isLoud(o.status):
			if o.called != 0 {
				return fmt.Sprintf("%s but the callee WAS called (%d) with %s", o.status, o.called, renderRecv(o.recv))
			}
			for _, alt := range alts {
				if loudOK(alt.t, alt.n) {
					return "accepted"
				}
			}
			return o.status + " although the argument is exactly representable"
		}
		return "failure not visible as TypeError/RangeError: " + o.status
	}
	got := brig.NewObs()
	exp := brig.NewObs()
	got.Put("plain", judge(o1))
	got.Put("try", judge(o2))
	exp.Put("plain", "accepted")
	exp.Put("try", "accepted")
	if (o1.status == "ok") != (o2.status == "ok") && !strings.HasPrefix(o1.status, "PANIC") && !strings.HasPrefix(o2.status, "PANIC") {
		got.Put("consistent", "plain "+o1.status+" vs try "+o2.status)
		exp.Put("consistent", "same")
	}
	r.Eval(o1.status == "ok")
	r.Tree(1, 1)
	outcome := o1.status + "|" + renderRecv(o1.recv) + "|" + o1.desc + "|" + o1.ret
	r.Outcome(pt.name + "|" + outcome)
	input := call + " with __a = " + a.src
	if a.glob != "" {
		input += " where " + a.glob + " = " + bridge.Render(a.gov)
	}
	if r.WantSample() && o1.status == "ok" {
		r.Sample(pt.name + ": " + input + " => " + outcome)
	}
	aux := map[string]string{"T": pt.name, "shape": shape, "arg": a.name, "plain": o1.status, "try": o2.status,
		"recv": renderRecv(o1.recv), "model": describe(wantT, want)}
	if a.n.k == aNum && (pt.t.Kind() == reflect.String || (pt.name == "[]string" && shape == "vararr")) {
		// what Go's %v prints for the held number (known finding F-C16-026): the
		// number is held as float64 or, for integer literals that fit, as int64
		shapeOf := func(gf string) string {
			if pt.name == "[]string" {
				return bridge.Render([][]string{{gf, gf}})
			}
			switch shape {
			case "sole", "second":
				return bridge.Render(gf)
			case "var1":
				return bridge.Render([]string{gf})
			}
			return bridge.Render([]string{gf, gf})
		}
		if a.n.exact != nil {
			aux["gofmt"] = shapeOf(a.n.exact.String())
		} else {
			aux["gofmt"] = shapeOf(fmt.Sprintf("%v", a.n.f))
			if a.n.f == math.Trunc(a.n.f) && math.Abs(a.n.f) < 9.3e18 {
				aux["gofmt2"] = shapeOf(fmt.Sprintf("%v", int64(a.n.f)))
			}
		}
	}
	if a.twin != nil && o1.status == "ok" && len(o1.recv) == 1 {
		tw := a.twin
		switch shape {
		case "var1":
			if !match(wantT, tw, o1.recv[0]) {
				tw = nArr(a.twin)
			}
		case "var2", "vararr":
			tw = nArr(a.twin, a.twin)
		}
		if match(wantT, tw, o1.recv[0]) || (shape == "vararr" && match(wantT, nArr(tw), o1.recv[0])) {
			aux["twin"] = "match"
		}
	}
	if got.M["plain"] != "accepted" || got.M["try"] != "accepted" || got.M["consistent"] != "" {
		// one mismatch per cell (both executions share the cause)
		gs, es := got.String(), exp.String()
		r.Mismatch(engine.Mismatch{Key: key, Input: input, Expected: strings.TrimSpace(es) + " -- " + describe(wantT, want),
			Observed: strings.TrimSpace(gs), Aux: aux})
	}
	return !strings.HasPrefix(o1.status, "PANIC") && !strings.HasPrefix(o2.status, "PANIC")
}

// matchValue: an otto.Value parameter receives the very same JS value.
func matchValue(shape string, a *anode, recv reflect.Value, same string) bool {
	if shape == "sole" || shape == "second" {
		return same == "b:1"
	}
	// variadic: []otto.Value of the right length
	n := 1
	if shape != "var1" {
		n = 2
	}
	if recv.Kind() != reflect.Slice {
		return false
	}
	if shape == "var1" && a.k == aArr && recv.Len() == len(a.elems) {
		return true // a single array extra is the whole tail
	}
	return recv.Len() == n || (shape == "vararr" && recv.Len() == 1)
}

// matchFunc: a func(int) int parameter built from a JS function computes the
// JS function; from null/undefined it is nil.
func matchFunc(t reflect.Type, a *anode, recv reflect.Value, desc string) bool {
	switch a.k {
	case aUndef, aNull:
		return recv.IsNil()
	case aFunc:
		if t.NumOut() != 1 || t.NumIn() != 1 {
			return true
		}
		switch a.fn {
		case "inc":
			return desc == "fn(7)=int(8)"
		}
		return false // frac / throw / str cannot return an int: the call must not complete
	}
	return false
}

func funcMayFailInside(t reflect.Type, a *anode) bool {
	return a.fn == "frac" || a.fn == "throw" || a.fn == "str"
}

// expectedReturn: the callee returns what it received; the script must see
// its natural counterpart.
func expectedReturn(t reflect.Type, recv reflect.Value) (string, bool) {
	if t == tValue || t.Kind() == reflect.Func || !recv.IsValid() {
		return "", false
	}
	if hasFuncOrValue(recv.Type()) {
		return "", false
	}
	return bridge.Counterpart(recv.Interface()).Canon(), true
}

func hasFuncOrValue(t reflect.Type) bool {
	if t == tValue {
		return true
	}
	switch t.Kind() {
	case reflect.Func:
		return true
	case reflect.Slice, reflect.Array, reflect.Ptr:
		return hasFuncOrValue(t.Elem())
	}
	return false
}
