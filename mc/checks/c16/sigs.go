package c16

import (
	"math"
	"reflect"
	"regexp"
	"strconv"
	"strings"

	"verif/mc/engine"
	"verif/mc/ref/bridge"
)

func init() {
	engine.RegisterSignature("c16-named-numeric-kind-panic", sigNamedKind)
	engine.RegisterSignature("c16-length-bearing-object-as-slice", sigLengthBearing)
	engine.RegisterSignature("c16-struct-from-bridged-object-zero", sigStructZero)
	engine.RegisterSignature("c16-float32-rounds-to-nearest", sigFloat32Rounds)
	engine.RegisterSignature("c16-uint64-high-range-loud", sigUintHigh)
	engine.RegisterSignature("c16-phantom-index", sigPhantomIndex)
	engine.RegisterSignature("c16-store-error-go-panic", sigStorePanic)
	engine.RegisterSignature("c16-slice-setlen-unaddressable", sigSetLen)
	engine.RegisterSignature("c16-delete-non-index-stack-overflow", sigLethal)
	engine.RegisterSignature("c16-passback-rebuilt-elementwise", sigPassbackCopy)
	engine.RegisterSignature("c16-number-to-string-go-format", func(m *engine.Mismatch) bool {
		// T is string, the argument a number whose Go %v text differs from the
		// JavaScript text: the callee received exactly the %v text
		return (m.Aux["T"] == "string" || m.Aux["T"] == "[]string") && m.Aux["plain"] == "ok" && m.Aux["try"] == "ok" && m.Aux["gofmt"] != "" && (m.Aux["recv"] == m.Aux["gofmt"] || m.Aux["recv"] == m.Aux["gofmt2"])
	})
	engine.RegisterSignature("c16-accessor-element-skipped", func(m *engine.Mismatch) bool {
		// the array argument has an accessor element; the callee received exactly
		// the array with that element left at its zero value (as for a hole)
		return m.Aux["arg"] == "[1,get 9,3]" && m.Aux["plain"] == "ok" && m.Aux["try"] == "ok" && m.Aux["twin"] == "match"
	})
	engine.RegisterSignature("c16-map-method-name-write-dropped", sigMethodNameWrite)
	engine.RegisterSignature("c16-store-negative-fraction-truncated", sigNegFraction)
	engine.RegisterSignature("c16-store-2p63-2p64-wraps", sigStoreWraps)
}

func typeByName(name string) reflect.Type {
	for _, pt := range paramTypes() {
		if pt.name == name {
			return pt.t
		}
	}
	return nil
}

func argByName(name string) *jsArg {
	for _, a := range jsArgs() {
		if a.name == name {
			a := a
			return &a
		}
	}
	return nil
}

var namedPanic = regexp.MustCompile(`PANIC: reflect(: Call using (\w+) as type (\S+)|\.Set: value of type (\w+) is not assignable to type (\S+)|: cannot use (\w+) as type (\S+) in Call)$`)

// sigNamedKind accepts: the parameter type is a named type with a numeric
// underlying kind (MyInt, time.Duration), the argument is a number that otto
// holds with exactly that Go kind (an int64 literal for Duration, a Go int for
// MyInt), convertNumeric returns the value unconverted and reflect's Call/Set
// dies with "using <kind> as type <named>" - a Go string panic that leaves Run
// (inside try it arrives as a thrown string).
func sigNamedKind(m *engine.Mismatch) bool {
	t := typeByName(m.Aux["T"])
	if t == nil || !isNumericKind(t.Kind()) || t.PkgPath() == "" {
		return false
	}
	g := namedPanic.FindStringSubmatch(m.Aux["plain"])
	if g == nil {
		return false
	}
	kind, named := g[2]+g[4]+g[6], g[3]+g[5]+g[7]
	if kind != t.Kind().String() || named != t.String() {
		return false
	}
	return m.Aux["try"] == "loud:thrown:string"
}

// sigLengthBearing accepts: the argument is a function or a String object (an
// object with a numeric length that is not an array) and the target is a slice -
// either the parameter type itself or the variadic tail tried as a whole. The
// slice case of convertCallParameter builds make([]E, length) and, the class
// being neither Array nor GoArray/GoSlice, returns it zero-filled: the callee
// receives a slice of arg.length zero values instead of a TypeError.
func sigLengthBearing(m *engine.Mismatch) bool {
	a := argByName(m.Aux["arg"])
	t := typeByName(m.Aux["T"])
	if a == nil || t == nil || m.Aux["plain"] != "ok" || m.Aux["try"] != "ok" {
		return false
	}
	if !(a.n.k == aFunc || (a.n.k == aExotic && a.n.class == "String")) {
		return false
	}
	const length = 1 // function(x){...}.length and new String("s").length
	zs := func(st reflect.Type) reflect.Value { return reflect.MakeSlice(st, length, length) }
	var want reflect.Value
	switch m.Aux["shape"] {
	case "sole", "second":
		if t.Kind() != reflect.Slice || t == tRaw {
			return false
		}
		want = zs(t)
	case "var1":
		want = zs(reflect.SliceOf(t)) // the single extra was taken as the whole tail
	case "var2", "vararr":
		if t.Kind() != reflect.Slice || t == tRaw {
			return false
		}
		want = reflect.MakeSlice(reflect.SliceOf(t), 2, 2)
		want.Index(0).Set(zs(t))
		want.Index(1).Set(zs(t))
	default:
		return false
	}
	return m.Aux["recv"] == renderRecv([]reflect.Value{want})
}

var zeroS = regexp.MustCompile(`&?c16\.S\{A: 0, B: ""\}`)

// sigStructZero accepts: the parameter is S or *S, the argument a bridged Go map
// or a bridged *S handed to an S parameter; the struct case iterates the JS
// object's own property table (empty for bridged objects) and the callee
// silently receives the zero struct.
func sigStructZero(m *engine.Mismatch) bool {
	if m.Aux["T"] != "S" && m.Aux["T"] != "*S" {
		return false
	}
	switch m.Aux["arg"] {
	case "go:gm", "go:gmk", "go:gmi":
	case "go:gpS":
		if m.Aux["T"] != "S" {
			return false
		}
	default:
		return false
	}
	if m.Aux["plain"] != "ok" || m.Aux["try"] != "ok" {
		return false
	}
	rest := zeroS.ReplaceAllString(m.Aux["recv"], "")
	return zeroS.MatchString(m.Aux["recv"]) && !strings.Contains(rest, "A:")
}

// sigFloat32Rounds accepts: T is float32, the argument a number inside the
// float32 range that is not a float32; the callee receives the nearest float32
// (pinned by call_test.go TestNativeCallWithFloat32: x(1.1) must succeed).
func sigFloat32Rounds(m *engine.Mismatch) bool {
	a := argByName(m.Aux["arg"])
	if m.Aux["T"] != "float32" || a == nil || a.n.k != aNum || m.Aux["plain"] != "ok" {
		return false
	}
	f := a.n.f
	if bridge.FitsFloat32(f) {
		return false
	}
	x := float32(f)
	var want interface{}
	switch m.Aux["shape"] {
	case "sole", "second":
		want = x
	case "var1":
		want = []float32{x}
	case "var2", "vararr":
		want = []float32{x, x}
	}
	return m.Aux["recv"] == bridge.Render(want)
}

// sigUintHigh accepts: T is uint or uint64, the argument a double in
// [2^63, 2^64) (exactly representable); convertNumeric tests float64(int64(f)) != f,
// which overflows, and raises RangeError "loss of precision". Loud, not silent.
func sigUintHigh(m *engine.Mismatch) bool {
	a := argByName(m.Aux["arg"])
	if (m.Aux["T"] != "uint" && m.Aux["T"] != "uint64") || a == nil || a.n.k != aNum || a.n.exact != nil {
		return false
	}
	if !(a.n.f >= 9223372036854775808.0 && a.n.f < 18446744073709551616.0) {
		return false
	}
	return m.Aux["plain"] == "loud:RangeError" && m.Aux["try"] == "loud:RangeError"
}

var phantom = regexp.MustCompile(`^(after .*?: )?\[phantom-index\] \((\d+) in c\) is true beyond the length (\d+)$`)

// sigPhantomIndex accepts: on a bridged slice or array, (k in c) is true for an
// index k >= length (goSliceGetOwnProperty/goArrayGetOwnProperty return an
// undefined-valued property for every index); nothing else is wrong.
func sigPhantomIndex(m *engine.Mismatch) bool {
	if m.Aux["class"] != "phantom-index" {
		return false
	}
	switch m.Aux["container"] {
	case "[]int", "[]string", "*[3]int", "[3]int":
	default:
		return false
	}
	for _, part := range strings.Split(m.Observed, " ;; ") {
		g := phantom.FindStringSubmatch(part)
		if g == nil || len(g[2]) > 4 || len(g[3]) > 4 {
			return false
		}
		if !(atoi(g[2]) >= atoi(g[3])) {
			return false
		}
	}
	return true
}

func atoi(s string) int {
	n := 0
	for _, c := range s {
		n = n*10 + int(c-'0')
	}
	return n
}

var storeErr = regexp.MustCompile(`\[go-panic\] Go panic reached Run: PANIC: (RangeError: \S+ to reflect\.Kind: \w+|RangeError: \S+ \(\S*\) to u?int\d*|strconv\.Parse(Int|Uint|Float|Bool): parsing "[^"]*": invalid syntax)$`)

// sigStorePanic accepts: a store into a bridged map/slice/array (write, push)
// or a map delete whose value or key cannot be converted; toReflectValue /
// stringToReflectValue return a plain Go error which the container code
// re-panics, so it leaves Run as a Go panic (DESIGN defect #21). The text is
// exactly one of the conversion errors.
func sigStorePanic(m *engine.Mismatch) bool {
	if m.Aux["class"] != "go-panic" || m.Aux["container"] == "*H" {
		return false
	}
	if !(strings.HasPrefix(m.Aux["op"], "c[") || strings.HasPrefix(m.Aux["op"], "push(") || strings.HasPrefix(m.Aux["op"], "delete c[")) {
		return false
	}
	return storeErr.MatchString(m.Observed)
}

// sigSetLen accepts: length assignment or pop() on a bridged []T handed over by
// value: goSliceObject.setLength calls reflect.Value.SetLen on an unaddressable
// slice value and reflect panics with exactly that message.
func sigSetLen(m *engine.Mismatch) bool {
	if m.Aux["class"] != "go-panic" || (m.Aux["container"] != "[]int" && m.Aux["container"] != "[]string") {
		return false
	}
	op := m.Aux["op"]
	if !(strings.HasPrefix(op, "c[length]=") || strings.HasPrefix(op, "length=") || op == "pop()") {
		return false
	}
	return strings.HasSuffix(m.Observed, "[go-panic] Go panic reached Run: PANIC: reflect: reflect.Value.SetLen using unaddressable value")
}

// sigLethal accepts: delete of a non-index key on a bridged slice/array kills the
// process with a Go stack overflow (goSliceDelete/goArrayDelete <-> obj.delete).
func sigLethal(m *engine.Mismatch) bool {
	return m.Aux["class"] == "lethal" && m.Aux["outcome"] == "fatal:stack-overflow" &&
		strings.HasPrefix(m.Aux["op"], "delete c[") && strings.Contains(m.Observed, "stack overflow")
}

// sigPassbackCopy accepts: a bridged Go slice or map passed back to a []T /
// map[K]V parameter, or a struct bridged by pointer passed to a by-value struct
// parameter; convertCallParameter rebuilds the value element by element, so the
// callee's writes land in a copy: the observed view is exactly the twin's state
// under copy semantics (recorded by the family as aux copy.*).
func sigPassbackCopy(m *engine.Mismatch) bool {
	switch m.Aux["cell"] {
	case "setL(o.L)", "setM(o.M)", "setItems(o.Items)", "valO(o)":
	default:
		return false
	}
	c := m.Aux["component"]
	want, ok := m.Aux["copy."+c]
	return ok && m.Observed == c+"="+want
}

// sigMethodNameWrite accepts: on the named map NM (method Total) without an
// entry "Total", the script writes c.Total = v; the write completes and nothing
// is stored (the method property of mode 0o110 makes goMapDefineOwnProperty
// refuse silently). Nothing else is wrong in the transition.
func sigMethodNameWrite(m *engine.Mismatch) bool {
	if !strings.HasPrefix(m.Aux["container"], "NM(") || !strings.HasPrefix(m.Aux["op"], "c[Total]=") || m.Aux["outcome"] != "ok" {
		return false
	}
	return m.Observed == m.Aux["op"]+": write completed but Total is absent"
}

func storeSink(m *engine.Mismatch) bool {
	return (m.Aux["sink"] == "slice-elem" || m.Aux["sink"] == "map-elem") && strings.HasPrefix(m.Aux["component"], "model ")
}

// sigNegFraction accepts: a store into an integer-kinded element of a bridged
// map/slice of a NEGATIVE number with a fraction completes and stores the
// truncated value (toReflectValue tests frac > 0); expected was a loud failure.
func sigNegFraction(m *engine.Mismatch) bool {
	if !storeSink(m) || strings.HasPrefix(m.Aux["width"], "float") {
		return false
	}
	v, err := strconv.ParseFloat(m.Aux["value"], 64)
	if err != nil || v >= 0 || v == math.Trunc(v) {
		return false
	}
	t := math.Trunc(v)
	if strings.HasPrefix(m.Aux["width"], "uint") && t != 0 {
		return false
	}
	return strings.HasSuffix(m.Expected, "=loud") &&
		strings.HasSuffix(m.Observed, "=ok:"+m.Aux["width"]+"("+strconv.FormatFloat(t+0, 'f', 0, 64)+")")
}

// sigStoreWraps accepts: exactly 2^63 stored into an int/int64 element gives
// MinInt64, exactly 2^64 into a uint/uint64 element gives 2^63 (the upper range
// checks of toReflectValue use > against constants that are 2^63 and 2^64).
func sigStoreWraps(m *engine.Mismatch) bool {
	if !storeSink(m) || !strings.HasSuffix(m.Expected, "=loud") {
		return false
	}
	w := m.Aux["width"]
	switch {
	case (w == "int" || w == "int64") && m.Aux["value"] == "9.2233720368547758e+18":
		return strings.HasSuffix(m.Observed, "=ok:"+w+"(-9223372036854775808)")
	case (w == "uint" || w == "uint64") && m.Aux["value"] == "1.8446744073709552e+19":
		return strings.HasSuffix(m.Observed, "=ok:"+w+"(9223372036854775808)")
	}
	return false
}
