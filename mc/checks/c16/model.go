package c16

import (
	"encoding/json"
	"fmt"
	"math"
	"math/big"
	"reflect"
	"strconv"
	"strings"
	"time"

	"github.com/robertkrimen/otto"

	"verif/mc/ref/bridge"
)

// ---------------------------------------------------------------------------
// JavaScript arguments as data

type akind int

const (
	aUndef akind = iota
	aNull
	aBool
	aNum
	aStr
	aArr
	aObj
	aHole
	aFunc   // a JS function; fn names its behaviour
	aExotic // Date, boxed primitives, ...: conversions not covered by the statement
)

// anode is a JavaScript argument as data: what it denotes.
type anode struct {
	k     akind
	b     bool
	f     float64  // the double a script sees
	exact *big.Int // for numbers that came from a Go integer kind: the exact integer
	s     string
	elems []*anode
	keys  []string
	vals  map[string]*anode
	fn    string      // aFunc: "inc" (x+1), "frac" (1.5), "throw", "str" (returns "r")
	gov   interface{} // the bridged Go value this node was derived from (containers, structs)
	class string      // aExotic: Date, Number, String
}

func nNum(f float64) *anode { return &anode{k: aNum, f: f} }
func nStr(s string) *anode  { return &anode{k: aStr, s: s} }
func nArr(e ...*anode) *anode {
	return &anode{k: aArr, elems: e}
}
func nObj(kv ...interface{}) *anode {
	n := &anode{k: aObj, vals: map[string]*anode{}}
	for i := 0; i+1 < len(kv); i += 2 {
		k := kv[i].(string)
		n.keys = append(n.keys, k)
		n.vals[k] = kv[i+1].(*anode)
	}
	return n
}

// fromGo derives the node of a Go value handed to the script (a bridged
// container or a Go-kinded number).
func fromGo(x interface{}) *anode {
	n := fromGoV(reflect.ValueOf(x))
	switch reflect.Indirect(reflect.ValueOf(x)).Kind() {
	case reflect.Struct, reflect.Map, reflect.Slice, reflect.Array:
		n.gov = x // bridged: the script holds the live Go value
	}
	return n
}

func fromGoV(v reflect.Value) *anode {
	for v.IsValid() && (v.Kind() == reflect.Ptr || v.Kind() == reflect.Interface) {
		if v.IsNil() {
			return &anode{k: aUndef}
		}
		v = v.Elem()
	}
	if !v.IsValid() {
		return &anode{k: aUndef}
	}
	switch v.Kind() {
	case reflect.Bool:
		return &anode{k: aBool, b: v.Bool()}
	case reflect.Int, reflect.Int8, reflect.Int16, reflect.Int32, reflect.Int64:
		return &anode{k: aNum, f: float64(v.Int()), exact: big.NewInt(v.Int())}
	case reflect.Uint, reflect.Uint8, reflect.Uint16, reflect.Uint32, reflect.Uint64:
		return &anode{k: aNum, f: float64(v.Uint()), exact: new(big.Int).SetUint64(v.Uint())}
	case reflect.Float32, reflect.Float64:
		return nNum(v.Float())
	case reflect.String:
		return nStr(v.String())
	case reflect.Slice, reflect.Array:
		n := &anode{k: aArr}
		for i := 0; i < v.Len(); i++ {
			n.elems = append(n.elems, fromGoV(v.Index(i)))
		}
		return n
	case reflect.Map:
		n := &anode{k: aObj, vals: map[string]*anode{}}
		for _, k := range v.MapKeys() {
			ks := bridge.KeyString(k)
			n.keys = append(n.keys, ks)
			n.vals[ks] = fromGoV(v.MapIndex(k))
		}
		return n
	case reflect.Struct:
		n := &anode{k: aObj, vals: map[string]*anode{}}
		for i := 0; i < v.NumField(); i++ {
			f := v.Type().Field(i)
			if bridge.ExportedName(f.Name) {
				n.keys = append(n.keys, f.Name)
				n.vals[f.Name] = fromGoV(v.Field(i))
			}
		}
		return n
	}
	return &anode{k: aExotic, class: v.Kind().String()}
}

// node converts plain data to a bridge.Node (for JSON comparisons).
func (a *anode) node() (*bridge.Node, bool) {
	switch a.k {
	case aUndef:
		return bridge.U(), true
	case aNull:
		return bridge.NullN(), true
	case aBool:
		return bridge.B(a.b), true
	case aNum:
		return bridge.N(a.f), true
	case aStr:
		return bridge.S(a.s), true
	case aHole:
		return bridge.HoleN(), true
	case aArr:
		n := &bridge.Node{K: bridge.Arr}
		for _, e := range a.elems {
			c, ok := e.node()
			if !ok {
				return nil, false
			}
			n.Elem = append(n.Elem, c)
		}
		return n, true
	case aObj:
		n := bridge.O()
		for _, k := range a.keys {
			c, ok := a.vals[k].node()
			if !ok {
				return nil, false
			}
			n.Set(k, c)
		}
		return n, true
	}
	return nil, false
}

func (a *anode) hasHole() bool {
	switch a.k {
	case aHole:
		return true
	case aArr:
		for _, e := range a.elems {
			if e.hasHole() {
				return true
			}
		}
	case aObj:
		for _, k := range a.keys {
			if a.vals[k].hasHole() {
				return true
			}
		}
	}
	return false
}

// ---------------------------------------------------------------------------
// the parameter types

type S struct {
	A int `json:"a"`
	B string
}

type MyInt int

var (
	tValue    = reflect.TypeOf(otto.Value{})
	tRaw      = reflect.TypeOf(json.RawMessage{})
	tIface    = reflect.TypeOf((*interface{})(nil)).Elem()
	tDuration = reflect.TypeOf(time.Duration(0))
)

type ptype struct {
	name string
	t    reflect.Type
}

func paramTypes() []ptype {
	mk := func(x interface{}) reflect.Type { return reflect.TypeOf(x) }
	return []ptype{
		{"bool", mk(false)},
		{"int8", mk(int8(0))}, {"int16", mk(int16(0))}, {"int32", mk(int32(0))}, {"int64", mk(int64(0))}, {"int", mk(int(0))},
		{"uint8", mk(uint8(0))}, {"uint16", mk(uint16(0))}, {"uint32", mk(uint32(0))}, {"uint64", mk(uint64(0))}, {"uint", mk(uint(0))},
		{"float32", mk(float32(0))}, {"float64", mk(float64(0))},
		{"string", mk("")},
		{"interface{}", tIface},
		{"otto.Value", tValue},
		{"[]int", mk([]int(nil))}, {"[]string", mk([]string(nil))}, {"[]interface{}", mk([]interface{}(nil))}, {"[]byte", mk([]byte(nil))},
		{"[2]int", mk([2]int{})},
		{"map[string]int", mk(map[string]int(nil))}, {"map[string]interface{}", mk(map[string]interface{}(nil))}, {"map[int]string", mk(map[int]string(nil))},
		{"S", mk(S{})}, {"*S", mk((*S)(nil))}, {"*int", mk((*int)(nil))},
		{"func(int) int", mk((func(int) int)(nil))}, {"func() (int, error)", mk((func() (int, error))(nil))},
		{"json.RawMessage", tRaw},
		{"MyInt", mk(MyInt(0))}, {"time.Duration", tDuration},
		{"[][]int", mk([][]int(nil))},
	}
}

func isNumericKind(k reflect.Kind) bool {
	switch k {
	case reflect.Int, reflect.Int8, reflect.Int16, reflect.Int32, reflect.Int64,
		reflect.Uint, reflect.Uint8, reflect.Uint16, reflect.Uint32, reflect.Uint64,
		reflect.Float32, reflect.Float64:
		return true
	}
	return false
}

// ---------------------------------------------------------------------------
// the oracle: "exact or loud"

// verdict of the model for (T, a): whether a loud failure is acceptable and
// whether a received value is acceptable. For the combinations the property
// statement speaks about (numbers into numeric kinds, strings into string,
// booleans into bool, element-wise containers) exactly one of the two holds;
// where otto documents a lenient conversion (ToBoolean, ToString, null or
// undefined as zero value) or the statement is silent both may hold.

// numFits reports whether the number a is exactly representable in the numeric
// type t and, if so, which value it is.
func numFits(t reflect.Type, a *anode) (reflect.Value, bool) {
	out := reflect.New(t).Elem()
	f := a.f
	switch t.Kind() {
	case reflect.Float64:
		out.SetFloat(f)
		return out, true
	case reflect.Float32:
		if !bridge.FitsFloat32(f) {
			return out, false
		}
		out.SetFloat(f)
		return out, true
	case reflect.Int, reflect.Int8, reflect.Int16, reflect.Int32, reflect.Int64:
		if a.exact != nil {
			if !a.exact.IsInt64() || out.OverflowInt(a.exact.Int64()) {
				return out, false
			}
			out.SetInt(a.exact.Int64())
			return out, true
		}
		i, ok := bridge.FitsInt(f, t.Bits())
		if !ok {
			return out, false
		}
		out.SetInt(i)
		return out, true
	case reflect.Uint, reflect.Uint8, reflect.Uint16, reflect.Uint32, reflect.Uint64:
		if a.exact != nil {
			if !a.exact.IsUint64() || out.OverflowUint(a.exact.Uint64()) {
				return out, false
			}
			out.SetUint(a.exact.Uint64())
			return out, true
		}
		u, ok := bridge.FitsUint(f, t.Bits())
		if !ok {
			return out, false
		}
		out.SetUint(u)
		return out, true
	}
	return out, false
}

// inexactGoInt: a number that came from a Go integer kind and is not a double;
// the script sees the rounded double, the Value holds the exact integer. Either
// reading of "the value it denotes" is accepted (and a loud failure as well).
func inexactGoInt(a *anode) bool {
	if a.k != aNum || a.exact == nil {
		return false
	}
	bf, _ := new(big.Float).SetInt(a.exact).Float64()
	back, acc := new(big.Float).SetFloat64(bf).Int(nil)
	return acc != big.Exact || back.Cmp(a.exact) != 0
}

// toNumber is ES5 ToNumber for primitive nodes.
func toNumber(a *anode) (float64, bool) {
	switch a.k {
	case aUndef:
		return math.NaN(), true
	case aNull:
		return 0, true
	case aBool:
		if a.b {
			return 1, true
		}
		return 0, true
	case aNum:
		return a.f, true
	case aStr:
		return bridge.StringToNumber(a.s), true
	}
	return 0, false
}

func toBoolean(a *anode) bool {
	switch a.k {
	case aUndef, aNull, aHole:
		return false
	case aBool:
		return a.b
	case aNum:
		return !(a.f == 0 || math.IsNaN(a.f))
	case aStr:
		return a.s != ""
	}
	return true
}

// toStringJS is ES5 ToString for data nodes (arrays join, plain objects give
// "[object Object]"); ok=false where the text is implementation-defined.
func toStringJS(a *anode) (string, bool) {
	switch a.k {
	case aUndef:
		return "undefined", true
	case aNull:
		return "null", true
	case aBool:
		return strconv.FormatBool(a.b), true
	case aNum:
		return bridge.NumberToString(a.f), true
	case aStr:
		return a.s, true
	case aArr:
		parts := make([]string, len(a.elems))
		for i, e := range a.elems {
			if e.k == aUndef || e.k == aNull || e.k == aHole {
				continue
			}
			s, ok := toStringJS(e)
			if !ok {
				return "", false
			}
			parts[i] = s
		}
		return strings.Join(parts, ","), true
	case aObj:
		if a.gov == nil || reflect.Indirect(reflect.ValueOf(a.gov)).Kind() != reflect.Slice {
			return "[object Object]", true
		}
	}
	return "", false
}

// numeralDenotes reports whether the text s is a numeral for exactly the number
// f (so that a number -> string conversion lost nothing): any spelling that
// strconv or ES5 reads back to the same double, the sign of zero aside.
func numeralDenotes(s string, a *anode) bool {
	if a.exact != nil && s == a.exact.String() {
		return true
	}
	// the JavaScript spelling (ES5 9.8.1), which stores into []string elements
	// use as well; Go's %v spellings (1e-07, +Inf, -0, 9.223372036854776e+18)
	// are not it
	return s == bridge.NumberToString(a.f)
}

// loudOK reports whether (t, a) may fail loudly.
func loudOK(t reflect.Type, a *anode) bool {
	if a.k == aHole {
		return true
	}
	if t == tValue {
		return false
	}
	if t == tRaw {
		n, ok := a.node()
		if !ok {
			return true
		}
		j, ok := n.JSONView()
		_ = j
		return !ok || !jsonRepresentable(n)
	}
	if t.Kind() == reflect.Map && t.Key().Kind() != reflect.String {
		return true // only string-keyed maps are built (documented in convertCallParameter)
	}
	if a.gov != nil && reflect.TypeOf(a.gov).AssignableTo(t) {
		return false
	}
	switch t.Kind() {
	case reflect.Interface:
		return a.k == aExotic || a.k == aFunc
	case reflect.Bool:
		return a.k != aBool
	case reflect.String:
		return a.k != aStr
	case reflect.Ptr:
		if a.k == aUndef || a.k == aNull {
			return true
		}
		return loudOK(t.Elem(), a)
	case reflect.Func:
		if a.k != aFunc || t.NumOut() > 1 {
			return true
		}
		return false
	case reflect.Slice:
		if a.k != aArr {
			return true
		}
		for _, e := range a.elems {
			if loudOK(t.Elem(), e) {
				return true
			}
		}
		return false
	case reflect.Array:
		return true
	case reflect.Map:
		if a.k != aObj || t.Key().Kind() != reflect.String {
			return true
		}
		for _, k := range a.keys {
			if loudOK(t.Elem(), a.vals[k]) {
				return true
			}
		}
		return false
	case reflect.Struct:
		if a.k != aObj || a.gov != nil {
			return true
		}
		for _, k := range a.keys {
			f, ok := fieldFor(t, k)
			if !ok || loudOK(f.Type, a.vals[k]) {
				return true
			}
		}
		return false
	}
	if isNumericKind(t.Kind()) {
		if a.k != aNum {
			return true
		}
		if inexactGoInt(a) {
			return true
		}
		_, fits := numFits(t, a)
		return !fits
	}
	return true
}

func jsonRepresentable(n *bridge.Node) bool {
	switch n.K {
	case bridge.Num:
		return !math.IsNaN(n.N) && !math.IsInf(n.N, 0)
	case bridge.Arr:
		for _, e := range n.Elem {
			if e.K != bridge.Undef && e.K != bridge.Hole && !jsonRepresentable(e) {
				return false
			}
		}
	case bridge.Obj:
		for _, k := range n.Keys {
			if !jsonRepresentable(n.Vals[k]) {
				return false
			}
		}
	case bridge.Hole, bridge.Func:
		return false
	}
	return true
}

// fieldFor finds the struct field a property name denotes: json tag first,
// then the Go name (exported only).
func fieldFor(t reflect.Type, name string) (reflect.StructField, bool) {
	for i := 0; i < t.NumField(); i++ {
		f := t.Field(i)
		if !bridge.ExportedName(f.Name) {
			continue
		}
		if tag := strings.Split(f.Tag.Get("json"), ",")[0]; tag != "" && tag != "-" && tag == name {
			return f, true
		}
		if f.Name == name {
			return f, true
		}
	}
	return reflect.StructField{}, false
}

func isZero(v reflect.Value) bool { return !v.IsValid() || v.IsZero() }

// match reports whether receiving recv for parameter type t is an acceptable
// reading of the argument a.
func match(t reflect.Type, a *anode, recv reflect.Value) bool {
	if a.k == aHole {
		return isZero(recv)
	}
	if t == tRaw {
		n, ok := a.node()
		if !ok || a.hasHole() {
			return true // exotic values, holes: not covered
		}
		j, ok := n.JSONView()
		if !ok {
			j = bridge.NullN() // undefined -> null (Export maps undefined to nil)
		}
		if a.gov != nil {
			// a bridged Go value: its encoding/json form
			b, err := json.Marshal(a.gov)
			if err != nil {
				return true
			}
			var y interface{}
			if json.Unmarshal(b, &y) != nil {
				return true
			}
			j = bridge.FromGoJSON(y)
		}
		var x interface{}
		if err := json.Unmarshal(recv.Bytes(), &x); err != nil {
			return false
		}
		return zeroSign(bridge.FromGoJSON(x)).Canon() == zeroSign(j).Canon()
	}
	if a.gov != nil && reflect.TypeOf(a.gov).AssignableTo(t) && t.Kind() != reflect.Interface {
		if !recv.IsValid() {
			return false
		}
		if t.Kind() == reflect.Ptr {
			return recv.Pointer() == reflect.ValueOf(a.gov).Pointer()
		}
		return bridge.Render(recv.Interface()) == bridge.Render(a.gov)
	}
	switch t.Kind() {
	case reflect.Interface:
		return matchIface(a, recv)
	case reflect.Bool:
		if a.k == aExotic {
			return true
		}
		return recv.Bool() == toBoolean(a)
	case reflect.String:
		switch a.k {
		case aStr:
			return recv.String() == a.s
		case aNum:
			return numeralDenotes(recv.String(), a)
		case aFunc, aExotic:
			return true
		}
		s, ok := toStringJS(a)
		return !ok || recv.String() == s
	case reflect.Ptr:
		if a.k == aUndef || a.k == aNull {
			return recv.IsNil()
		}
		return !recv.IsNil() && match(t.Elem(), a, recv.Elem())
	case reflect.Func:
		switch a.k {
		case aUndef, aNull:
			return recv.IsNil()
		case aFunc:
			return !recv.IsNil()
		}
		return false
	case reflect.Slice:
		switch a.k {
		case aUndef, aNull:
			return recv.Len() == 0
		case aArr:
			if recv.Len() != len(a.elems) {
				return false
			}
			for i, e := range a.elems {
				if !match(t.Elem(), e, recv.Index(i)) {
					return false
				}
			}
			return true
		}
		return false
	case reflect.Array:
		if a.k != aArr || recv.Len() != len(a.elems) {
			return false
		}
		for i, e := range a.elems {
			if !match(t.Elem(), e, recv.Index(i)) {
				return false
			}
		}
		return true
	case reflect.Map:
		switch a.k {
		case aUndef, aNull:
			return recv.Len() == 0
		case aFunc, aExotic:
			return true
		case aArr:
			want := map[string]*anode{}
			for i, e := range a.elems {
				if e.k != aHole {
					want[strconv.Itoa(i)] = e
				}
			}
			return matchMap(t, want, recv)
		case aObj:
			return matchMap(t, a.vals, recv)
		}
		return false
	case reflect.Struct:
		switch a.k {
		case aUndef, aNull:
			return recv.IsZero()
		case aObj:
			if a.gov != nil {
				// a bridged struct/map of another type: field-wise by name
				gv := reflect.Indirect(reflect.ValueOf(a.gov))
				if gv.Type() == t {
					return bridge.Render(recv.Interface()) == bridge.Render(gv.Interface())
				}
			}
			set := map[string]bool{}
			for _, k := range a.keys {
				f, ok := fieldFor(t, k)
				if !ok {
					return false
				}
				set[f.Name] = true
				if !match(f.Type, a.vals[k], recv.FieldByName(f.Name)) {
					return false
				}
			}
			for i := 0; i < t.NumField(); i++ {
				if !set[t.Field(i).Name] && !recv.Field(i).IsZero() {
					return false
				}
			}
			return true
		}
		return false
	}
	if isNumericKind(t.Kind()) {
		switch a.k {
		case aNum:
			if want, ok := numFits(t, a); ok && sameNumber(want, recv) {
				return true
			}
			if inexactGoInt(a) {
				// the rounded double the script sees is an acceptable reading too
				if want, ok := numFits(t, nNum(a.f)); ok && sameNumber(want, recv) {
					return true
				}
			}
			return false
		case aUndef, aNull, aBool, aStr:
			f, _ := toNumber(a)
			want, ok := numFits(t, nNum(f))
			return ok && sameNumber(want, recv)
		}
		return false
	}
	return false
}

func sameNumber(want, recv reflect.Value) bool {
	switch want.Kind() {
	case reflect.Float32, reflect.Float64:
		w, r := want.Float(), recv.Float()
		if math.IsNaN(w) {
			return math.IsNaN(r)
		}
		return w == r && math.Signbit(w) == math.Signbit(r)
	case reflect.Int, reflect.Int8, reflect.Int16, reflect.Int32, reflect.Int64:
		return want.Int() == recv.Int()
	}
	return want.Uint() == recv.Uint()
}

func zeroSign(n *bridge.Node) *bridge.Node {
	switch n.K {
	case bridge.Num:
		return bridge.N(n.N + 0)
	case bridge.Arr:
		out := &bridge.Node{K: bridge.Arr}
		for _, e := range n.Elem {
			out.Elem = append(out.Elem, zeroSign(e))
		}
		return out
	case bridge.Obj:
		out := bridge.O()
		for _, k := range n.Keys {
			out.Set(k, zeroSign(n.Vals[k]))
		}
		return out
	}
	return n
}

func matchMap(t reflect.Type, want map[string]*anode, recv reflect.Value) bool {
	if recv.Len() != len(want) {
		return false
	}
	for _, k := range recv.MapKeys() {
		e, ok := want[bridge.KeyString(k)]
		if !ok || !match(t.Elem(), e, recv.MapIndex(k)) {
			return false
		}
	}
	return true
}

// matchIface: the value an interface{} parameter receives, compared by value.
func matchIface(a *anode, recv reflect.Value) bool {
	for recv.IsValid() && recv.Kind() == reflect.Interface {
		if recv.IsNil() {
			recv = reflect.Value{}
			break
		}
		recv = recv.Elem()
	}
	switch a.k {
	case aFunc, aExotic:
		return true
	case aUndef, aNull, aHole:
		return !recv.IsValid() || (recv.Kind() == reflect.Ptr && recv.IsNil())
	}
	if !recv.IsValid() {
		return false
	}
	if a.gov != nil {
		return bridge.Render(recv.Interface()) == bridge.Render(a.gov)
	}
	switch a.k {
	case aBool:
		return recv.Kind() == reflect.Bool && recv.Bool() == a.b
	case aStr:
		return recv.Kind() == reflect.String && recv.String() == a.s
	case aNum:
		if !isNumericKind(recv.Kind()) {
			return false
		}
		if want, ok := numFits(recv.Type(), a); ok && sameNumber(want, recv) {
			return true
		}
		if inexactGoInt(a) {
			if want, ok := numFits(recv.Type(), nNum(a.f)); ok && sameNumber(want, recv) {
				return true
			}
		}
		return false
	case aArr:
		if recv.Kind() != reflect.Slice && recv.Kind() != reflect.Array {
			return false
		}
		if a.hasHole() {
			return true // Export's treatment of holes is undocumented
		}
		if recv.Len() != len(a.elems) {
			return false
		}
		for i, e := range a.elems {
			if !matchIface(e, recv.Index(i)) {
				return false
			}
		}
		return true
	case aObj:
		if recv.Kind() != reflect.Map {
			return false
		}
		want := map[string]*anode{}
		for _, k := range a.keys {
			if a.vals[k].k != aUndef {
				want[k] = a.vals[k]
			}
		}
		if recv.Len() != len(want) {
			return false
		}
		for _, k := range recv.MapKeys() {
			e, ok := want[bridge.KeyString(k)]
			if !ok || !matchIface(e, recv.MapIndex(k)) {
				return false
			}
		}
		return true
	}
	return false
}

// describe summarises the model's verdict for the report.
func describe(t reflect.Type, a *anode) string {
	l := loudOK(t, a)
	var parts []string
	if isNumericKind(t.Kind()) && a.k == aNum {
		if v, ok := numFits(t, a); ok {
			parts = append(parts, "callee receives exactly "+bridge.Render(v.Interface()))
		}
	} else if !(t.Kind() == reflect.Array) {
		parts = append(parts, "callee receives the value the argument denotes (element-wise)")
	}
	if l {
		parts = append(parts, "TypeError/RangeError visible to the script, callee not called")
	}
	if len(parts) == 0 {
		parts = append(parts, "callee receives the value the argument denotes")
	}
	return strings.Join(parts, " | or ") + fmt.Sprintf(" [T=%s]", t)
}
