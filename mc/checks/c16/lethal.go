package c16

import (
	"bytes"
	"fmt"
	"os"
	"os/exec"
	"path/filepath"
	"runtime/debug"
	"strings"
	"time"

	"verif/mc/checks/brig"
	"verif/mc/engine"
)

// lethal: `delete c.<non-index key>` on bridged slices and arrays. At the
// pinned commit goSliceDelete/goArrayDelete fall back to obj.delete, which
// dispatches to themselves: unbounded recursion, a FATAL Go stack overflow that
// no recover() can stop. Every such case is therefore executed in a child
// process of this same binary (worker mode with --key: the case runs
// in-process there); the parent turns the child's death into a mismatch. With
// a replay key set (the child itself, or `mc replay`) the case runs in-process.

func lethalCases() [][]string {
	var out [][]string
	for _, k := range []ckind{kSliceI, kSliceS, kArrPtr, kArrVal} {
		kn := kindNames[k]
		out = append(out, []string{kn, "delete c[foo]"})
		out = append(out, []string{kn, "c[foo]=1", "delete c[foo]"})
		out = append(out, []string{kn, "delete c[0]", "delete c[bar]"})
	}
	return out
}

func lethalOp(name string) (hop, bool) {
	switch name {
	case "delete c[foo]":
		return hop{name: name, kind: "delete", key: "foo", src: `delete c["foo"]`}, true
	case "delete c[bar]":
		return hop{name: name, kind: "delete", key: "bar", src: `delete c["bar"]`}, true
	}
	return hop{}, false
}

func runLethal(r *engine.Run) {
	r.Bound("cases", fmt.Sprint(len(lethalCases())))
	for _, c := range lethalCases() {
		key := strings.Join(c, " | ")
		if !r.MineKey(key) {
			continue
		}
		r.Begin(key)
		var bad []string
		outcome := ""
		if r.ReplayKey != "" {
			bad, outcome = lethalInProcess(c)
		} else {
			bad, outcome = lethalInChild(r, key)
		}
		r.End()
		r.Eval(outcome == "ok")
		r.Tree(1, 1)
		r.Outcome(outcome)
		if r.WantSample() {
			r.Sample(key + " => " + outcome)
		}
		if len(bad) > 0 {
			ki := 0
			for i, n := range kindNames {
				if n == c[0] {
					ki = i
				}
			}
			r.Mismatch(engine.Mismatch{
				Key:      key,
				Input:    "vm.Set(\"c\", " + fmt.Sprintf("%v", freshLive(ckind(ki)).setv) + "); " + strings.Join(c[1:], "; "),
				Expected: "delete of a non-index key completes (script-only property removed, container untouched)",
				Observed: strings.Join(bad, " ;; "),
				Aux:      map[string]string{"class": "lethal", "container": c[0], "op": c[len(c)-1], "outcome": outcome},
			})
		}
	}
}

// lethalInProcess executes the path for real (the process dies if the defect is there).
func lethalInProcess(c []string) ([]string, string) {
	var k ckind
	for i, n := range kindNames {
		if n == c[0] {
			k = ckind(i)
		}
	}
	// An unbounded recursion should die quickly: these operations need a few
	// dozen frames, so a small stack limit loses nothing.
	defer debug.SetMaxStack(debug.SetMaxStack(16 << 20))
	h := &histRig{g: brig.NewRig()}
	if why := h.start(k); why != "" {
		return []string{why}, "harness"
	}
	pre := h.observe()
	if pre.fail != "" {
		return []string{"initial observation failed: " + pre.fail}, "harness"
	}
	var bad []string
	outcome := ""
	for _, name := range c[1:] {
		op, ok := lethalOp(name)
		if !ok {
			op, ok = findOp(alphabet(h.lv, pre.jsLen), name)
		}
		if !ok {
			return []string{"unknown operation " + name}, "harness"
		}
		var result string
		outcome, result = h.apply(op, false)
		post := h.observe()
		if post.fail != "" {
			return append(bad, "after "+name+": "+post.fail), outcome
		}
		for _, b := range relate(k, pre, post, op, outcome, result) {
			if !classTag.MatchString(b) { // the tagged classes are the histories family's business
				bad = append(bad, name+": "+b)
			}
		}
		pre = post
	}
	return bad, outcome
}

func lethalInChild(r *engine.Run, key string) ([]string, string) {
	self, err := os.Executable()
	if err != nil {
		return []string{"harness: " + err.Error()}, "harness"
	}
	dir := filepath.Join(engine.VerifDir(), ".work", "C16-lethal")
	os.MkdirAll(dir, 0o755)
	out, err := os.CreateTemp(dir, "case-*.json")
	if err != nil {
		return []string{"harness: " + err.Error()}, "harness"
	}
	out.Close()
	defer os.Remove(out.Name())
	cmd := exec.Command(self, "worker", "C16", "--tier", r.Tier, "--family", "lethal", "--key", key, "--out", out.Name())
	cmd.Env = append(os.Environ(), "GOTRACEBACK=none")
	var stderr bytes.Buffer
	cmd.Stderr = &capWriter{buf: &stderr, max: 4096}
	done := make(chan error, 1)
	if err := cmd.Start(); err != nil {
		return []string{"harness: " + err.Error()}, "harness"
	}
	go func() { done <- cmd.Wait() }()
	select {
	case err = <-done:
	case <-time.After(50 * time.Second):
		cmd.Process.Kill()
		<-done
		return []string{"child process did not finish in 50 s (hang)"}, "hang"
	}
	if err != nil {
		msg := brig.OneLine(stderr.String())
		switch {
		case strings.Contains(msg, "stack overflow") || strings.Contains(msg, "stack exceeds"):
			return []string{"FATAL: Go stack overflow killed the process: " + msg}, "fatal:stack-overflow"
		}
		return []string{"the process died: " + err.Error() + ": " + msg}, "fatal"
	}
	b, rerr := os.ReadFile(out.Name())
	if rerr != nil {
		return []string{"harness: no child result: " + rerr.Error()}, "harness"
	}
	s := string(b)
	// the child's own mismatches come back in its result file
	if strings.Contains(s, `"n_violation":0`) {
		return nil, "ok"
	}
	i := strings.Index(s, `"observed":"`)
	obs := "child reported a violation"
	if i >= 0 {
		obs = s[i+12:]
		if j := strings.Index(obs, `","`); j >= 0 {
			obs = obs[:j]
		}
	}
	return []string{obs}, "violation"
}

type capWriter struct {
	buf *bytes.Buffer
	max int
}

func (c *capWriter) Write(p []byte) (int, error) {
	if room := c.max - c.buf.Len(); room > 0 {
		if len(p) < room {
			room = len(p)
		}
		c.buf.Write(p[:room])
	}
	return len(p), nil
}
