package c16

import (
	"fmt"
	"math"
	"reflect"
	"strings"

	"verif/mc/checks/brig"
	"verif/mc/engine"
	"verif/mc/ox"
	"verif/mc/ref/bridge"
)

// lattice: a TYPE lattice crossed with a VALUE alphabet. Slots of every element
// type (interface{}, string, named string, bool, named bool, *int, func, struct
// by value, *struct, array, slice, map, int64, float32) inside every container
// shape (slice element, map value, field of a struct bridged by pointer) receive
// every value of the alphabet (null, undefined, numbers, NaN, Infinity, strings
// incl. one held as UTF-16 units, booleans, function, Date, boxed Number, arrays,
// objects); then the slot is used (nested write, push, call). A second part
// probes special containers: nil map, interface/struct/bool/int-keyed maps with
// odd property names, by-value structs, json:"-" fields, embedded (nil) pointers,
// field name clashes, nil funcs, stale aliases, throwing callbacks.
//
// Oracle (property statement): no Go panic leaves Run; a write is either visible
// on both sides - the Go slot holds an acceptable reading of the value (match of
// model.go) and the script reads back the counterpart of the Go slot - or it is
// rejected with a TypeError/RangeError and nothing changed; a write that
// completes but is neither stored nor visible was dropped silently.

type LIn struct{ X int }
type LColor string
type LFlag bool

type latElem struct {
	name string
	t    reflect.Type
	init func() interface{}
}

func latElems() []latElem {
	seven := func() interface{} { v := 7; return &v }
	return []latElem{
		{"interface{}", tIface, func() interface{} { return 1 }},
		{"string", reflect.TypeOf(""), func() interface{} { return "s" }},
		{"LColor", reflect.TypeOf(LColor("")), func() interface{} { return LColor("c") }},
		{"bool", reflect.TypeOf(false), func() interface{} { return true }},
		{"LFlag", reflect.TypeOf(LFlag(false)), func() interface{} { return LFlag(true) }},
		{"*int", reflect.TypeOf((*int)(nil)), seven},
		{"func(int) int", reflect.TypeOf((func(int) int)(nil)), func() interface{} { return func(x int) int { return x + 1 } }},
		{"LIn", reflect.TypeOf(LIn{}), func() interface{} { return LIn{X: 1} }},
		{"*LIn", reflect.TypeOf((*LIn)(nil)), func() interface{} { return &LIn{X: 1} }},
		{"[2]int64", reflect.TypeOf([2]int64{}), func() interface{} { return [2]int64{1, 2} }},
		{"[]int", reflect.TypeOf([]int(nil)), func() interface{} { return []int{1, 2} }},
		{"map[string]int", reflect.TypeOf(map[string]int(nil)), func() interface{} { return map[string]int{"a": 1} }},
		{"int64", reflect.TypeOf(int64(0)), func() interface{} { return int64(5) }},
		{"float32", reflect.TypeOf(float32(0)), func() interface{} { return float32(0.5) }},
	}
}

type latVal struct {
	name string
	src  string
	n    *anode
}

func latVals() []latVal {
	return []latVal{
		{"null", "null", &anode{k: aNull}},
		{"undefined", "undefined", &anode{k: aUndef}},
		{"1", "1", nNum(1)},
		{"1.5", "1.5", nNum(1.5)},
		{"NaN", "NaN", nNum(math.NaN())},
		{"Infinity", "Infinity", nNum(math.Inf(1))},
		{"str", `"x"`, nStr("x")},
		{"utf16-str", "String.fromCharCode(97)", nStr("a")},
		{"utf16-nonascii", "String.fromCharCode(233, 8364)", nStr("é€")},
		{"utf16-concat", `"h" + String.fromCharCode(105)`, nStr("hi")},
		{"lone-surrogate", "String.fromCharCode(0xD800)", &anode{k: aExotic, class: "String"}},
		{"true", "true", &anode{k: aBool, b: true}},
		{"function", "(function(x){ return x + 1 })", &anode{k: aFunc, fn: "inc"}},
		{"Date", "new Date(0)", &anode{k: aExotic, class: "Date"}},
		{"new Number(5)", "new Number(5)", &anode{k: aExotic, class: "Number"}},
		{"[1]", "[1]", nArr(nNum(1))},
		{"[1,2,3]", "[1,2,3]", nArr(nNum(1), nNum(2), nNum(3))},
		{"{X:1}", "({X:1})", nObj("X", nNum(1))},
	}
}

// a container with one slot of the element type
type latSlot struct {
	shape string
	js    string // the slot as a script expression on c
	build func(e latElem) (setv interface{}, slot func() reflect.Value)
}

func latSlots() []latSlot {
	return []latSlot{
		{"slice", "c[0]", func(e latElem) (interface{}, func() reflect.Value) {
			s := reflect.MakeSlice(reflect.SliceOf(e.t), 2, 2)
			s.Index(0).Set(reflect.ValueOf(e.init()))
			return s.Interface(), func() reflect.Value { return s.Index(0) }
		}},
		{"map", "c.k", func(e latElem) (interface{}, func() reflect.Value) {
			m := reflect.MakeMap(reflect.MapOf(reflect.TypeOf(""), e.t))
			m.SetMapIndex(reflect.ValueOf("k"), reflect.ValueOf(e.init()))
			return m.Interface(), func() reflect.Value { return m.MapIndex(reflect.ValueOf("k")) }
		}},
		{"field", "c.F", func(e latElem) (interface{}, func() reflect.Value) {
			p := reflect.New(reflect.StructOf([]reflect.StructField{{Name: "F", Type: e.t}, {Name: "Z", Type: reflect.TypeOf(0)}}))
			p.Elem().Field(0).Set(reflect.ValueOf(e.init()))
			return p.Interface(), func() reflect.Value { return p.Elem().Field(0) }
		}},
	}
}

func renderSlot(v reflect.Value) string {
	if !v.IsValid() {
		return "<absent>"
	}
	if v.Kind() == reflect.Func {
		if v.IsNil() {
			return "func(nil)"
		}
		return "func"
	}
	if v.Kind() == reflect.Interface && !v.IsNil() && v.Elem().Kind() == reflect.Func {
		return "func"
	}
	return bridge.Render(v.Interface())
}

type latRun struct {
	status string // ok | loud | error:<Class> | PANIC: ...
	value  string // canon of the result when ok
}

func latExec(g *brig.Rig, src string) latRun {
	res := ox.Run(g.VM, src)
	switch {
	case res.Panicked:
		return latRun{status: "PANIC: " + brig.OneLine(fmt.Sprint(res.PanicVal))}
	case res.Err != nil:
		c := ox.ErrClass(res.Err)
		if c == "TypeError" || c == "RangeError" {
			return latRun{status: "loud"}
		}
		return latRun{status: "error:" + c + " " + brig.OneLine(res.Err.Error())}
	}
	return latRun{status: "ok", value: ox.Canon(res.Value)}
}

func runLattice(r *engine.Run) {
	elems := latElems()
	vals := latVals()
	slots := latSlots()
	r.Bound("element_types", fmt.Sprint(len(elems)))
	r.Bound("value_alphabet", fmt.Sprint(len(vals)))
	r.Bound("container_shapes", "slice element, map value, field of a pointer-bridged struct; plus the special containers")
	var g *brig.Rig
	fresh := func() {
		if g == nil {
			g = brig.NewRig()
		}
	}
	report := func(key, input, verdict string, aux map[string]string) {
		r.Tree(1, 1)
		r.Outcome(verdict)
		if verdict == "accepted" {
			return
		}
		r.Mismatch(engine.Mismatch{Key: key, Input: input,
			Expected: "no Go panic; the write is visible on both sides or rejected with TypeError/RangeError (nothing changed)",
			Observed: verdict, Aux: aux})
	}
	// ---- part 1: element type x container shape x value: plain store
	for _, e := range elems {
		for _, sl := range slots {
			for _, v := range vals {
				key := sl.shape + "/" + e.name + "/=" + v.name
				if !r.MineKey(key) {
					continue
				}
				fresh()
				setv, slot := sl.build(e)
				g.VM.Set("c", setv)
				before := renderSlot(slot())
				r.Begin(key)
				out := latExec(g, sl.js+" = "+v.src+"; 0")
				verdict := "accepted"
				post := slot()
				switch {
				case strings.HasPrefix(out.status, "PANIC"):
					verdict = "Go panic reached Run: " + out.status
					g = nil
				case out.status == "loud":
					// stores into slice/map elements go through the weaker converter
					// of the container protocol: a loud refusal is always acceptable there
					if renderSlot(post) != before {
						verdict = "rejected loudly but the slot changed to " + renderSlot(post)
					} else if sl.shape == "field" && !loudOK(e.t, v.n) {
						verdict = "rejected loudly although the value is representable in " + e.name
					}
				case out.status != "ok":
					verdict = "failure not visible as TypeError/RangeError: " + out.status
				case !post.IsValid():
					verdict = "the write completed and the map entry is gone"
				case sl.shape != "field" && isNumericKind(e.t.Kind()) && v.n.k != aNum:
					// element stores coerce non-numbers with ES5 ToNumber/ToInteger
					// (reflect_test.go Test_reflectMap pins abc.xyz = "pqr" -> 0 / NaN)
				case !match(e.t, v.n, post):
					if renderSlot(post) == before {
						verdict = "the write completed but was dropped silently (slot still " + before + ")"
					} else {
						verdict = "stored " + renderSlot(post)
					}
				default:
					// visible on the script side as well
					if post.Kind() != reflect.Func && !(post.Kind() == reflect.Interface && !post.IsNil() && post.Elem().Kind() == reflect.Func) {
						want := bridge.Counterpart(post.Interface()).Canon()
						if got := g.View(sl.js); got != want && g != nil {
							verdict = "Go slot is " + renderSlot(post) + " but the script reads " + got
						}
					}
				}
				r.End()
				r.Eval(out.status == "ok")
				if r.WantSample() && out.status == "loud" {
					r.Sample(key + ": " + sl.js + " = " + v.src + " => " + out.status)
				}
				report(key, fmt.Sprintf("c = %s holding %s; %s = %s", sl.shape, e.name, sl.js, v.src), verdict,
					map[string]string{"part": "store", "shape": sl.shape, "elem": e.name, "value": v.name, "status": out.status})
			}
			// ---- part 2: use the slot: nested write / push / call
			type useOp struct {
				name, src string
				ok        func(post reflect.Value, out latRun) string
			}
			var uses []useOp
			deref := func(v reflect.Value) reflect.Value {
				for v.IsValid() && (v.Kind() == reflect.Ptr || v.Kind() == reflect.Interface) && !v.IsNil() {
					v = v.Elem()
				}
				return v
			}
			switch e.name {
			case "LIn", "*LIn":
				uses = append(uses, useOp{"nested field write", sl.js + ".X = 8; " + sl.js + ".X", func(post reflect.Value, out latRun) string {
					x := deref(post).FieldByName("X").Int()
					if x == 8 && out.value == "d:8" {
						return "accepted"
					}
					return fmt.Sprintf("nested write completed: Go X=%d, script reads %s", x, out.value)
				}})
			case "[2]int64":
				uses = append(uses, useOp{"nested element write", sl.js + "[1] = 5; " + sl.js + "[1]", func(post reflect.Value, out latRun) string {
					x := deref(post).Index(1).Int()
					if (x == 5 && out.value == "d:5") || (x == 2 && out.value == "d:2" && sl.shape != "field") {
						return "accepted" // elements of slices/maps are by-value copies with read-only elements (goArrayObject.writable)
					}
					return fmt.Sprintf("nested write completed: Go [1]=%d, script reads %s", x, out.value)
				}})
			case "[]int":
				uses = append(uses, useOp{"push", sl.js + ".push(3); " + sl.js + ".length", func(post reflect.Value, out latRun) string {
					n := deref(post).Len()
					if n == 3 && out.value == "d:3" {
						return "accepted"
					}
					return fmt.Sprintf("push completed: Go len=%d, script reads length %s", n, out.value)
				}})
				uses = append(uses, useOp{"element write", sl.js + "[0] = 9; " + sl.js + "[0]", func(post reflect.Value, out latRun) string {
					x := deref(post).Index(0).Int()
					if x == 9 && out.value == "d:9" {
						return "accepted"
					}
					return fmt.Sprintf("element write completed: Go [0]=%d, script reads %s", x, out.value)
				}})
			case "map[string]int":
				uses = append(uses, useOp{"nested map store", sl.js + ".z = 4; " + sl.js + ".z", func(post reflect.Value, out latRun) string {
					z := deref(post).MapIndex(reflect.ValueOf("z"))
					if z.IsValid() && z.Int() == 4 && out.value == "d:4" {
						return "accepted"
					}
					return "nested map store completed: Go " + renderSlot(post) + ", script reads " + out.value
				}})
			case "func(int) int":
				uses = append(uses, useOp{"call", sl.js + "(1)", func(post reflect.Value, out latRun) string {
					if out.value == "d:2" {
						return "accepted"
					}
					return "call returned " + out.value
				}})
			case "*int":
				uses = append(uses, useOp{"read", sl.js, func(post reflect.Value, out latRun) string {
					if out.value == "d:7" {
						return "accepted"
					}
					return "read gives " + out.value
				}})
			case "interface{}":
				uses = append(uses, useOp{"store a Go-backed value then read", sl.js + " = c; typeof " + sl.js, func(post reflect.Value, out latRun) string {
					return "accepted"
				}})
			}
			for _, u := range uses {
				key := sl.shape + "/" + e.name + "/" + u.name
				if !r.MineKey(key) {
					continue
				}
				fresh()
				setv, slot := sl.build(e)
				g.VM.Set("c", setv)
				before := renderSlot(slot())
				r.Begin(key)
				out := latExec(g, u.src)
				verdict := "accepted"
				switch {
				case strings.HasPrefix(out.status, "PANIC"):
					verdict = "Go panic reached Run: " + out.status
					g = nil
				case out.status == "loud":
					if renderSlot(slot()) != before {
						verdict = "rejected loudly but the slot changed to " + renderSlot(slot())
					}
				case out.status != "ok":
					verdict = "failure not visible as TypeError/RangeError: " + out.status
				default:
					verdict = u.ok(slot(), out)
				}
				r.End()
				r.Eval(out.status == "ok")
				report(key, fmt.Sprintf("c = %s holding %s; %s", sl.shape, e.name, u.src), verdict,
					map[string]string{"part": "use", "shape": sl.shape, "elem": e.name, "use": u.name, "status": out.status})
			}
		}
	}
	runLatticeSpecial(r, &g, report)
}
