package c16

import (
	"errors"
	"fmt"
	"math"
	"strings"

	"github.com/robertkrimen/otto"

	"verif/mc/checks/brig"
	"verif/mc/engine"
	"verif/mc/ox"
	"verif/mc/ref/bridge"
)

// ---------------------------------------------------------------------------
// arity: every signature called with 0 .. n+2 arguments

type aritySig struct {
	name     string
	nfixed   int
	variadic bool
	fn       func(rec *int) interface{}
}

func aritySigs() []aritySig {
	return []aritySig{
		{"func()", 0, false, func(c *int) interface{} { return func() int { *c++; return 42 } }},
		{"func(int)", 1, false, func(c *int) interface{} { return func(a int) int { *c++; return a } }},
		{"func(int,string)", 2, false, func(c *int) interface{} { return func(a int, b string) string { *c++; return fmt.Sprint(a, b) } }},
		{"func(int,string,bool)", 3, false, func(c *int) interface{} {
			return func(a int, b string, d bool) string { *c++; return fmt.Sprint(a, b, d) }
		}},
		{"func(int,...string)", 1, true, func(c *int) interface{} { return func(a int, b ...string) int { *c++; return len(b) } }},
		{"func(...int)", 0, true, func(c *int) interface{} { return func(b ...int) int { *c++; return len(b) } }},
		{"func(int,string,...interface{})", 2, true, func(c *int) interface{} {
			return func(a int, b string, d ...interface{}) int { *c++; return len(d) }
		}},
	}
}

// arityArgs: argument i of a call. Position 0 is always an int; position 1 a
// string; later positions are values every later parameter of the signatures accepts.
func arityArg(sig aritySig, i int) string {
	switch sig.name {
	case "func(...int)":
		return fmt.Sprint(i + 1)
	case "func(int,string,bool)":
		return []string{"1", `"s"`, "true", `"x"`, `"y"`, `"z"`}[i]
	}
	return []string{"1", `"s"`, `"t"`, `"u"`, `"v"`, `"w"`}[i]
}

func runArity(r *engine.Run) {
	sigs := aritySigs()
	r.Bound("signatures", fmt.Sprint(len(sigs)))
	r.Bound("argument_counts", "0 .. fixed+2")
	var vm *otto.Otto
	count := 0
	for si, sig := range sigs {
		for k := 0; k <= sig.nfixed+2; k++ {
			key := fmt.Sprintf("%s/%d", sig.name, k)
			if !r.MineKey(key) {
				continue
			}
			if vm == nil {
				vm = otto.New()
				for i, s := range sigs {
					vm.Set(fmt.Sprintf("g%d", i), s.fn(&count))
				}
			}
			args := make([]string, k)
			for i := range args {
				args[i] = arityArg(sig, i)
			}
			call := fmt.Sprintf("g%d(%s)", si, strings.Join(args, ", "))
			okExpected := k == sig.nfixed || (sig.variadic && k >= sig.nfixed)
			exp := brig.NewObs()
			got := brig.NewObs()
			r.Begin(key)
			dirty := false
			for _, mode := range []string{"plain", "try"} {
				count = 0
				src := call
				if mode == "try" {
					src = "var __st; try { " + call + "; __st = \"ok\"; } catch (e) { __st = \"loud:\" + ((e instanceof Error) ? e.name : typeof e); } __st"
				}
				res := ox.Run(vm, src)
				st := "ok"
				switch {
				case res.Panicked:
					st = "PANIC: " + brig.OneLine(fmt.Sprint(res.PanicVal))
					dirty = true
				case res.Err != nil:
					st = "loud:" + ox.ErrClass(res.Err)
				case mode == "try":
					st, _ = res.Value.ToString()
				}
				if st == "loud:TypeError" || st == "loud:RangeError" {
					st = "loud"
				}
				got.Put(mode, fmt.Sprintf("%s called=%d", st, count))
				if okExpected {
					exp.Put(mode, "ok called=1")
				} else {
					exp.Put(mode, "loud called=0")
				}
			}
			r.End()
			r.Eval(okExpected)
			r.Tree(1, 1)
			r.Outcome(got.String())
			if r.WantSample() {
				r.Sample(sig.name + ": " + call + " => " + got.M["plain"])
			}
			brig.Compare(r, key, sig.name+": "+call, exp, got, map[string]string{"sig": sig.name, "k": fmt.Sprint(k)})
			if dirty {
				vm = nil
			}
		}
	}
}

// ---------------------------------------------------------------------------
// returns: multi-return shapes come back intact

type retCase struct {
	name   string
	fn     interface{}
	want   []interface{} // nil: no value (undefined); one element: that value; more: an array
	checks []string      // extra boolean script expressions over __r that must be true
}

func retCases() []retCase {
	i5 := 5
	return []retCase{
		{"none", func() {}, nil, nil},
		{"int", func() int { return 7 }, []interface{}{7}, nil},
		{"int,string", func() (int, string) { return 7, "s" }, []interface{}{7, "s"}, nil},
		{"int,error(nil)", func() (int, error) { return 7, nil }, []interface{}{7, nil}, nil},
		{"int,error", func() (int, error) { return 7, errors.New("bad") }, nil,
			[]string{"__r.length === 2", "__r[0] === 7", "typeof __r[1] === \"object\" && __r[1] !== null", "__r[1].Error() === \"bad\""}},
		{"error", func() error { return errors.New("worse") }, nil, []string{"typeof __r === \"object\"", "__r.Error() === \"worse\""}},
		{"error(nil)", func() error { return nil }, []interface{}{nil}, nil},
		{"S,[]int,map", func() (S, []int, map[string]int) { return S{A: 1, B: "x"}, []int{1, 2}, map[string]int{"k": 3} },
			[]interface{}{S{A: 1, B: "x"}, []int{1, 2}, map[string]int{"k": 3}}, nil},
		{"*S,*int", func() (*S, *int) { return &S{A: 2}, &i5 }, []interface{}{&S{A: 2}, 5}, nil},
		{"*S(nil),*int(nil)", func() (*S, *int) { return nil, nil }, []interface{}{nil, nil}, nil},
		{"int64,uint64,float32", func() (int64, uint64, float32) { return math.MinInt64, math.MaxUint64, 0.5 },
			[]interface{}{int64(math.MinInt64), uint64(math.MaxUint64), float32(0.5)}, nil},
		{"int8,uint8,bool,string", func() (int8, uint8, bool, string) { return -128, 255, true, "é\U0001F600" },
			[]interface{}{int8(-128), uint8(255), true, "é\U0001F600"}, nil},
		{"[]string(nil),map(nil)", func() ([]string, map[string]int) { return nil, nil }, []interface{}{[]string{}, map[string]int{}}, nil},
		{"[2]int,[]interface{}", func() ([2]int, []interface{}) { return [2]int{1, 2}, []interface{}{1, "a", nil} },
			[]interface{}{[2]int{1, 2}, []interface{}{1, "a", nil}}, nil},
		{"func", func() func(int) int { return func(x int) int { return x + 1 } }, nil, []string{"typeof __r === \"function\"", "__r(1) === 2"}},
		{"func,int", func() (func(int) int, int) { return func(x int) int { return x * 2 }, 3 }, nil,
			[]string{"__r.length === 2", "typeof __r[0] === \"function\"", "__r[0](4) === 8", "__r[1] === 3"}},
		{"float64s", func() (float64, float64, float64) { return math.NaN(), math.Inf(-1), math.Copysign(0, -1) },
			[]interface{}{math.NaN(), math.Inf(-1), math.Copysign(0, -1)}, nil},
		{"interface{}", func() (interface{}, interface{}) { return 1.5, []int{1} }, []interface{}{1.5, []int{1}}, nil},
	}
}

func runReturns(r *engine.Run) {
	cases := retCases()
	r.Bound("shapes", fmt.Sprint(len(cases)))
	var g *brig.Rig
	for i, c := range cases {
		key := c.name
		if !r.MineKey(key) {
			continue
		}
		if g == nil {
			g = brig.NewRig()
			for j, cc := range cases {
				g.VM.Set(fmt.Sprintf("h%d", j), cc.fn)
			}
		}
		call := fmt.Sprintf("h%d()", i)
		exp := brig.NewObs()
		got := brig.NewObs()
		r.Begin(key)
		res := ox.Run(g.VM, "__r = "+call+"; \"ok\"")
		switch {
		case res.Panicked:
			got.Put("call", "PANIC: "+brig.OneLine(fmt.Sprint(res.PanicVal)))
		case res.Err != nil:
			got.Put("call", "error: "+res.Err.Error())
		default:
			got.Put("call", "ok")
		}
		exp.Put("call", "ok")
		if c.checks == nil {
			var node *bridge.Node
			switch len(c.want) {
			case 0:
				node = bridge.U()
			case 1:
				node = bridge.Counterpart(c.want[0])
			default:
				node = bridge.Counterpart(c.want)
			}
			exp.Put("view", node.Canon())
			got.Put("view", g.View("__r"))
		}
		for _, chk := range c.checks {
			exp.Put(chk, "b:1")
			got.Put(chk, g.EvalCanon(chk))
		}
		r.End()
		r.Eval(got.M["call"] == "ok")
		r.Tree(1, 1)
		r.Outcome(got.String())
		if r.WantSample() {
			r.Sample("func() (" + c.name + "): " + call + " => " + got.M["view"])
		}
		brig.Compare(r, key, "func() ("+c.name+"); "+call, exp, got, map[string]string{"shape": c.name})
		if strings.HasPrefix(got.M["call"], "PANIC") {
			g = nil
		}
	}
}
