package c16

import (
	"fmt"
	"math"
	"strings"

	"github.com/robertkrimen/otto"

	"verif/mc/checks/brig"
	"verif/mc/engine"
)

type LSec struct {
	A   int
	Sec int `json:"-"`
}

func (s *LSec) Meth() int { return 1 }

type LEmbP struct{ *LIn }
type LEmbClash struct {
	LIn
	X int
}
type LZInner struct{ X int }
type LZMid struct{ LZInner }
type LZOther struct{ X int }
type LZTop struct {
	LZMid
	LZOther
}
type LTSInner struct{ Count int }
type LTagShadow struct {
	LTSInner
	Count int `json:"count"`
	Extra int `json:",omitempty"`
}
type LUni struct {
	Éclair int
	Ωmega  string
	A      int
}
type LHold struct {
	PIn *LIn
	F   func(int) int
	L   []int
	M   map[string][]int
	Sl  []LIn
	Mv  map[string]LIn
}

type latSpecial struct {
	name  string
	setup func(vm *otto.Otto) func() string // returns a reader of the Go-side state
	src   string
	// judge receives the outcome and the Go state after; "" = accepted
	judge func(out latRun, goState string) string
}

func okOrLoud(out latRun) bool { return out.status == "ok" || out.status == "loud" }

func latSpecials() []latSpecial {
	var l []latSpecial
	add := func(name string, setup func(vm *otto.Otto) func() string, src string, judge func(out latRun, goState string) string) {
		l = append(l, latSpecial{name, setup, src, judge})
	}
	// visible-or-loud helper for a write followed by a read-back of the same place
	wrote := func(wantCanon, wantGo string) func(out latRun, goState string) string {
		return func(out latRun, goState string) string {
			if out.status == "loud" {
				return ""
			}
			if out.value == wantCanon && goState == wantGo {
				return ""
			}
			return "the write completed: script reads " + out.value + ", Go side " + goState + " (want " + wantCanon + " / " + wantGo + ")"
		}
	}
	reads := func(want string) func(out latRun, goState string) string {
		return func(out latRun, goState string) string {
			if out.status == "ok" && out.value == want {
				return ""
			}
			return "reads " + out.status + " " + out.value + ", want " + want
		}
	}
	noPanic := func(out latRun, goState string) string { return "" }

	// nil map
	nilmap := func(vm *otto.Otto) func() string {
		var nm map[string]int
		vm.Set("c", nm)
		return func() string { return fmt.Sprint(nm) }
	}
	add("nil map: store", nilmap, "c.a = 1; c.a", func(out latRun, g string) string {
		if out.status == "loud" {
			return ""
		}
		return "a store into a nil Go map completed: " + out.value
	})
	add("nil map: read", nilmap, "c.a", reads("u"))
	add("nil map: in/for-in/delete", nilmap, `var n = 0; for (var k in c) n++; [("a" in c), n, delete c.a].join()`, reads("s:false,0,true"))
	// interface-keyed and struct-keyed maps
	ifacemap := func(vm *otto.Otto) func() string {
		m := map[interface{}]int{"s": 3, 1: 2}
		vm.Set("c", m)
		return func() string { return fmt.Sprint(len(m)) }
	}
	add("map[interface{}]int: read by name", ifacemap, "c.s", func(out latRun, g string) string {
		if out.status == "ok" && (out.value == "d:3" || out.value == "u") {
			return ""
		}
		if out.status == "loud" {
			return ""
		}
		return "reads " + out.status + " " + out.value
	})
	add("map[interface{}]int: missing name", ifacemap, "c.zz", noPanic)
	add("map[interface{}]int: in, for-in, keys", ifacemap, `var n = 0; for (var k in c) n++; [n, Object.keys(c).length].join()`, noPanic)
	add("map[interface{}]int: store", ifacemap, "c.t = 5; 0", noPanic)
	add("map[interface{}]int: delete", ifacemap, "delete c.s", noPanic)
	structmap := func(vm *otto.Otto) func() string {
		m := map[LIn]int{{1}: 2}
		vm.Set("c", m)
		return func() string { return fmt.Sprint(len(m)) }
	}
	add("map[struct]int: read", structmap, "c.abc", noPanic)
	add("map[struct]int: store", structmap, "c.abc = 1; 0", noPanic)
	add("map[struct]int: enumerate", structmap, `var n = 0; for (var k in c) n++; n`, noPanic)
	// odd property names on int- and bool-keyed maps: only the canonical spelling of a key names it
	intmap := func(vm *otto.Otto) func() string {
		m := map[int]string{8: "a", 16: "b", 0: "z"}
		vm.Set("c", m)
		return func() string { return fmt.Sprint(m) }
	}
	for _, nm := range []string{"010", "0x10", "+8", " 8", "8.0", "0b1000", "1_6", "00", "-0"} {
		nm := nm
		add("map[int]string: name "+nm, intmap, fmt.Sprintf("[c[%q], (%q in c)].join()", nm, nm), reads("s:,false"))
	}
	add("map[int]string: canonical names", intmap, `[c["8"], c["16"], c["0"], ("8" in c)].join()`, reads("s:a,b,z,true"))
	add("map[int]string: store under alias name", intmap, `c["010"] = "w"; 0`, func(out latRun, g string) string {
		if out.status == "loud" || g == fmt.Sprint(map[int]string{8: "a", 16: "b", 0: "z", 10: "w"}) {
			return ""
		}
		return "store under the name \"010\" left the Go map as " + g
	})
	boolmap := func(vm *otto.Otto) func() string {
		m := map[bool]string{true: "yes"}
		vm.Set("c", m)
		return func() string { return fmt.Sprint(m) }
	}
	for _, nm := range []string{"t", "1", "T", "TRUE", "True"} {
		nm := nm
		add("map[bool]string: name "+nm, boolmap, fmt.Sprintf("[c[%q], (%q in c)].join()", nm, nm), reads("s:,false"))
	}
	add("map[bool]string: canonical name", boolmap, `c["true"]`, reads("s:yes"))
	// json:"-" field, method name
	sec := func(vm *otto.Otto) func() string {
		s := &LSec{A: 1, Sec: 2}
		vm.Set("c", s)
		return func() string { return fmt.Sprint(s.A, s.Sec) }
	}
	add(`json:"-" field: write then read`, sec, "c.Sec = 5; c.Sec", wrote("d:5", "1 5"))
	add(`json:"-" field: read`, sec, "c.Sec", func(out latRun, g string) string {
		if out.status == "ok" && (out.value == "d:2" || out.value == "u") {
			return ""
		}
		return "reads " + out.status + " " + out.value
	})
	add("method name: assignment", sec, "c.Meth = 5; typeof c.Meth", func(out latRun, g string) string {
		if out.status == "loud" || out.value == "s:number" {
			return ""
		}
		return "assignment to a method name completed and was dropped silently (typeof gives " + out.value + ")"
	})
	// embedded pointers
	embp := func(vm *otto.Otto) func() string {
		e := &LEmbP{&LIn{1}}
		vm.Set("c", e)
		return func() string { return fmt.Sprint(e.LIn.X) }
	}
	add("embedded *struct: promoted field write", embp, "c.X = 5; c.X", wrote("d:5", "5"))
	add("embedded *struct: promoted field read", embp, "c.X", reads("d:1"))
	embnil := func(vm *otto.Otto) func() string {
		e := &LEmbP{}
		vm.Set("c", e)
		return func() string { return fmt.Sprint(e.LIn == nil) }
	}
	add("embedded nil *struct: promoted field read", embnil, "c.X", func(out latRun, g string) string {
		if out.status == "loud" || out.value == "u" {
			return ""
		}
		return "reads " + out.value
	})
	add("embedded nil *struct: promoted field write", embnil, "c.X = 5; 0", noPanic)
	add("embedded nil *struct: enumerate", embnil, "var n = 0; for (var k in c) n++; JSON.stringify(c); n >= 0", noPanic)
	clash := func(vm *otto.Otto) func() string {
		e := &LEmbClash{LIn{1}, 2}
		vm.Set("c", e)
		return func() string { return fmt.Sprint(e.X, e.LIn.X) }
	}
	add("outer field shadows promoted field: read", clash, "c.X", reads("d:2"))
	add("outer field shadows promoted field: write", clash, "c.X = 7; c.X", wrote("d:7", "7 1"))
	depth := func(vm *otto.Otto) func() string {
		z := &LZTop{LZMid{LZInner{1}}, LZOther{2}}
		vm.Set("c", z)
		return func() string { return fmt.Sprint(z.LZOther.X, z.LZMid.LZInner.X) }
	}
	add("promoted fields: the shallower one wins (read)", depth, "c.X", reads("d:2"))
	add("promoted fields: the shallower one wins (write)", depth, "c.X = 7; c.X", wrote("d:7", "7 1"))
	tagsh := func(vm *otto.Otto) func() string {
		z := &LTagShadow{LTSInner{1}, 2, 3}
		vm.Set("c", z)
		return func() string { return fmt.Sprint(z.Count, z.LTSInner.Count, z.Extra) }
	}
	add("tagged own field shadows a promoted field of the same Go name (read by Go name)", tagsh, "c.Count", reads("d:2"))
	add("tagged own field shadows a promoted field of the same Go name (write by Go name)", tagsh, "c.Count = 7; c.Count", wrote("d:7", "7 1 3"))
	add("tagged own field: read and write by tag", tagsh, "c.count = 8; c.count", wrote("d:8", "8 1 3"))
	add("field with a nameless json tag: write by Go name", tagsh, "c.Extra = 9; c.Extra", wrote("d:9", "2 1 9"))
	add("tagged own field: compound assignment by Go name", tagsh, "c.Count += 40; c.Count", wrote("d:42", "42 1 3"))
	// holder: pointer field aliases, func fields, nested slices
	hold := func(vm *otto.Otto) func() string {
		h := &LHold{PIn: &LIn{1}, L: []int{1, 2}, M: map[string][]int{"k": {1}}, Sl: []LIn{{1}}, Mv: map[string]LIn{"a": {1}}}
		vm.Set("c", h)
		return func() string { return fmt.Sprint(len(h.L), len(h.M["k"]), h.Sl[0].X, h.Mv["a"].X, h.PIn != nil) }
	}
	add("stale alias of a pointer field set to null", hold, "var q = c.PIn; c.PIn = null; q.X", func(out latRun, g string) string { return "" })
	add("alias of a pointer field after replacement", hold, "var q = c.PIn; c.PIn = {X: 2}; [q.X, c.PIn.X].join()", reads("s:1,2"))
	add("alias of a pointer field after the field is set to null", hold, "var q = c.PIn; c.PIn = null; q.X", func(out latRun, g string) string {
		if out.status == "loud" || out.value == "d:1" {
			return ""
		}
		return "the retained reference reads " + out.value + " (the object it was read from has X = 1)"
	})
	uni := func(vm *otto.Otto) func() string {
		u := &LUni{Éclair: 3, Ωmega: "w", A: 1}
		vm.Set("c", u)
		return func() string { return fmt.Sprintf("%d %s %d", u.Éclair, u.Ωmega, u.A) }
	}
	add("exported field with a non-ASCII capital: read", uni, "[c.Éclair, c.Ωmega, Object.keys(c).sort().join()].join()", reads(`s:3,w,A,\u00C9clair,\u03A9mega`))
	add("exported field with a non-ASCII capital: write", uni, "c.Éclair = 4; c.Éclair", wrote("d:4", "4 w 1"))
	add("Object.defineProperty on a Go field (value)", uni, `Object.defineProperty(c, "A", {value: 5}); c.A`, wrote("d:5", "3 w 5"))
	add("Object.defineProperty on a Go field (getter)", uni, `Object.defineProperty(c, "A", {get: function(){ return 9 }}); c.A`, func(out latRun, g string) string {
		if out.status == "loud" || (out.value == "d:1" && g == "3 w 1") {
			return ""
		}
		return "defining an accessor on a Go field: script reads " + out.value + ", Go side " + g
	})
	add("Object.defineProperty on a Go field (inconvertible value)", uni, `Object.defineProperty(c, "A", {value: "x"}); c.A`, func(out latRun, g string) string {
		if out.status == "loud" && g == "3 w 1" {
			return ""
		}
		return "defineProperty with an inconvertible value: " + out.status + " " + out.value + ", Go side " + g
	})
	add("nil func field: typeof and call", hold, "c.F(1)", func(out latRun, g string) string {
		if out.status == "loud" {
			return ""
		}
		return "calling a nil func field gives " + out.status + " " + out.value
	})
	add("push on a slice field", hold, "c.L.push(3); c.L.length", wrote("d:3", "3 1 1 1 true"))
	add("push on a slice held in a map", hold, "c.M.k.push(2); c.M.k.length", wrote("d:2", "2 2 1 1 true"))
	add("field write through a slice element", hold, "c.Sl[0].X = 8; c.Sl[0].X", wrote("d:8", "2 1 8 1 true"))
	add("field write through a map value", hold, "c.Mv.a.X = 9; c.Mv.a.X", wrote("d:9", "2 1 1 9 true"))
	// by-value structs
	byval := func(vm *otto.Otto) func() string {
		vm.Set("c", LIn{1})
		vm.Set("mk", func() LIn { return LIn{1} })
		return func() string { return "" }
	}
	add("struct bridged by value: field write", byval, "c.X = 2; c.X", func(out latRun, g string) string {
		if out.status == "loud" || out.value == "d:2" {
			return ""
		}
		return "the write completed but reads back " + out.value
	})
	add("struct returned by value: field write", byval, "var r = mk(); r.X = 3; r.X", func(out latRun, g string) string {
		if out.status == "loud" || out.value == "d:3" {
			return ""
		}
		return "the write completed but reads back " + out.value
	})
	// nil func, throwing callbacks
	funcs := func(vm *otto.Otto) func() string {
		vm.Set("nf", (func())(nil))
		vm.Set("each", func(f func(int) int) int { return f(1) })
		return func() string { return "" }
	}
	add("nil func value: call", funcs, "nf()", func(out latRun, g string) string {
		if out.status == "loud" {
			return ""
		}
		return "calling a nil Go func gives " + out.status + " " + out.value
	})
	for _, th := range []string{`"boom"`, "1", "null", "undefined", "{a:1}", `new Error("e")`, `new TypeError("t")`} {
		th := th
		add("callback throws "+th+" (caught)", funcs, "var r; try { each(function(x){ throw "+th+" }); r = \"no throw\" } catch (e) { r = \"caught\" } r", reads("s:caught"))
		add("callback throws "+th+" (uncaught)", funcs, "each(function(x){ throw "+th+" })", func(out latRun, g string) string {
			if out.status == "ok" {
				return "the exception of the callback vanished"
			}
			return "" // any error returned by Run is fine; a Go panic is judged by the caller
		})
	}
	// Go int64 values above 2^53 copied between elements of one bridged slice
	big := func(vm *otto.Otto) func() string {
		s := []int64{0, 9007199254740993, math.MaxInt64, math.MinInt64}
		u := []uint64{0, math.MaxUint64}
		vm.Set("c", s)
		vm.Set("u", u)
		return func() string { return fmt.Sprint(s[0], u[0]) }
	}
	add("copy int64 2^53+1 between elements", big, "c[0] = c[1]; 0", wrote("d:0", "9007199254740993 0"))
	add("copy MaxInt64 between elements", big, "c[0] = c[2]; 0", wrote("d:0", "9223372036854775807 0"))
	add("copy MinInt64 between elements", big, "c[0] = c[3]; 0", wrote("d:0", "-9223372036854775808 0"))
	add("copy MaxUint64 between elements", big, "u[0] = u[1]; 0", wrote("d:0", "0 18446744073709551615"))
	return l
}

func runLatticeSpecial(r *engine.Run, gp **brig.Rig, report func(key, input, verdict string, aux map[string]string)) {
	for _, sp := range latSpecials() {
		key := "special/" + sp.name
		if !r.MineKey(key) {
			continue
		}
		if *gp == nil {
			*gp = brig.NewRig()
		}
		g := *gp
		goState := sp.setup(g.VM)
		r.Begin(key)
		out := latExec(g, sp.src)
		r.End()
		verdict := "accepted"
		switch {
		case strings.HasPrefix(out.status, "PANIC"):
			verdict = "Go panic reached Run: " + out.status
			*gp = nil
		case strings.HasPrefix(out.status, "error:") && !strings.HasPrefix(sp.name, "callback throws"):
			verdict = "failure not visible as TypeError/RangeError: " + out.status
		default:
			if why := sp.judge(out, goState()); why != "" {
				verdict = why
			}
		}
		r.Eval(out.status == "ok")
		report(key, sp.name+": "+sp.src, verdict, map[string]string{"part": "special", "case": sp.name, "status": out.status})
	}
}

var _ = engine.Register
