package c16

import (
	"regexp"
	"strings"

	"verif/mc/engine"
)

// Signatures of the lattice family's open findings. Each accepts exactly one
// failure mode: the input class (part / container shape / element type / special
// case, recorded in Aux) and the exact observed text.

type latSig struct {
	part    string         // store | use | special ("" = any)
	shapes  []string       // container shapes (store/use)
	elems   []string       // element types ("" = any)
	cases   *regexp.Regexp // special case / use name
	observe *regexp.Regexp // the observed verdict
}

func (s latSig) match(m *engine.Mismatch) bool {
	a := m.Aux
	if s.part != "" && a["part"] != s.part {
		return false
	}
	in := func(l []string, v string) bool {
		if len(l) == 0 {
			return true
		}
		for _, x := range l {
			if x == v {
				return true
			}
		}
		return false
	}
	if !in(s.shapes, a["shape"]) || !in(s.elems, a["elem"]) {
		return false
	}
	if s.cases != nil && !s.cases.MatchString(a["case"]+a["use"]) {
		return false
	}
	return s.observe.MatchString(m.Observed)
}

func anyOf(sigs ...latSig) engine.Signature {
	return func(m *engine.Mismatch) bool {
		for _, s := range sigs {
			if s.match(m) {
				return true
			}
		}
		return false
	}
}

func re(s string) *regexp.Regexp { return regexp.MustCompile(s) }

var containerShapes = []string{"slice", "map"}

func init() {
	// toReflectValue (stores into slice/map elements)
	engine.RegisterSignature("c16-store-conversion-unguarded", anyOf(
		latSig{part: "store", shapes: containerShapes, observe: re(`^Go panic reached Run: PANIC: reflect\.(Set|Value\.SetMapIndex): value of type (\[\]uint16|bool|int64|float64|string) is not assignable to type (\[2\]int64|\[\]int|c16\.LIn|map\[string\]int)$`)},
		latSig{part: "store", shapes: []string{"slice"}, observe: re(`^Go panic reached Run: PANIC: reflect: call of reflect\.Value\.Set on zero Value$`)},
		latSig{part: "store", shapes: containerShapes, elems: []string{"*int", "*LIn", "func(int) int"}, observe: re(`^Go panic reached Run: PANIC: invalid conversion of \w+ \(.*\) to reflect\.Type: (\*int|\*c16\.LIn|func\(int\) int)$`)},
		latSig{part: "store", shapes: containerShapes, elems: []string{"[2]int64"}, observe: re(`^Go panic reached Run: PANIC: reflect: cannot convert slice with length 1 to array with length 2$`)},
		latSig{part: "store", shapes: containerShapes, elems: []string{"[2]int64"}, observe: re(`^the write completed but was dropped silently \(slot still \[2\]int64\{1, 2\}\)$`)},
		latSig{part: "store", shapes: []string{"map"}, observe: re(`^the write completed and the map entry is gone$`)},
		latSig{part: "store", shapes: containerShapes, elems: []string{"interface{}"}, observe: re(`^stored \[\]uint16\{97\}$`)},
	))
	engine.RegisterSignature("c16-named-string-bool-unconverted", anyOf(
		latSig{part: "store", shapes: []string{"field"}, elems: []string{"LColor"}, observe: re(`^Go panic reached Run: PANIC: reflect\.Set: value of type string is not assignable to type c16\.LColor$`)},
		latSig{part: "store", shapes: []string{"field"}, elems: []string{"LFlag"}, observe: re(`^Go panic reached Run: PANIC: reflect\.Set: value of type bool is not assignable to type c16\.LFlag$`)},
	))
	engine.RegisterSignature("c16-utf16-string-into-go-string", anyOf(
		latSig{part: "store", shapes: []string{"field"}, elems: []string{"string", "LColor"}, observe: re(`^Go panic reached Run: PANIC: reflect\.Set: value of type \[\]uint16 is not assignable to type (string|c16\.LColor)$`)},
	))
	engine.RegisterSignature("c16-map-key-kind-or-nil-map-panic", anyOf(
		latSig{part: "special", cases: re(`^map\[interface\{\}\]int: (read by name|missing name|store|delete)$`), observe: re(`^Go panic reached Run: PANIC: invalid conversion of "\w+" to reflect\.Kind: interface$`)},
		latSig{part: "special", cases: re(`^map\[struct\]int: (read|store)$`), observe: re(`^Go panic reached Run: PANIC: invalid conversion of "abc" to reflect\.Kind: struct$`)},
		latSig{part: "special", cases: re(`^nil map: store$`), observe: re(`^Go panic reached Run: PANIC: assignment to entry in nil map$`)},
	))
	engine.RegisterSignature("c16-struct-member-guards-missing", anyOf(
		latSig{part: "special", cases: re(`^stale alias of a pointer field set to null$`), observe: re(`^Go panic reached Run: PANIC: reflect: call of reflect\.Value\.Type on zero Value$`)},
		latSig{part: "special", cases: re(`^embedded nil \*struct: promoted field (read|write)$`), observe: re(`^Go panic reached Run: PANIC: reflect: indirection through nil pointer to embedded struct$`)},
		latSig{part: "special", cases: re(`^(struct bridged by value|struct returned by value): field write$|^field write through a (slice element|map value)$`), observe: re(`^Go panic reached Run: PANIC: reflect: reflect\.Value\.Set using unaddressable value$`)},
		latSig{part: "use", shapes: containerShapes, elems: []string{"LIn"}, cases: re(`^nested field write$`), observe: re(`^Go panic reached Run: PANIC: reflect: reflect\.Value\.Set using unaddressable value$`)},
		latSig{part: "special", cases: re(`^json:"-" field: write then read$`), observe: re(`^the write completed: script reads d:2, Go side 1 2 `)},
		latSig{part: "special", cases: re(`^embedded \*struct: promoted field write$`), observe: re(`^the write completed: script reads d:1, Go side 1 `)},
		latSig{part: "special", cases: re(`^method name: assignment$`), observe: re(`^assignment to a method name completed and was dropped silently \(typeof gives s:function\)$`)},
	))
	engine.RegisterSignature("c16-nil-func-and-callback-throw-panic", anyOf(
		latSig{part: "special", cases: re(`^nil func (value: call|field: typeof and call)$`), observe: re(`^Go panic reached Run: PANIC: reflect\.Value\.Call: call of nil function$`)},
		latSig{part: "special", cases: re(`^callback throws ("boom"|1|null|undefined|\{a:1\}) \((un)?caught\)$`), observe: re(`^Go panic reached Run: PANIC: (boom|1|null|undefined|\[object Object\])$`)},
	))
	engine.RegisterSignature("c16-slice-field-push-lost", anyOf(
		latSig{part: "special", cases: re(`^push on a slice field$`), observe: re(`^the write completed: script reads d:2, Go side 2 1 1 1 true `)},
		latSig{part: "use", shapes: []string{"field"}, elems: []string{"[]int"}, cases: re(`^push$`), observe: re(`^push completed: Go len=2, script reads length d:2$`)},
	))
	engine.RegisterSignature("c16-nested-slice-push-lost", anyOf(
		latSig{part: "special", cases: re(`^push on a slice held in a map$`), observe: re(`^the write completed: script reads d:1, Go side 2 1 1 1 true `)},
		latSig{part: "use", shapes: containerShapes, elems: []string{"[]int"}, cases: re(`^push$`), observe: re(`^push completed: Go len=2, script reads length d:2$`)},
	))
	engine.RegisterSignature("c16-promoted-field-shadows-own", anyOf(
		latSig{part: "special", cases: re(`^outer field shadows promoted field: read$`), observe: re(`^reads ok d:1, want d:2$`)},
		latSig{part: "special", cases: re(`^outer field shadows promoted field: write$`), observe: re(`^the write completed: script reads d:7, Go side 2 7 `)},
	))
	engine.RegisterSignature("c16-map-key-alias-names", anyOf(
		latSig{part: "special", cases: re(`^map\[int\]string: name (\+8|-0|00|010|0b1000|0x10|1_6)$`), observe: re(`^reads ok s:[abz],true, want s:,false$`)},
		latSig{part: "special", cases: re(`^map\[bool\]string: name (1|t|T|TRUE|True)$`), observe: re(`^reads ok s:yes,true, want s:,false$`)},
		latSig{part: "special", cases: re(`^map\[int\]string: store under alias name$`), observe: re(`^store under the name "010" left the Go map as map\[0:z 8:w 16:b\]$`)},
	))
	engine.RegisterSignature("c16-number-to-string-go-format-store", anyOf(
		latSig{part: "store", shapes: []string{"field"}, elems: []string{"string", "LColor"}, observe: re(`^stored (string|c16\.LColor)\("\+Inf"\)$`)},
	))
	engine.RegisterSignature("c16-promoted-field-depth-rule", anyOf(
		latSig{part: "special", cases: re(`^promoted fields: the shallower one wins \(read\)$`), observe: re(`^reads ok d:1, want d:2$`)},
		latSig{part: "special", cases: re(`^promoted fields: the shallower one wins \(write\)$`), observe: re(`^the write completed: script reads d:7, Go side 2 7 `)},
	))
	engine.RegisterSignature("c16-non-ascii-exported-field-hidden", anyOf(
		latSig{part: "special", cases: re(`^exported field with a non-ASCII capital: read$`), observe: re(`^reads ok s:,,A, want `)},
		latSig{part: "special", cases: re(`^exported field with a non-ASCII capital: write$`), observe: re(`^the write completed: script reads d:4, Go side 3 w 1 `)},
	))
	engine.RegisterSignature("c16-pointer-field-wrapper-tracks-slot", anyOf(
		latSig{part: "special", cases: re(`^alias of a pointer field after replacement$`), observe: re(`^reads ok s:2,2, want s:1,2$`)},
		latSig{part: "special", cases: re(`^alias of a pointer field after the field is set to null$`), observe: re(`^the retained reference reads u `)},
	))
	engine.RegisterSignature("c16-defineproperty-on-go-field-noop", anyOf(
		latSig{part: "special", cases: re(`^Object\.defineProperty on a Go field \(value\)$`), observe: re(`^the write completed: script reads d:1, Go side 3 w 1 `)},
		latSig{part: "special", cases: re(`^Object\.defineProperty on a Go field \(inconvertible value\)$`), observe: re(`^defineProperty with an inconvertible value: ok d:1, Go side 3 w 1$`)},
	))
	engine.RegisterSignature("c16-go-integer-copied-through-float64", anyOf(
		latSig{part: "special", cases: re(`^copy int64 2\^53\+1 between elements$`), observe: re(`^the write completed: script reads d:0, Go side 9007199254740992 0 `)},
	))
}

var _ = strings.HasPrefix
