// Package c16 checks that bridged Go functions, structs, maps and slices
// convert exactly or fail loudly: the full conversion matrix (parameter type x
// position x JavaScript argument), arity mismatches and multi-return shapes,
// and breadth-first histories of script-side and Go-side operations on live
// bridged containers with both views compared after every step.
package c16

import (
	"time"

	"verif/mc/checks/brig"
	"verif/mc/engine"
)

func init() {
	engine.Register(&engine.Check{
		ID:    "C16",
		Title: "Bridged Go functions, structs, maps and slices convert exactly or fail loudly",
		Rule: "matrix (E1 full product): 33 Go parameter types (bool, every int/uint width, float32/64, string, interface{}, otto.Value, []int, []string, " +
			"[]interface{}, []byte, [][]int, [2]int, three map types, S, *S, *int, func(int) int, func() (int, error), json.RawMessage, MyInt, time.Duration) x " +
			"{sole, second of two, variadic tail with 0/1/2 extras, array as last argument} x 129 JS arguments (every integer type's min-1/min/max/max+1 both as " +
			"int64 literal and as double, float32 boundaries, NaN/Infinity/-0, strings, booleans, null, undefined, objects, arrays with holes/mixed kinds/nesting, " +
			"functions, Date, boxed primitives, 15 Go values handed to the script and passed back); every cell is executed plain and inside try and judged by " +
			"loudOK/match (exact or loud). arity: 7 signatures x 0..n+2 arguments; returns: 18 multi-return shapes. callhist: call histories (every sequence of 2 and 3 argument pairs) on one wrapped Go function per result shape, under one name, " +
			"two names and in two runtimes, with results held across calls and read again at the end; retained variadic slices, returned funcs, legitimately shared slices, re-entrant Go->JS->Go calls. histories (E2): breadth-first over " +
			"script-side operations (write k<-v, delete k, length=n, push, pop, method calls) and Go-side operations (set, insert, delete, append, reslice) on 7 live " +
			"containers, sharded by (container, first operation), states deduplicated on (Go contents, script-held header, aliasing, script-only properties); " +
			"every transition is replayed on a fresh container and judged by the transition relation plus view coherence (traversal, Object.keys, for-in, " +
			"JSON.stringify, length, read and in for every key of the alphabet); Go-side alphabets include size-preserving replacements (delete one key + insert another as one " +
			"operation and as two, same-length slice/array replacement in place and of the Go variable); every path of length >= 2 is replayed a second time observing " +
			"(enumerating) only the initial and the final state, which must equal the fully observed replay (enumerate / mutate / enumerate); depth 3 for the map containers also in quick. lethal: delete of non-index keys on slices/arrays, each in a child process. retained: var c = <slot> for 5 holder slots (pointer field, nested pointer field, map value, slice element, interface field) x every sequence of 1 and 2 of 7 operations (re-point / nil the slot from script and from Go, rename the pointees through the reference, the slot and Go), all views against a Go pointer model after every step; samenamed: ordered pairs and triples of 6 distinct struct types printing the same name with different layouts in one runtime, fields read / tested / written by name with the Go side read after every write, object -> struct parameter, each observed again after the others. " +
			"A matrix cell is non-trivial when the callee was reached; a history transition when the operation completed without throwing.",
		Families: []engine.Family{
			{Name: "matrix", Run: runMatrix},
			{Name: "arity", Run: runArity},
			{Name: "returns", Run: runReturns},
			{Name: "callhist", Run: runCallHist},
			{Name: "alias", Run: runAlias},
			{Name: "objstruct", Run: runObjStruct},
			{Name: "variadic", Run: runVariadic},
			{Name: "lattice", Run: runLattice},
			{Name: "sliceref", Run: brig.RunSliceRef},
			{Name: "restore", Run: brig.RunReentrantStore},
			{Name: "earlyexit", Run: brig.RunEarlyExit},
			{Name: "mapkeys", Run: brig.RunMapKeys},
			{Name: "kindtwins", Run: func(r *engine.Run) { brig.RunKindTwins(r, true) }},
			{Name: "retained", Run: brig.RunRetained},
			{Name: "samenamed", Run: brig.RunSameNamed},
			{Name: "histories", Run: runHistories},
			{Name: "lethal", Run: runLethal},
		},
		Assumptions: []string{
			"model (checks/c16/model.go over ref/bridge): a JS number denotes a Go numeric value iff it is exactly representable in the target kind (integers in range without fraction; float32 iff float64(float32(x)) == x); strings denote themselves; containers element-wise",
			"lenient conversions otto implements and the statement does not forbid are accepted next to a loud failure: ToBoolean for bool, ToString/any exact numeral for string, null/undefined as nil or zero value, ToNumber of primitives when exact, arrays as map[string]T",
			"a loud failure is: Run returns (or catch receives) a TypeError or RangeError, the callee was not invoked, no Go panic crosses Run",
			"numbers that came from a Go integer kind and are not doubles may be read as the exact integer or as the double the script sees",
		},
		CrashIsViolation: true,
		QuickBudget:      80 * time.Second,
		ThoroughBudget:   12 * time.Minute,
	})
}
