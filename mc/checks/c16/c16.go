// Package c16 checks that bridged Go functions, structs, maps and slices
// convert exactly or fail loudly: the full conversion matrix (parameter type x
// position x JavaScript argument), arity mismatches and multi-return shapes,
// and breadth-first histories of script-side and Go-side operations on live
// bridged containers with both views compared after every step.
package c16

import (
	"time"

	"verif/mc/engine"
)

func init() {
	engine.Register(&engine.Check{
		ID:    "C16",
		Title: "Bridged Go functions, structs, maps and slices convert exactly or fail loudly",
		Rule: "matrix (E1 full product): 34 Go parameter types x {sole, second of two, variadic tail with 1/2 extras, array as last argument, no extras} x " +
			"the JS argument alphabet (every integer type's min-1/min/max/max+1 as int64 literal and as double, float32 boundaries, strings, booleans, null, undefined, " +
			"objects, arrays with holes/mixed kinds, functions, Date, boxed primitives, bridged Go values passed back); every cell executed plain and inside try. " +
			"arity: signatures x argument counts; returns: multi-return shapes. histories (E2): BFS over script-side and Go-side operations on 7 live containers, " +
			"states deduplicated on the Go container's contents (+ the script-held alias after reallocation), every transition replayed on a fresh runtime and both views compared. " +
			"A matrix cell is non-trivial when the callee was reached; a history transition is non-trivial when the operation completed without throwing.",
		Families: []engine.Family{
			{Name: "matrix", Run: runMatrix},
			{Name: "arity", Run: runArity},
			{Name: "returns", Run: runReturns},
			{Name: "histories", Run: runHistories},
			{Name: "lethal", Run: runLethal},
		},
		Assumptions: []string{
			"model (checks/c16/model.go over ref/bridge): a JS number denotes a Go numeric value iff it is exactly representable in the target kind (integers in range without fraction; float32 iff float64(float32(x)) == x); strings denote themselves; containers element-wise",
			"lenient conversions otto implements and the statement does not forbid are accepted next to a loud failure: ToBoolean for bool, ToString/any exact numeral for string, null/undefined as nil or zero value, ToNumber of primitives when exact, arrays as map[string]T",
			"a loud failure is: Run returns (or catch receives) a TypeError or RangeError, the callee was not invoked, no Go panic crosses Run",
			"numbers that came from a Go integer kind and are not doubles may be read as the exact integer or as the double the script sees",
		},
		CrashIsViolation: true,
		QuickBudget:      80 * time.Second,
		ThoroughBudget:   12 * time.Minute,
	})
}
