package c16

import (
	"fmt"
	"reflect"
	"strings"

	"verif/mc/checks/brig"
	"verif/mc/engine"
	"verif/mc/ox"
	"verif/mc/ref/bridge"
)

// variadic: what a Go ...T parameter receives when the variadic position is
// filled by different CARRIERS of the same two elements - a JS array literal, a
// bridged []T, a bridged [2]T, an array-like object, an arguments object, a
// nested array - for several element types and call shapes (only the variadic
// argument, fixed + variadic, spread through Function.prototype.apply).
// Reference: an array (literal or bridged Go slice/array of the element type) in
// the last position IS the tail (the call wrapper documents that), so the callee
// sees the two elements; a bridged []T is handed over live, so what the callee
// writes into the tail is visible in the Go slice afterwards. For the other
// carriers the statement is silent: spread, one element, or a loud refusal are
// accepted, a Go panic or anything else is not.

type vaElem struct {
	name   string
	t      reflect.Type
	a, b   interface{}
	srcA   string
	srcB   string
	marker interface{}
}

func vaElems() []vaElem {
	return []vaElem{
		{"string", reflect.TypeOf(""), "g1", "g2", `"g1"`, `"g2"`, "MARK"},
		{"int", reflect.TypeOf(0), 7, 8, "7", "8", 99},
		{"bool", reflect.TypeOf(false), true, false, "true", "false", true},
		{"float64", reflect.TypeOf(0.0), 0.5, 1.5, "0.5", "1.5", 9.25},
		{"interface{}", tIface, "g1", 8, `"g1"`, "8", "MARK"},
	}
}

func runVariadic(r *engine.Run) {
	elems := vaElems()
	carriers := []string{"literal", "bridged slice", "bridged array", "array-like object", "arguments object", "nested array"}
	shapes := []string{"only", "fixed+variadic", "apply"}
	r.Bound("element_types", fmt.Sprint(len(elems)))
	r.Bound("carriers", strings.Join(carriers, ", "))
	r.Bound("shapes", strings.Join(shapes, ", "))
	var g *brig.Rig
	for _, e := range elems {
		for _, carrier := range carriers {
			for _, shape := range shapes {
				key := e.name + "/" + carrier + "/" + shape
				if !r.MineKey(key) {
					continue
				}
				if g == nil {
					g = brig.NewRig()
				}
				st := reflect.SliceOf(e.t)
				var tail reflect.Value
				called := 0
				fixed := ""
				only := reflect.MakeFunc(reflect.FuncOf([]reflect.Type{st}, []reflect.Type{reflect.TypeOf(0)}, true), func(a []reflect.Value) []reflect.Value {
					called++
					tail = reflect.MakeSlice(st, a[0].Len(), a[0].Len())
					reflect.Copy(tail, a[0])
					if a[0].Len() > 0 {
						a[0].Index(0).Set(reflect.ValueOf(e.marker).Convert(e.t))
					}
					return []reflect.Value{reflect.ValueOf(a[0].Len())}
				})
				withFixed := reflect.MakeFunc(reflect.FuncOf([]reflect.Type{reflect.TypeOf(""), st}, []reflect.Type{reflect.TypeOf(0)}, true), func(a []reflect.Value) []reflect.Value {
					called++
					fixed = a[0].String()
					tail = reflect.MakeSlice(st, a[1].Len(), a[1].Len())
					reflect.Copy(tail, a[1])
					if a[1].Len() > 0 {
						a[1].Index(0).Set(reflect.ValueOf(e.marker).Convert(e.t))
					}
					return []reflect.Value{reflect.ValueOf(a[1].Len())}
				})
				gs := reflect.MakeSlice(st, 2, 2)
				gs.Index(0).Set(reflect.ValueOf(e.a))
				gs.Index(1).Set(reflect.ValueOf(e.b))
				ga := reflect.New(reflect.ArrayOf(2, e.t)).Elem()
				ga.Index(0).Set(reflect.ValueOf(e.a))
				ga.Index(1).Set(reflect.ValueOf(e.b))
				g.VM.Set("f", only.Interface())
				g.VM.Set("h", withFixed.Interface())
				g.VM.Set("gs", gs.Interface())
				g.VM.Set("ga", ga.Interface())
				var x string
				switch carrier {
				case "literal":
					x = "[" + e.srcA + ", " + e.srcB + "]"
				case "bridged slice":
					x = "gs"
				case "bridged array":
					x = "ga"
				case "array-like object":
					x = "({length: 2, 0: " + e.srcA + ", 1: " + e.srcB + "})"
				case "arguments object":
					x = "(function(){ return arguments })(" + e.srcA + ", " + e.srcB + ")"
				case "nested array":
					x = "[[" + e.srcA + ", " + e.srcB + "]]"
				}
				var call string
				switch shape {
				case "only":
					call = "f(" + x + ")"
				case "fixed+variadic":
					call = `h("p", ` + x + ")"
				case "apply":
					call = "f.apply(null, " + x + ")"
				}
				r.Begin(key)
				res := ox.Run(g.VM, call)
				r.End()
				outcome := "ok"
				switch {
				case res.Panicked:
					outcome = "PANIC: " + brig.OneLine(fmt.Sprint(res.PanicVal))
					g = nil
				case res.Err != nil:
					c := ox.ErrClass(res.Err)
					outcome = "error: " + c
					if c == "TypeError" || c == "RangeError" {
						outcome = "loud"
					}
				}
				spread := reflect.MakeSlice(st, 2, 2)
				spread.Index(0).Set(reflect.ValueOf(e.a))
				spread.Index(1).Set(reflect.ValueOf(e.b))
				wantTail := bridge.FromExport(spread.Interface()).Canon() // by value: numbers in interface{} slots may be int64
				gotTail := "<callee not called>"
				if called == 1 && tail.IsValid() {
					gotTail = bridge.FromExport(tail.Interface()).Canon()
				} else if called > 1 {
					gotTail = fmt.Sprintf("<callee called %d times>", called)
				}
				exp, got := brig.NewObs(), brig.NewObs()
				strict := carrier == "literal" || carrier == "bridged slice" || carrier == "bridged array"
				got.Put("outcome", outcome)
				got.Put("tail", gotTail)
				switch {
				case strict:
					exp.Put("outcome", "ok")
					exp.Put("tail", wantTail)
					if shape == "fixed+variadic" {
						exp.Put("fixed", "p")
						got.Put("fixed", fixed)
					}
					if carrier == "bridged slice" && shape != "apply" {
						// the live Go slice was the tail: the callee's write is visible
						after := reflect.MakeSlice(st, 2, 2)
						reflect.Copy(after, spread)
						after.Index(0).Set(reflect.ValueOf(e.marker).Convert(e.t))
						exp.Put("Go slice after the call", bridge.FromExport(after.Interface()).Canon())
						got.Put("Go slice after the call", bridge.FromExport(gs.Interface()).Canon())
					}
				default:
					// spread, one element, or a loud refusal
					okay := outcome == "loud" && called == 0
					if outcome == "ok" && called == 1 && (gotTail == wantTail || tail.Len() == 1) {
						okay = true
					}
					exp.Put("outcome", outcome)
					exp.Put("tail", gotTail)
					if !okay {
						exp.Put("outcome", "ok with the elements spread or as one element, or a TypeError/RangeError with the callee not called")
					}
				}
				r.Eval(outcome == "ok")
				r.Tree(1, 1)
				r.Outcome(outcome + "|" + gotTail)
				if r.WantSample() && strict {
					r.Sample(e.name + ": " + call + " => tail " + gotTail)
				}
				brig.Compare(r, key, "func(..."+e.name+"): "+call, exp, got, map[string]string{"elem": e.name, "carrier": carrier, "shape": shape})
			}
		}
	}
}
