package c16

import (
	"encoding/json"
	"errors"
	"fmt"
	"strings"

	"github.com/robertkrimen/otto"

	"verif/mc/checks/brig"
	"verif/mc/engine"
	"verif/mc/ox"
)

// callhist: call HISTORIES on one wrapped Go function. A bridged function is
// called two or three times with different arguments while the script keeps the
// earlier results (multi-return lists, returned slices/maps/structs/pointers,
// returned funcs), while the Go side keeps the argument slices it was given,
// with the same wrapper under two names, the same Go function in two runtimes
// and re-entrantly (Go -> JS -> the same Go function). Every result is recorded
// immediately after its call and again at the end of the history: both must be
// what the plain Go function returns for those arguments - no aliasing between
// calls unless the Go values themselves alias.

type chArgs [2]int

var chAlphabet = []chArgs{{17, 5}, {9, 4}, {1, 1}, {0, 3}, {-7, 2}}

type chShape struct {
	name string
	fn   func(st *chState) interface{}
	// model: the JSON the script must see for one call with these arguments
	model func(a chArgs) string
}

type chState struct {
	kept   [][]int // variadic slices the callee retained
	shared []int   // a slice the callee hands out again and again (legitimate aliasing)
	calls  int
}

func js(v interface{}) string {
	b, _ := json.Marshal(v)
	return string(b)
}

func chShapes() []chShape {
	return []chShape{
		{"divmod(int,int)(int,int)", func(*chState) interface{} { return func(a, b int) (int, int) { return a / b, a % b } },
			func(a chArgs) string { return js([]int{a[0] / a[1], a[0] % a[1]}) }},
		{"(int,string)", func(*chState) interface{} {
			return func(a, b int) (int, string) { return a + b, fmt.Sprint(a, "/", b) }
		},
			func(a chArgs) string { return js([]interface{}{a[0] + a[1], fmt.Sprint(a[0], "/", a[1])}) }},
		{"(int,int,int)", func(*chState) interface{} { return func(a, b int) (int, int, int) { return a, b, a * b } },
			func(a chArgs) string { return js([]int{a[0], a[1], a[0] * a[1]}) }},
		{"(S,[]int)", func(*chState) interface{} {
			return func(a, b int) (S, []int) { return S{A: a, B: fmt.Sprint(b)}, []int{a, b} }
		}, func(a chArgs) string {
			return js([]interface{}{map[string]interface{}{"A": a[0], "B": fmt.Sprint(a[1])}, []int{a[0], a[1]}})
		}},
		{"(int,error)", func(*chState) interface{} {
			return func(a, b int) (int, error) {
				if b > a {
					return 0, errors.New("b>a")
				}
				return a - b, nil
			}
		}, func(a chArgs) string {
			if a[1] > a[0] {
				return `[0,{}]`
			}
			return js([]interface{}{a[0] - a[1], nil})
		}},
		{"[]int", func(*chState) interface{} { return func(a, b int) []int { return []int{a, b, a + b} } },
			func(a chArgs) string { return js([]int{a[0], a[1], a[0] + a[1]}) }},
		{"map[string]int", func(*chState) interface{} {
			return func(a, b int) map[string]int { return map[string]int{"a": a, "b": b} }
		},
			func(a chArgs) string { return js(map[string]int{"a": a[0], "b": a[1]}) }},
		{"*S", func(*chState) interface{} { return func(a, b int) *S { return &S{A: a * b, B: "p"} } },
			func(a chArgs) string { return js(map[string]interface{}{"A": a[0] * a[1], "B": "p"}) }},
		{"([]int,map,*S)", func(*chState) interface{} {
			return func(a, b int) ([]int, map[string]int, *S) { return []int{a}, map[string]int{"b": b}, &S{A: a + b} }
		}, func(a chArgs) string {
			return js([]interface{}{[]int{a[0]}, map[string]int{"b": a[1]}, map[string]interface{}{"A": a[0] + a[1], "B": ""}})
		}},
	}
}

// script helpers: snap(v) is the JSON of a value as the script sees it NOW.
const chPrelude = `
function snap(v) { return JSON.stringify(v); }
`

func chSequences(thorough bool) [][]chArgs {
	var out [][]chArgs
	for _, a := range chAlphabet {
		for _, b := range chAlphabet {
			out = append(out, []chArgs{a, b})
		}
	}
	n := 3
	if thorough {
		n = len(chAlphabet)
	}
	for _, a := range chAlphabet[:n] {
		for _, b := range chAlphabet[:n] {
			for _, c := range chAlphabet[:n] {
				out = append(out, []chArgs{a, b, c})
			}
		}
	}
	return out
}

func seqName(seq []chArgs) string {
	parts := make([]string, len(seq))
	for i, a := range seq {
		parts[i] = fmt.Sprintf("(%d,%d)", a[0], a[1])
	}
	return strings.Join(parts, "")
}

func runScript(vm *otto.Otto, src string) string {
	res := ox.Run(vm, src)
	switch {
	case res.Panicked:
		return "PANIC: " + brig.OneLine(fmt.Sprint(res.PanicVal))
	case res.Err != nil:
		return "error: " + res.Err.Error()
	}
	s, _ := res.Value.ToString()
	return s
}

func canonJSONList(s string) string {
	var x interface{}
	if err := json.Unmarshal([]byte(s), &x); err != nil {
		return "unparseable: " + s
	}
	b, _ := json.Marshal(x) // map keys sorted
	return string(b)
}

func runCallHist(r *engine.Run) {
	shapes := chShapes()
	seqs := chSequences(r.Thorough())
	r.Bound("shapes", fmt.Sprint(len(shapes)))
	r.Bound("call_sequences", fmt.Sprint(len(seqs))+" (length 2 and 3)")
	check := func(key, input string, exp, got *brig.Obs) {
		r.Eval(!strings.HasPrefix(got.M["immediately"], "PANIC") && !strings.HasPrefix(got.M["immediately"], "error"))
		r.Tree(1, 1)
		r.Outcome(got.String())
		if r.WantSample() {
			r.Sample(input + " => " + got.M["at the end"])
		}
		brig.Compare(r, key, input, exp, got, map[string]string{"family": "callhist"})
	}
	// 1. held results of successive calls, one wrapper
	for _, sh := range shapes {
		for _, seq := range seqs {
			for _, mode := range []string{"one-name", "two-names", "two-runtimes"} {
				key := sh.name + "/" + mode + "/" + seqName(seq)
				if !r.MineKey(key) {
					continue
				}
				r.Begin(key)
				st := &chState{}
				fn := sh.fn(st)
				vm := otto.New()
				ox.Run(vm, chPrelude)
				vm2 := vm
				names := []string{"f", "f", "f"}
				switch mode {
				case "one-name":
					vm.Set("f", fn)
				case "two-names":
					w, _ := vm.ToValue(fn) // ONE wrapper under two names
					vm.Set("f", w)
					vm.Set("g", w)
					names = []string{"f", "g", "f"}
				case "two-runtimes":
					vm.Set("f", fn)
					vm2 = otto.New()
					ox.Run(vm2, chPrelude)
					vm2.Set("f", fn)
				}
				var src strings.Builder
				src.WriteString("var now = [], r = [];\n")
				want := make([]string, len(seq))
				for i, a := range seq {
					fmt.Fprintf(&src, "r[%d] = %s(%d, %d); now.push(snap(r[%d]));\n", i, names[i], a[0], a[1], i)
					want[i] = canonJSONList(sh.model(a))
				}
				src.WriteString("var end = []; for (var i = 0; i < r.length; i++) end.push(snap(r[i]));\n")
				src.WriteString("var distinct = true; for (var i = 0; i < r.length; i++) for (var j = i + 1; j < r.length; j++) if (typeof r[i] === 'object' && r[i] === r[j]) distinct = false;\n")
				src.WriteString("JSON.stringify({now: now, end: end, distinct: distinct})")
				var out string
				if mode == "two-runtimes" {
					// the same calls alternate between two runtimes sharing the Go function
					var nowL, endL []string
					for i, a := range seq {
						v := vm
						if i%2 == 1 {
							v = vm2
						}
						runScript(v, "var r = r || [];")
						nowL = append(nowL, runScript(v, fmt.Sprintf("r[%d] = f(%d, %d); snap(r[%d])", i, a[0], a[1], i)))
					}
					for i := range seq {
						v := vm
						if i%2 == 1 {
							v = vm2
						}
						endL = append(endL, runScript(v, fmt.Sprintf("snap(r[%d])", i)))
					}
					out = js(map[string]interface{}{"now": nowL, "end": endL, "distinct": true})
				} else {
					out = runScript(vm, src.String())
				}
				r.End()
				exp, got := brig.NewObs(), brig.NewObs()
				var o struct {
					Now, End []string
					Distinct bool
				}
				if err := json.Unmarshal([]byte(out), &o); err != nil {
					got.Put("immediately", out)
					exp.Put("immediately", strings.Join(want, " "))
				} else {
					for i := range o.Now {
						o.Now[i] = canonJSONList(o.Now[i])
					}
					for i := range o.End {
						o.End[i] = canonJSONList(o.End[i])
					}
					exp.Put("immediately", strings.Join(want, " "))
					got.Put("immediately", strings.Join(o.Now, " "))
					exp.Put("at the end", strings.Join(want, " "))
					got.Put("at the end", strings.Join(o.End, " "))
					exp.Put("distinct result objects", "true")
					got.Put("distinct result objects", fmt.Sprint(o.Distinct))
				}
				check(key, sh.name+" ["+mode+"]: "+strings.ReplaceAll(src.String(), "\n", " "), exp, got)
			}
		}
	}
	// 2. special histories
	for _, seq := range seqs {
		name := seqName(seq)
		// 2a. variadic argument slices retained by the callee
		if key := "keep(...int)/" + name; r.MineKey(key) {
			r.Begin(key)
			st := &chState{}
			vm := otto.New()
			vm.Set("keep", func(xs ...int) int { st.kept = append(st.kept, xs); return len(xs) })
			var src strings.Builder
			var want [][]int
			for _, a := range seq {
				fmt.Fprintf(&src, "keep(%d, %d, %d); keep([%d, %d]); ", a[0], a[1], a[0]+a[1], a[1], a[0])
				want = append(want, []int{a[0], a[1], a[0] + a[1]}, []int{a[1], a[0]})
			}
			out := runScript(vm, src.String()+"'done'")
			r.End()
			exp, got := brig.NewObs(), brig.NewObs()
			exp.Put("immediately", "done")
			got.Put("immediately", out)
			exp.Put("at the end", js(want))
			got.Put("at the end", js(st.kept))
			check(key, "func(xs ...int) retains xs: "+src.String(), exp, got)
		}
		// 2b. returned funcs called later
		if key := "mk(int)func(int)int/" + name; r.MineKey(key) {
			r.Begin(key)
			vm := otto.New()
			vm.Set("mk", func(n, m int) (func(int) int, int) { return func(x int) int { return x*n + m }, n })
			var src strings.Builder
			src.WriteString("var fs = [], out = [];\n")
			var want []int
			for i, a := range seq {
				fmt.Fprintf(&src, "fs[%d] = mk(%d, %d);\n", i, a[0], a[1])
				_ = i
			}
			for i, a := range seq {
				fmt.Fprintf(&src, "out.push(fs[%d][0](3), fs[%d][1]);\n", i, i)
				want = append(want, 3*a[0]+a[1], a[0])
			}
			src.WriteString("JSON.stringify(out)")
			out := runScript(vm, src.String())
			r.End()
			exp, got := brig.NewObs(), brig.NewObs()
			exp.Put("immediately", js(want))
			got.Put("immediately", out)
			check(key, strings.ReplaceAll(src.String(), "\n", " "), exp, got)
		}
		// 2c. legitimate aliasing: the Go function hands out the SAME slice every time
		if key := "shared()[]int/" + name; r.MineKey(key) {
			r.Begin(key)
			st := &chState{shared: []int{0, 0}}
			vm := otto.New()
			ox.Run(vm, chPrelude)
			vm.Set("shared", func(a, b int) ([]int, int) { st.shared[0], st.shared[1] = a, b; return st.shared, a })
			var src strings.Builder
			src.WriteString("var r = [], now = [];\n")
			var wantNow, wantEnd []string
			last := seq[len(seq)-1]
			for i, a := range seq {
				fmt.Fprintf(&src, "r[%d] = shared(%d, %d); now.push(snap(r[%d]));\n", i, a[0], a[1], i)
				wantNow = append(wantNow, js([]interface{}{[]int{a[0], a[1]}, a[0]}))
				wantEnd = append(wantEnd, js([]interface{}{[]int{last[0], last[1]}, a[0]})) // the slice aliases, the int does not
			}
			src.WriteString("var end = []; for (var i = 0; i < r.length; i++) end.push(snap(r[i]));\nJSON.stringify({now: now, end: end})")
			out := runScript(vm, src.String())
			r.End()
			exp, got := brig.NewObs(), brig.NewObs()
			var o struct{ Now, End []string }
			if err := json.Unmarshal([]byte(out), &o); err != nil {
				got.Put("immediately", out)
				exp.Put("immediately", strings.Join(wantNow, " "))
			} else {
				exp.Put("immediately", strings.Join(wantNow, " "))
				got.Put("immediately", strings.Join(o.Now, " "))
				exp.Put("at the end", strings.Join(wantEnd, " "))
				got.Put("at the end", strings.Join(o.End, " "))
			}
			check(key, strings.ReplaceAll(src.String(), "\n", " "), exp, got)
		}
		// 2d. re-entrant: the Go function calls back into the script, which calls the same Go function
		if key := "nest(int,cb)(int,int)/" + name; r.MineKey(key) {
			r.Begin(key)
			vm := otto.New()
			var nest func(n int, tag int, cb otto.Value) (int, int)
			nest = func(n int, tag int, cb otto.Value) (int, int) {
				if n > 0 {
					if _, err := cb.Call(otto.UndefinedValue(), n-1, tag); err != nil {
						panic(err)
					}
				}
				return n, n*100 + tag
			}
			vm.Set("nest", nest)
			depth := len(seq)
			src := fmt.Sprintf("var log = []; function cb(k, tag) { var r = nest(k, tag + 1, cb); log.push(r); return 0; } "+
				"var top = nest(%d, %d, cb); log.push(top); JSON.stringify(log)", depth, seq[0][0])
			var want [][]int
			for k := 0; k <= depth; k++ {
				want = append(want, []int{k, k*100 + seq[0][0] + (depth - k)})
			}
			out := runScript(vm, src)
			r.End()
			exp, got := brig.NewObs(), brig.NewObs()
			exp.Put("immediately", js(want))
			got.Put("immediately", out)
			check(key, src, exp, got)
		}
	}
}
