package c16

import (
	"encoding/json"
	"fmt"
	"reflect"
	"regexp"
	"sort"
	"strconv"
	"strings"

	"github.com/robertkrimen/otto"

	"verif/mc/checks/brig"
	"verif/mc/engine"
	"verif/mc/ox"
	"verif/mc/ref/bridge"
)

// ---------------------------------------------------------------------------
// live containers

type ckind int

const (
	kStruct ckind = iota
	kMapSI
	kMapIS
	kSliceI
	kSliceS
	kArrPtr
	kArrVal
	kMapNamed
)

var kindNames = []string{"*H", "map[string]int", "map[int]string", "[]int", "[]string", "*[3]int", "[3]int", "NM(map[string]int with method Total)"}

// NM is a named map type with a method: an entry may have the method's name.
type NM map[string]int

func (m NM) Total() int {
	t := 0
	for _, v := range m {
		t += v
	}
	return t
}

// names every object inherits from Object.prototype (reads give the inherited
// function unless the map has such an entry)
var inheritedNames = map[string]bool{"toString": true, "hasOwnProperty": true, "constructor": true, "valueOf": true}

// H is the bridged struct of the histories.
type H struct {
	A int
	B string
	C []int
	d int
	E int `json:"e"`
}

func (h H) Sum() int   { return h.A + h.E }
func (h *H) Bump() int { h.A++; return h.A }

type goOp struct {
	name string
	do   func()
}

// live is one freshly built container: what is handed to the script and how the
// Go side reads and mutates it afterwards.
type live struct {
	kind  ckind
	setv  interface{}
	gov   func() reflect.Value
	goOps []goOp
}

func freshLive(k ckind) *live {
	lv := &live{kind: k}
	switch k {
	case kStruct:
		h := &H{A: 1, B: "b", C: []int{1, 2}, d: 4, E: 5}
		lv.setv = h
		lv.gov = func() reflect.Value { return reflect.ValueOf(h) }
		lv.goOps = []goOp{
			{"go:A=9", func() { h.A = 9 }},
			{"go:B=gb", func() { h.B = "gb" }},
			{"go:C=append(C,7)", func() { h.C = append(h.C, 7) }},
			{"go:d=6", func() { h.d = 6 }},
			{"go:E=-3", func() { h.E = -3 }},
		}
	case kMapSI:
		m := map[string]int{"a": 1, "b": 2}
		lv.setv = m
		lv.gov = func() reflect.Value { return reflect.ValueOf(m) }
		lv.goOps = []goOp{
			{"go:m[n]=5", func() { m["n"] = 5 }},
			{"go:delete(m,a)", func() { delete(m, "a") }},
			{"go:m[a]=7", func() { m["a"] = 7 }},
			// size-preserving replacements: one key leaves, another arrives
			{"go:delete(m,a);m[c]=3", func() { delete(m, "a"); m["c"] = 3 }},
			{"go:m[c]=3", func() { m["c"] = 3 }},
		}
	case kMapNamed:
		m := NM{"a": 1, "Total": 40}
		lv.setv = m
		lv.gov = func() reflect.Value { return reflect.ValueOf(m) }
		lv.goOps = []goOp{
			{"go:m[Total]=7", func() { m["Total"] = 7 }},
			{"go:delete(m,Total)", func() { delete(m, "Total") }},
			{"go:m[toString]=3", func() { m["toString"] = 3 }},
			{"go:delete(m,a);m[length]=2", func() { delete(m, "a"); m["length"] = 2 }},
		}
	case kMapIS:
		m := map[int]string{1: "one", 3: "three"}
		lv.setv = m
		lv.gov = func() reflect.Value { return reflect.ValueOf(m) }
		lv.goOps = []goOp{
			{"go:m[2]=two", func() { m[2] = "two" }},
			{"go:delete(m,1)", func() { delete(m, 1) }},
			{"go:m[1]=uno", func() { m[1] = "uno" }},
			{"go:delete(m,1);m[4]=four", func() { delete(m, 1); m[4] = "four" }},
		}
	case kSliceI:
		s := make([]int, 2, 3)
		s[0], s[1] = 1, 2
		lv.setv = s
		lv.gov = func() reflect.Value { return reflect.ValueOf(s) }
		lv.goOps = []goOp{
			{"go:s[0]=9", func() {
				if len(s) > 0 {
					s[0] = 9
				}
			}},
			{"go:append(s,7)", func() { s = append(s, 7) }},
			{"go:s=s[:len-1]", func() {
				if len(s) > 0 {
					s = s[:len(s)-1]
				}
			}},
			{"go:s=s[:cap]", func() { s = s[:cap(s)] }},
			// same-length replacements: in place (shared memory) and of the Go variable
			{"go:swap(s[0],s[last])", func() {
				if n := len(s); n > 1 {
					s[0], s[n-1] = s[n-1], s[0]
				}
			}},
			{"go:s=copyOf(s)+10", func() {
				t := make([]int, len(s), cap(s))
				for i, v := range s {
					t[i] = v + 10
				}
				s = t
			}},
		}
	case kSliceS:
		s := make([]string, 2, 3)
		s[0], s[1] = "p", "q"
		lv.setv = s
		lv.gov = func() reflect.Value { return reflect.ValueOf(s) }
		lv.goOps = []goOp{
			{"go:s[0]=g", func() {
				if len(s) > 0 {
					s[0] = "g"
				}
			}},
			{"go:append(s,z)", func() { s = append(s, "z") }},
			{"go:s=s[1:]", func() {
				if len(s) > 0 {
					s = s[1:]
				}
			}},
			{"go:swap(s[0],s[last])", func() {
				if n := len(s); n > 1 {
					s[0], s[n-1] = s[n-1], s[0]
				}
			}},
		}
	case kArrPtr:
		a := &[3]int{1, 2, 3}
		lv.setv = a
		lv.gov = func() reflect.Value { return reflect.ValueOf(a) }
		lv.goOps = []goOp{
			{"go:a[0]=9", func() { a[0] = 9 }},
			{"go:*a=zero", func() { *a = [3]int{} }},
			{"go:*a={3,2,1}", func() { *a = [3]int{3, 2, 1} }},
		}
	case kArrVal:
		a := [3]int{1, 2, 3}
		lv.setv = a
		lv.gov = func() reflect.Value { return reflect.ValueOf(a) }
		lv.goOps = []goOp{
			{"go:a[0]=9", func() { a[0] = 9 }},
		}
	}
	return lv
}

// ---------------------------------------------------------------------------
// operations

type hop struct {
	name string // stable, unique within the alphabet of a state
	kind string // write delete push pop method go
	key  string
	val  *anode
	src  string // script source (script-side operations)
	goi  int    // index into live.goOps
}

type hval struct {
	name string
	src  string
	n    *anode
}

func histVals() []hval {
	return []hval{
		{"1", "1", nNum(1)},
		{"1.5", "1.5", nNum(1.5)},
		{"2^31", "2147483648", nNum(2147483648)},
		{"x", `"x"`, nStr("x")},
		{"null", "null", &anode{k: aNull}},
		{"undefined", "undefined", &anode{k: aUndef}},
	}
}

func jsKey(k string) string {
	b, _ := json.Marshal(k)
	return string(b)
}

// keysFor is the key alphabet of a container in a given state.
func keysFor(k ckind, jsLen int) []string {
	switch k {
	case kStruct:
		return []string{"A", "B", "C", "d", "e", "E", "zz"}
	case kMapSI:
		return []string{"a", "zz", "0", "length"}
	case kMapNamed:
		return []string{"a", "Total", "length", "toString", "hasOwnProperty", "constructor", "0", "zz"}
	case kMapIS:
		return []string{"1", "2", "abc"}
	case kSliceI, kSliceS:
		return []string{"0", strconv.Itoa(jsLen), strconv.Itoa(jsLen + 1), "length", "foo"}
	}
	return []string{"0", "3", "4", "length", "foo"}
}

func isIndex(s string) (int, bool) {
	i, err := strconv.Atoi(s)
	if err != nil || i < 0 || strconv.Itoa(i) != s {
		return 0, false
	}
	return i, true
}

// alphabet lists the mutating operations applicable in a state. Read-only
// operations (read k, k in, for-in, Object.keys, JSON.stringify, length) are
// evaluated as observations in every state.
func alphabet(lv *live, jsLen int) []hop {
	var ops []hop
	k := lv.kind
	sliceLike := k == kSliceI || k == kSliceS || k == kArrPtr || k == kArrVal
	for _, key := range keysFor(k, jsLen) {
		for _, v := range histVals() {
			if key == "length" && sliceLike && v.name == "2^31" {
				continue // a 2^31-element slice is an allocation test, not a conversion test
			}
			ops = append(ops, hop{name: "c[" + key + "]=" + v.name, kind: "write", key: key, val: v.n, src: "c[" + jsKey(key) + "] = " + v.src})
		}
		if _, idx := isIndex(key); sliceLike && !idx && key != "length" {
			continue // delete of a non-index key on a slice/array: the lethal family
		}
		ops = append(ops, hop{name: "delete c[" + key + "]", kind: "delete", key: key, src: "delete c[" + jsKey(key) + "]"})
	}
	if sliceLike {
		if k != kArrPtr && k != kArrVal {
			ops = append(ops, hop{name: "length=0", kind: "write", key: "length", val: nNum(0), src: "c.length = 0"})
			ops = append(ops, hop{name: "length=len+2", kind: "write", key: "length", val: nNum(float64(jsLen + 2)), src: fmt.Sprintf("c.length = %d", jsLen+2)})
		}
		for _, v := range histVals()[:4] {
			ops = append(ops, hop{name: "push(" + v.name + ")", kind: "push", val: v.n, src: "c.push(" + v.src + ")"})
		}
		ops = append(ops, hop{name: "pop()", kind: "pop", src: "c.pop()"})
	}
	if k == kStruct {
		ops = append(ops, hop{name: "c.Sum()", kind: "method", key: "Sum", src: "c.Sum()"})
		ops = append(ops, hop{name: "c.Bump()", kind: "method", key: "Bump", src: "c.Bump()"})
	}
	for i, g := range lv.goOps {
		ops = append(ops, hop{name: g.name, kind: "go", goi: i})
	}
	return ops
}

// ---------------------------------------------------------------------------
// observation of a state

type hobs struct {
	fail    string
	held    reflect.Value     // the Go value the script-side object holds (live)
	slots   map[string]string // snapshot: data slot -> rendering; #len #cap #ptr for slices; x:<key> for expandos
	jsLen   int
	node    *bridge.Node
	okeys   []string
	forin   []string
	jsonTxt string
	length  string
	reads   map[string]string // key -> canon of c[key] + "/" + (key in c)
	goR     string
	goPtr   uintptr
	key     string // state key for deduplication
}

type histRig struct {
	g  *brig.Rig
	lv *live
}

func (h *histRig) start(k ckind) string {
	h.lv = freshLive(k)
	if err := h.g.VM.Set("c", h.lv.setv); err != nil {
		return "Set failed: " + err.Error()
	}
	return ""
}

func runStr(vm *otto.Otto, src string) (string, string) {
	res := ox.Run(vm, src)
	switch {
	case res.Panicked:
		return "", "PANIC: " + brig.OneLine(fmt.Sprint(res.PanicVal))
	case res.Err != nil:
		return "", "error: " + res.Err.Error()
	}
	s, _ := res.Value.ToString()
	return s, ""
}

func dataKeys(k ckind, held reflect.Value) map[string]bool {
	out := map[string]bool{}
	v := reflect.Indirect(held)
	switch k {
	case kStruct:
		for i := 0; i < v.NumField(); i++ {
			if bridge.ExportedName(v.Type().Field(i).Name) {
				out[v.Type().Field(i).Name] = true
			}
		}
		for i := 0; i < held.NumMethod(); i++ {
			out[held.Type().Method(i).Name] = true
		}
	case kMapSI, kMapIS, kMapNamed:
		for _, mk := range v.MapKeys() {
			out[bridge.KeyString(mk)] = true
		}
	default:
		for i := 0; i < v.Len(); i++ {
			out[strconv.Itoa(i)] = true
		}
	}
	return out
}

func (h *histRig) observe() *hobs {
	o := &hobs{slots: map[string]string{}, reads: map[string]string{}}
	vm := h.g.VM
	k := h.lv.kind
	x, err := vm.Get("c")
	if err != nil {
		o.fail = "Get: " + err.Error()
		return o
	}
	func() {
		defer func() {
			if p := recover(); p != nil {
				o.fail = "Export PANIC: " + fmt.Sprint(p)
			}
		}()
		e, _ := x.Export()
		o.held = reflect.ValueOf(e)
	}()
	if o.fail != "" || !o.held.IsValid() {
		if o.fail == "" {
			o.fail = "Export returned nil"
		}
		return o
	}
	hv := reflect.Indirect(o.held)
	switch k {
	case kStruct:
		for i := 0; i < hv.NumField(); i++ {
			o.slots[hv.Type().Field(i).Name] = renderAny(hv.Field(i))
		}
	case kMapSI, kMapIS, kMapNamed:
		for _, mk := range hv.MapKeys() {
			o.slots[bridge.KeyString(mk)] = renderAny(hv.MapIndex(mk))
		}
	default:
		for i := 0; i < hv.Len(); i++ {
			o.slots[strconv.Itoa(i)] = renderAny(hv.Index(i))
		}
		o.jsLen = hv.Len()
		if hv.Kind() == reflect.Slice {
			o.slots["#len"] = strconv.Itoa(hv.Len())
			o.slots["#cap"] = strconv.Itoa(hv.Cap())
			o.slots["#ptr"] = fmt.Sprint(hv.Pointer())
		}
	}
	gv := h.lv.gov()
	o.goR = bridge.Render(gv.Interface())
	if gv.Kind() == reflect.Slice {
		o.goR += fmt.Sprintf(" len=%d cap=%d", gv.Len(), gv.Cap())
		o.goPtr = gv.Pointer()
	}
	var why string
	if o.node, why = h.g.ViewNode("c"); o.node == nil {
		o.fail = "view: " + why
		return o
	}
	ks, why := runStr(vm, `Object.keys(c).join("\u0001")`)
	if why != "" {
		o.fail = "Object.keys: " + why
		return o
	}
	o.okeys = splitKeys(ks)
	fi, why := runStr(vm, `(function(){ var l = []; for (var k in c) l.push(k); return l.join("\u0001"); })()`)
	if why != "" {
		o.fail = "for-in: " + why
		return o
	}
	o.forin = splitKeys(fi)
	o.jsonTxt, why = runStr(vm, `JSON.stringify(c)`)
	if why != "" {
		o.fail = "JSON.stringify: " + why
		return o
	}
	o.length = h.g.EvalCanon("c.length")
	dk := dataKeys(k, o.held)
	for _, key := range o.okeys {
		if !dk[key] {
			o.slots["x:"+key] = h.g.EvalCanon("c[" + jsKey(key) + "]")
		}
	}
	rk := append([]string{}, keysFor(k, o.jsLen)...)
	if k == kStruct {
		rk = append(rk, "Sum", "Bump")
	}
	for _, key := range rk {
		o.reads[key] = h.g.EvalCanon("c["+jsKey(key)+"]") + "/" + h.g.EvalCanon(jsKey(key)+" in c")
	}
	// state key: the Go side's contents, what the script-side object holds,
	// whether the two still share memory, and the script-only properties
	names := make([]string, 0, len(o.slots))
	for n := range o.slots {
		if n != "#ptr" {
			names = append(names, n)
		}
	}
	sort.Strings(names)
	var sb strings.Builder
	sb.WriteString(o.goR)
	sb.WriteString(" || ")
	for _, n := range names {
		sb.WriteString(n + "=" + o.slots[n] + ";")
	}
	if hv.Kind() == reflect.Slice {
		// whether (and at which offset) the script-side header still shares the
		// Go side's backing array; unrelated allocations are just "detached"
		sz := int64(hv.Type().Elem().Size())
		gp, jp := int64(o.goPtr), int64(hv.Pointer())
		if gv.Cap() > 0 && hv.Cap() > 0 && jp < gp+int64(gv.Cap())*sz && gp < jp+int64(hv.Cap())*sz {
			fmt.Fprintf(&sb, " || alias=%d", (jp-gp)/sz)
		} else {
			sb.WriteString(" || detached")
		}
	}
	o.key = sb.String()
	return o
}

func renderAny(v reflect.Value) string {
	if !v.IsValid() {
		return "<invalid>"
	}
	if v.CanInterface() {
		return bridge.Render(v.Interface())
	}
	// unexported field: render by kind
	switch v.Kind() {
	case reflect.Int, reflect.Int8, reflect.Int16, reflect.Int32, reflect.Int64:
		return fmt.Sprintf("%s(%d)", v.Type(), v.Int())
	case reflect.String:
		return fmt.Sprintf("%s(%q)", v.Type(), v.String())
	}
	return fmt.Sprint(v)
}

func splitKeys(s string) []string {
	if s == "" {
		return nil
	}
	l := strings.Split(s, "\u0001")
	sort.Strings(l)
	return l
}

// ---------------------------------------------------------------------------
// coherence: the script view equals the Go view of the live object

func cohere(k ckind, o *hobs) []string {
	var bad []string
	add := func(f string, a ...interface{}) { bad = append(bad, fmt.Sprintf(f, a...)) }
	cp := bridge.Counterpart(o.held.Interface())
	// script traversal minus script-only properties == counterpart of the held Go value
	seen := o.node
	if seen.K == bridge.Obj {
		cl := bridge.O()
		for _, key := range seen.Keys {
			if _, exp := o.slots["x:"+key]; !exp {
				cl.Set(key, seen.Vals[key])
			}
		}
		seen = cl
	}
	if seen.Canon() != cp.Canon() {
		add("script sees %s but the live Go value is %s", seen.Canon(), cp.Canon())
	}
	// unexported fields never visible
	if k == kStruct {
		for _, key := range o.okeys {
			if key == "d" {
				if _, exp := o.slots["x:d"]; !exp {
					add("unexported field d is enumerable")
				}
			}
		}
	}
	if strings.Join(o.okeys, ",") != strings.Join(o.forin, ",") {
		add("Object.keys %v differs from for-in %v", o.okeys, o.forin)
	}
	// Object.keys = data keys + script-only keys
	want := []string{}
	for key := range dataKeys(k, o.held) {
		want = append(want, key)
	}
	for n := range o.slots {
		if strings.HasPrefix(n, "x:") {
			want = append(want, n[2:])
		}
	}
	sort.Strings(want)
	if strings.Join(want, ",") != strings.Join(o.okeys, ",") {
		add("Object.keys %v, expected %v", o.okeys, want)
	}
	// JSON.stringify agrees with the traversal
	var jx interface{}
	if err := json.Unmarshal([]byte(o.jsonTxt), &jx); err != nil {
		add("JSON.stringify(c) = %q does not parse", o.jsonTxt)
	} else if jv, ok := o.node.JSONView(); ok {
		if got, exp := zeroSign(bridge.FromGoJSON(jx)).Canon(), zeroSign(jv).Canon(); got != exp {
			add("JSON.stringify(c) = %s, traversal gives %s", got, exp)
		}
	}
	// length
	switch k {
	case kSliceI, kSliceS, kArrPtr, kArrVal:
		if o.length != "d:"+strconv.Itoa(o.jsLen) {
			add("c.length = %s, live length %d", o.length, o.jsLen)
		}
	}
	// an enumerated key must be a property
	for n, c := range o.slots {
		if strings.HasPrefix(n, "x:") && c == "u" {
			if got := o.reads[n[2:]]; got == "u/b:0" {
				add("Object.keys lists %q, which is neither a member of the Go value nor a property of the object", n[2:])
			}
		}
	}
	// reads of every key of the alphabet
	for key, got := range o.reads {
		exp := expectedRead(k, o, key)
		if exp != "" && exp != got {
			if _, idx := isIndex(key); idx && got == "u/b:1" && exp == "u/b:0" {
				add("[phantom-index] (%s in c) is true beyond the length %d", key, o.jsLen)
			} else {
				add("c[%s] / (%s in c) = %s, expected %s", key, key, got, exp)
			}
		}
	}
	return bad
}

// expectedRead: the value and the "in" answer for a key, from the live Go
// value and the script-only properties.
func expectedRead(k ckind, o *hobs, key string) string {
	if c, exp := o.slots["x:"+key]; exp {
		return c + "/b:1"
	}
	hv := reflect.Indirect(o.held)
	leaf := func(v reflect.Value) string {
		n := bridge.Counterpart(v.Interface())
		switch n.K {
		case bridge.Num:
			return "d:" + ox.Num(n.N)
		case bridge.Str:
			return ox.Str16(n.S)
		case bridge.Undef:
			return "u"
		case bridge.Arr:
			return "o:GoSlice"
		}
		return ""
	}
	switch k {
	case kStruct:
		if key == "Sum" || key == "Bump" {
			return "o:Function/b:1"
		}
		if f, ok := fieldFor(hv.Type(), key); ok {
			return leaf(hv.FieldByName(f.Name)) + "/b:1"
		}
		return "u/b:0"
	case kMapSI, kMapNamed:
		// the live Go map is the single source of truth: an entry wins over a
		// method of the (named) map type and over inherited names
		if v := hv.MapIndex(reflect.ValueOf(key)); v.IsValid() {
			return leaf(v) + "/b:1"
		}
		if (k == kMapNamed && key == "Total") || inheritedNames[key] {
			return "o:Function/b:1"
		}
		return "u/b:0"
	case kMapIS:
		if i, err := strconv.Atoi(key); err == nil {
			if v := hv.MapIndex(reflect.ValueOf(i)); v.IsValid() {
				return leaf(v) + "/b:1"
			}
		}
		return "u/b:0"
	}
	if key == "length" {
		return "d:" + strconv.Itoa(hv.Len()) + "/b:1"
	}
	if i, ok := isIndex(key); ok {
		if i < hv.Len() {
			return leaf(hv.Index(i)) + "/b:1"
		}
		return "u/b:0"
	}
	return "u/b:0"
}

// ---------------------------------------------------------------------------
// the transition relation

func changed(pre, post *hobs) map[string]bool {
	out := map[string]bool{}
	for n, v := range pre.slots {
		if pv, ok := post.slots[n]; !ok || pv != v {
			out[n] = true
		}
	}
	for n := range post.slots {
		if _, ok := pre.slots[n]; !ok {
			out[n] = true
		}
	}
	return out
}

func keysOf(m map[string]bool) string {
	l := make([]string, 0, len(m))
	for k := range m {
		l = append(l, k)
	}
	sort.Strings(l)
	return strings.Join(l, ",")
}

func only(ch map[string]bool, allowed ...string) bool {
	al := map[string]bool{}
	for _, a := range allowed {
		al[a] = true
	}
	for k := range ch {
		if !al[k] {
			return false
		}
	}
	return true
}

var (
	tInt  = reflect.TypeOf(0)
	tStr  = reflect.TypeOf("")
	tInts = reflect.TypeOf([]int(nil))
)

// slotType: the Go type behind key in the pre-state, and what kind of slot it is.
func slotType(k ckind, pre *hobs, key string) (string, reflect.Type, string) {
	hv := reflect.Indirect(pre.held)
	switch k {
	case kStruct:
		if f, ok := fieldFor(hv.Type(), key); ok {
			return "field", f.Type, f.Name
		}
		return "expando", nil, "x:" + key
	case kMapSI, kMapNamed:
		return "mapkey", tInt, key
	case kMapIS:
		if _, err := strconv.Atoi(key); err != nil {
			return "badkey", nil, ""
		}
		return "mapkey", tStr, key
	}
	et := hv.Type().Elem()
	if key == "length" {
		return "length", nil, ""
	}
	if i, ok := isIndex(key); ok {
		switch {
		case i < pre.jsLen:
			return "elem", et, key
		case i == pre.jsLen && (k == kSliceI || k == kSliceS):
			return "append", et, key
		}
		return "beyond", nil, ""
	}
	return "expando", nil, "x:" + key
}

// postSlot reads a data slot from the live held value after the operation.
func postSlot(k ckind, post *hobs, name string) reflect.Value {
	hv := reflect.Indirect(post.held)
	switch k {
	case kStruct:
		return hv.FieldByName(name)
	case kMapSI, kMapNamed:
		return hv.MapIndex(reflect.ValueOf(name))
	case kMapIS:
		i, _ := strconv.Atoi(name)
		return hv.MapIndex(reflect.ValueOf(i))
	}
	i, _ := strconv.Atoi(name)
	if i < hv.Len() {
		return hv.Index(i)
	}
	return reflect.Value{}
}

func canonOf(a *anode) string {
	switch a.k {
	case aUndef:
		return "u"
	case aNull:
		return "n"
	case aNum:
		return "d:" + ox.Num(a.f)
	case aStr:
		return ox.Str16(ox.Units(a.s))
	case aBool:
		return "b:" + brig.B01(a.b)
	}
	return "?"
}

// relate judges one transition. outcome is "ok", "loud:<Class>" or "PANIC: ...".
func relate(k ckind, pre, post *hobs, op hop, outcome string, result string) []string {
	var bad []string
	add := func(f string, a ...interface{}) { bad = append(bad, fmt.Sprintf(f, a...)) }
	if strings.HasPrefix(outcome, "PANIC") {
		add("[go-panic] Go panic reached Run: %s", outcome)
		return bad
	}
	loud := strings.HasPrefix(outcome, "loud:")
	if loud && !isLoud(outcome) {
		add("failure not visible as TypeError/RangeError: %s", outcome)
	}
	ch := changed(pre, post)
	readonly := k == kArrVal
	unchanged := func(what string) {
		if len(ch) != 0 {
			add("%s but the container changed: %s", what, keysOf(ch))
		}
	}
	if op.kind == "go" {
		switch k {
		case kSliceI, kSliceS:
			if ch["#len"] || ch["#cap"] || ch["#ptr"] {
				add("a Go-side operation changed the script-side slice header: %s", keysOf(ch))
			}
		case kArrVal:
			unchanged("Go-side write to the original of a by-value array")
		}
		return bad
	}
	if loud {
		// whatever failed loudly must not have had a partial effect (pop excepted, see below)
		if op.kind != "pop" {
			unchanged(outcome)
		}
	}
	switch op.kind {
	case "method":
		if loud {
			add("method call failed: %s", outcome)
			break
		}
		hv := reflect.Indirect(post.held)
		if op.key == "Sum" {
			unchanged("Sum()")
			if want := "d:" + strconv.FormatInt(hv.FieldByName("A").Int()+hv.FieldByName("E").Int(), 10); result != want {
				add("Sum() returned %s, want %s", result, want)
			}
		} else {
			if !only(ch, "A") {
				add("Bump() changed %s", keysOf(ch))
			}
			if want := "d:" + strconv.FormatInt(hv.FieldByName("A").Int(), 10); result != want {
				add("Bump() returned %s but A is %s", result, want)
			}
			if pre.slots["A"] == post.slots["A"] {
				add("Bump() did not change A")
			}
		}
	case "write":
		sk, st, name := slotType(k, pre, op.key)
		switch {
		case readonly && sk != "expando":
			unchanged("write to a by-value array")
		case sk == "field" || sk == "elem" || sk == "mapkey" || sk == "append":
			if loud {
				if !loudOK(st, op.val) {
					add("%s although %s is representable in %s", outcome, op.val.describe(), st)
				}
				break
			}
			allowed := []string{name}
			if sk == "append" {
				allowed = append(allowed, "#len", "#cap")
				if pre.slots["#len"] == pre.slots["#cap"] {
					allowed = append(allowed, "#ptr")
				}
				if post.jsLen != pre.jsLen+1 {
					add("append at index len: length %d -> %d", pre.jsLen, post.jsLen)
					break
				}
			}
			if !only(ch, allowed...) {
				add("write to %s changed %s", name, keysOf(ch))
			}
			got := postSlot(k, post, name)
			if !got.IsValid() {
				add("write completed but %s is absent", name)
			} else if !match(st, op.val, got) && !storeCoerced(k, st, op.val, got) {
				add("[wrong-store] write of %s to %s (%s) left %s there", op.val.describe(), name, st, renderAny(got))
			}
		case sk == "badkey":
			if !loud {
				add("write with a key the map cannot hold completed silently")
			}
		case sk == "beyond":
			unchanged("write beyond the length")
		case sk == "length":
			if k == kArrPtr {
				unchanged("length assignment on an array")
				break
			}
			if loud {
				break
			}
			n, isNum := toNumber(op.val)
			want := int(bridge.ToIntegerSat(n))
			if post.jsLen != pre.jsLen && (!isNum || post.jsLen != want) {
				add("length = %s gave length %d", op.val.describe(), post.jsLen)
			}
			if op.val.k == aNum && n == float64(want) && want >= 0 && post.jsLen != want {
				add("length = %d completed but length is %d", want, post.jsLen)
			}
			for c := range ch {
				if i, ok := isIndex(c); ok && i < pre.jsLen && i < post.jsLen {
					add("length assignment changed element %d", i)
				}
				// elements exposed by growing within the old capacity alias memory
				// that already existed (Go reslice semantics); fresh ones are zero
				if i, ok := isIndex(c); ok && i >= pre.jsLen && i >= atoi(pre.slots["#cap"]) {
					if v := postSlot(k, post, c); v.IsValid() && !v.IsZero() {
						add("length assignment created non-zero element %d", i)
					}
				}
			}
		case sk == "expando":
			if loud {
				break
			}
			if !only(ch, name) {
				add("write to script-only property %s changed %s", op.key, keysOf(ch))
			}
			if got, ok := post.slots[name]; !ok || got != canonOf(op.val) {
				if !(op.val.k == aUndef && !ok) {
					add("script-only property %s reads %q after writing %s", op.key, got, canonOf(op.val))
				}
			}
		}
	case "delete":
		sk, _, name := slotType(k, pre, op.key)
		switch {
		case readonly && sk != "expando":
			unchanged("delete on a by-value array")
		case sk == "mapkey":
			if loud {
				add("delete of a map key failed: %s", outcome)
				break
			}
			if !only(ch, name) {
				add("delete %s changed %s", name, keysOf(ch))
			}
			if _, still := post.slots[name]; still {
				add("delete %s completed but the key is still there", name)
			}
		case sk == "elem":
			if !only(ch, name) {
				add("delete %s changed %s", name, keysOf(ch))
			}
			if v := postSlot(k, post, name); ch[name] && v.IsValid() && !v.IsZero() {
				add("delete %s left %s", name, renderAny(v))
			}
		case sk == "expando":
			if !only(ch, name) {
				add("delete of script-only property changed %s", keysOf(ch))
			}
			if _, still := post.slots[name]; still && !loud {
				if _, was := pre.slots[name]; was {
					add("delete %s completed but the property is still there", op.key)
				}
			}
		default: // field, badkey, beyond, length, append: nothing can be deleted
			unchanged("delete " + op.key)
		}
	case "push":
		if k == kArrPtr || readonly {
			unchanged("push on an array")
			break
		}
		et := reflect.Indirect(pre.held).Type().Elem()
		if loud {
			if !loudOK(et, op.val) {
				add("%s although %s is representable in %s", outcome, op.val.describe(), et)
			}
			break
		}
		idx := strconv.Itoa(pre.jsLen)
		allowed := []string{idx, "#len", "#cap"}
		if pre.slots["#len"] == pre.slots["#cap"] {
			allowed = append(allowed, "#ptr")
		}
		if !only(ch, allowed...) {
			add("push changed %s", keysOf(ch))
		}
		if post.jsLen != pre.jsLen+1 {
			add("push: length %d -> %d", pre.jsLen, post.jsLen)
		} else if got := postSlot(k, post, idx); !got.IsValid() || (!match(et, op.val, got) && !storeCoerced(k, et, op.val, got)) {
			add("[wrong-store] push(%s) (%s) left %s there", op.val.describe(), et, renderAny(got))
		}
	case "pop":
		if pre.jsLen == 0 {
			unchanged("pop on an empty container")
			break
		}
		last := strconv.Itoa(pre.jsLen - 1)
		if k == kArrPtr || readonly {
			if readonly {
				unchanged("pop on a by-value array")
			} else if !only(ch, last) {
				add("pop on an array changed %s", keysOf(ch))
			} else if v := postSlot(k, post, last); ch[last] && !v.IsZero() {
				add("pop on an array left %s in the last element", renderAny(v))
			}
			break
		}
		if !only(ch, last, "#len") {
			add("pop changed %s", keysOf(ch))
		}
		if !loud && post.jsLen != pre.jsLen-1 {
			add("pop: length %d -> %d", pre.jsLen, post.jsLen)
		}
	}
	return bad
}

// storeCoerced: stores into bridged maps, slices and arrays (not struct fields)
// convert with ES5 ToInteger for integer element kinds - reflect_test.go pins
// abc.xyz = "pqr" on a map[string]int32 storing 0 - so for a non-number value the
// ToInteger(ToNumber(v)) reading is accepted as a documented lenient conversion.
func storeCoerced(k ckind, t reflect.Type, a *anode, got reflect.Value) bool {
	if k == kStruct || a.k == aNum {
		return false
	}
	switch t.Kind() {
	case reflect.Int, reflect.Int8, reflect.Int16, reflect.Int32, reflect.Int64,
		reflect.Uint, reflect.Uint8, reflect.Uint16, reflect.Uint32, reflect.Uint64:
		f, ok := toNumber(a)
		if !ok {
			return false
		}
		want, fits := numFits(t, nNum(float64(bridge.ToIntegerSat(f))))
		return fits && sameNumber(want, got)
	}
	return false
}

func (a *anode) describe() string {
	switch a.k {
	case aNum:
		return ox.Num(a.f)
	case aStr:
		return strconv.Quote(a.s)
	case aNull:
		return "null"
	case aUndef:
		return "undefined"
	case aBool:
		return strconv.FormatBool(a.b)
	}
	return "value"
}

// ---------------------------------------------------------------------------
// replay and search

// apply executes one operation and reports its outcome and (for methods) result.
func (h *histRig) apply(op hop, inTry bool) (string, string) {
	if op.kind == "go" {
		h.lv.goOps[op.goi].do()
		return "ok", ""
	}
	src := "__r = (" + op.src + "); \"ok\""
	if inTry {
		src = "var __st; try { __r = (" + op.src + "); __st = \"ok\"; } catch (e) { __st = \"loud:\" + __en(e); } __st"
	}
	res := ox.Run(h.g.VM, src)
	switch {
	case res.Panicked:
		return "PANIC: " + brig.OneLine(fmt.Sprint(res.PanicVal)), ""
	case res.Err != nil:
		return "loud:" + ox.ErrClass(res.Err), ""
	}
	st, _ := res.Value.ToString()
	result := ""
	if op.kind == "method" && st == "ok" {
		result = h.g.EvalCanon("__r")
	}
	return st, result
}

func findOp(ops []hop, name string) (hop, bool) {
	for _, o := range ops {
		if o.name == name {
			return o, true
		}
	}
	return hop{}, false
}

// replayPath builds a fresh container, applies the named operations and judges
// the LAST transition (all transitions when checkAll). It returns the final
// observation (nil when the path could not be completed).
func (h *histRig) replayPath(r *engine.Run, k ckind, path []string, checkAll bool, inTry bool) (*hobs, []string, string) {
	if why := h.start(k); why != "" {
		return nil, []string{why}, ""
	}
	pre := h.observe()
	if pre.fail != "" {
		return nil, []string{"initial observation failed: " + pre.fail}, ""
	}
	var bad []string
	if checkAll || len(path) == 0 {
		bad = append(bad, cohere(k, pre)...)
		if hv := reflect.Indirect(pre.held); hv.Kind() == reflect.Slice && hv.Pointer() != pre.goPtr {
			bad = append(bad, "the bridged slice does not share the Go slice's backing array")
		}
	}
	outcome := ""
	for i, name := range path {
		op, ok := findOp(alphabet(h.lv, pre.jsLen), name)
		if !ok {
			return nil, []string{"operation " + name + " is not in the alphabet of the state reached"}, ""
		}
		lastStep := i == len(path)-1
		var result string
		outcome, result = h.apply(op, inTry && lastStep)
		if strings.HasPrefix(outcome, "PANIC") && !lastStep {
			return nil, nil, outcome // a prefix that panics is judged where it is the last step
		}
		post := h.observe()
		if post.fail != "" {
			if lastStep || checkAll {
				bad = append(bad, fmt.Sprintf("after %s (%s) the container cannot be observed: %s", name, outcome, post.fail))
			}
			return nil, bad, outcome
		}
		if lastStep || checkAll {
			for _, b := range relate(k, pre, post, op, outcome, result) {
				bad = append(bad, name+": "+b)
			}
			for _, b := range cohere(k, post) {
				bad = append(bad, "after "+name+": "+b)
			}
		}
		pre = post
	}
	return pre, bad, outcome
}

// heldLen reads the length of the script-held value without enumerating anything.
func (h *histRig) heldLen() (n int, fail string) {
	defer func() {
		if p := recover(); p != nil {
			fail = "Export PANIC: " + fmt.Sprint(p)
		}
	}()
	x, err := h.g.VM.Get("c")
	if err != nil {
		return 0, err.Error()
	}
	e, _ := x.Export()
	v := reflect.Indirect(reflect.ValueOf(e))
	if v.IsValid() && (v.Kind() == reflect.Slice || v.Kind() == reflect.Array) {
		return v.Len(), ""
	}
	return 0, ""
}

// replaySparse replays a path observing (and thereby enumerating) the container
// only in the initial state and at the end: whatever the bridge remembers from an
// enumeration must not survive the operations in between. The final state must
// be the one the fully observed replay reached, and coherent.
func (h *histRig) replaySparse(k ckind, path []string) (*hobs, string) {
	if why := h.start(k); why != "" {
		return nil, why
	}
	if first := h.observe(); first.fail != "" {
		return nil, "initial observation failed: " + first.fail
	}
	for _, name := range path {
		n, why := h.heldLen()
		if why != "" {
			return nil, why
		}
		op, ok := findOp(alphabet(h.lv, n), name)
		if !ok {
			return nil, "operation " + name + " is not in the alphabet of the state reached"
		}
		if outcome, _ := h.apply(op, false); strings.HasPrefix(outcome, "PANIC") {
			return nil, outcome
		}
	}
	last := h.observe()
	if last.fail != "" {
		return nil, "final observation failed: " + last.fail
	}
	return last, ""
}

func runHistories(r *engine.Run) {
	depthFor := func(k ckind) int {
		if r.Thorough() || k == kMapSI || k == kMapIS {
			return 3
		}
		return 2
	}
	if r.Thorough() {
		r.Bound("depth", "3")
	} else {
		r.Bound("depth", "2 (3 for the two map containers)")
	}
	r.Bound("sparse_replay", "every path of length >= 2 is replayed a second time with observations only at both ends")
	r.Bound("containers", strings.Join(kindNames, ", "))
	h := &histRig{g: brig.NewRig()}
	if r.ReplayKey != "" {
		parts := strings.Split(r.ReplayKey, " | ")
		for ki, kn := range kindNames {
			if kn == parts[0] {
				r.Begin(r.ReplayKey)
				post, bad, outcome := h.replayPath(r, ckind(ki), parts[1:], true, false)
				if post != nil && len(parts) >= 3 {
					if sp, why := h.replaySparse(ckind(ki), parts[1:]); sp == nil {
						bad = append(bad, "[sparse] without intermediate observations: "+why)
					} else {
						if sp.key != post.key {
							bad = append(bad, "[sparse] observing the intermediate states changes the outcome: unobserved replay ends in "+sp.key+", observed replay in "+post.key)
						}
						for _, b := range cohere(ckind(ki), sp) {
							bad = append(bad, "[sparse] enumerate / operate / enumerate: "+b)
						}
					}
				}
				r.End()
				r.Eval(true)
				report(r, r.ReplayKey, ckind(ki), parts[1:], bad, outcome)
			}
		}
		return
	}
	for ki := range kindNames {
		k := ckind(ki)
		depth := depthFor(k)
		// the initial state
		rootKey := kindNames[ki]
		var first []hop
		{
			lv := freshLive(k)
			jsLen := 0
			if v := reflect.Indirect(reflect.ValueOf(lv.setv)); v.Kind() == reflect.Slice || v.Kind() == reflect.Array {
				jsLen = v.Len()
			}
			first = alphabet(lv, jsLen)
		}
		if r.MineKey(rootKey) {
			r.Begin(rootKey)
			_, bad, outcome := h.replayPath(r, k, nil, true, false)
			r.End()
			r.Eval(true)
			r.Tree(1, 0)
			report(r, rootKey, k, nil, bad, outcome)
		}
		for _, op1 := range first {
			if !r.MineKey(rootKey + " | " + op1.name) {
				continue
			}
			// breadth-first below (container, first operation); states are
			// deduplicated within the subtree
			seen := map[string]bool{}
			frontier := [][]string{{op1.name}}
			for d := 1; d <= depth && len(frontier) > 0; d++ {
				var next [][]string
				for _, path := range frontier {
					if r.Expired() {
						r.Cap("time budget")
						return
					}
					key := rootKey + " | " + strings.Join(path, " | ")
					r.Begin(key)
					post, bad, outcome := h.replayPath(r, k, path, false, false)
					if strings.HasPrefix(outcome, "PANIC") {
						h.g = brig.NewRig()
					} else if strings.HasPrefix(outcome, "loud:") {
						// the failure must be catchable by the script as well
						_, bad2, out2 := h.replayPath(r, k, path, false, true)
						if out2 != outcome {
							bad = append(bad, fmt.Sprintf("inside try the operation gives %s, plain %s", out2, outcome))
						}
						_ = bad2
						if strings.HasPrefix(out2, "PANIC") {
							h.g = brig.NewRig()
						}
					}
					if post != nil && len(path) >= 2 {
						sp, why := h.replaySparse(k, path)
						switch {
						case strings.HasPrefix(why, "PANIC"):
							h.g = brig.NewRig()
							bad = append(bad, "[sparse] without intermediate observations the path panics: "+why)
						case sp == nil:
							bad = append(bad, "[sparse] without intermediate observations: "+why)
						default:
							if sp.key != post.key {
								bad = append(bad, "[sparse] observing the intermediate states changes the outcome: unobserved replay ends in "+sp.key+", observed replay in "+post.key)
							}
							for _, b := range cohere(k, sp) {
								bad = append(bad, "[sparse] enumerate / operate / enumerate: "+b)
							}
						}
					}
					r.End()
					r.Eval(outcome == "ok")
					r.Tree(0, 1)
					if post != nil {
						r.Outcome(kindNames[ki] + "|" + outcome + "|" + post.key)
					} else {
						r.Outcome(kindNames[ki] + "|" + outcome)
					}
					if r.WantSample() && post != nil && d > 1 {
						r.Sample(key + " => " + outcome + "; Go side " + post.goR)
					}
					report(r, key, k, path, bad, outcome)
					if post == nil || seen[post.key] {
						continue // unobservable or already-seen states are not expanded
					}
					seen[post.key] = true
					r.Tree(1, 0)
					if d < depth {
						for _, op := range alphabet(h.lv, post.jsLen) {
							next = append(next, append(append([]string{}, path...), op.name))
						}
					}
				}
				frontier = next
			}
		}
	}
}

var classTag = regexp.MustCompile(`\[(phantom-index|go-panic|wrong-store|sparse)\]`)

func report(r *engine.Run, key string, k ckind, path []string, bad []string, outcome string) {
	if len(bad) == 0 {
		return
	}
	last := ""
	if len(path) > 0 {
		last = path[len(path)-1]
	}
	// one mismatch per failure class (the classes have different causes)
	groups := map[string][]string{}
	var order []string
	for _, b := range bad {
		class := "other"
		if m := classTag.FindStringSubmatch(b); m != nil {
			class = m[1]
		}
		if _, ok := groups[class]; !ok {
			order = append(order, class)
		}
		groups[class] = append(groups[class], b)
	}
	for _, class := range order {
		r.Mismatch(engine.Mismatch{
			Key:      key,
			Input:    "vm.Set(\"c\", " + bridge.Render(freshLive(k).setv) + "); " + strings.Join(path, "; "),
			Expected: "every write visible on both sides or rejected with TypeError/RangeError; script view == Go view; no Go panic",
			Observed: strings.Join(groups[class], " ;; "),
			Aux:      map[string]string{"class": class, "container": kindNames[k], "op": last, "outcome": outcome, "depth": fmt.Sprint(len(path))},
		})
	}
}
