package c18

import (
	"errors"
	"fmt"
	"math"
	"reflect"
	goruntime "runtime"
	"strings"
	"sync"

	"github.com/robertkrimen/otto"

	"verif/mc/engine"
)

// ---------------------------------------------------------------------------
// Family "interrupt-value": the panic-VALUE alphabet of the interrupt function.
//
// The property says "if it panics, Run unwinds with that panic and the script
// does not continue" - for whatever value the function panics with, not only
// for the README's error sentinel that the interrupt-panic family uses.
//
//	value     error pointer, error struct value, plain struct value, Go string,
//	          int, bool, float64, literal nil (*runtime.PanicNilError), and the
//	          two JavaScript-exception carriers otto.Value and *otto.Error
//	program   every depth-1 wrapper (function/method/native-callback/eval/try
//	          shapes/labels/with/host re-entry) around the assignment body
//	step      EVERY evaluation step k
//
// Oracle for every value that is not a JavaScript exception: identical to the
// interrupt-panic family (delivered once at step k on the Run goroutine, Run
// re-panics with the IDENTICAL value, nothing of the script runs afterwards,
// rest state, state = snapshot at step k, follow-up program and headroom).
// otto.Value and *otto.Error are otto's documented protocol for throwing a
// JavaScript exception from Go (error_test.go pins panic(vm.MakeTypeError(..))):
// such a panic IS a script-level throw, propagates under the JavaScript rules
// and is reported by Run as an error. For them only delivery, rest state and
// reusability are checked (the JavaScript propagation rules are the throw
// family's subject).
// ---------------------------------------------------------------------------

type haltStruct struct{ code int }

// haltRich is an uncomparable struct (== on two of them panics at run time).
type haltRich struct {
	Reason  string
	Pending []string
}

// haltNaN is comparable but not equal to itself.
type haltNaN struct{ f float64 }

type haltErrStruct struct{ msg string }

func (h haltErrStruct) Error() string { return h.msg }

type intPayload struct {
	name      string
	exception bool   // a JavaScript exception carrier (otto.Value, *otto.Error)
	primitive bool   // a Go value tryCatchEvaluate converts into a JavaScript primitive
	jsText    string // what a catch clause recording typeof e + ":" + e holds
	jsCanon   string // canonical form of the caught JavaScript primitive itself
	make      func(vm *otto.Otto) (val interface{}, isNil bool)
}

var scratchRangeErrorOnce sync.Once
var scratchRangeErrorValue *otto.Error

// scratchRangeError builds the *otto.Error lazily (nothing of otto runs at package initialisation).
func scratchRangeError() *otto.Error {
	scratchRangeErrorOnce.Do(func() {
		_, err := otto.New().Run(`throw new RangeError("halt")`)
		var oe *otto.Error
		if !errors.As(err, &oe) {
			panic("c18: cannot build an *otto.Error")
		}
		scratchRangeErrorValue = oe
	})
	return scratchRangeErrorValue
}

var intPayloads = []intPayload{
	{name: "error_pointer", make: func(*otto.Otto) (interface{}, bool) { return errors.New("halt"), false }},
	{name: "error_struct", make: func(*otto.Otto) (interface{}, bool) { return haltErrStruct{"halt"}, false }},
	{name: "struct", make: func(*otto.Otto) (interface{}, bool) { return haltStruct{7}, false }},
	{name: "struct_pointer", make: func(*otto.Otto) (interface{}, bool) { return &haltStruct{7}, false }},
	{name: "uncomparable_struct", make: func(*otto.Otto) (interface{}, bool) { return haltRich{"quota", []string{"a", "b"}}, false }},
	{name: "slice", make: func(*otto.Otto) (interface{}, bool) { return []string{"halt"}, false }},
	{name: "map", make: func(*otto.Otto) (interface{}, bool) { return map[string]int{"halt": 1}, false }},
	{name: "func", make: func(*otto.Otto) (interface{}, bool) { return func() string { return "halt" }, false }},
	{name: "nil", make: func(*otto.Otto) (interface{}, bool) { return nil, true }},
	{name: "string", primitive: true, jsText: "string:stop", jsCanon: "s:stop", make: func(*otto.Otto) (interface{}, bool) { return "stop", false }},
	{name: "int", primitive: true, jsText: "number:42", jsCanon: "d:42", make: func(*otto.Otto) (interface{}, bool) { return 42, false }},
	{name: "bool", primitive: true, jsText: "boolean:true", jsCanon: "b:1", make: func(*otto.Otto) (interface{}, bool) { return true, false }},
	{name: "float64", primitive: true, jsText: "number:1.5", jsCanon: "d:1.5", make: func(*otto.Otto) (interface{}, bool) { return 1.5, false }},
	// NaN is not equal to itself: a halt recognised by comparing values would miss it
	{name: "nan", primitive: true, jsText: "number:NaN", jsCanon: "d:NaN", make: func(*otto.Otto) (interface{}, bool) { return math.NaN(), false }},
	{name: "struct_nan", make: func(*otto.Otto) (interface{}, bool) { return haltNaN{math.NaN()}, false }},
	{name: "otto_value", exception: true, make: func(vm *otto.Otto) (interface{}, bool) { return vm.MakeCustomError("Halt", "stop"), false }},
	{name: "otto_error", exception: true, make: func(*otto.Otto) (interface{}, bool) { return scratchRangeError(), false }},
}

func runInterruptValue(r *engine.Run) {
	names := make([]string, len(intPayloads))
	for i, p := range intPayloads {
		names[i] = p.name
	}
	r.Bound("panic_values", strings.Join(names, ","))
	r.Bound("programs", fmt.Sprintf("%d wrappers (depth 1; depth 2 thorough) x bodies asg, throw_tostring", len(wrappers)))
	// the quick tier keeps one value per way tryCatchEvaluate / catchPanic can treat it
	quickValues := map[string]bool{"nan": true, "struct_nan": true, "error_pointer": true, "struct_pointer": true, "uncomparable_struct": true, "nil": true, "string": true, "int": true, "otto_value": true, "otto_error": true}
	viaToString := map[string]bool{"error_pointer": true, "string": true, "uncomparable_struct": true}
	deep := map[string]bool{"string": true, "uncomparable_struct": true}
	r.Bound("depth2_values_thorough", "string, uncomparable_struct")
	for _, nest := range nestings(depthFor(r, true)) {
		for _, b := range []body{bodyAsg, bodyThrowTS} {
			p := makeProg(nest, b)
			if !owns(r, p.key) {
				continue
			}
			if r.Expired() {
				r.Cap("time budget reached before all programs were explored")
				return
			}
			r.Begin(p.key + "|reference")
			ref, err := reference(p, r.Thorough())
			r.End()
			if err != nil {
				r.HarnessError("runtime setup failed: " + err.Error())
				return
			}
			for pi, pay := range intPayloads {
				if len(nest) > 1 && !deep[pay.name] {
					continue
				}
				if b.name == bodyThrowTS.name && !viaToString[pay.name] {
					continue
				}
				if !r.Thorough() && !quickValues[pay.name] {
					continue
				}
				for k := 0; k < ref.n; k++ {
					key := fmt.Sprintf("%s|v%d.%s|%d", p.key, pi, pay.name, k)
					if !wantCase(r, key) {
						continue
					}
					r.Begin(key)
					checkInterruptValue(r, p, ref, pay, k, key)
					r.End()
					r.Tree(1, 1)
				}
			}
		}
	}
}

// ---------------------------------------------------------------------------
// Polling SITE as a dimension: every statement form that polls - each loop kind
// with an empty block / no body / a single empty statement / a non-empty body,
// with and without test and update, labelled - is the place the interrupt is
// delivered at (every step k <= siteSteps of the never-ending loop, so each of
// the loop's polling points is hit several times), for the panic values
// {string, NaN, error pointer, uncomparable struct} and the try-shape, call,
// native-callback, labelled-loop and with wrappers.
// ---------------------------------------------------------------------------

const siteSteps = 26

var siteBodies = []body{
	bodyForBlk, bodyForEmp, bodyWhile, bodyDo,
	{name: "for_test_block", src: `for(;true;){}`, nonterm: true},
	{name: "for_update_block", src: `for(i0 = 0;;i0++){}`, nonterm: true},
	{name: "for_block_empty_stmt", src: `for(;;){ ; }`, nonterm: true},
	{name: "for_nonempty", src: `for(;;){ s0 = 1; }`, nonterm: true},
	{name: "labelled_for_block", src: `M0: for(;;){}`, nonterm: true},
	{name: "labelled_for_continue", src: `M0: for(;;){ continue M0; }`, nonterm: true},
	{name: "while_empty_stmt", src: `while(true);`, nonterm: true},
	{name: "do_empty_stmt", src: `do ; while(true);`, nonterm: true},
	{name: "for_in_call", src: `sf = function(){ for(;;){} }; sf();`, nonterm: true},
}

var siteWrappers = []string{"try_c.body", "try_c.catch", "try_f.body", "try_cf.body", "try_cf.catch", "try_cf.fin", "fcall", "forEach", "lfor", "with"}

var siteValues = []string{"string", "nan", "error_pointer", "uncomparable_struct"}

func runInterruptSites(r *engine.Run) {
	r.Bound("site_bodies", fmt.Sprint(len(siteBodies)))
	r.Bound("site_wrappers", strings.Join(siteWrappers, ","))
	r.Bound("site_values", strings.Join(siteValues, ","))
	r.Bound("site_steps", fmt.Sprintf("k <= %d", siteSteps))
	for _, wn := range siteWrappers {
		wi := -1
		for i, w := range wrappers {
			if w.name == wn {
				wi = i
			}
		}
		if wi < 0 {
			r.HarnessError("no wrapper " + wn)
			return
		}
		for _, b := range siteBodies {
			p := makeProg([]int{wi}, b)
			p.key = "site:" + p.key
			if !owns(r, p.key) {
				continue
			}
			r.Begin(p.key + "|reference")
			ref, err := reference(p, r.Thorough())
			r.End()
			if err != nil {
				r.HarnessError("runtime setup failed: " + err.Error())
				return
			}
			if !ref.cut {
				r.HarnessError("site body terminated: " + p.key)
				continue
			}
			for pi, pay := range intPayloads {
				use := false
				for _, v := range siteValues {
					use = use || v == pay.name
				}
				if !use {
					continue
				}
				for k := 0; k <= siteSteps && k < ref.n; k++ {
					key := fmt.Sprintf("%s|v%d.%s|%d", p.key, pi, pay.name, k)
					if !wantCase(r, key) {
						continue
					}
					r.Begin(key)
					checkInterruptValue(r, p, ref, pay, k, key)
					r.End()
					r.Tree(1, 1)
				}
			}
		}
	}
}

func checkInterruptValue(r *engine.Run, p *prog, ref *refRun, pay intPayload, k int, key string) {
	s, err := newSession(p)
	if err != nil {
		r.HarnessError("runtime setup failed: " + err.Error())
		return
	}
	val, isNil := pay.make(s.vm)
	e := s.run(injection{mode: modeIntPanic, k: k, panicVal: val, panicNil: isNil}, nil, stepCapFor(p, ref))
	r.Eval(nontrivialStep(ref, k))
	deliveredWant := fmt.Sprintf("step %d on run-goroutine", k)
	input := inputOf(p, fmt.Sprintf("interrupt function panics with %s (%T) at step %d of %d", pay.name, val, k, ref.n))

	if pay.exception {
		// a JavaScript throw raised from Go: delivery, rest state and reusability only
		exp := fmt.Sprintf("delivered=%s; run does not panic with a foreign value; rest=%s", deliveredWant, restClean)
		how := "run does not panic with a foreign value"
		if e.out.panicked {
			how = e.out.outcome(nil)
		}
		obs := fmt.Sprintf("delivered=%s; %s; rest=%s", e.delivery(e.out.gid), how, e.rest())
		r.Outcome(obs + e.out.outcome(nil))
		if exp != obs {
			r.Mismatch(engine.Mismatch{Key: key, Input: input, Expected: exp, Observed: obs, Aux: map[string]string{"kind": "interrupt-value-exception"}})
			return
		}
		if fu := s.followUp(e.final); fu != followUpExpected {
			r.Mismatch(engine.Mismatch{Key: key, Input: "follow-up program after: " + input, Expected: followUpExpected, Observed: fu,
				Aux: map[string]string{"kind": "followup"}})
		}
		return
	}

	outcome := e.out.outcome(nil)
	switch {
	case e.out.panicked && isNil:
		if _, ok := e.out.pan.(*goruntime.PanicNilError); ok {
			outcome = "panic:identical-value"
		}
	case e.out.panicked && identicalValue(e.out.pan, val):
		outcome = "panic:identical-value"
	}
	exp := describe("panic:identical-value", deliveredWant, 0, 0, restClean, ref.snaps[k], logString(ref.log[:ref.logLen[k]]))
	obs := describe(outcome, e.delivery(e.out.gid), e.stepsAfter, e.hostAfter, e.rest(), e.final, logString(e.log))
	r.Outcome(obs)
	if r.WantSample() && nontrivialStep(ref, k) && k%13 == 6 {
		r.Sample(input + " => " + outcome)
	}
	if exp != obs {
		aux := map[string]string{"kind": "interrupt-value", "payload": pay.name, "primitive": b01(pay.primitive), "in_tce": b01(e.delivTCE),
			"continued_to_cap": b01(e.out.exited), "in_uncaught": b01(e.delivUnc), "dropped_text": b01(droppedByUncaughtString(e)),
			"delivered": "bad", "panicked": b01(e.out.panicked), "surfaced": "0", "rest": "dirty"}
		if e.delivery(e.out.gid) == deliveredWant {
			aux["delivered"] = "ok"
		}
		if e.rest() == restClean {
			aux["rest"] = "clean"
		}
		if pay.primitive {
			text := pay.jsText[strings.IndexByte(pay.jsText, ':')+1:]
			if errText(e.out.err) == text || strings.Contains(e.final, "=s:"+pay.jsText+" ") || strings.Contains(e.final, " ce_1="+pay.jsCanon+" ") || strings.Contains(logString(e.log), "hosterr:"+text) {
				aux["surfaced"] = "1"
			}
		}
		r.Mismatch(engine.Mismatch{Key: key, Input: input, Expected: exp, Observed: obs, Aux: aux})
		return
	}
	if k%3 != 0 {
		return // reusability after an interrupt halt is the interrupt-panic family's subject; sampled here
	}
	if fu := s.followUp(e.final); fu != followUpExpected {
		r.Mismatch(engine.Mismatch{Key: key, Input: "follow-up program after: " + input, Expected: followUpExpected, Observed: fu,
			Aux: map[string]string{"kind": "followup"}})
	}
}

// identicalValue: the value Run unwound with IS the value the interrupt function
// panicked with - same dynamic type and == where the type is comparable, the same
// code pointer for funcs, reflect.DeepEqual otherwise (slices, maps, structs
// holding them).
func identicalValue(got, want interface{}) bool {
	if got == nil || want == nil {
		return got == nil && want == nil
	}
	tg, tw := reflect.TypeOf(got), reflect.TypeOf(want)
	if tg != tw {
		return false
	}
	switch {
	case tg.Kind() == reflect.Func:
		return reflect.ValueOf(got).Pointer() == reflect.ValueOf(want).Pointer()
	case tg.Comparable():
		if got == want {
			return true
		}
		// values that are not equal to themselves (NaN, structs holding NaN): same bits
		return got != got && want != want && reflect.DeepEqual(fmt.Sprintf("%#v", got), fmt.Sprintf("%#v", want))
	}
	return reflect.DeepEqual(got, want)
}

// sigInterruptNaNCaught is sigInterruptPrimitiveCaught restricted to the NaN value
// (known finding F-C18-006: the halt in flight is recognised by value equality).
func sigInterruptNaNCaught(m *engine.Mismatch) bool {
	a := m.Aux
	if a == nil || a["payload"] != "nan" {
		return false
	}
	if sigInterruptPrimitiveCaught(m) {
		return true
	}
	// the thrown NaN left a catch block whose finally clause is the never-ending
	// body: the script visibly continued (it ran until the step cap) but no marker
	// could record the value
	return a["kind"] == "interrupt-value" && a["in_tce"] == "1" && a["delivered"] == "ok" && a["panicked"] == "0" &&
		a["continued_to_cap"] == "1" && a["rest"] == "clean"
}

// sigInterruptPrimitiveCaught accepts exactly: the interrupt function panicked with a
// primitive Go value (string, int, bool, float64) while the evaluator was inside a
// try or catch block (tryCatchEvaluate on the stack at delivery); delivery was
// correct; Run did not panic; the value surfaced as the corresponding JavaScript
// primitive exception (Run's error text, a catch marker, or a host error log); and
// the runtime is at rest. Every other value, and primitives outside try/catch
// blocks, must unwind Run with the identical value.
func sigInterruptPrimitiveCaught(m *engine.Mismatch) bool {
	a := m.Aux
	return a != nil && a["kind"] == "interrupt-value" && a["primitive"] == "1" && a["in_tce"] == "1" &&
		a["delivered"] == "ok" && a["panicked"] == "0" && a["surfaced"] == "1" && a["rest"] == "clean"
}
