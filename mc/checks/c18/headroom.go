package c18

import (
	"fmt"
	"strings"

	"github.com/robertkrimen/otto"

	"verif/mc/engine"
)

// ---------------------------------------------------------------------------
// Family "headroom": abnormal exits that happen BEFORE any code of the nested
// unit runs - the source handed to a direct eval (or indirect eval, Function,
// RegExp, JSON.parse) does not parse - plus the other ways a direct eval ends
// abnormally, as HISTORIES on a runtime with a stack limit.
//
//	history   25 programs: direct eval of unparsable source (SyntaxError), of
//	          early-error source (`1=2`, invalid regexp literal, `return` outside a
//	          function), nested (eval of eval of bad source), inside try/catch,
//	          try/finally, try/catch/finally, with, a function at depth 1..3, inside
//	          eval code; runtime throws inside eval code; eval nesting that exceeds
//	          the limit; non-string argument; Function / RegExp / JSON.parse /
//	          indirect eval failing to parse
//	k         the history is repeated 1, 2 or L times on the same runtime
//	L         stack limit in {0, 2, 3, 4, 6, 10}
//	route     entered through Run or through Otto.Eval
//
// Oracle (differential, the usable depth must be history-independent):
// every repetition ends exactly like the first one (which ran on a fresh
// runtime); the runtime is at rest after each; and afterwards the remaining
// depth - for each of three probe forms (plain calls, direct eval nesting,
// Function.prototype.call trampolines) the vector of which nestings d = 0..L+2
// still succeed - equals the vector of a FRESH runtime with the same limit, on
// the runtime itself and on a Copy() of it. The runtime's active-direct-eval
// counter (VerifEvalDepth) is part of every rest-state comparison as well.
// ---------------------------------------------------------------------------

type historyProg struct {
	name string
	src  string
	want string // outcome prefix on a runtime without a limit (self-check of the generator)
}

var histories = []historyProg{
	{"eval_syntax", `eval("(")`, "err:SyntaxError"},
	{"eval_syntax_var", `eval("var = (")`, "err:SyntaxError"},
	// early error; which class it gets (ES5 16: ReferenceError, otto: SyntaxError) is C19's business
	{"eval_early_assign", `eval("1=2")`, "err:"},
	{"eval_bad_regexp", `eval("/(/")`, "err:SyntaxError"},
	{"eval_bad_return", `eval("return 1")`, "err:SyntaxError"},
	{"eval_nested_syntax", `eval("eval(\"(\")")`, "err:SyntaxError"},
	{"eval_nested3_syntax", `eval("eval(\"eval('(')\")")`, "err:SyntaxError"},
	{"eval_syntax_caught", `hc = "none"; try { eval("(") } catch (e) { hc = e instanceof SyntaxError } hc`, "ok:b:1"},
	{"eval_syntax_finally", `hf = 0; try { eval("(") } finally { hf = 1 }`, "err:SyntaxError"},
	{"eval_syntax_catch_finally", `hf = 0; try { eval("1=2") } catch (e) { hc = e instanceof Error } finally { hf = 1 } hc`, "ok:b:1"},
	{"eval_syntax_with", `with ({ a: 1 }) { eval("(") }`, "err:SyntaxError"},
	{"eval_syntax_with_caught", `try { with ({ a: 1 }) { eval("(") } } catch (e) { hc = 2 } hc`, "ok:d:2"},
	{"eval_syntax_fn_d1", `hg = function(n){ if (n > 1) return hg(n - 1); return eval("("); }; hg(1)`, "err:SyntaxError"},
	{"eval_syntax_fn_d3", `hg = function(n){ if (n > 1) return hg(n - 1); return eval("("); }; hg(3)`, "err:SyntaxError"},
	{"eval_syntax_fn_d2_caught", `hg = function(n){ if (n > 1) return hg(n - 1); try { eval("(") } catch (e) { return 5 } }; hg(2)`, "ok:d:5"},
	{"eval_in_eval_caught", `eval("try { eval('(') } catch (e) {} 1")`, "ok:d:1"},
	{"eval_runtime_throw", `eval("throw 1")`, "err:1"},
	{"eval_runtime_typeerror_caught", `try { eval("null.x") } catch (e) { hc = e instanceof TypeError } hc`, "ok:b:1"},
	{"eval_too_deep", `hs = "1"; for (hi = 0; hi < 14; hi++) { hs = "eval(" + JSON.stringify(hs) + ")"; } try { eval(hs) } catch (e) { hc = e instanceof RangeError } 0`, "ok:d:0"},
	{"eval_non_string", `eval({ a: 1 }).a`, "ok:d:1"},
	{"indirect_eval_syntax", `(0, eval)("(")`, "err:SyntaxError"},
	{"indirect_eval_syntax_caught", `try { (0, eval)("1=2") } catch (e) { hc = 3 } hc`, "ok:d:3"},
	{"function_ctor_syntax", `Function("(")`, "err:SyntaxError"},
	{"regexp_ctor_syntax", `try { new RegExp("(") } catch (e) { hc = e instanceof SyntaxError } new RegExp("(")`, "err:SyntaxError"},
	{"json_parse_syntax", `try { JSON.parse("{") } catch (e) { hc = e instanceof SyntaxError } JSON.parse("{")`, "err:SyntaxError"},
}

var headroomLimits = []int{0, 2, 3, 4, 6, 10}

// probe forms of the remaining-depth vector (indices into callForms)
var headroomForms = []string{"direct", "eval", "call"}

func formByName(name string) callForm {
	for _, f := range callForms {
		if f.name == name {
			return f
		}
	}
	panic("c18: no call form " + name)
}

// depthVector renders, per probe form, which nestings d = 0..L+2 still succeed.
func depthVector(vm *otto.Otto, L int) string {
	var sb strings.Builder
	top := L + 2
	if L == 0 {
		top = 6
	}
	for _, name := range headroomForms {
		f := formByName(name)
		sb.WriteString(name + ":")
		if out := guarded(func() (otto.Value, error) { return vm.Run(limitSetup(f)) }); out.panicked || out.err != nil {
			sb.WriteString("setup-" + out.outcome(nil) + " ")
			continue
		}
		for d := 0; d <= top; d++ {
			out := guarded(func() (otto.Value, error) { return vm.Run(limitProgram(f, d, true)) })
			switch s := out.outcome(nil); {
			case s == fmt.Sprintf("ok:s:ok:%d", d):
				sb.WriteByte('1')
			case s == "ok:s:RangeError:"+overflowMsg:
				sb.WriteByte('0')
			default:
				sb.WriteString("[" + s + "]")
			}
		}
		sb.WriteString(strings.TrimSpace(restSuffix(vm)))
		sb.WriteByte(' ')
	}
	return sb.String()
}

// modelVector is what the limits model says the vector is (success <=> L == 0 || need(d) < L).
func modelVector(L int) string {
	var sb strings.Builder
	top := L + 2
	if L == 0 {
		top = 6
	}
	for _, name := range headroomForms {
		f := formByName(name)
		sb.WriteString(name + ":")
		for d := 0; d <= top; d++ {
			if L == 0 || f.needed(d) < L {
				sb.WriteByte('1')
			} else {
				sb.WriteByte('0')
			}
		}
		sb.WriteByte(' ')
	}
	return sb.String()
}

// dropForm removes one probe form's entry from a rendered vector.
func dropForm(vec, form string) string {
	var keep []string
	for _, f := range strings.Fields(vec) {
		if !strings.HasPrefix(f, form+":") {
			keep = append(keep, f)
		}
	}
	return strings.Join(keep, " ")
}

func runHistory(vm *otto.Otto, route int, src string) string {
	out := guarded(func() (otto.Value, error) {
		if route == 1 {
			return vm.Eval(src)
		}
		return vm.Run(src)
	})
	return out.outcome(nil) + restSuffix(vm)
}

func runHeadroomFamily(r *engine.Run) {
	r.Bound("histories", fmt.Sprint(len(histories)))
	r.Bound("L", "0,2,3,4,6,10")
	r.Bound("repetitions", "1, 2, L")
	r.Bound("routes", "Run, Otto.Eval")
	// fresh-runtime vectors, and the generator's self-check
	fresh := map[int]string{}
	for _, L := range headroomLimits {
		vm, err := newVM(&host{}, L)
		if err != nil {
			r.HarnessError("runtime setup failed: " + err.Error())
			return
		}
		fresh[L] = depthVector(vm, L)
		if r.Shard == 0 && r.ReplayKey == "" {
			// the fresh vector itself must be the one the limits model predicts
			// (the mixed eval/call form is compared differentially only: how it is charged is limits-mixed's subject)
			r.Check(fmt.Sprintf("fresh/L%d", L), fmt.Sprintf("remaining-depth vector of a fresh runtime, SetStackDepthLimit(%d)", L), dropForm(modelVector(L), "eval"), dropForm(fresh[L], "eval"))
		}
	}
	routeNames := []string{"run", "otto_eval"}
	for _, hp := range histories {
		for _, L := range headroomLimits {
			reps := []int{1, 2}
			if L > 2 {
				reps = append(reps, L)
			}
			for _, k := range reps {
				for route := range routeNames {
					key := fmt.Sprintf("%s/L%d/x%d/%s", hp.name, L, k, routeNames[route])
					if !r.MineKey(key) {
						continue
					}
					r.Begin(key)
					checkHeadroom(r, hp, L, k, route, routeNames[route], fresh[L], key)
					r.End()
					r.Tree(1, 1)
				}
			}
		}
	}
}

func checkHeadroom(r *engine.Run, hp historyProg, L, k, route int, routeName, fresh, key string) {
	vm, err := newVM(&host{}, L)
	if err != nil {
		r.HarnessError("runtime setup failed: " + err.Error())
		return
	}
	var runs []string
	for i := 0; i < k; i++ {
		runs = append(runs, runHistory(vm, route, hp.src))
	}
	input := fmt.Sprintf("SetStackDepthLimit(%d); %d x %s(%q); then remaining-depth vectors (d = 0.. for %s)", L, k, routeName, hp.src, strings.Join(headroomForms, ", "))
	if L == 0 && !strings.HasPrefix(runs[0], hp.want) {
		// generator self-check: the history is not the abnormal exit it is meant to be
		r.Mismatch(engine.Mismatch{Key: key, Input: input, Expected: "first execution: " + hp.want + "...", Observed: "first execution: " + runs[0],
			Aux: map[string]string{"kind": "headroom-history"}})
		return
	}
	exp := fmt.Sprintf("every repetition=%s; vector=%s; vector on Copy()=%s", runs[0], fresh, fresh)
	same := runs[0]
	for i, s := range runs {
		if s != runs[0] {
			same = fmt.Sprintf("repetition %d differs: %s (first: %s)", i+1, s, runs[0])
			break
		}
	}
	cp := vm.Copy()
	// the Copy taken at rest is at rest too (scopes, labels, active direct evals)
	copyRest := restSuffix(cp)
	vec := depthVector(vm, L)
	vecCopy := depthVector(cp, L)
	obs := fmt.Sprintf("every repetition=%s; vector=%s; vector on Copy()=%s%s", same, vec, vecCopy, copyRest)
	r.Eval(L > 0)
	r.Outcome(obs)
	if r.WantSample() && L == 4 && k == 4 {
		r.Sample(input + " => " + obs)
	}
	if exp != obs {
		r.Mismatch(engine.Mismatch{Key: key, Input: input, Expected: exp, Observed: obs, Aux: map[string]string{"kind": "headroom"}})
	}
}
