package c18

import (
	"errors"
	"fmt"
	"strconv"
	"strings"

	"github.com/robertkrimen/otto"

	"verif/mc/engine"
)

// ---------------------------------------------------------------------------
// Family "exit-stage": abnormal exits at EVERY STAGE of every Go-side entry
// route - before any code ran (the source does not get through the lexer, the
// parser, the early-error checks, the regexp-literal translation), or while it
// ran (throw, TypeError, stack-limit RangeError, host-function panic, interrupt
// panic) - followed by the FIRST eval code / host program the runtime
// instantiates afterwards, entered through every Go-side route, with the
// attributes of the bindings that code declares as the observation.
//
//	route    15 ways to hand a source text to the runtime from Go: Run, Otto.Eval,
//	         Compile (+ Run of the script), Otto.Call("eval"), Value.Call of eval,
//	         Object.Call("eval"), Otto.Call("Function") / ("new Function") (+ call),
//	         Run / Otto.Eval of a script-level direct or indirect eval, a host
//	         function that calls Otto.Eval / Otto.Run while a Run or an Otto.Eval
//	         is in progress, Value.Call of a script function containing a direct eval
//	kind     15 source texts: 2 lexer errors, 3 parser errors (one after valid
//	         declarations), early error, invalid regexp literal, return outside a
//	         function, throw, TypeError, unbounded recursion (L > 0 only), host
//	         function panicking with a Go error, endless loop halted by a
//	         pre-queued interrupt panic, and two normal completions (controls)
//	L        stack limit 0 (none) or 10
//	between  nothing; Go API calls that do not start a program (Set, Get, Call of
//	         a native and of a script function, Compile); a second history step
//	         Run / Otto.Eval of a valid / an unparsable source
//	target   the runtime itself, or (between = nothing) a Copy() taken at rest
//	probe    17 ways to be the first program afterwards: eval code entered through
//	         Otto.Call("eval") with and without this, Value.Call and Object.Call of
//	         eval, Value.Call / Otto.Call of script functions containing a direct or
//	         an indirect eval, a native callback (forEach), a toString conversion,
//	         an accessor read by Otto.Get, a Function-constructed function, Run and
//	         Otto.Eval and a compiled script whose code calls eval, a host function
//	         calling Otto.Run from rest; and host programs: Run, Otto.Eval, a host
//	         function calling Otto.Eval from rest
//
// Oracle: (1) the runtime is at rest after the history (scopes, labels, active
// direct evals); (2) model, ES5 10.4.2 / 10.5 step 2: var and function bindings
// declared by eval code are configurable - the descriptor says so, delete
// returns true and removes them - whereas bindings declared by a program the
// host submitted (Run, Otto.Eval, scripts) are permanent, whatever happened on
// the runtime before; (3) differential twin: the same probe on a fresh runtime
// with the same limit gives the same observation.
// ---------------------------------------------------------------------------

const exitStageSetup = `glob = this; psrc = "var pq = 1; function pf(){ return 2; }"; arr = [1]; noop = function(){}; ` +
	`pxd = function(n){ var d = Object.getOwnPropertyDescriptor(glob, n); return d ? "c:" + d.configurable : "absent"; }; ` +
	`pobs = function(){ return [pxd("pq"), delete pq, typeof pq, pxd("pf"), delete pf, typeof pf].join(); }; ` +
	`fe = function(s){ return eval(s); }; ` +
	`fd = function(s){ eval(s); var a = delete pq, b = typeof pq, c = delete pf; return [a, b, c, typeof pf].join(); }; ` +
	`fi = function(s){ (0, eval)(s); return "done"; }; ` +
	`fcb = function(){ (0, eval)(psrc); }; ` +
	`ts = { toString: function(){ (0, eval)(psrc); return "s"; } }; ` +
	`Object.defineProperty(glob, "pacc", { get: function(){ (0, eval)(psrc); return 1; }, configurable: true });`

const exitProbeSrc = `var pq = 1; function pf(){ return 2; }`

// what pobs() reports after the probe
const (
	bindEval   = "c:true,true,undefined,c:true,true,undefined" // eval code declared pq and pf globally
	bindHost   = "c:false,false,number,c:false,false,function" // a host program declared them
	bindAbsent = "absent,true,undefined,absent,true,undefined" // declared in a function's environment, not globally
	localEval  = "ok:s:true,undefined,true,undefined"          // fd's own report: local eval-code bindings are deletable
)

type exitKind struct {
	name string
	src  string
	// parse: the source is rejected before any code runs, through every route that
	// parses it as a Program (self-check of the generator on the Run route)
	parse     bool
	needLimit bool
	hostPanic bool
	interrupt bool
}

var exitKinds = []exitKind{
	{name: "lex_unterminated_string", src: `var a = "x`, parse: true},
	{name: "lex_illegal_char", src: `1 @ 2`, parse: true},
	{name: "parse_var_nothing", src: `var ;`, parse: true},
	{name: "parse_open_paren", src: `(`, parse: true},
	{name: "parse_after_declarations", src: `var pq = 1; function pf(){} (`, parse: true},
	{name: "early_assign", src: `1=2`, parse: true},
	{name: "bad_regexp_literal", src: `/(/`, parse: true},
	{name: "return_outside_function", src: `return 1`, parse: true},
	{name: "throw", src: `throw 1`},
	{name: "type_error", src: `null.x`},
	{name: "recursion", src: `(function g(){ return g(); })()`, needLimit: true},
	{name: "host_panic_go_error", src: `hpanic()`, hostPanic: true},
	{name: "interrupt_halt", src: `for(;;){}`, interrupt: true},
	{name: "normal_expression", src: `1`},
	{name: "normal_empty", src: ``},
}

func jsq(s string) string { return strconv.Quote(s) }

type exitRoute struct {
	name string
	run  func(vm *otto.Otto, src string) (otto.Value, error)
}

func callResult(v otto.Value, err error) (otto.Value, error) {
	if err != nil || !v.IsFunction() {
		return v, err
	}
	return v.Call(otto.UndefinedValue())
}

var exitRoutes = []exitRoute{
	{"run", func(vm *otto.Otto, src string) (otto.Value, error) { return vm.Run(src) }},
	{"otto_eval", func(vm *otto.Otto, src string) (otto.Value, error) { return vm.Eval(src) }},
	{"compile_run", func(vm *otto.Otto, src string) (otto.Value, error) {
		s, err := vm.Compile("", src)
		if err != nil {
			return otto.Value{}, err
		}
		return vm.Run(s)
	}},
	{"otto_call_eval", func(vm *otto.Otto, src string) (otto.Value, error) { return vm.Call("eval", nil, src) }},
	{"value_call_eval", func(vm *otto.Otto, src string) (otto.Value, error) {
		return getv(vm, "eval").Call(otto.UndefinedValue(), src)
	}},
	{"object_call_eval", func(vm *otto.Otto, src string) (otto.Value, error) {
		return getv(vm, "glob").Object().Call("eval", src)
	}},
	{"otto_call_function_ctor", func(vm *otto.Otto, src string) (otto.Value, error) {
		return callResult(vm.Call("Function", nil, src))
	}},
	{"otto_call_new_function", func(vm *otto.Otto, src string) (otto.Value, error) {
		return callResult(vm.Call("new Function", nil, src))
	}},
	{"run_direct_eval", func(vm *otto.Otto, src string) (otto.Value, error) { return vm.Run(`eval(` + jsq(src) + `)`) }},
	{"run_indirect_eval", func(vm *otto.Otto, src string) (otto.Value, error) { return vm.Run(`(0, eval)(` + jsq(src) + `)`) }},
	{"otto_eval_direct_eval", func(vm *otto.Otto, src string) (otto.Value, error) { return vm.Eval(`eval(` + jsq(src) + `)`) }},
	{"run_host_otto_eval", func(vm *otto.Otto, src string) (otto.Value, error) { return vm.Run(`heval(` + jsq(src) + `)`) }},
	{"run_host_run", func(vm *otto.Otto, src string) (otto.Value, error) { return vm.Run(`hrun(` + jsq(src) + `)`) }},
	{"otto_eval_host_otto_eval", func(vm *otto.Otto, src string) (otto.Value, error) { return vm.Eval(`heval(` + jsq(src) + `)`) }},
	{"value_call_fn_direct_eval", func(vm *otto.Otto, src string) (otto.Value, error) {
		return getv(vm, "fe").Call(otto.UndefinedValue(), src)
	}},
}

type exitBetween struct {
	name string
	do   func(vm *otto.Otto)
}

var exitBetweens = []exitBetween{
	{"nothing", func(vm *otto.Otto) {}},
	{"go_api_without_program", func(vm *otto.Otto) {
		_ = vm.Set("pxs", 1)
		_, _ = vm.Get("pxs")
		_, _ = vm.Call("parseInt", nil, "7")
		_, _ = getv(vm, "noop").Call(otto.UndefinedValue())
		_, _ = vm.Compile("", "1")
	}},
	{"run_valid", func(vm *otto.Otto) { _, _ = vm.Run(`1`) }},
	{"run_unparsable", func(vm *otto.Otto) { _, _ = vm.Run(`var ;`) }},
	{"otto_eval_valid", func(vm *otto.Otto) { _, _ = vm.Eval(`1`) }},
	{"otto_eval_unparsable", func(vm *otto.Otto) { _, _ = vm.Eval(`var ;`) }},
}

type exitProbe struct {
	name   string
	result string // what the entry reports
	bind   string // what pobs() reports afterwards
	enter  func(vm *otto.Otto) (otto.Value, error)
}

var exitProbes = []exitProbe{
	{"otto_call_eval", "ok:u", bindEval, func(vm *otto.Otto) (otto.Value, error) { return vm.Call("eval", nil, exitProbeSrc) }},
	{"otto_call_eval_with_this", "ok:u", bindEval, func(vm *otto.Otto) (otto.Value, error) { return vm.Call("eval", 1, exitProbeSrc) }},
	{"value_call_eval", "ok:u", bindEval, func(vm *otto.Otto) (otto.Value, error) {
		return getv(vm, "eval").Call(otto.UndefinedValue(), exitProbeSrc)
	}},
	{"object_call_eval", "ok:u", bindEval, func(vm *otto.Otto) (otto.Value, error) {
		return getv(vm, "glob").Object().Call("eval", exitProbeSrc)
	}},
	{"value_call_fn_direct_eval", localEval, bindAbsent, func(vm *otto.Otto) (otto.Value, error) {
		return getv(vm, "fd").Call(otto.UndefinedValue(), exitProbeSrc)
	}},
	{"otto_call_fn_direct_eval", localEval, bindAbsent, func(vm *otto.Otto) (otto.Value, error) { return vm.Call("fd", nil, exitProbeSrc) }},
	{"value_call_fn_indirect_eval", "ok:s:done", bindEval, func(vm *otto.Otto) (otto.Value, error) {
		return getv(vm, "fi").Call(otto.UndefinedValue(), exitProbeSrc)
	}},
	{"object_call_native_callback", "ok:u", bindEval, func(vm *otto.Otto) (otto.Value, error) {
		return getv(vm, "arr").Object().Call("forEach", getv(vm, "fcb"))
	}},
	{"value_tostring", "ok:s:s", bindEval, func(vm *otto.Otto) (otto.Value, error) {
		s, err := getv(vm, "ts").ToString()
		if err != nil {
			return otto.Value{}, err
		}
		return otto.ToValue(s)
	}},
	{"otto_get_accessor", "ok:d:1", bindEval, func(vm *otto.Otto) (otto.Value, error) { return vm.Get("pacc") }},
	{"function_ctor_body_direct_eval", localEval, bindAbsent, func(vm *otto.Otto) (otto.Value, error) {
		return callResult(vm.Call("Function", nil, `eval(psrc); var a = delete pq, b = typeof pq, c = delete pf; return [a, b, c, typeof pf].join();`))
	}},
	{"run_script_direct_eval", "ok:u", bindEval, func(vm *otto.Otto) (otto.Value, error) { return vm.Run(`eval(psrc)`) }},
	{"otto_eval_script_direct_eval", "ok:u", bindEval, func(vm *otto.Otto) (otto.Value, error) { return vm.Eval(`eval(psrc)`) }},
	{"compiled_script_indirect_eval", "ok:u", bindEval, func(vm *otto.Otto) (otto.Value, error) {
		s, err := vm.Compile("", `(0, eval)(psrc)`)
		if err != nil {
			return otto.Value{}, err
		}
		return vm.Run(s)
	}},
	{"otto_call_host_run_direct_eval", "ok:u", bindEval, func(vm *otto.Otto) (otto.Value, error) { return vm.Call("hrun", nil, `eval(psrc)`) }},
	// host programs: their declarations are permanent
	{"run", "ok:u", bindHost, func(vm *otto.Otto) (otto.Value, error) { return vm.Run(exitProbeSrc) }},
	{"otto_eval", "ok:u", bindHost, func(vm *otto.Otto) (otto.Value, error) { return vm.Eval(exitProbeSrc) }},
	// (Otto.Eval runs in the current scope: from rest that is the host function's own frame)
	{"otto_call_host_otto_eval", "ok:u", bindAbsent, func(vm *otto.Otto) (otto.Value, error) { return vm.Call("heval", nil, exitProbeSrc) }},
}

// exitObserve enters the probe on vm and reports the entry's result, the
// attributes of the bindings the probe's code declared, and the rest state.
func exitObserve(vm *otto.Otto, p exitProbe) string {
	out := guarded(func() (otto.Value, error) { return p.enter(vm) })
	res := out.outcome(nil) + restSuffix(vm)
	obs := guarded(func() (otto.Value, error) { return vm.Run(`pobs()`) })
	o := obs.outcome(nil)
	o = strings.TrimPrefix(o, "ok:s:")
	return fmt.Sprintf("probe=%s; bindings=%s%s", res, o, restSuffix(vm))
}

func exitNewVM(L int) (*otto.Otto, *host, error) {
	h := &host{}
	vm, err := newVM(h, 0)
	if err == nil {
		_, err = vm.Run(exitStageSetup)
	}
	if err != nil {
		return nil, nil, err
	}
	if L != 0 {
		vm.SetStackDepthLimit(L)
	}
	return vm, h, nil
}

var exitLimits = []int{0, 10}

func runExitStage(r *engine.Run) {
	r.Bound("routes", fmt.Sprint(len(exitRoutes)))
	r.Bound("source_kinds", fmt.Sprint(len(exitKinds)))
	r.Bound("L", "0,10")
	r.Bound("between", fmt.Sprint(len(exitBetweens)))
	r.Bound("targets", "self (every between), Copy() (between = nothing)")
	r.Bound("probes", fmt.Sprint(len(exitProbes)))
	// the differential twin: every probe on a fresh runtime, per limit
	fresh := map[string]string{}
	for _, L := range exitLimits {
		for _, p := range exitProbes {
			vm, _, err := exitNewVM(L)
			if err != nil {
				r.HarnessError("exit-stage setup failed: " + err.Error())
				return
			}
			fresh[fmt.Sprintf("%d/%s", L, p.name)] = exitObserve(vm, p)
		}
	}
	for _, route := range exitRoutes {
		for _, kind := range exitKinds {
			for _, L := range exitLimits {
				if kind.needLimit && L == 0 {
					continue
				}
				for _, p := range exitProbes {
					for bi, bt := range exitBetweens {
						for target := 0; target < 2; target++ {
							if target == 1 && bi != 0 {
								continue
							}
							tname := "self"
							if target == 1 {
								tname = "copy"
							}
							key := fmt.Sprintf("%s/%s/L%d/%s/%s/%s", route.name, kind.name, L, bt.name, tname, p.name)
							if !r.MineKey(key) {
								continue
							}
							if r.Expired() {
								r.Cap("time budget reached before all exit-stage cases were explored")
								return
							}
							r.Begin(key)
							checkExitStage(r, route, kind, L, bt, target, p, fresh[fmt.Sprintf("%d/%s", L, p.name)], key)
							r.End()
							r.Tree(1, 1)
						}
					}
				}
			}
		}
	}
}

func checkExitStage(r *engine.Run, route exitRoute, kind exitKind, L int, bt exitBetween, target int, p exitProbe, fresh, key string) {
	vm, h, err := exitNewVM(L)
	if err != nil {
		r.HarnessError("exit-stage setup failed: " + err.Error())
		return
	}
	// the history step
	sentinel := errors.New("c18 exit-stage halt")
	if kind.hostPanic {
		h.hpVal = errors.New("c18 exit-stage host error")
	}
	if kind.interrupt {
		ch := make(chan func(), 1)
		ch <- func() { panic(sentinel) }
		vm.Interrupt = ch
	}
	hist := guarded(func() (otto.Value, error) { return route.run(vm, kind.src) })
	h.hpVal = nil
	if kind.interrupt {
		select {
		case <-vm.Interrupt:
		default:
		}
		vm.Interrupt = nil
	}
	histOut := hist.outcome(sentinel)
	histRest := restSuffix(vm)
	input := fmt.Sprintf("SetStackDepthLimit(%d); history: %s(%q) => %s; between: %s; then on %s the first program is %s, then Run(`pobs()`) :: setup: %s",
		L, route.name, kind.src, histOut, bt.name, []string{"the runtime", "a Copy()"}[target], p.name, exitStageSetup)
	if route.name == "run" && kind.parse && !(hist.err != nil && !hist.panicked) {
		r.Mismatch(engine.Mismatch{Key: key, Input: input, Expected: "history: Run reports an error before any code runs", Observed: "history: " + histOut,
			Aux: map[string]string{"kind": "exit-stage-history"}})
		return
	}
	bt.do(vm)
	tv := vm
	if target == 1 {
		tv = vm.Copy()
	}
	got := exitObserve(tv, p)
	model := fmt.Sprintf("probe=%s; bindings=%s", p.result, p.bind)
	exp := fmt.Sprintf("rest after history: clean; first program afterwards: %s; on a fresh runtime: %s", model, model)
	restTxt := "clean"
	if histRest != "" {
		restTxt = strings.TrimSpace(histRest)
	}
	obs := fmt.Sprintf("rest after history: %s; first program afterwards: %s; on a fresh runtime: %s", restTxt, got, fresh)
	abnormal := hist.panicked || hist.err != nil
	r.Eval(abnormal)
	r.Outcome(histOut + " | " + got)
	if r.WantSample() && abnormal && target == 0 && bt.name == "nothing" {
		r.Sample(fmt.Sprintf("L=%d %s(%q) => %s; then %s => %s", L, route.name, kind.src, histOut, p.name, got))
	}
	if exp != obs {
		r.Mismatch(engine.Mismatch{Key: key, Input: input, Expected: exp, Observed: obs, Aux: map[string]string{"kind": "exit-stage"}})
	}
}
