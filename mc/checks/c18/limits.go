package c18

import (
	"fmt"

	"verif/mc/engine"
)

// ---------------------------------------------------------------------------
// Stack-limit grid: L in {0,1..12} x required nesting d in {0..14} x 12 call
// forms. r() nests itself d deep through the call form; every script function
// frame counts one, every native trampoline that is still on the stack while
// the callee runs (Function.prototype.call/apply, forEach, sort) counts one
// more (otto gives native functions a scope of their own). The global frame
// counts as one (otto_test.go Test_stackLimit: five nested calls fail with
// L = 5 and pass with L = 6), so with D = frames needed below the global frame
//
//	success  <=>  L == 0  ||  D < L
// ---------------------------------------------------------------------------

type callForm struct {
	name     string
	setup    string          // run before the limit is configured
	call     string          // one nested invocation of r
	perLevel int             // frames per nesting level: script frames + native trampolines that stay on the stack
	extra    string          // what the second frame per level is, where there is one
	need     func(d int) int // overrides d*perLevel where the accounting is not linear
	needOtto func(d int) int // alternative model of known finding F-C18-004 (frames ignore active direct evals)
}

var callForms = []callForm{
	{name: "direct", call: `r();`, perLevel: 1},
	{name: "method", setup: `obj = { r: r };`, call: `obj.r();`, perLevel: 1},
	{name: "call", call: `r.call(null);`, perLevel: 2, extra: "Function.prototype.call"},
	{name: "apply", call: `r.apply(null, []);`, perLevel: 2, extra: "Function.prototype.apply"},
	{name: "bound", setup: `rb = r.bind(null);`, call: `rb();`, perLevel: 1},
	{name: "new", call: `new r();`, perLevel: 1},
	{name: "getter", setup: `obj = {}; Object.defineProperty(obj, "g", { get: r });`, call: `obj.g;`, perLevel: 1},
	{name: "valueOf", setup: `vo = { valueOf: r };`, call: `+vo;`, perLevel: 1},
	{name: "forEach", setup: `one = [1];`, call: `one.forEach(r);`, perLevel: 2, extra: "Array.prototype.forEach"},
	{name: "sort", setup: `two = [2, 1];`, call: `two.sort(r);`, perLevel: 2, extra: "Array.prototype.sort"},
	// A direct eval enters no scope but counts one unit while it is active, like a
	// native trampoline: d levels of (eval, r) need 2d units. (needOtto: otto charges
	// the evals only at eval time and not when a frame is entered, so the deepest r
	// frame gets in with one unit less, 2d-1: known finding F-C18-004.)
	{name: "eval", call: `eval("r()");`, perLevel: 2, needOtto: func(d int) int { return 2*d - 1 }, extra: "one unit per active direct eval"},
	// indirect eval: native frame of eval + the global frame it enters + r
	{name: "eval_indirect", call: `(0, eval)("r()");`, perLevel: 3, extra: "eval's native frame and the global frame it enters"},
	// a host function re-entering the runtime: its native frame, (for Run / Otto.Call) a global frame, r
	{name: "host_run", call: `hrec(0);`, perLevel: 3, extra: "host function frame and the global frame of Otto.Run"},
	{name: "host_otto_call", call: `hrec(1);`, perLevel: 3, extra: "host function frame and the global frame of Otto.Call"},
	{name: "host_value_call", call: `hrec(2);`, perLevel: 2, extra: "host function frame"},
	{name: "Function", call: `Function("r()")();`, perLevel: 2, extra: "anonymous function created by Function (a script frame)"},
}

func (f callForm) needed(d int) int {
	if d == 0 {
		return 0
	}
	if f.need != nil {
		return f.need(d)
	}
	return d * f.perLevel
}

func limitSetup(f callForm) string {
	return fmt.Sprintf(`depth = 0; maxseen = 0; maxd = 0; res = "unset"; r = function(){ depth++; if (depth > maxseen) maxseen = depth; if (depth < maxd) { %s } depth--; }; %s`, f.call, f.setup)
}

func limitProgram(f callForm, d int, caught bool) string {
	callTop := ""
	if d > 0 {
		callTop = f.call
	}
	if caught {
		return fmt.Sprintf(`depth = 0; maxseen = 0; maxd = %d; try { %s res = "ok:" + maxseen; } catch (e) { res = (e instanceof RangeError ? "RangeError" : "other") + ":" + e.message; } res`, d, callTop)
	}
	return fmt.Sprintf(`depth = 0; maxseen = 0; maxd = %d; %s res = "ok:" + maxseen; res`, d, callTop)
}

func runLimits(r *engine.Run) {
	r.Bound("L", "0..12")
	r.Bound("d", "0..14")
	r.Bound("forms", "12 script-level call forms + indirect eval + 3 host re-entry forms")
	r.Bound("call_forms", fmt.Sprint(len(callForms)))
	for _, f := range callForms {
		for L := 0; L <= 12; L++ {
			for d := 0; d <= 14; d++ {
				for _, caught := range []bool{true, false} {
					key := fmt.Sprintf("%s/L%d/d%d/%s", f.name, L, d, map[bool]string{true: "caught", false: "uncaught"}[caught])
					if !r.MineKey(key) {
						continue
					}
					r.Begin(key)
					checkLimit(r, f, L, d, caught, key)
					r.End()
					r.Tree(1, 1)
				}
			}
		}
	}
}

const overflowMsg = "Maximum call stack size exceeded"

func checkLimit(r *engine.Run, f callForm, L, d int, caught bool, key string) {
	h := &host{}
	vm, err := newVM(h, 0)
	if err != nil {
		r.HarnessError("runtime setup failed: " + err.Error())
		return
	}
	if _, err := vm.Run(limitSetup(f)); err != nil {
		r.HarnessError("limit setup failed: " + err.Error())
		return
	}
	vm.SetStackDepthLimit(L)
	src := limitProgram(f, d, caught)
	sess := &session{h: h, vm: vm, p: &prog{src: src}}
	e := sess.run(injection{mode: modePlain}, nil, termCap)

	need := f.needed(d)
	render := func(need int) string {
		var exp string
		switch {
		case L == 0 || need < L:
			exp = fmt.Sprintf("ok:s:ok:%d", d)
		case caught:
			exp = "ok:s:RangeError:" + overflowMsg
		default:
			exp = "err:RangeError: " + overflowMsg
		}
		return exp + "; rest=" + restClean
	}
	exp := render(need)
	obs := e.out.outcome(nil) + "; rest=" + e.rest()
	r.Eval(d > 0 && L > 0)
	r.Outcome(obs)
	input := fmt.Sprintf("SetStackDepthLimit(%d); nesting d=%d through %s (frames needed below the global frame: %d) :: setup: %s :: program: %s", L, d, f.name, need, limitSetup(f), src)
	if r.WantSample() && d > 0 && L > 0 && (need == L || need == L-1) {
		r.Sample(fmt.Sprintf("L=%d d=%d form=%s (needs %d frames) => %s", L, d, f.name, need, e.out.outcome(nil)))
	}
	if exp != obs {
		aux := map[string]string{"kind": "limit"}
		if f.needOtto != nil && d > 0 {
			aux = map[string]string{"kind": "limit-mixed", "has_eval": "1", "alt_model": b01(obs == render(f.needOtto(d)))}
		}
		r.Mismatch(engine.Mismatch{Key: key, Input: input, Expected: exp, Observed: obs, Aux: aux})
		return
	}
	// the threshold has not moved: the same program under the same limit ends the same way again
	e2 := sess.run(injection{mode: modePlain}, nil, termCap)
	if obs2 := e2.out.outcome(nil) + "; rest=" + e2.rest(); obs2 != exp {
		r.Mismatch(engine.Mismatch{Key: key, Input: "SECOND run on the same runtime: " + input, Expected: exp, Observed: obs2, Aux: map[string]string{"kind": "limit"}})
		return
	}
	// the runtime is reusable afterwards (limit lifted so that the follow-up itself fits)
	vm.SetStackDepthLimit(0)
	before := snapshot(vm)
	if fu := sess.followUp(before); fu != followUpExpected {
		r.Mismatch(engine.Mismatch{Key: key, Input: "follow-up program after: " + input, Expected: followUpExpected, Observed: fu,
			Aux: map[string]string{"kind": "followup"}})
	}
}
