package c18

import (
	"errors"
	"fmt"
	"runtime"
	"strings"

	"github.com/robertkrimen/otto"

	"verif/mc/engine"
	"verif/mc/ox"
)

// ---------------------------------------------------------------------------
// Family "unbuffered": interrupts served through an UNBUFFERED channel by a
// real sender goroutine that is blocked in `vm.Interrupt <- fn`.
//
// The other families drop the function into a buffered channel from the step
// hook (same goroutine). The documented usage only requires a channel; with
// capacity 0 nothing is ever "queued" (len is always 0) - the function is
// handed over only when a polling point performs the receive while the sender
// is parked in the send.
//
// Deterministic by construction, no wall-clock oracle: the sender goroutine is
// started (before Run for k = -1, otherwise from the step hook of step k, i.e.
// immediately before the poll of step k) and the harness waits - by yielding,
// not by sleeping - until the Go runtime reports that goroutine as parked in
// "chan send". From then on the very next polling point must take the function:
// delivered exactly once, at step max(k,0), on the Run goroutine. The program is
// finite (bounded loops), so a missed delivery is an assertion failure: the
// sender is still blocked after Run returned and the function never ran.
// Every step k of the program is used, so every polling-point kind is hit: the
// statement poll, the expression poll and the empty-body poll of `for`.
// ---------------------------------------------------------------------------

const unbufferedSrc = `s = 0; for (i = 0; i < 2; i++) { s += i; } for (c = 0; c < 3; c++) {} for (;s < 3; s++); f = function(){ return s + 1; }; t = f(); t`

var unbufferedScript = lazy(unbufferedSrc)

// waitParked yields until goroutine gid is reported as blocked in a channel send.
func waitParked(gid int64) bool {
	marker := fmt.Sprintf("goroutine %d [chan send", gid)
	buf := make([]byte, 1<<16)
	for i := 0; i < 2000000; i++ {
		n := runtime.Stack(buf, true)
		if n == len(buf) {
			buf = make([]byte, 2*len(buf))
			continue
		}
		if strings.Contains(string(buf[:n]), marker) {
			return true
		}
		runtime.Gosched()
	}
	return false
}

type unbufObs struct {
	out        runOut
	delivered  []int
	delivGID   []int64
	stepsAfter int
	steps      int
	state      string
	scopes     int
	labels     int
	evalDepth  int
	senderDone bool // the blocked send completed
	parked     bool
	stateAt    []string
}

func unbufState(vm *otto.Otto) string {
	var sb strings.Builder
	for _, n := range []string{"s", "i", "c", "t"} {
		v, _ := vm.Get(n)
		sb.WriteString(n + "=" + ox.Canon(v) + " ")
	}
	return sb.String()
}

// runUnbuffered: k = -2 reference (no sender), k = -1 sender parked before Run,
// k >= 0 sender started and parked during the step hook of step k.
func runUnbuffered(mode string, k int, sentinel error) (*unbufObs, error) {
	o := &unbufObs{parked: true}
	h := &host{}
	vm, err := newVM(h, 0)
	if err != nil {
		return nil, err
	}
	ch := make(chan func()) // capacity 0
	vm.Interrupt = ch
	step := -1
	exitSeen := false
	fn := func() {
		o.delivered = append(o.delivered, step)
		o.delivGID = append(o.delivGID, curGID())
		if mode == entryPanic {
			exitSeen = true
			panic(sentinel)
		}
	}
	sent := make(chan struct{})
	startSender := func() {
		gidc := make(chan int64, 1)
		go func() {
			gidc <- curGID()
			ch <- fn // blocks until a polling point receives
			close(sent)
		}()
		o.parked = waitParked(<-gidc)
	}
	if k == -1 {
		startSender()
	}
	otto.VerifSetStepHook(vm, func(n int) {
		step = n
		o.steps = n + 1
		if exitSeen {
			o.stepsAfter++
		}
		if k == -2 {
			o.stateAt = append(o.stateAt, unbufState(vm))
		}
		if k >= 0 && n == k {
			startSender()
		}
		if n > termCap {
			runtime.Goexit()
		}
	})
	o.out = guarded(func() (otto.Value, error) { return vm.Run(unbufferedScript.get()) })
	otto.VerifSetStepHook(vm, nil)
	if k != -2 {
		if len(o.delivered) > 0 {
			<-sent // the function was received, so the send has returned: wait for the sender to say so
		}
		select {
		case <-sent:
			o.senderDone = true
		default:
			// release the sender that is still parked so that it does not leak
			select {
			case <-ch:
			default:
			}
		}
	}
	o.state = unbufState(vm)
	o.scopes, o.labels = otto.VerifRestState(vm)
	o.evalDepth = otto.VerifEvalDepth(vm)
	return o, nil
}

func (o *unbufObs) render(sentinel interface{}) string {
	deliv := "never"
	if len(o.delivered) > 0 {
		parts := make([]string, len(o.delivered))
		for i, st := range o.delivered {
			g := "run-goroutine"
			if o.delivGID[i] != o.out.gid {
				g = "other-goroutine"
			}
			parts[i] = fmt.Sprintf("step %d on %s", st, g)
		}
		deliv = strings.Join(parts, ", ")
	}
	return fmt.Sprintf("run=%s; delivered=%s; blocked_send_completed=%v; steps_after_exit=%d; rest=scopes=%d labels=%d%s; state={%s}",
		o.out.outcome(sentinel), deliv, o.senderDone, o.stepsAfter, o.scopes, o.labels, evalLeak(o.evalDepth), o.state)
}

func runUnbufferedFamily(r *engine.Run) {
	r.Bound("channel", "make(chan func()) - capacity 0, sender goroutine parked in the send")
	r.Bound("injection", "sender parked before Run, and parked at every step k of the program")
	ref, err := runUnbuffered(entryRecord, -2, nil)
	if err != nil {
		r.HarnessError("unbuffered reference: " + err.Error())
		return
	}
	if ref.out.panicked || ref.out.exited || ref.out.err != nil {
		r.HarnessError("unbuffered reference did not complete: " + ref.render(nil))
		return
	}
	r.Bound("steps", fmt.Sprint(ref.steps))
	for _, mode := range []string{entryPanic, entryRecord} {
		for k := -1; k < ref.steps; k++ {
			key := fmt.Sprintf("%s|%d", mode, k)
			if !r.MineKey(key) {
				continue
			}
			r.Begin(key)
			sentinel := errors.New("c18 unbuffered sentinel")
			o, err := runUnbuffered(mode, k, sentinel)
			r.End()
			if err != nil {
				r.HarnessError("unbuffered case: " + err.Error())
				return
			}
			if !o.parked {
				r.HarnessError("unbuffered: the sender goroutine was never reported as parked in chan send (" + key + ")")
				return
			}
			r.Eval(true)
			r.Tree(1, 1)
			at := k
			if at < 0 {
				at = 0
			}
			var exp string
			if mode == entryPanic {
				exp = fmt.Sprintf("run=panic:identical-sentinel; delivered=step %d on run-goroutine; blocked_send_completed=true; steps_after_exit=0; rest=scopes=0 labels=0; state={%s}", at, ref.stateAt[at])
			} else {
				exp = fmt.Sprintf("run=%s; delivered=step %d on run-goroutine; blocked_send_completed=true; steps_after_exit=0; rest=scopes=0 labels=0; state={%s}", ref.out.outcome(nil), at, ref.state)
			}
			obs := o.render(sentinel)
			r.Outcome(obs)
			input := fmt.Sprintf("unbuffered Interrupt channel, sender goroutine blocked in the send %s, function %ss :: %s",
				map[bool]string{true: "before Run", false: fmt.Sprintf("from step %d of %d", k, ref.steps)}[k == -1], mode, unbufferedSrc)
			if r.WantSample() && k%9 == 4 {
				r.Sample(input + " => " + obs)
			}
			if exp != obs {
				r.Mismatch(engine.Mismatch{Key: key, Input: input, Expected: exp, Observed: obs, Aux: map[string]string{"kind": "unbuffered"}})
			}
		}
	}
}
