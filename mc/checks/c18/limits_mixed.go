package c18

import (
	"fmt"
	"strings"

	"verif/mc/engine"
)

// ---------------------------------------------------------------------------
// Family "limits-mixed": the stack limit over MIXED nestings. The `limits` grid
// nests one call form at a time; here every sequence (length 1..4 quick, 1..5
// thorough) over the alphabet
//
//	c  plain call of a script function            1 unit
//	e  direct eval                                1 unit (it enters no scope, but counts)
//	t  Function.prototype.call trampoline         2 units (native frame + callee)
//	i  indirect eval                              2 units (eval's native frame + the global frame it enters)
//
// is nested below global code, for L in 0..9. "The stack depth limit admits
// exactly the configured nesting": a nesting is admitted iff the units it needs
// stay below L - whatever the ORDER of the elements. (For the homogeneous
// sequences this is the model the limits grid already confirms.)
// ---------------------------------------------------------------------------

const mixedAlphabet = "ceti"

func mixedBody(seq string, i int) string {
	if i == len(seq) {
		return `leaf = 1;`
	}
	switch seq[i] {
	case 'c':
		return fmt.Sprintf(`g%d();`, i)
	case 't':
		return fmt.Sprintf(`g%d.call(null);`, i)
	case 'e':
		return `eval("` + jsQuote(mixedBody(seq, i+1)) + `");`
	}
	return `(0, eval)("` + jsQuote(mixedBody(seq, i+1)) + `");`
}

func mixedSetup(seq string) string {
	var sb strings.Builder
	for i := range seq {
		if seq[i] == 'c' || seq[i] == 't' {
			fmt.Fprintf(&sb, "g%d = function(){ %s }; ", i, mixedBody(seq, i+1))
		}
	}
	return sb.String()
}

func mixedProgram(seq string) string {
	return `leaf = 0; res = "unset"; try { ` + mixedBody(seq, 0) + ` res = "ok:" + leaf; } catch (e) { res = (e instanceof RangeError ? "RangeError" : "other:" + e); } res`
}

// mixedExact: units needed, order-independent.
func mixedExact(seq string, L int) bool {
	units := 0
	for _, k := range seq {
		units += map[rune]int{'c': 1, 'e': 1, 't': 2, 'i': 2}[k]
	}
	return L == 0 || units < L
}

// mixedOttoAccounting is the ALTERNATIVE model of known finding F-C18-004: scope
// frames are checked against the scope depth alone (enterScope ignores the
// active direct evals), direct evals against depth + active evals.
func mixedOttoAccounting(seq string, L int) bool {
	if L == 0 {
		return true
	}
	depth, ev := 0, 0
	push := func() bool {
		if depth+1 >= L {
			return false
		}
		depth++
		return true
	}
	for _, k := range seq {
		switch k {
		case 'c':
			if !push() {
				return false
			}
		case 't', 'i':
			if !push() || !push() {
				return false
			}
		case 'e':
			ev++
			if depth+ev >= L {
				return false
			}
		}
	}
	return true
}

func mixedSequences(maxLen int) []string {
	var out []string
	var rec func(prefix string)
	rec = func(prefix string) {
		if len(prefix) > 0 {
			out = append(out, prefix)
		}
		if len(prefix) == maxLen {
			return
		}
		for _, k := range mixedAlphabet {
			rec(prefix + string(k))
		}
	}
	rec("")
	return out
}

func runLimitsMixed(r *engine.Run) {
	maxLen := 4
	if r.Thorough() {
		maxLen = 5
	}
	seqs := mixedSequences(maxLen)
	r.Bound("alphabet", "c (call), e (direct eval), t (call trampoline), i (indirect eval)")
	r.Bound("sequence_length", fmt.Sprintf("1..%d (%d sequences)", maxLen, len(seqs)))
	r.Bound("L", "0..9")
	for _, seq := range seqs {
		for L := 0; L <= 9; L++ {
			key := fmt.Sprintf("%s/L%d", seq, L)
			if !r.MineKey(key) {
				continue
			}
			r.Begin(key)
			checkLimitsMixed(r, seq, L, key)
			r.End()
			r.Tree(1, 1)
		}
	}
}

func checkLimitsMixed(r *engine.Run, seq string, L int, key string) {
	h := &host{}
	vm, err := newVM(h, 0)
	if err != nil {
		r.HarnessError("runtime setup failed: " + err.Error())
		return
	}
	if _, err := vm.Run(mixedSetup(seq)); err != nil {
		r.HarnessError("limits-mixed setup failed: " + err.Error())
		return
	}
	vm.SetStackDepthLimit(L)
	src := mixedProgram(seq)
	sess := &session{h: h, vm: vm, p: &prog{src: src, limit: L}}
	render := func(ok bool) string {
		if ok {
			return "ok:s:ok:1; rest=" + restClean
		}
		return "ok:s:RangeError; rest=" + restClean
	}
	e := sess.run(injection{mode: modePlain}, nil, termCap)
	obs := e.out.outcome(nil) + "; rest=" + e.rest()
	exp := render(mixedExact(seq, L))
	r.Eval(L > 0 && len(seq) > 1)
	r.Outcome(seq + obs)
	input := fmt.Sprintf("SetStackDepthLimit(%d); nesting %q (c=call, e=direct eval, t=call trampoline, i=indirect eval) :: setup: %s :: program: %s", L, seq, mixedSetup(seq), src)
	if r.WantSample() && L == 4 && len(seq) == 3 {
		r.Sample(fmt.Sprintf("L=%d nesting %s => %s", L, seq, e.out.outcome(nil)))
	}
	if exp != obs {
		r.Mismatch(engine.Mismatch{Key: key, Input: input, Expected: exp, Observed: obs,
			Aux: map[string]string{"kind": "limit-mixed", "alt_model": b01(obs == render(mixedOttoAccounting(seq, L))), "has_eval": b01(strings.Contains(seq, "e"))}})
		return
	}
	// same outcome again on the same runtime, then the usual follow-up with headroom
	e2 := sess.run(injection{mode: modePlain}, nil, termCap)
	if obs2 := e2.out.outcome(nil) + "; rest=" + e2.rest(); obs2 != exp {
		r.Mismatch(engine.Mismatch{Key: key, Input: "SECOND run on the same runtime: " + input, Expected: exp, Observed: obs2, Aux: map[string]string{"kind": "limit-mixed-second"}})
	}
}

// sigEvalUnitsIgnoredByFrames accepts exactly: a nesting that contains a direct
// eval, where the observed outcome equals the model run with otto's accounting
// (scope frames checked against the scope depth alone, direct evals against scope
// depth + active direct evals) and differs from the exact order-independent model.
func sigEvalUnitsIgnoredByFrames(m *engine.Mismatch) bool {
	a := m.Aux
	return a != nil && a["kind"] == "limit-mixed" && a["has_eval"] == "1" && a["alt_model"] == "1"
}
