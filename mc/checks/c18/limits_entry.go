package c18

import (
	"fmt"
	"strings"

	"github.com/robertkrimen/otto"

	"verif/mc/engine"
	"verif/mc/ox"
)

// ---------------------------------------------------------------------------
// Family "limits-entry": stack limit x Go-side ENTRY ROUTES while the runtime
// is at rest. The `limits` grid enters through Run and nests at script level;
// here the evaluator (or a built-in) is entered from Go with no script running:
// Value.Call / Object.Call / Otto.Call on script and native functions, implicit
// conversions (Value.String, ToString, ToFloat) of objects whose toString /
// valueOf is a script function or the built-in one, Otto.Get of an accessor
// global, Otto.Eval - for L in {0,1..5} and required nesting d around the
// threshold.
//
// Frame model (scope depth index D of the deepest frame; success <=> L == 0 || D < L):
//   - a script function entered from rest is the bottom frame itself (index 0),
//     so d nested r frames need D = d-1;
//   - Otto.Call (with or without this), Otto.Eval and Run push the global frame first: D = d;
//   - a native function entered from rest gets the global frame plus its own
//     native frame (index 1); a callback nesting d deep below it needs D = 1+d.
//
// After EVERY operation (refused or not): the runtime is at rest (0 scopes, 0
// labels), `1 + 1` still runs, and the threshold has not moved: direct recursion
// through Run admits exactly d < L as on a fresh runtime with that limit.
// ---------------------------------------------------------------------------

type limitEntryRoute struct {
	name     string
	base     int             // D = base + d
	dMin     int             // smallest meaningful d
	dFixed   bool            // the route has no nesting parameter (d is dMin only)
	need     func(d int) int // overrides base + d where the accounting is not linear
	needOtto func(d int) int // alternative model of known finding F-C18-004
	// op performs the entry; it returns a short rendering of what the API reported
	op func(vm *otto.Otto) string
}

const limitEntrySetup = `ri = function(){ depth++; if (depth > maxseen) maxseen = depth; if (depth < maxd) { (0, eval)("ri()"); } depth--; }; ` +
	`re = function(){ depth++; if (depth > maxseen) maxseen = depth; if (depth < maxd) { eval("re()"); } depth--; }; ` +
	`Object.defineProperty(this, "acc", { get: function(){ r(); return 1; }, configurable: true }); ` +
	`holder = { r: r }; ts = { toString: function(){ r(); return "s"; } }; vo = { valueOf: function(){ r(); return 7; } }; plain = {}; arr = [1];`

func apiResult(v otto.Value, err error) string {
	if err != nil {
		return "err:" + err.Error()
	}
	return "ok:" + ox.Canon(v)
}

func getv(vm *otto.Otto, name string) otto.Value {
	v, _ := vm.Get(name)
	return v
}

var limitEntryRoutes = []limitEntryRoute{
	// script function entered directly from rest: bottom frame
	{name: "value_call_script", base: -1, dMin: 1, op: func(vm *otto.Otto) string {
		return apiResult(getv(vm, "r").Call(otto.UndefinedValue()))
	}},
	{name: "object_call_script", base: -1, dMin: 1, op: func(vm *otto.Otto) string {
		return apiResult(getv(vm, "holder").Object().Call("r"))
	}},
	// entry points that push the global frame first (Otto.Call does so on both of its paths)
	{name: "otto_call_this_script", base: 0, dMin: 1, op: func(vm *otto.Otto) string {
		return apiResult(vm.Call("r", 1))
	}},
	{name: "otto_call_script", base: 0, dMin: 1, op: func(vm *otto.Otto) string {
		return apiResult(vm.Call("r", nil))
	}},
	{name: "otto_eval", base: 0, dMin: 1, op: func(vm *otto.Otto) string {
		return apiResult(vm.Eval(`r()`))
	}},
	{name: "run", base: 0, dMin: 1, op: func(vm *otto.Otto) string {
		return apiResult(vm.Run(`r()`))
	}},
	// script toString / valueOf / getter reached through a Go-side conversion or Get:
	// the accessor function is the bottom frame (index 0), r nests below it: D = d
	{name: "tostring_script", base: 0, dMin: 1, op: func(vm *otto.Otto) string {
		s, err := getv(vm, "ts").ToString()
		if err != nil {
			return "err:" + err.Error()
		}
		return "ok:" + s
	}},
	{name: "string_script", base: 0, dMin: 1, op: func(vm *otto.Otto) string {
		// Value.String swallows the error and returns ""
		if s := getv(vm, "ts").String(); s != "" {
			return "ok:" + s
		}
		return "err:RangeError: " + overflowMsg
	}},
	{name: "tofloat_script", base: 0, dMin: 1, op: func(vm *otto.Otto) string {
		f, err := getv(vm, "vo").ToFloat()
		if err != nil {
			return "err:" + err.Error()
		}
		return "ok:" + ox.Num(f)
	}},
	{name: "get_accessor", base: 0, dMin: 1, op: func(vm *otto.Otto) string {
		return apiResult(vm.Get("acc"))
	}},
	// nesting through indirect eval below a script function entered from rest:
	// ri (index 0), then per level eval's native frame, the global frame it enters, ri
	{name: "value_call_script_indirect_eval", dMin: 1, need: func(d int) int { return 3 * (d - 1) }, op: func(vm *otto.Otto) string {
		return apiResult(getv(vm, "ri").Call(otto.UndefinedValue()))
	}},
	// nesting through direct eval: re number i sits at index i-1 with i-1 evals
	// active, so it needs 2(i-1) units. (needOtto: frames are not charged for active
	// evals, only the next eval is: max(d-1, 2d-3); known finding F-C18-004.)
	{name: "value_call_script_direct_eval", dMin: 1, need: func(d int) int { return 2 * (d - 1) }, needOtto: func(d int) int {
		if d == 1 {
			return 0
		}
		return 2*d - 3
	}, op: func(vm *otto.Otto) string {
		return apiResult(getv(vm, "re").Call(otto.UndefinedValue()))
	}},
	// a host function entered from rest that re-enters the runtime and calls r:
	// global frame, host frame, (Run / Otto.Call: another global frame,) r ...
	{name: "value_call_host_run", base: 2, dMin: 1, op: func(vm *otto.Otto) string {
		return apiResult(getv(vm, "hrec").Call(otto.UndefinedValue(), 0))
	}},
	{name: "value_call_host_otto_call", base: 2, dMin: 1, op: func(vm *otto.Otto) string {
		return apiResult(getv(vm, "hrec").Call(otto.UndefinedValue(), 1))
	}},
	{name: "value_call_host_value_call", base: 1, dMin: 1, op: func(vm *otto.Otto) string {
		return apiResult(getv(vm, "hrec").Call(otto.UndefinedValue(), 2))
	}},
	{name: "otto_call_host_run", base: 2, dMin: 1, op: func(vm *otto.Otto) string {
		return apiResult(vm.Call("hrec", nil, 0))
	}},
	// native functions entered from rest: global frame + native frame
	{name: "value_call_native", base: 1, dMin: 0, dFixed: true, op: func(vm *otto.Otto) string {
		return apiResult(getv(vm, "parseInt").Call(otto.UndefinedValue(), "7"))
	}},
	{name: "otto_call_native", base: 1, dMin: 0, dFixed: true, op: func(vm *otto.Otto) string {
		return apiResult(vm.Call("parseInt", nil, "7"))
	}},
	{name: "value_call_native_callback", base: 1, dMin: 1, op: func(vm *otto.Otto) string {
		fe, _ := getv(vm, "arr").Object().Get("forEach")
		return apiResult(fe.Call(getv(vm, "arr"), getv(vm, "r")))
	}},
	{name: "object_call_native_callback", base: 1, dMin: 1, op: func(vm *otto.Otto) string {
		return apiResult(getv(vm, "arr").Object().Call("forEach", getv(vm, "r")))
	}},
	{name: "tostring_native", base: 1, dMin: 0, dFixed: true, op: func(vm *otto.Otto) string {
		s, err := getv(vm, "plain").ToString()
		if err != nil {
			return "err:" + err.Error()
		}
		return "ok:" + s
	}},
	{name: "string_native", base: 1, dMin: 0, dFixed: true, op: func(vm *otto.Otto) string {
		if s := getv(vm, "plain").String(); s != "" {
			return "ok:" + s
		}
		return "err:RangeError: " + overflowMsg
	}},
	{name: "tofloat_native", base: 1, dMin: 0, dFixed: true, op: func(vm *otto.Otto) string {
		f, err := getv(vm, "plain").ToFloat()
		if err != nil {
			return "err:" + err.Error()
		}
		return "ok:" + ox.Num(f)
	}},
}

// what each route reports on success
var limitEntryOK = map[string]string{
	"value_call_script": "ok:u", "object_call_script": "ok:u", "otto_call_this_script": "ok:u",
	"otto_call_script": "ok:u", "otto_eval": "ok:u", "run": "ok:u",
	"tostring_script": "ok:s", "string_script": "ok:s", "tofloat_script": "ok:7", "get_accessor": "ok:d:1",
	"value_call_native": "ok:d:7", "otto_call_native": "ok:d:7",
	"value_call_native_callback": "ok:u", "object_call_native_callback": "ok:u",
	"value_call_script_indirect_eval": "ok:u", "value_call_script_direct_eval": "ok:u",
	"value_call_host_run": "ok:u", "value_call_host_otto_call": "ok:u", "value_call_host_value_call": "ok:u", "otto_call_host_run": "ok:u",
	"tostring_native": "ok:[object Object]", "string_native": "ok:[object Object]", "tofloat_native": "ok:NaN",
}

func runLimitsEntry(r *engine.Run) {
	r.Bound("L", "0..5")
	r.Bound("d", "route minimum .. 6")
	r.Bound("routes", fmt.Sprint(len(limitEntryRoutes)))
	direct := callForms[0]
	for _, route := range limitEntryRoutes {
		for L := 0; L <= 5; L++ {
			dMax := 6
			if route.dFixed {
				dMax = route.dMin
			}
			for d := route.dMin; d <= dMax; d++ {
				key := fmt.Sprintf("%s/L%d/d%d", route.name, L, d)
				if !r.MineKey(key) {
					continue
				}
				r.Begin(key)
				checkLimitEntry(r, route, direct, L, d, key)
				r.End()
				r.Tree(1, 1)
			}
		}
	}
}

func checkLimitEntry(r *engine.Run, route limitEntryRoute, direct callForm, L, d int, key string) {
	h := &host{}
	vm, err := newVM(h, 0)
	if err != nil {
		r.HarnessError("runtime setup failed: " + err.Error())
		return
	}
	if _, err := vm.Run(limitSetup(direct) + " " + limitEntrySetup); err != nil {
		r.HarnessError("limits-entry setup failed: " + err.Error())
		return
	}
	vm.SetStackDepthLimit(L)
	// arm the nesting through the Go API only (no script runs between the limit and the entry)
	for name, v := range map[string]int{"depth": 0, "maxseen": 0, "maxd": d} {
		if err := vm.Set(name, v); err != nil {
			r.HarnessError("limits-entry arm failed: " + err.Error())
			return
		}
	}
	var opRes string
	out := guarded(func() (otto.Value, error) { opRes = route.op(vm); return otto.Value{}, nil })
	if out.panicked {
		opRes = fmt.Sprintf("panic:(%T: %v)", out.pan, out.pan)
	}
	need := route.base + d
	if route.need != nil {
		need = route.need(d)
	}
	success := L == 0 || need < L
	exp := limitEntryOK[route.name]
	if !success {
		exp = "err:RangeError: " + overflowMsg
	}
	sc, lb := otto.VerifRestState(vm)
	obs := fmt.Sprintf("entry=%s; rest=scopes=%d labels=%d%s", opRes, sc, lb, evalLeak(otto.VerifEvalDepth(vm)))
	exp = fmt.Sprintf("entry=%s; rest=scopes=0 labels=0", exp)

	// afterwards the runtime behaves like a fresh one with the same limit
	probe := func(src string) string {
		o := guarded(func() (otto.Value, error) { return vm.Run(src) })
		return o.outcome(nil) + restSuffix(vm)
	}
	obs += "; then 1+1=" + probe(`1 + 1`)
	exp += "; then 1+1=ok:d:2"
	if L >= 1 {
		obs += fmt.Sprintf("; then Run nests d=%d: %s; d=%d: %s", L-1, probe(limitProgram(direct, L-1, false)), L, probe(limitProgram(direct, L, false)))
		exp += fmt.Sprintf("; then Run nests d=%d: ok:s:ok:%d; d=%d: err:RangeError: %s", L-1, L-1, L, overflowMsg)
	} else {
		obs += "; then Run nests d=8: " + probe(limitProgram(direct, 8, false))
		exp += "; then Run nests d=8: ok:s:ok:8"
	}
	r.Eval(L > 0)
	r.Outcome(obs)
	input := fmt.Sprintf("SetStackDepthLimit(%d); from rest: %s with nesting d=%d (deepest frame index %d) :: setup: %s", L, route.name, d, need, strings.TrimSpace(limitSetup(direct)+" "+limitEntrySetup))
	if r.WantSample() && L > 0 && (need == L || need == L-1) {
		r.Sample(fmt.Sprintf("L=%d %s d=%d (deepest frame index %d) => %s", L, route.name, d, need, opRes))
	}
	if exp != obs {
		aux := map[string]string{"kind": "limit-entry"}
		if route.needOtto != nil {
			entry := func(need int) string {
				if L == 0 || need < L {
					return "entry=" + limitEntryOK[route.name] + ";"
				}
				return "entry=err:RangeError: " + overflowMsg + ";"
			}
			alt := strings.Replace(exp, entry(need), entry(route.needOtto(d)), 1)
			aux = map[string]string{"kind": "limit-mixed", "has_eval": "1", "alt_model": b01(obs == alt)}
		}
		r.Mismatch(engine.Mismatch{Key: key, Input: input, Expected: exp, Observed: obs, Aux: aux})
	}
}
