package c18

import (
	"fmt"
	"strings"

	"verif/mc/engine"
)

// ---------------------------------------------------------------------------
// Family "limits-width": WIDTH instead of depth. Only NESTING counts against
// the stack depth limit: N siblings at nesting depth 1 or 2 must get the same
// verdict as a single one, for every construct the limit applies to - plain
// calls, direct evals, call trampolines, native callbacks (forEach), host
// re-entry, JSON.parse with a reviver, JSON.stringify (plain, with a replacer
// function, with toJSON) - for N in {L-1, L, L+1, 4L} under limit L.
// Oracle: verdict(N) == verdict(1) for the same construct, depth and limit
// (differential, width-independent); where the order-independent unit model of
// the limits families applies (calls, evals, trampolines, forEach, host
// re-entry) the verdict must also be the model's.
// ---------------------------------------------------------------------------

type widthConstruct struct {
	name string
	// body renders the code for n siblings at nesting depth (1 or 2)
	body func(n, depth int) string
	// units needed at that depth (0: not modelled, differential only)
	units func(depth int) int
}

func rep(s string, n int) string { return strings.Repeat(s, n) }

func jsonArray(n int, elem string) string {
	parts := make([]string, n)
	for i := range parts {
		parts[i] = elem
	}
	return "[" + strings.Join(parts, ",") + "]"
}

const widthSetup = `leafc = 0; w1 = function(){ leafc++; }; r = w1; rev = function(k, v){ leafc++; return v; }; repl = function(k, v){ leafc++; return v; }; tj = { toJSON: function(){ leafc++; return 1; } };`

var widthConstructs = []widthConstruct{
	{name: "calls", body: func(n, d int) string {
		if d == 1 {
			return rep(`w1(); `, n)
		}
		return `(function(){ ` + rep(`w1(); `, n) + `})();`
	}, units: func(d int) int { return d }},
	{name: "direct_evals", body: func(n, d int) string {
		if d == 1 {
			return rep(`eval("leafc++"); `, n)
		}
		return `eval("` + jsQuote(rep(`eval("leafc++"); `, n)) + `");`
	}, units: func(d int) int { return d }},
	{name: "call_trampolines", body: func(n, d int) string {
		if d == 1 {
			return rep(`w1.call(null); `, n)
		}
		return `(function(){ ` + rep(`w1.call(null); `, n) + `}).call(null);`
	}, units: func(d int) int { return 2 * d }},
	{name: "forEach_callbacks", body: func(n, d int) string {
		if d == 1 {
			return jsonArray(n, "1") + `.forEach(w1);`
		}
		return `[1].forEach(function(){ ` + jsonArray(n, "1") + `.forEach(w1); });`
	}, units: func(d int) int { return 2 * d }},
	{name: "host_reentry_value_call", body: func(n, d int) string {
		if d == 1 {
			return rep(`hrec(2); `, n)
		}
		return `(function(){ ` + rep(`hrec(2); `, n) + `})();`
	}, units: func(d int) int { return d + 1 }},
	{name: "json_parse_reviver", body: func(n, d int) string {
		doc := jsonArray(n, "1")
		if d == 2 {
			doc = "[" + doc + "]"
		}
		return `JSON.parse("` + doc + `", rev);`
	}},
	{name: "json_stringify_plain", body: func(n, d int) string {
		doc := jsonArray(n, "1")
		if d == 2 {
			doc = "[" + doc + "]"
		}
		return `JSON.stringify(` + doc + `);`
	}},
	{name: "json_stringify_replacer", body: func(n, d int) string {
		doc := jsonArray(n, "1")
		if d == 2 {
			doc = "[" + doc + "]"
		}
		return `JSON.stringify(` + doc + `, repl);`
	}},
	{name: "json_stringify_tojson", body: func(n, d int) string {
		doc := jsonArray(n, "tj")
		if d == 2 {
			doc = "[" + doc + "]"
		}
		return `JSON.stringify(` + doc + `);`
	}},
}

func widthProgram(body string) string {
	return `leafc = 0; res = "unset"; try { ` + body + ` res = "ok"; } catch (e) { res = (e instanceof RangeError ? "RangeError" : "other:" + e); } res`
}

func runLimitsWidth(r *engine.Run) {
	r.Bound("constructs", fmt.Sprint(len(widthConstructs)))
	r.Bound("L", "2,3,4,6")
	r.Bound("N", "L-1, L, L+1, 4L (baseline N = 1)")
	r.Bound("nesting_depth", "1,2")
	for _, c := range widthConstructs {
		for _, L := range []int{2, 3, 4, 6} {
			for d := 1; d <= 2; d++ {
				key := fmt.Sprintf("%s/L%d/depth%d", c.name, L, d)
				if !r.MineKey(key) {
					continue
				}
				r.Begin(key)
				checkLimitsWidth(r, c, L, d, key)
				r.End()
			}
		}
	}
}

func checkLimitsWidth(r *engine.Run, c widthConstruct, L, d int, key string) {
	verdict := func(n int) (string, string) {
		h := &host{}
		vm, err := newVM(h, 0)
		if err != nil {
			return "", "setup: " + err.Error()
		}
		if _, err := vm.Run(widthSetup); err != nil {
			return "", "setup: " + err.Error()
		}
		vm.SetStackDepthLimit(L)
		src := widthProgram(c.body(n, d))
		sess := &session{h: h, vm: vm, p: &prog{src: src, limit: L}}
		e := sess.run(injection{mode: modePlain}, nil, termCap*4)
		return e.out.outcome(nil) + "; rest=" + e.rest(), ""
	}
	base, herr := verdict(1)
	if herr != "" {
		r.HarnessError("limits-width: " + herr)
		return
	}
	if c.units != nil {
		want := "ok:s:RangeError; rest=" + restClean
		if c.units(d) < L {
			want = "ok:s:ok; rest=" + restClean
		}
		r.Eval(true)
		r.Tree(1, 1)
		r.Check(key+"/N1", fmt.Sprintf("SetStackDepthLimit(%d); one %s at nesting depth %d (units needed: %d) :: %s", L, c.name, d, c.units(d), widthProgram(c.body(1, d))), want, base)
	}
	for _, n := range []int{L - 1, L, L + 1, 4 * L} {
		if n < 1 {
			continue
		}
		obs, herr := verdict(n)
		if herr != "" {
			r.HarnessError("limits-width: " + herr)
			return
		}
		r.Eval(true)
		r.Tree(1, 1)
		r.Outcome(c.name + obs)
		src := widthProgram(c.body(n, d))
		if len(src) > 700 {
			src = src[:700] + "…"
		}
		input := fmt.Sprintf("SetStackDepthLimit(%d); %d sibling %s at nesting depth %d (verdict must equal that of a single one) :: setup: %s :: %s", L, n, c.name, d, widthSetup, src)
		if r.WantSample() && n == 4*L {
			r.Sample(fmt.Sprintf("L=%d %d x %s at depth %d => %s", L, n, c.name, d, obs))
		}
		r.Check(fmt.Sprintf("%s/N%d", key, n), input, base, obs)
	}
}
