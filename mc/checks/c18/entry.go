package c18

import (
	"errors"
	"fmt"
	"runtime"

	"github.com/robertkrimen/otto"

	"verif/mc/engine"
	"verif/mc/ox"
)

// ---------------------------------------------------------------------------
// Family "entry": ENTRY ROUTES x channel-installation time.
//
// The property speaks about "a runtime with an interrupt channel": whichever
// channel is the runtime's Interrupt field when the evaluator is entered (and
// while it runs) is the one that must be polled - no matter through which API
// entry point the script code is reached and no matter when the channel was
// installed. The other families always install the channel before Run and
// enter through Run; this family crosses
//
//	routes   Run(string), Run(Script), Eval, Otto.Call(name,nil), Otto.Call("new F"),
//	         Otto.Call(name,this), Value.Call, Object.Call, and a host function that
//	         calls back through Otto.Call / Value.Call / Object.Call
//	timing   (a) channel installed before anything ran on the runtime
//	         (b) installed after a previous Run that ran with Interrupt == nil
//	         (c) an older channel replaced by a new one between two entries
//	             (a decoy function waits on the old channel and must never run)
//	         (d) channel set to nil after use (a function still queued on the
//	             old channel must NOT be delivered: no poll, no delivery, no hang)
//	inject   pre-queued before the entry (k = -1: must run at the FIRST polling
//	         point of the entry) or dropped into the channel at step k, for every
//	         step k of the entry's execution
//	mode     the function panics with a sentinel / only records
//
// The entered code (spin) is a bounded loop, so a missed delivery is an
// assertion failure (progress made, function never invoked), not a hang.
// ---------------------------------------------------------------------------

const entrySetupSrc = `progress = 0; function spin(){ for (var i = 0; i < 3; i++) { progress++; } return progress; } function Spin(){ this.v = spin(); } holder = { spin: spin };`

var (
	entrySetupScript = lazy(entrySetupSrc)
	entrySpinScript  = lazy(`spin()`)
)

type entryRoute struct {
	name  string
	reent bool // the evaluator is re-entered from a host function during an outer Run
	enter func(vm *otto.Otto) (otto.Value, error)
}

var entryRoutes = []entryRoute{
	{name: "run_string", enter: func(vm *otto.Otto) (otto.Value, error) { return vm.Run(`spin()`) }},
	{name: "run_script", enter: func(vm *otto.Otto) (otto.Value, error) { return vm.Run(entrySpinScript.get()) }},
	{name: "eval", enter: func(vm *otto.Otto) (otto.Value, error) { return vm.Eval(`spin()`) }},
	{name: "call_name", enter: func(vm *otto.Otto) (otto.Value, error) { return vm.Call("spin", nil) }},
	{name: "call_new", enter: func(vm *otto.Otto) (otto.Value, error) { return vm.Call("new Spin", nil) }},
	{name: "call_this", enter: func(vm *otto.Otto) (otto.Value, error) { return vm.Call("spin", 1) }},
	{name: "value_call", enter: func(vm *otto.Otto) (otto.Value, error) {
		fn, _ := vm.Get("spin")
		return fn.Call(otto.UndefinedValue())
	}},
	{name: "object_call", enter: func(vm *otto.Otto) (otto.Value, error) {
		ov, _ := vm.Get("holder")
		return ov.Object().Call("spin")
	}},
	{name: "host_otto_call", reent: true, enter: func(vm *otto.Otto) (otto.Value, error) { return vm.Run(`hreenter(0)`) }},
	{name: "host_value_call", reent: true, enter: func(vm *otto.Otto) (otto.Value, error) { return vm.Run(`hreenter(1)`) }},
	{name: "host_object_call", reent: true, enter: func(vm *otto.Otto) (otto.Value, error) { return vm.Run(`hreenter(2)`) }},
}

var entryTimings = []string{"a_before_any_run", "b_after_run_with_nil", "c_replaced_between_entries", "d_set_to_nil"}

const (
	entryPanic  = "panic"
	entryRecord = "record"
)

// entryObs is what one entry case observed.
type entryObs struct {
	out        runOut
	delivered  []int
	delivGID   []int64
	decoyRuns  int // invocations of the decoy queued on the replaced channel (timing c)
	stepsAfter int
	steps      int
	progress   string
	scopes     int
	labels     int
	evalDepth  int
	curLen     int // functions left in the current channel
	oldLen     int // functions left in the old channel (timings c, d)
	queuedAt   int // step during which the host function queued (re-entrant routes), else -1
	progAt     []string
}

// runEntry executes one case. k = -1: pre-queue; k = -2: nothing is sent
// (reference run); k >= 0: send at step k (non re-entrant routes only).
func runEntry(route entryRoute, timing int, mode string, k int, sentinel error) (*entryObs, error) {
	o := &entryObs{queuedAt: -1}
	h := &host{}
	var old, cur chan func()
	if timing != 1 { // every timing except (b) has a channel before anything runs
		old = make(chan func(), 1)
		h.pre = func(vm *otto.Otto) { vm.Interrupt = old }
	}
	vm, err := newVM(h, 0)
	if err != nil {
		return nil, err
	}
	if _, err := vm.Run(entrySetupScript.get()); err != nil {
		return nil, err
	}
	step := -1
	exitSeen := false
	fn := func() {
		o.delivered = append(o.delivered, step)
		o.delivGID = append(o.delivGID, curGID())
		if mode == entryPanic {
			exitSeen = true
			panic(sentinel)
		}
	}
	decoy := func() { o.decoyRuns++ }

	// the channel action of the timing; for re-entrant routes the host function
	// performs it immediately before it calls back into the evaluator
	action := func() {
		switch timing {
		case 0:
			cur = old
		case 1:
			cur = make(chan func(), 1)
			vm.Interrupt = cur
		case 2:
			old <- decoy
			cur = make(chan func(), 1)
			vm.Interrupt = cur
		case 3:
			if k == -1 {
				old <- fn // still queued on the channel that is no longer the runtime's
			}
			vm.Interrupt = nil
			return
		}
		if k == -1 {
			cur <- fn
		}
	}
	if timing == 2 && !route.reent {
		// "between two entries": a first, uninterrupted entry through the same route on the old channel
		if out := guarded(func() (otto.Value, error) { return route.enter(vm) }); out.panicked || out.err != nil {
			return nil, fmt.Errorf("first entry failed: %s", out.outcome(nil))
		}
		if err := vm.Set("progress", 0); err != nil {
			return nil, err
		}
	}
	if route.reent {
		h.reenter = func() {
			o.queuedAt = step
			action()
		}
	} else {
		action()
	}
	otto.VerifSetStepHook(vm, func(n int) {
		step = n
		o.steps = n + 1
		if exitSeen {
			o.stepsAfter++
		}
		if k == -2 {
			pv, _ := vm.Get("progress")
			o.progAt = append(o.progAt, ox.Canon(pv))
		}
		if k >= 0 && n == k && vm.Interrupt != nil {
			select {
			case vm.Interrupt <- fn:
			default:
			}
		}
		if n > termCap {
			runtime.Goexit()
		}
	})
	o.out = guarded(func() (otto.Value, error) { return route.enter(vm) })
	otto.VerifSetStepHook(vm, nil)
	pv, _ := vm.Get("progress")
	o.progress = ox.Canon(pv)
	o.scopes, o.labels = otto.VerifRestState(vm)
	o.evalDepth = otto.VerifEvalDepth(vm)
	if cur != nil {
		o.curLen = len(cur)
	}
	if old != nil && old != cur {
		o.oldLen = len(old)
	}
	return o, nil
}

func (o *entryObs) render(sentinel interface{}) string {
	deliv := "never"
	if len(o.delivered) > 0 {
		deliv = ""
		for i, st := range o.delivered {
			g := "entry-goroutine"
			if o.delivGID[i] != o.out.gid {
				g = "other-goroutine"
			}
			if i > 0 {
				deliv += ", "
			}
			deliv += fmt.Sprintf("step %d on %s", st, g)
		}
	}
	return fmt.Sprintf("entry=%s; delivered=%s; decoy_on_replaced_channel_ran=%d; steps_after_exit=%d; progress=%s; rest=scopes=%d labels=%d%s; current_chan_len=%d; old_chan_len=%d",
		o.out.outcome(sentinel), deliv, o.decoyRuns, o.stepsAfter, o.progress, o.scopes, o.labels, evalLeak(o.evalDepth), o.curLen, o.oldLen)
}

func runEntryFamily(r *engine.Run) {
	r.Bound("routes", fmt.Sprint(len(entryRoutes)))
	r.Bound("timings", fmt.Sprint(len(entryTimings)))
	r.Bound("injection", "pre-queued (first polling point) and every step k of the entry")
	for _, route := range entryRoutes {
		for timing := range entryTimings {
			base := fmt.Sprintf("%s/%s", route.name, entryTimings[timing])
			if r.ReplayKey == "" && !r.Mine() {
				continue
			}
			if r.ReplayKey != "" && (len(r.ReplayKey) <= len(base) || r.ReplayKey[:len(base)+1] != base+"|") {
				continue
			}
			r.Begin(base + "|reference")
			ref, err := runEntry(route, timing, entryRecord, -2, nil)
			r.End()
			if err != nil {
				r.HarnessError("entry reference: " + base + ": " + err.Error())
				continue
			}
			if ref.out.panicked || ref.out.exited || ref.out.err != nil {
				r.Mismatch(engine.Mismatch{Key: base + "|reference", Input: "uninterrupted entry " + base + " :: setup: " + entrySetupSrc,
					Expected: "entry returns normally", Observed: ref.render(nil), Aux: map[string]string{"kind": "entry"}})
				continue
			}
			ks := []int{-1}
			if !route.reent && timing != 3 {
				for k := 0; k < ref.steps; k++ {
					ks = append(ks, k)
				}
			}
			for _, mode := range []string{entryPanic, entryRecord} {
				for _, k := range ks {
					key := fmt.Sprintf("%s|%s|%d", base, mode, k)
					if !wantCase(r, key) {
						continue
					}
					r.Begin(key)
					sentinel := errors.New("c18 entry sentinel")
					o, err := runEntry(route, timing, mode, k, sentinel)
					r.End()
					if err != nil {
						r.HarnessError("entry case: " + key + ": " + err.Error())
						continue
					}
					r.Eval(timing != 0 || (route.name != "run_string" && route.name != "run_script"))
					r.Tree(1, 1)
					exp := expectEntry(route, timing, mode, k, ref, o)
					obs := o.render(sentinel)
					r.Outcome(obs)
					input := fmt.Sprintf("route %s, channel %s, interrupt function %ss, %s :: setup: %s", route.name, entryTimings[timing], mode,
						map[bool]string{true: "queued before the entry", false: fmt.Sprintf("sent at step %d of %d", k, ref.steps)}[k == -1], entrySetupSrc)
					if r.WantSample() && k == -1 {
						r.Sample(input[:len(input)-len(entrySetupSrc)-11] + " => " + obs)
					}
					if exp != obs {
						r.Mismatch(engine.Mismatch{Key: key, Input: input, Expected: exp, Observed: obs, Aux: map[string]string{"kind": "entry"}})
					}
				}
			}
		}
	}
}

// expectEntry renders the expectation in the format of entryObs.render.
func expectEntry(route entryRoute, timing int, mode string, k int, ref, o *entryObs) string {
	oldLen := 0
	if timing == 2 {
		oldLen = 1 // the decoy stays queued on the replaced channel for ever
	}
	if timing == 3 {
		// channel cleared: nothing is polled, the entry completes as if no function had been queued
		return fmt.Sprintf("entry=%s; delivered=never; decoy_on_replaced_channel_ran=0; steps_after_exit=0; progress=%s; rest=scopes=0 labels=0; current_chan_len=0; old_chan_len=1",
			ref.out.outcome(nil), ref.progress)
	}
	at := k
	if k == -1 {
		at = 0 // first polling point of the entry
		if route.reent {
			at = o.queuedAt + 1 // first polling point after the host function queued the function
		}
	}
	deliv := fmt.Sprintf("step %d on entry-goroutine", at)
	if mode == entryPanic {
		prog := "?"
		if at < len(ref.progAt) {
			prog = ref.progAt[at]
		}
		return fmt.Sprintf("entry=panic:identical-sentinel; delivered=%s; decoy_on_replaced_channel_ran=0; steps_after_exit=0; progress=%s; rest=scopes=0 labels=0; current_chan_len=0; old_chan_len=%d",
			deliv, prog, oldLen)
	}
	return fmt.Sprintf("entry=%s; delivered=%s; decoy_on_replaced_channel_ran=0; steps_after_exit=0; progress=%s; rest=scopes=0 labels=0; current_chan_len=0; old_chan_len=%d",
		ref.out.outcome(nil), deliv, ref.progress, oldLen)
}
