package c18

import (
	"errors"
	"fmt"

	"github.com/robertkrimen/otto"

	"verif/mc/engine"
	"verif/mc/ox"
)

// ---------------------------------------------------------------------------
// Family "halt-followup": after a halt, host-function panics behave as on a
// fresh runtime - through every entry route.
//
//	history   a run halted by an interrupt function panicking with P, the loop
//	          bare or inside try/catch/finally (P: string, int, error pointer,
//	          plain struct, uncomparable struct)
//	follow-up at rest, a script function that wraps the host function hpanic() in
//	          try/catch/finally (or try/finally) is entered through Run, Otto.Eval,
//	          Value.Call, Object.Call, Otto.Call, a getter (Object.Get), a setter
//	          (Object.Set), toString (Value.ToString / Value.String)
//	hpanic    panics with: the SAME value P, an equal but distinct value, a
//	          different primitive, a Go error, or does not panic
//
// Oracle: what a native function's panic means does not depend on the runtime's
// history. A primitive Go value is a JavaScript throw of that primitive
// (Test_issue383): the catch clause gets it and the finally clause runs; any
// other Go value is not a JavaScript exception: it leaves the entry point
// unchanged (identical value), and no catch or finally clause runs. The same
// follow-up on a fresh runtime must give the same result (differential), and the
// runtime is at rest afterwards.
// ---------------------------------------------------------------------------

const haltFollowSetup = `fin = 0; sres = "unset"; ` +
	`cbTry = function(){ try { hpanic(); return "nopanic"; } catch (e) { return "caught:" + typeof e + ":" + e; } finally { fin++; } }; ` +
	`cbFin = function(){ try { hpanic(); } finally { fin++; } return "nopanic"; }; ` +
	`holder = { cbTry: cbTry, cbFin: cbFin, get gt(){ return cbTry(); }, set st(v){ sres = cbTry(); }, toString: function(){ return cbTry(); } };`

var haltHistories = []struct{ name, src string }{
	{"bare_loop", `hx = 0; for(;;){ hx++; }`},
	{"loop_in_try", `hx = 0; try { for(;;){ hx++; } } catch (e) { hx = "caught"; } finally { hfin = 1; }`},
}

type haltValue struct {
	name      string
	primitive bool
	js        string                        // typeof + ":" + String(v) for primitives
	make      func() interface{}            // the value the interrupt function panics with
	equal     func(interface{}) interface{} // an equal but distinct value
}

var haltValues = []haltValue{
	{name: "string", primitive: true, js: "string:stop", make: func() interface{} { return "stop" },
		equal: func(interface{}) interface{} { return string([]byte{'s', 't', 'o', 'p'}) }},
	{name: "int", primitive: true, js: "number:42", make: func() interface{} { return 42 },
		equal: func(interface{}) interface{} { return 40 + 2 }},
	{name: "error_pointer", make: func() interface{} { return errors.New("halt") },
		equal: func(interface{}) interface{} { return errors.New("halt") }},
	{name: "struct", make: func() interface{} { return haltStruct{7} },
		equal: func(interface{}) interface{} { return haltStruct{7} }},
	{name: "uncomparable_struct", make: func() interface{} { return haltRich{"quota", []string{"a"}} },
		equal: func(interface{}) interface{} { return haltRich{"quota", []string{"a"}} }},
}

var hostPanicKinds = []string{"same_value", "equal_distinct", "other_primitive", "go_error", "no_panic"}

type followRoute struct {
	name  string
	shape string // "try" (try/catch/finally) or "fin" (try/finally)
	enter func(vm *otto.Otto) (otto.Value, error)
}

var followRoutes = []followRoute{
	{"run", "try", func(vm *otto.Otto) (otto.Value, error) { return vm.Run(`cbTry()`) }},
	{"run_finally_only", "fin", func(vm *otto.Otto) (otto.Value, error) { return vm.Run(`cbFin()`) }},
	{"otto_eval", "try", func(vm *otto.Otto) (otto.Value, error) { return vm.Eval(`cbTry()`) }},
	{"value_call", "try", func(vm *otto.Otto) (otto.Value, error) { return getv(vm, "cbTry").Call(otto.UndefinedValue()) }},
	{"value_call_finally_only", "fin", func(vm *otto.Otto) (otto.Value, error) { return getv(vm, "cbFin").Call(otto.UndefinedValue()) }},
	{"object_call", "try", func(vm *otto.Otto) (otto.Value, error) { return getv(vm, "holder").Object().Call("cbTry") }},
	{"otto_call", "try", func(vm *otto.Otto) (otto.Value, error) { return vm.Call("cbTry", nil) }},
	{"getter_object_get", "try", func(vm *otto.Otto) (otto.Value, error) { return getv(vm, "holder").Object().Get("gt") }},
	{"setter_object_set", "try", func(vm *otto.Otto) (otto.Value, error) {
		if err := getv(vm, "holder").Object().Set("st", 1); err != nil {
			return otto.Value{}, err
		}
		return vm.Get("sres")
	}},
	{"tostring_value_tostring", "try", func(vm *otto.Otto) (otto.Value, error) {
		s, err := getv(vm, "holder").ToString()
		if err != nil {
			return otto.Value{}, err
		}
		return otto.ToValue(s)
	}},
	{"tostring_value_string", "try", func(vm *otto.Otto) (otto.Value, error) { return otto.ToValue(getv(vm, "holder").String()) }},
}

// followOnce enters the route with hpanic armed and renders what happened.
func followOnce(vm *otto.Otto, h *host, route followRoute, hp interface{}) string {
	h.hpVal = hp
	out := guarded(func() (otto.Value, error) { return route.enter(vm) })
	h.hpVal = nil
	res := out.outcome(nil)
	if out.panicked && identicalValue(out.pan, hp) {
		res = "panic:identical-host-value"
	}
	fin, _ := vm.Get("fin")
	return fmt.Sprintf("entry=%s; finally_ran=%s%s", res, ox.Canon(fin), restSuffix(vm))
}

func followModel(route followRoute, hp interface{}, primitiveJS string) string {
	switch {
	case hp == nil:
		return "entry=ok:s:nopanic; finally_ran=d:1"
	case primitiveJS == "":
		return "entry=panic:identical-host-value; finally_ran=d:0"
	case route.shape == "fin":
		return "entry=err:" + primitiveJS[indexByte(primitiveJS, ':')+1:] + "; finally_ran=d:1"
	}
	return "entry=ok:s:caught:" + primitiveJS + "; finally_ran=d:1"
}

func indexByte(s string, c byte) int {
	for i := 0; i < len(s); i++ {
		if s[i] == c {
			return i
		}
	}
	return -1
}

func runHaltFollowup(r *engine.Run) {
	r.Bound("halt_values", fmt.Sprint(len(haltValues)))
	r.Bound("histories", fmt.Sprint(len(haltHistories)))
	r.Bound("routes", fmt.Sprint(len(followRoutes)))
	r.Bound("host_panic_kinds", fmt.Sprint(len(hostPanicKinds)))
	for _, hv := range haltValues {
		for _, hist := range haltHistories {
			for _, route := range followRoutes {
				for ki, kind := range hostPanicKinds {
					key := fmt.Sprintf("%s/%s/%s/%s", hv.name, hist.name, route.name, kind)
					if !r.MineKey(key) {
						continue
					}
					r.Begin(key)
					checkHaltFollowup(r, hv, hist.name, hist.src, route, ki, kind, key)
					r.End()
					r.Tree(1, 1)
				}
			}
		}
	}
}

func checkHaltFollowup(r *engine.Run, hv haltValue, histName, histSrc string, route followRoute, ki int, kind, key string) {
	P := hv.make()
	var hp interface{}
	js := ""
	switch ki {
	case 0:
		hp = P
		js = hv.js
	case 1:
		hp = hv.equal(P)
		js = hv.js
	case 2:
		hp, js = "other", "string:other"
	case 3:
		hp = errors.New("hosterr")
	}
	if !hv.primitive && ki < 2 {
		js = ""
	}
	input := fmt.Sprintf("history: %s halted by an interrupt panicking with %s (%T); then %s with hpanic() panicking with %s (%T) :: setup: %s", histSrc, hv.name, P, route.name, kind, hp, haltFollowSetup)

	// fresh runtime: the differential twin
	fh := &host{}
	fvm, err := newVM(fh, 0)
	if err == nil {
		_, err = fvm.Run(haltFollowSetup)
	}
	if err != nil {
		r.HarnessError("halt-followup setup failed: " + err.Error())
		return
	}
	fresh := followOnce(fvm, fh, route, hp)

	// the runtime with the history
	h := &host{}
	vm, err := newVM(h, 0)
	if err == nil {
		_, err = vm.Run(haltFollowSetup)
	}
	if err != nil {
		r.HarnessError("halt-followup setup failed: " + err.Error())
		return
	}
	sess := &session{h: h, vm: vm, p: &prog{src: histSrc}}
	e := sess.run(injection{mode: modeIntPanic, k: 12, panicVal: P}, nil, 400)
	vm.Interrupt = nil
	r.Eval(true)
	if !(e.out.panicked && identicalValue(e.out.pan, P)) || e.rest() != restClean {
		r.Mismatch(engine.Mismatch{Key: key, Input: input, Expected: "history: Run unwinds with the identical value; rest=" + restClean,
			Observed: "history: " + e.out.outcome(nil) + "; rest=" + e.rest(), Aux: map[string]string{"kind": "halt-followup-history"}})
		return
	}
	obs := followOnce(vm, h, route, hp)
	exp := followModel(route, hp, js)
	r.Outcome(obs)
	if r.WantSample() && ki == 0 {
		r.Sample(input[:indexOfSetup(input)] + " => " + obs)
	}
	full := fmt.Sprintf("after the halt: %s; on a fresh runtime: %s", obs, fresh)
	want := fmt.Sprintf("after the halt: %s; on a fresh runtime: %s", exp, exp)
	if full != want {
		r.Mismatch(engine.Mismatch{Key: key, Input: input, Expected: want, Observed: full, Aux: map[string]string{"kind": "halt-followup"}})
	}
}

func indexOfSetup(s string) int {
	for i := 0; i+10 < len(s); i++ {
		if s[i:i+10] == " :: setup:" {
			return i
		}
	}
	return len(s)
}
