// Package c18 checks property C18 — interrupts and abnormal exits: prompt
// delivery, clean unwind, reusable runtime — with the E3 step-hooked injection
// explorer: every program of a generated family is first run uninterrupted
// (counting its evaluation steps and snapshotting the observable global state
// at every step), then once per step k on a fresh runtime with an injection at
// exactly that step.
package c18

import (
	"errors"
	"fmt"
	"strings"
	"time"

	"verif/mc/engine"
)

func init() {
	engine.Register(&engine.Check{
		ID:    "C18",
		Title: "Interrupts and abnormal exits: prompt delivery, clean unwind, reusable runtime",
		Rule: fmt.Sprintf("programs = every nesting (quick: depth 1, thorough: depth <= 2; throw family: depth <= 2 in both tiers) of the %d context wrappers around each body; ", len(wrappers)) +
			"one case = (program, injection): interrupt families inject at EVERY evaluation step k of the program (non-terminating bodies: k <= 60 quick, k <= 200 / 100 at depth 1 / 2 thorough), " +
			"hostpanic at every tick call x 4 payloads, throw/limits have one case per program / grid point; limits-width = N in {L-1,L,L+1,4L} siblings at nesting depth 1-2 of 9 constructs (calls, direct evals, trampolines, forEach, host re-entry, JSON.parse reviver, JSON.stringify plain/replacer/toJSON) must get the verdict of a single one; interrupt-reenter = non-panicking interrupt function that re-enters the runtime (3 ways) at every step of the depth-1 wrappers; interrupt-sites = 13 loop/polling-site shapes x 10 wrappers x 4 panic values x every step k <= 26; limits-mixed = every sequence (length <= 4 quick, <= 5 thorough) over {call, direct eval, call trampoline, indirect eval} x L 0..9 against the order-independent unit model; limits-entry = 23 Go-side entry routes at rest x L 0..5 x d around the threshold, each followed by rest-state and threshold-unmoved probes; headroom = 25 parse-failure / eval-abort histories x L x {1,2,L} repetitions x {Run, Otto.Eval}, each followed by the remaining-depth vector on the runtime and on a Copy (must equal a fresh runtime's); every follow-up program of the other families also ends with a one-run headroom probe under limit 8; exit-stage = 15 Go-side routes that hand a source text to the runtime x 15 source kinds (exits at the lexer, parser, early-error and regexp-literal stage before any code ran; throw, TypeError, stack-limit RangeError, host panic, interrupt halt; 2 normal controls) x L in {0,10} x 6 things in between (nothing, Go API calls that start no program, a second Run / Otto.Eval of valid / unparsable source) x {runtime, Copy()} x 18 ways to be the FIRST program afterwards (eval code entered through Otto.Call / Value.Call / Object.Call of eval, script functions with direct or indirect eval, native callback, toString, accessor, Function constructor, host re-entry; host programs through Run, Otto.Eval, nested Otto.Eval), observing the attributes of the bindings that program declares (descriptor, delete, typeof) against the ES5 10.4.2/10.5 model and a fresh runtime; halt-followup = 5 halt values x 2 histories x 11 entry routes x 5 host-function panic kinds, compared with the model and a fresh runtime; interrupt-value = 15 panic values (8 in quick, comparable and uncomparable) of the interrupt function x depth-1 wrappers x every step k; unbuffered = capacity-0 channel with a sender goroutine parked in the send before Run and at every step k; entry = 11 API entry routes x 4 channel-installation times x {pre-queued, every step k} x {panic, record}. Each case runs on a fresh runtime " +
			"(plus a follow-up program and a second injected run on the same runtime). A case is non-trivial when the injection lands while the " +
			"runtime is not at global level (a function/native frame, a pending label or a try/catch block is active at step k) or, for the " +
			"throw/hostpanic/limits families, when the abnormal exit crosses at least one wrapper frame.",
		Families: []engine.Family{
			// cheapest first, so that a run that hits its time budget has completed the small families
			{Name: "limits", Run: runLimits},
			{Name: "limits-width", Run: runLimitsWidth},
			{Name: "limits-mixed", Run: runLimitsMixed},
			{Name: "limits-entry", Run: runLimitsEntry},
			{Name: "headroom", Run: runHeadroomFamily},
			{Name: "exit-stage", Run: runExitStage},
			{Name: "halt-followup", Run: runHaltFollowup},
			{Name: "entry", Run: runEntryFamily},
			{Name: "unbuffered", Run: runUnbufferedFamily},
			{Name: "throw", Run: runThrow},
			{Name: "hostpanic", Run: runHostPanic},
			{Name: "interrupt-sites", Run: runInterruptSites},
			{Name: "interrupt-value", Run: runInterruptValue},
			{Name: "interrupt-reenter", Run: runInterruptReenter},
			{Name: "interrupt-record", Run: runInterruptRecord},
			{Name: "interrupt-panic", Run: runInterruptPanic},
		},
		Assumptions: []string{
			"the verif-tagged step hook fires at each of the three interrupt polling points immediately before the poll (hooks.go, add-only)",
			"VerifRestState / VerifEvalDepth read rt.scope, rt.labels and rt.evalDepth faithfully; at rest all three are 0 (also on a Copy)",
			"entry family: the channel that must be polled is the one in the runtime's Interrupt field while the evaluator runs, whichever API entry point was used and whenever it was installed, replaced or cleared",
			"global state is observed through Otto.Get / Object.Get on a fixed list of globals that the generated programs use exclusively (no var, no other names)",
			"the wrapper model (ES5 12.14 try/catch/finally propagation, 12.10 with, 10.4.2 eval code, 15.3.2.1 Function) predicts markers only; loop counters and function objects are compared against the reference run",
			"foreign string panics raised by host functions are catchable by script try (pinned by otto's Test_issue383); all other non-exception panic values must leave Run unchanged",
			"unbuffered family: 'the sender is blocked in the send' is read from the Go runtime's goroutine dump (state \"chan send\"), reached by yielding, never by sleeping",
			"runaway executions are cut with runtime.Goexit from the step hook (runs deferred functions, is not a panic); the engine watchdog is the backstop",
		},
		CrashIsViolation: true,
		QuickBudget:      80 * time.Second,
		ThoroughBudget:   14 * time.Minute,
	})
	engine.RegisterSignature("c18-foreign-panic-in-try", sigForeignPanicInTry)
	engine.RegisterSignature("c18-rethrown-error-in-try", sigRethrownErrorInTry)
	engine.RegisterSignature("c18-interrupt-primitive-caught", sigInterruptPrimitiveCaught)
	engine.RegisterSignature("c18-eval-units-ignored-by-frames", sigEvalUnitsIgnoredByFrames)
	engine.RegisterSignature("c18-halt-dropped-by-uncaught-string", sigHaltDroppedByUncaughtString)
	engine.RegisterSignature("c18-interrupt-nan-caught", sigInterruptNaNCaught)
	engine.RegisterSignature("c18-reentry-resets-labels", sigReentryResetsLabels)
}

// convText is how tryCatchEvaluate's toValue(caught) fails for a panic value it
// cannot convert: the message prefix of the TypeError that replaces the panic.
const convText = "TypeError: invalid value ("

// sigForeignPanicInTry accepts exactly: a foreign Go panic (interrupt sentinel or
// Go error raised by a host function) was raised while the evaluator was inside a
// try block or catch block (tryCatchEvaluate on the stack), it was delivered
// correctly (exactly once, at step k, on the Run goroutine), Run did NOT panic,
// the conversion TypeError ("invalid value (struct): missing runtime ...") is what
// surfaced instead (as Run's error, in a catch marker or in a host error log), and
// the runtime is at rest. Anything else on the same input stays a violation.
func sigForeignPanicInTry(m *engine.Mismatch) bool {
	a := m.Aux
	return a != nil && (a["kind"] == "interrupt-panic" || a["kind"] == "hostpanic-goerror") &&
		a["in_tce"] == "1" && a["delivered"] == "ok" && a["panicked"] == "0" && a["conv_seen"] == "1" && a["rest"] == "clean"
}

// sigRethrownErrorInTry accepts exactly: a host function re-panicked the
// *otto.Error it received from Otto.Call (otto's own re-raise idiom, handled by
// catchPanic) inside a script try/catch block; observed equals expected except
// that the exception that reached the script is the conversion TypeError
// instead of the original error.
func sigRethrownErrorInTry(m *engine.Mismatch) bool {
	a := m.Aux
	return a != nil && a["kind"] == "rethrow" && a["in_tce"] == "1" && a["alt_model"] == "1"
}

// ---------------------------------------------------------------------------

// depthFor: the interrupt and hostpanic families (one case per evaluation step /
// per tick call and payload) use depth 1 in the quick tier and depth <= 2 in the
// thorough tier; the throw family (one case per program) always uses depth <= 2.
func depthFor(r *engine.Run, everyStep bool) int {
	if r.Thorough() || !everyStep {
		return maxDepth
	}
	return 1
}

// owns decides sharding (by program) and replay (by key prefix).
func owns(r *engine.Run, progKey string) bool {
	if r.ReplayKey != "" {
		return strings.HasPrefix(r.ReplayKey, progKey+"|")
	}
	return r.Mine()
}

func wantCase(r *engine.Run, key string) bool {
	return r.ReplayKey == "" || r.ReplayKey == key
}

func inputOf(p *prog, what string) string {
	s := what + " :: " + p.src
	if p.limit != 0 {
		s = fmt.Sprintf("%s [SetStackDepthLimit(%d)]", s, p.limit)
	}
	return s
}

func nontrivialStep(ref *refRun, k int) bool {
	return k < len(ref.depth) && (ref.depth[k] > 1 || ref.labels[k] > 0 || ref.inTCE[k])
}

// injectSteps is the number of injection points of a program.
func injectSteps(p *prog, ref *refRun) int {
	if ref.cut {
		return ref.cap - ntTail + 1
	}
	return ref.n
}

// stepCapFor is the step at which an execution of p is cut: non-terminating
// programs at the cap of their reference run, terminating ones 200 steps after
// the reference run's length (a runaway is then reported as such).
func stepCapFor(p *prog, ref *refRun) int {
	if ref.cut {
		return ref.cap
	}
	return ref.n + 200
}

func forPrograms(r *engine.Run, bodies []body, everyStep, needRef bool, f func(p *prog, ref *refRun)) {
	nests := nestings(depthFor(r, everyStep))
	r.Bound("wrapper_nesting_depth", fmt.Sprint(depthFor(r, everyStep)))
	r.Bound("wrappers", fmt.Sprint(len(wrappers)))
	r.Bound("programs", fmt.Sprint(len(nests)*len(bodies)))
	for _, nest := range nests {
		for _, b := range bodies {
			p := makeProg(nest, b)
			if !owns(r, p.key) {
				continue
			}
			if r.Expired() {
				r.Cap("time budget reached before all programs were explored")
				return
			}
			if !needRef {
				f(p, &refRun{n: termCap})
				continue
			}
			r.Begin(p.key + "|reference")
			ref, err := reference(p, r.Thorough())
			r.End()
			if err != nil {
				r.HarnessError("runtime setup failed: " + err.Error())
				return
			}
			if !ref.cut && p.body.nonterm {
				r.HarnessError("body declared non-terminating terminated: " + p.key)
				continue
			}
			if ref.cut && !p.body.nonterm {
				// a terminating program that runs into the step cap: report, do not explore
				r.Mismatch(engine.Mismatch{Key: p.key + "|reference", Input: inputOf(p, "uninterrupted run"),
					Expected: "terminates", Observed: fmt.Sprintf("still running after %d steps", termCap)})
				continue
			}
			f(p, ref)
		}
	}
}

// --------------------------- (i) interrupt that panics ----------------------

func runInterruptPanic(r *engine.Run) {
	r.Bound("nonterminating_injection_steps", fmt.Sprintf("k <= %d at depth 1, k <= %d at depth 2", ntInjectMax(1, r.Thorough()), ntInjectMax(2, r.Thorough())))
	forPrograms(r, interruptBodies, true, true, func(p *prog, ref *refRun) {
		n := injectSteps(p, ref)
		for k := 0; k < n; k++ {
			key := fmt.Sprintf("%s|i|%d", p.key, k)
			if !wantCase(r, key) {
				continue
			}
			r.Begin(key)
			checkInterruptPanic(r, p, ref, k, key)
			r.End()
			r.Tree(1, 1)
		}
	})
}

func checkInterruptPanic(r *engine.Run, p *prog, ref *refRun, k int, key string) {
	s, err := newSession(p)
	if err != nil {
		r.HarnessError("runtime setup failed: " + err.Error())
		return
	}
	sentinel := errors.New("c18 sentinel")
	inj := injection{mode: modeIntPanic, k: k}
	e := s.run(inj, sentinel, stepCapFor(p, ref))
	r.Eval(nontrivialStep(ref, k))

	exp := describe("panic:identical-sentinel", fmt.Sprintf("step %d on run-goroutine", k), 0, 0, restClean, ref.snaps[k], logString(ref.log[:ref.logLen[k]]))
	obs := describe(e.out.outcome(sentinel), e.delivery(e.out.gid), e.stepsAfter, e.hostAfter, e.rest(), e.final, logString(e.log))
	r.Outcome(obs)
	if r.WantSample() && nontrivialStep(ref, k) && k%7 == 3 {
		r.Sample(fmt.Sprintf("%s => %s", inputOf(p, fmt.Sprintf("interrupt panics at step %d/%d", k, ref.n)), e.out.outcome(sentinel)))
	}
	if exp != obs {
		r.Mismatch(engine.Mismatch{Key: key, Input: inputOf(p, fmt.Sprintf("interrupt function panics with a sentinel at step %d of %d", k, ref.n)),
			Expected: exp, Observed: obs, Aux: foreignAux("interrupt-panic", e, e.delivery(e.out.gid) == fmt.Sprintf("step %d on run-goroutine", k), e.delivTCE)})
		return
	}
	// (5) reusability: follow-up program, then a second interrupted run on the same runtime
	if fu := s.followUp(e.final); fu != followUpExpected {
		r.Mismatch(engine.Mismatch{Key: key, Input: inputOf(p, fmt.Sprintf("follow-up program after interrupt panic at step %d", k)),
			Expected: followUpExpected, Observed: fu, Aux: map[string]string{"kind": "followup"}})
		return
	}
	if err := s.reset(); err != nil {
		r.Mismatch(engine.Mismatch{Key: key, Input: inputOf(p, fmt.Sprintf("reset script after interrupt panic at step %d", k)),
			Expected: "ok", Observed: "err:" + err.Error(), Aux: map[string]string{"kind": "followup"}})
		return
	}
	sentinel2 := errors.New("c18 sentinel 2")
	e2 := s.run(inj, sentinel2, stepCapFor(p, ref))
	obs2 := describe(e2.out.outcome(sentinel2), e2.delivery(e2.out.gid), e2.stepsAfter, e2.hostAfter, e2.rest(), e2.final, logString(e2.log))
	if exp != obs2 {
		r.Mismatch(engine.Mismatch{Key: key, Input: inputOf(p, fmt.Sprintf("SECOND interrupted run on the same runtime, step %d", k)),
			Expected: exp, Observed: obs2, Aux: map[string]string{"kind": "second-run"}})
	}
}

func describe(outcome, delivery string, stepsAfter, hostAfter int, rest, state, log string) string {
	return fmt.Sprintf("run=%s; delivered=%s; steps_after_exit=%d; host_calls_after_exit=%d; rest=%s; log=[%s]; state={%s}",
		outcome, delivery, stepsAfter, hostAfter, rest, log, state)
}

func foreignAux(kind string, e *exec, deliveredOK, inTry bool) map[string]string {
	a := map[string]string{"kind": kind, "in_tce": b01(inTry), "delivered": "bad", "panicked": b01(e.out.panicked), "conv_seen": "0", "rest": "dirty"}
	if deliveredOK {
		a["delivered"] = "ok"
	}
	if e.rest() == restClean {
		a["rest"] = "clean"
	}
	if strings.HasPrefix(errText(e.out.err), convText) || strings.Contains(e.final, "s:T:"+convText) || strings.Contains(logString(e.log), "hosterr:"+convText) {
		a["conv_seen"] = "1"
	}
	a["in_uncaught"] = b01(e.delivUnc)
	a["dropped_text"] = b01(droppedByUncaughtString(e))
	return a
}

// uncaughtDropText is the error Run returns when error.go's uncaughtString
// recovered a panic raised while it converted an uncaught thrown value.
const uncaughtDropText = "uncaught exception (the thrown value cannot be converted to a string)"

// droppedByUncaughtString: the fallback text is what the API entry point reported -
// Run itself, or the nested Otto.Call / Value.Call / Otto.Eval / Otto.Run of a host
// wrapper (which logs the error it got and lets the script go on).
func droppedByUncaughtString(e *exec) bool {
	return errText(e.out.err) == uncaughtDropText || strings.Contains(logString(e.log), "hosterr:"+uncaughtDropText)
}

// sigHaltDroppedByUncaughtString accepts exactly: a foreign Go panic (interrupt
// function or host function) was raised while an API entry point was converting
// an uncaught thrown value to text (uncaughtString on the stack); delivery was
// correct; Run did not panic; the API entry point that was rendering the value (Run,
// or the nested entry point of a host function, which then carries on) reported
// uncaughtString's fallback text; and the runtime is at rest.
func sigHaltDroppedByUncaughtString(m *engine.Mismatch) bool {
	a := m.Aux
	return a != nil && (a["kind"] == "interrupt-panic" || a["kind"] == "interrupt-value" || a["kind"] == "hostpanic-goerror") &&
		a["in_uncaught"] == "1" && a["delivered"] == "ok" && a["panicked"] == "0" && a["dropped_text"] == "1" && a["rest"] == "clean"
}

func b01(b bool) string {
	if b {
		return "1"
	}
	return "0"
}

// --------------------------- (ii) interrupt that only records ---------------

func runInterruptRecord(r *engine.Run) {
	forPrograms(r, interruptBodies, true, true, func(p *prog, ref *refRun) {
		n := injectSteps(p, ref)
		expState, expLog := ref.final, logString(ref.log)
		if ref.cut {
			expState = ref.snaps[ref.cap]
			expLog = logString(ref.log[:ref.logLen[ref.cap]])
		}
		for k := 0; k < n; k++ {
			key := fmt.Sprintf("%s|ii|%d", p.key, k)
			if !wantCase(r, key) {
				continue
			}
			r.Begin(key)
			s, err := newSession(p)
			if err != nil {
				r.End()
				r.HarnessError("runtime setup failed: " + err.Error())
				return
			}
			e := s.run(injection{mode: modeIntRecord, k: k}, nil, stepCapFor(p, ref))
			r.End()
			r.Eval(nontrivialStep(ref, k))
			r.Tree(1, 1)
			state := e.final
			if ref.cut {
				state = e.capSnap
			}
			exp := describe(ref.outcome, fmt.Sprintf("step %d on run-goroutine", k), 0, 0, restClean, expState, expLog) + fmt.Sprintf("; steps=%d", ref.n)
			obs := describe(e.out.outcome(nil), e.delivery(e.out.gid), e.stepsAfter, e.hostAfter, e.rest(), state, logString(e.log)) + fmt.Sprintf("; steps=%d", e.steps)
			r.Outcome(obs)
			if r.WantSample() && nontrivialStep(ref, k) && k%11 == 5 {
				r.Sample(fmt.Sprintf("%s => %s", inputOf(p, fmt.Sprintf("interrupt records at step %d/%d", k, ref.n)), e.out.outcome(nil)))
			}
			if exp != obs {
				r.Mismatch(engine.Mismatch{Key: key, Input: inputOf(p, fmt.Sprintf("interrupt function that only records, at step %d of %d", k, ref.n)),
					Expected: exp, Observed: obs, Aux: map[string]string{"kind": "interrupt-record"}})
			}
		}
	})
}

// --------------------------- (ii') interrupt function that re-enters the runtime

var reenterNames = []string{"", "run_expression", "run_block_and_loop", "call_function_with_loop"}

// runInterruptReenter: the interrupt function does not panic but uses the runtime
// it interrupted (it runs on the interpreter's goroutine, like a host function):
// Run of an expression, Run of a block and a loop, Otto.Call of a function with a
// loop - at EVERY step of every depth-1 wrapper around the terminating bodies. The
// interrupted script must end exactly like the uninterrupted one.
func runInterruptReenter(r *engine.Run) {
	r.Bound("reentries", strings.Join(reenterNames[1:], ","))
	for wi := range wrappers {
		for _, b := range []body{bodyAsg, bodyLoop} {
			p := makeProg([]int{wi}, b)
			if !owns(r, p.key) {
				continue
			}
			r.Begin(p.key + "|reference")
			ref, err := reference(p, r.Thorough())
			r.End()
			if err != nil || ref.cut {
				r.HarnessError(fmt.Sprintf("interrupt-reenter reference failed: %s %v", p.key, err))
				return
			}
			for re := 1; re < len(reenterNames); re++ {
				for k := 0; k < ref.n; k++ {
					key := fmt.Sprintf("%s|re%d|%d", p.key, re, k)
					if !wantCase(r, key) {
						continue
					}
					r.Begin(key)
					s, err := newSession(p)
					if err != nil {
						r.End()
						r.HarnessError("runtime setup failed: " + err.Error())
						return
					}
					e := s.run(injection{mode: modeIntRecord, k: k, reenter: re}, nil, ref.n*3+400)
					r.End()
					r.Eval(nontrivialStep(ref, k))
					r.Tree(1, 1)
					exp := describe(ref.outcome, fmt.Sprintf("step %d on run-goroutine", k), 0, 0, restClean, ref.final, logString(ref.log)) + "; reentry=ok"
					obs := describe(e.out.outcome(nil), e.delivery(e.out.gid), e.stepsAfter, e.hostAfter, e.rest(), e.final, logString(e.log)) + "; reentry=" + okOrErr(e.reenterErr)
					r.Outcome(obs)
					if exp != obs {
						r.Mismatch(engine.Mismatch{Key: key, Input: inputOf(p, fmt.Sprintf("interrupt function re-enters the runtime (%s) at step %d of %d", reenterNames[re], k, ref.n)),
							Expected: exp, Observed: obs, Aux: map[string]string{"kind": "interrupt-reenter", "reentry": reenterNames[re],
								"labels_pending": fmt.Sprint(ref.labels[k]), "delivered": b01(e.delivery(e.out.gid) == fmt.Sprintf("step %d on run-goroutine", k)),
								"panicked": b01(e.out.panicked), "rest": b01(e.rest() == restClean), "only_result_differs": b01(strings.Replace(obs, e.out.outcome(nil), ref.outcome, 1) != obs)}})
					}
				}
			}
		}
	}
}

// sigReentryResetsLabels accepts exactly: a non-panicking interrupt function that
// re-entered the runtime with code containing a block or a loop (Run / Otto.Call)
// was delivered - correctly - at a step where a label was pending (between the
// label push of a labelled statement and the statement it labels); nothing
// panicked and the runtime is at rest; the interrupted script ended differently.
func sigReentryResetsLabels(m *engine.Mismatch) bool {
	a := m.Aux
	return a != nil && a["kind"] == "interrupt-reenter" && a["labels_pending"] != "0" && a["reentry"] != "run_expression" &&
		a["delivered"] == "1" && a["panicked"] == "0" && a["rest"] == "1"
}

func okOrErr(err error) string {
	if err == nil {
		return "ok"
	}
	return "err:" + err.Error()
}

// --------------------------- (iii) host function panics ---------------------

var hostPanicBodies = []body{bodyAsg, bodyThrowTS}

func runHostPanic(r *engine.Run) {
	r.Bound("payloads", strings.Join(payloadNames, ","))
	forPrograms(r, hostPanicBodies, true, true, func(p *prog, ref *refRun) {
		for j := 1; j <= len(ref.tickSnap); j++ {
			for pay := 0; pay < nPayloads; pay++ {
				if p.body.name == bodyThrowTS.name && pay != payGoError {
					continue // the wrapper model does not cover this body; a Go error is foreign wherever it is raised
				}
				key := fmt.Sprintf("%s|iii|%d.%s", p.key, j, payloadNames[pay])
				if !wantCase(r, key) {
					continue
				}
				r.Begin(key)
				checkHostPanic(r, p, ref, j, pay, key)
				r.End()
				r.Tree(1, 1)
			}
		}
	})
}

func checkHostPanic(r *engine.Run, p *prog, ref *refRun, j, pay int, key string) {
	s, err := newSession(p)
	if err != nil {
		r.HarnessError("runtime setup failed: " + err.Error())
		return
	}
	goErr := errors.New("c18 host error")
	e := s.run(injection{mode: modeHostPanic, tickJ: j, payload: pay}, goErr, stepCapFor(p, ref))
	r.Eval(true)
	var m modelOut
	if p.body.name == bodyThrowTS.name {
		m = modelOut{outcome: "panic:foreign"}
	} else {
		m = runModel(p, bodyInj{tickJ: j, payload: pay})
	}
	what := fmt.Sprintf("tick call %d panics with %s", j, payloadNames[pay])

	var exp, obs string
	aux := map[string]string{"kind": "hostpanic-" + payloadNames[pay]}
	if m.outcome == "panic:foreign" {
		// the panic value must leave Run unchanged; nothing of the script runs afterwards
		want := "panic:identical-sentinel"
		var sentinel interface{} = goErr
		if pay == payString {
			sentinel = "boom"
		}
		exp = describe(want, "n/a", 0, 0, restClean, ref.tickSnap[j-1], logString(ref.log[:ref.tickLog[j-1]]))
		obs = describe(e.out.outcome(sentinel), "n/a", e.stepsAfter, e.hostAfter, e.rest(), e.final, logString(e.log))
		if pay == payGoError {
			aux = foreignAux("hostpanic-goerror", e, true, ref.tickTCE[j-1])
			aux["in_uncaught"] = b01(ref.tickUnc[j-1])
		}
	} else {
		// a JavaScript exception (or a string panic converted by a script try): the wrapper model predicts the rest
		exp = fmt.Sprintf("run=%s; rest=%s; log=[%s]; markers={%s}", m.outcome, restClean, logString(m.log), m.render())
		obs = fmt.Sprintf("run=%s; rest=%s; log=[%s]; markers={%s}", normOutcome(e.out.outcome(nil)), e.rest(), logString(e.log), project(e.final))
		if exp != obs && pay == payTypeError && hasRethrowInTry(p) {
			aux = map[string]string{"kind": "rethrow", "in_tce": "1", "alt_model": b01(rethrowAltModel(p, bodyInj{tickJ: j, payload: pay}, e) == obs)}
		}
	}
	r.Outcome(obs)
	if r.WantSample() {
		r.Sample(fmt.Sprintf("%s => %s", inputOf(p, what), e.out.outcome(goErr)))
	}
	if exp != obs {
		r.Mismatch(engine.Mismatch{Key: key, Input: inputOf(p, what), Expected: exp, Observed: obs, Aux: aux})
		return
	}
	if fu := s.followUp(e.final); fu != followUpExpected {
		r.Mismatch(engine.Mismatch{Key: key, Input: inputOf(p, "follow-up program after: "+what), Expected: followUpExpected, Observed: fu,
			Aux: map[string]string{"kind": "followup"}})
	}
}

// normOutcome reduces a normal completion to "ok" (the completion value of P is
// not part of the wrapper model; it is compared in the interrupt-record family).
func normOutcome(s string) string {
	if strings.HasPrefix(s, "ok:") {
		return "ok"
	}
	return s
}

// --------------------------- (iv)/(v) throw and stack overflow at the body --

var throwBodies = []body{bodyAsg, bodyThrowE, bodyThrowP, bodyEvalBad, bodyRec}

func runThrow(r *engine.Run) {
	forPrograms(r, throwBodies, false, false, func(p *prog, ref *refRun) {
		key := p.key + "|throw"
		if !wantCase(r, key) {
			return
		}
		r.Begin(key)
		defer r.End()
		r.Tree(1, 1)
		s, err := newSession(p)
		if err != nil {
			r.HarnessError("runtime setup failed: " + err.Error())
			return
		}
		e := s.run(injection{mode: modePlain}, nil, stepCapFor(p, ref))
		r.Eval(p.body.throws != nil)
		m := runModel(p, bodyInj{})
		exp := fmt.Sprintf("run=%s; rest=%s; log=[%s]; markers={%s}", m.outcome, restClean, logString(m.log), m.render())
		obs := fmt.Sprintf("run=%s; rest=%s; log=[%s]; markers={%s}", normOutcome(e.out.outcome(nil)), e.rest(), logString(e.log), project(e.final))
		r.Outcome(obs)
		if r.WantSample() && p.body.throws != nil {
			r.Sample(fmt.Sprintf("%s => %s", inputOf(p, "abnormal exit raised by the body"), e.out.outcome(nil)))
		}
		if exp != obs {
			aux := map[string]string{"kind": "throw"}
			if p.body.throws != nil && p.body.throws.isErrorObject() && hasRethrowInTry(p) {
				// alternative model: the re-panicked *otto.Error is replaced by the conversion TypeError
				aux = map[string]string{"kind": "rethrow", "in_tce": "1", "alt_model": b01(rethrowAltModel(p, bodyInj{}, e) == obs)}
			}
			r.Mismatch(engine.Mismatch{Key: key, Input: inputOf(p, "abnormal exit raised by the body"), Expected: exp, Observed: obs, Aux: aux})
			return
		}
		if fu := s.followUp(e.final); fu != followUpExpected {
			r.Mismatch(engine.Mismatch{Key: key, Input: inputOf(p, "follow-up program after the abnormal exit"), Expected: followUpExpected, Observed: fu,
				Aux: map[string]string{"kind": "followup"}})
			return
		}
		// a second run on the same runtime behaves the same
		if err := s.reset(); err != nil {
			r.Mismatch(engine.Mismatch{Key: key, Input: inputOf(p, "reset script after the abnormal exit"), Expected: "ok", Observed: "err:" + err.Error(),
				Aux: map[string]string{"kind": "followup"}})
			return
		}
		e2 := s.run(injection{mode: modePlain}, nil, stepCapFor(p, ref))
		obs2 := fmt.Sprintf("run=%s; rest=%s; log=[%s]; markers={%s}", normOutcome(e2.out.outcome(nil)), e2.rest(), logString(e2.log), project(e2.final))
		if exp != obs2 {
			r.Mismatch(engine.Mismatch{Key: key, Input: inputOf(p, "SECOND run on the same runtime"), Expected: exp, Observed: obs2,
				Aux: map[string]string{"kind": "second-run"}})
		}
	})
}

// hasRethrowInTry: the program re-raises an Error object through the hcallp host
// function inside a try/catch block of an outer wrapper.
func hasRethrowInTry(p *prog) bool {
	for i, w := range p.nest {
		if wrappers[w].exc == excHostRethrow {
			for _, o := range p.nest[:i] {
				if wrappers[o].tryRegion {
					return true
				}
			}
		}
	}
	return false
}

// rethrowAltModel renders what the model predicts when the exception leaving the
// hcallp wrapper is the conversion TypeError raised *outside* the innermost
// enclosing try/catch block (that block's catch and finally clauses are skipped).
func rethrowAltModel(p *prog, inj bodyInj, e *exec) string {
	// locate the conversion message actually produced (it embeds %v of the Go value)
	msg := ""
	for _, src := range []string{errText(e.out.err), e.final, logString(e.log)} {
		if i := strings.Index(src, convText); i >= 0 {
			msg = src[i:]
			if j := strings.Index(msg, "(otto.Error)"); j >= 0 {
				msg = msg[:j+len("(otto.Error)")]
			}
			break
		}
	}
	if msg == "" {
		return ""
	}
	m := runModelAlt(p, inj, &excDesc{cls: "T:" + msg, errText: msg})
	return fmt.Sprintf("run=%s; rest=%s; log=[%s]; markers={%s}", m.outcome, restClean, logString(m.log), m.render())
}
