package c18

import (
	"errors"
	"fmt"
	"runtime"
	"strconv"
	"strings"
	"sync"

	"github.com/robertkrimen/otto"

	"verif/mc/ox"
)

// ---------------------------------------------------------------------------
// Execution harness of the E3 step-hooked injection explorer.
// ---------------------------------------------------------------------------

const (
	modeRef       = iota // uninterrupted reference run (records per-step snapshots)
	modeIntPanic         // (i)  interrupt function panics with a sentinel at step k
	modeIntRecord        // (ii) interrupt function only records at step k
	modeHostPanic        // (iii) the j-th tick call panics with a payload
	modePlain            // no injection (abnormal exit comes from the body itself)
)

// ntInjectMax is the last injection step for non-terminating programs of the
// given nesting depth; ntCap is the step at which their executions are cut (by
// runtime.Goexit in the step hook). The wrappers' own prologue is at most ~25
// steps per level, after which the loop repeats the same one to three steps.
func ntInjectMax(depth int, thorough bool) int {
	switch {
	case !thorough:
		return 60
	case depth <= 1:
		return 200
	}
	return 100
}

// ntTail is how many steps past the last injection point a non-terminating program keeps running.
const ntTail = 60

func ntCap(depth int, thorough bool) int { return ntInjectMax(depth, thorough) + ntTail }

const termCap = 4000 // a terminating program of this generator never needs more steps

// host is the Go-side state shared by the host functions of one runtime.
type host struct {
	vm  *otto.Otto
	log []string

	ticks     int
	panicTick int // 1-based tick call that panics (modeHostPanic), 0 = none
	payload   int
	goErr     error // the Go error value used for payGoError (identity is checked)

	exitSeen  bool // an injected foreign panic has been raised: nothing of the script may run any more
	hostAfter int  // host function calls after exitSeen
	tickInTCE []bool
	tickSnap  []string
	tickLog   []int  // length of the log right after the j-th tick logged itself
	tickUnc   []bool // the j-th tick ran below uncaughtString
	recordRef bool
	snapFn    func() string

	hpVal   interface{}         // what the hpanic host function panics with (nil: it returns)
	pre     func(vm *otto.Otto) // run right after otto.New(), before the prelude
	reenter func()              // run by the hreenter host function before it calls back
}

func (h *host) called() {
	if h.exitSeen {
		h.hostAfter++
	}
}

// inTCE reports whether the current goroutine's stack contains otto's
// tryCatchEvaluate, i.e. the evaluator is inside a try block or catch block.
// Only used to classify disagreements (known-finding signature), never as oracle.
func inTCE() bool { return stackHas("tryCatchEvaluate") }

// inUncaught reports whether the stack contains otto's uncaughtString, i.e. an
// API entry point is converting an uncaught thrown value to text (running the
// value's toString / valueOf). Classification only, like inTCE.
func inUncaught() bool { return stackHas("uncaughtString") }

func stackHas(fn string) bool {
	var pcs [512]uintptr
	n := runtime.Callers(3, pcs[:])
	frames := runtime.CallersFrames(pcs[:n])
	for {
		fr, more := frames.Next()
		if strings.HasSuffix(fr.Function, "."+fn) || strings.Contains(fr.Function, "."+fn+".") {
			return true
		}
		if !more {
			return false
		}
	}
}

func curGID() int64 {
	var buf [64]byte
	n := runtime.Stack(buf[:], false)
	s := string(buf[:n])
	s = strings.TrimPrefix(s, "goroutine ")
	if i := strings.IndexByte(s, ' '); i > 0 {
		id, _ := strconv.ParseInt(s[:i], 10, 64)
		return id
	}
	return -1
}

func errText(err error) string {
	if err == nil {
		return ""
	}
	return err.Error()
}

// newVM builds a fresh runtime with the host functions and the prelude.
func newVM(h *host, limit int) (*otto.Otto, error) {
	vm := otto.New()
	h.vm = vm
	if h.pre != nil {
		h.pre(vm) // entry family: install the Interrupt channel before anything is run
	}
	swallow := func(v otto.Value, err error) otto.Value {
		if err != nil {
			h.log = append(h.log, "hosterr:"+err.Error())
			return otto.UndefinedValue()
		}
		return v
	}
	set := func(name string, f func(call otto.FunctionCall) otto.Value) error { return vm.Set(name, f) }
	fns := []struct {
		name string
		f    func(call otto.FunctionCall) otto.Value
	}{
		{"tick", func(call otto.FunctionCall) otto.Value {
			h.called()
			h.ticks++
			h.log = append(h.log, "tick:"+ox.Canon(call.Argument(0))[2:])
			if h.recordRef {
				h.tickInTCE = append(h.tickInTCE, inTCE())
				h.tickSnap = append(h.tickSnap, h.snapFn())
				h.tickLog = append(h.tickLog, len(h.log))
				h.tickUnc = append(h.tickUnc, inUncaught())
			}
			if h.panicTick != 0 && h.ticks == h.panicTick {
				switch h.payload {
				case payGoError:
					h.exitSeen = true
					panic(h.goErr)
				case payString:
					h.exitSeen = true // cleared again by the model when a try converts it (see checkHostPanic)
					panic("boom")
				case payValue:
					v, _ := otto.ToValue(42)
					panic(v)
				case payTypeError:
					panic(call.Otto.MakeTypeError("boom"))
				}
			}
			return otto.UndefinedValue()
		}},
		{"hcall", func(call otto.FunctionCall) otto.Value {
			h.called()
			name, _ := call.Argument(0).ToString()
			return swallow(call.Otto.Call(name, nil))
		}},
		{"hcallp", func(call otto.FunctionCall) otto.Value {
			h.called()
			name, _ := call.Argument(0).ToString()
			v, err := call.Otto.Call(name, nil)
			var oe *otto.Error
			if errors.As(err, &oe) {
				panic(oe) // otto's own idiom for re-raising (runtime.go convertCallParameter)
			}
			return swallow(v, err)
		}},
		{"hvcall", func(call otto.FunctionCall) otto.Value {
			h.called()
			return swallow(call.Argument(0).Call(otto.UndefinedValue()))
		}},
		{"heval", func(call otto.FunctionCall) otto.Value {
			h.called()
			src, _ := call.Argument(0).ToString()
			return swallow(call.Otto.Eval(src))
		}},
		{"hreenter", func(call otto.FunctionCall) otto.Value {
			// entry family: re-enter the evaluator from a host function after the
			// case's channel action (install / replace / clear / queue) has run
			h.called()
			kind, _ := call.Argument(0).ToInteger()
			if h.reenter != nil {
				h.reenter()
			}
			var v otto.Value
			var err error
			switch kind {
			case 0:
				v, err = call.Otto.Call("spin", nil)
			case 1:
				fn, _ := call.Otto.Get("spin")
				v, err = fn.Call(otto.UndefinedValue())
			default:
				ov, _ := call.Otto.Get("holder")
				v, err = ov.Object().Call("spin")
			}
			return swallow(v, err)
		}},
		{"hrec", func(call otto.FunctionCall) otto.Value {
			// limits families: re-enter the runtime and call r; an error (the
			// stack-limit RangeError) is re-raised the way otto itself does it
			h.called()
			kind, _ := call.Argument(0).ToInteger()
			var v otto.Value
			var err error
			switch kind {
			case 0:
				v, err = call.Otto.Run(`r()`)
			case 1:
				v, err = call.Otto.Call("r", nil)
			default:
				fn, _ := call.Otto.Get("r")
				v, err = fn.Call(otto.UndefinedValue())
			}
			if err != nil {
				var oe *otto.Error
				if errors.As(err, &oe) {
					panic(oe)
				}
				panic(err)
			}
			return v
		}},
		{"hpanic", func(call otto.FunctionCall) otto.Value {
			// halt-followup family: a host function that panics with a configurable Go value
			h.called()
			if h.hpVal != nil {
				panic(h.hpVal)
			}
			return otto.UndefinedValue()
		}},
		{"hrun", func(call otto.FunctionCall) otto.Value {
			h.called()
			src, _ := call.Argument(0).ToString()
			return swallow(call.Otto.Run(src))
		}},
	}
	for _, f := range fns {
		if err := set(f.name, f.f); err != nil {
			return nil, err
		}
	}
	if _, err := vm.Run(preludeScript.get()); err != nil {
		return nil, err
	}
	if limit != 0 {
		vm.SetStackDepthLimit(limit)
	}
	return vm, nil
}

// snapshot reads the tracked globals through the Go API (no script is run, so
// it can be taken from inside the step hook without disturbing the execution).
func snapshot(vm *otto.Otto) string {
	var sb strings.Builder
	for i, n := range trackedNames {
		if i > 0 {
			sb.WriteByte(' ')
		}
		var v otto.Value
		if n == "o.p" {
			ov, _ := vm.Get("o")
			if ov.IsObject() {
				v, _ = ov.Object().Get("p")
			}
		} else {
			v, _ = vm.Get(n)
		}
		sb.WriteString(n)
		sb.WriteByte('=')
		sb.WriteString(ox.Canon(v))
	}
	return sb.String()
}

// project keeps the globals the wrapper model predicts.
func project(snap string) string {
	want := map[string]bool{}
	for _, n := range modelNames {
		want[n] = true
	}
	vals := map[string]string{}
	for _, f := range splitSnap(snap) {
		if want[f[0]] {
			vals[f[0]] = f[1]
		}
	}
	var sb strings.Builder
	for _, n := range modelNames {
		sb.WriteString(n + "=" + vals[n] + " ")
	}
	return sb.String()
}

func splitSnap(snap string) [][2]string {
	// values may contain spaces (strings), names never do: split on " <name>="
	var out [][2]string
	rest := snap
	for i, n := range trackedNames {
		prefix := n + "="
		if !strings.HasPrefix(rest, prefix) {
			return out
		}
		rest = rest[len(prefix):]
		end := len(rest)
		if i+1 < len(trackedNames) {
			if j := strings.Index(rest, " "+trackedNames[i+1]+"="); j >= 0 {
				end = j
			}
		}
		out = append(out, [2]string{n, rest[:end]})
		if end < len(rest) {
			rest = rest[end+1:]
		} else {
			rest = ""
		}
	}
	return out
}

// runOut is how one API entry-point call ended.
type runOut struct {
	val      otto.Value
	err      error
	panicked bool
	pan      interface{}
	exited   bool // cut by runtime.Goexit at the step cap
	gid      int64
}

// guarded runs f on a new goroutine (so that the step hook can cut a runaway
// execution with runtime.Goexit, which runs the deferred functions but is not a
// panic) and reports how it ended.
func guarded(f func() (otto.Value, error)) (out runOut) {
	done := make(chan struct{})
	go func() {
		defer close(done)
		finished := false
		defer func() {
			if p := recover(); p != nil {
				out.panicked, out.pan = true, p
			} else if !finished {
				out.exited = true
			}
		}()
		out.gid = curGID()
		out.val, out.err = f()
		finished = true
	}()
	<-done
	return
}

func (o runOut) outcome(sentinel interface{}) string {
	switch {
	case o.exited:
		return "cut-at-step-cap"
	case o.panicked:
		if sentinel != nil && o.pan == sentinel {
			return "panic:identical-sentinel"
		}
		return fmt.Sprintf("panic:other(%T: %v)", o.pan, o.pan)
	case o.err != nil:
		return "err:" + o.err.Error()
	}
	return "ok:" + ox.Canon(o.val)
}

// refRun is the record of the uninterrupted reference execution of a program.
type refRun struct {
	cap      int      // step at which executions of a non-terminating program are cut
	n        int      // steps executed (terminating) or ntCap+1 (cut)
	snaps    []string // snapshot at each step (state before the step's node is evaluated)
	logLen   []int
	inTCE    []bool
	depth    []int // scope depth at each step (1 = global code)
	labels   []int
	outcome  string
	final    string
	log      []string
	cut      bool
	tickTCE  []bool
	tickSnap []string
	tickLog  []int
	tickUnc  []bool
}

// exec is the record of one injected execution.
type exec struct {
	out        runOut
	delivered  []int   // step indices at which the interrupt function ran
	delivGID   []int64 // goroutine ids it ran on
	delivTCE   bool
	delivUnc   bool // delivered below uncaughtString
	reenterErr error
	stepsAfter int // step hooks fired after the injected panic was raised
	hostAfter  int
	steps      int
	final      string // snapshot after the run
	capSnap    string // snapshot at the step cap (cut runs)
	log        []string
	scopes     int
	labels     int
	evalDepth  int
	chanLen    int
}

func reference(p *prog, thorough bool) (*refRun, error) {
	h := &host{recordRef: true}
	vm, err := newVM(h, p.limit)
	if err != nil {
		return nil, err
	}
	h.snapFn = func() string { return snapshot(vm) }
	stepCap := termCap
	if p.body.nonterm {
		stepCap = ntCap(len(p.nest), thorough)
	}
	ref := &refRun{cap: stepCap}
	otto.VerifSetStepHook(vm, func(n int) {
		ref.snaps = append(ref.snaps, snapshot(vm))
		ref.logLen = append(ref.logLen, len(h.log))
		ref.inTCE = append(ref.inTCE, inTCE())
		sc, lb := otto.VerifRestState(vm)
		ref.depth = append(ref.depth, sc)
		ref.labels = append(ref.labels, lb)
		if n >= stepCap {
			ref.cut = true
			runtime.Goexit()
		}
	})
	out := guarded(func() (otto.Value, error) { return vm.Run(p.script()) })
	otto.VerifSetStepHook(vm, nil)
	ref.n = len(ref.snaps)
	ref.outcome = out.outcome(nil)
	ref.final = snapshot(vm)
	ref.log = h.log
	ref.tickTCE = h.tickInTCE
	ref.tickSnap = h.tickSnap
	ref.tickLog = h.tickLog
	ref.tickUnc = h.tickUnc
	return ref, nil
}

type injection struct {
	mode    int
	k       int // step (interrupt modes)
	tickJ   int // tick call (host panic mode)
	payload int
	// interrupt-value family: what the interrupt function panics with instead of
	// the sentinel error (panicNil: a literal panic(nil))
	panicVal interface{}
	panicNil bool
	// interrupt-reenter family: the (non-panicking) interrupt function re-enters the
	// runtime: 1 Run of an expression, 2 Run of a block and a loop, 3 Otto.Call of a
	// function literal containing a loop
	reenter int
}

// state of one runtime across the first run, the follow-up and the second run
type session struct {
	p  *prog
	h  *host
	vm *otto.Otto
}

func newSession(p *prog) (*session, error) {
	h := &host{}
	vm, err := newVM(h, p.limit)
	if err != nil {
		return nil, err
	}
	return &session{p: p, h: h, vm: vm}, nil
}

// run executes P once on the session's runtime with the given injection.
// sentinel is the value the interrupt function panics with (modeIntPanic).
func (s *session) run(inj injection, sentinel error, stepCap int) *exec {
	vm, h := s.vm, s.h
	e := &exec{}
	h.log = nil
	h.ticks = 0
	h.exitSeen = false
	h.hostAfter = 0
	h.panicTick = 0
	if inj.mode == modeHostPanic {
		h.panicTick = inj.tickJ
		h.payload = inj.payload
		h.goErr = sentinel
	}
	if inj.mode == modeIntPanic || inj.mode == modeIntRecord {
		vm.Interrupt = make(chan func(), 1)
	} else {
		vm.Interrupt = nil
	}
	cur := -1
	fn := func() {
		e.delivered = append(e.delivered, cur)
		e.delivGID = append(e.delivGID, curGID())
		if len(e.delivered) == 1 {
			e.delivTCE = inTCE()
			e.delivUnc = inUncaught()
		}
		switch inj.reenter {
		case 1:
			_, e.reenterErr = vm.Run(`1 + 1`)
		case 2:
			_, e.reenterErr = vm.Run(`{ ; } for (;false;) {}`)
		case 3:
			_, e.reenterErr = vm.Call(`(function(){ for (;false;) {} return 1; })`, nil)
		}
		if inj.mode == modeIntPanic {
			h.exitSeen = true
			switch {
			case inj.panicNil:
				panic(nil) //nolint:govet // deliberate: the Go runtime turns it into *runtime.PanicNilError
			case inj.panicVal != nil:
				panic(inj.panicVal)
			}
			panic(sentinel)
		}
	}
	otto.VerifSetStepHook(vm, func(n int) {
		cur = n
		e.steps = n + 1
		if h.exitSeen {
			e.stepsAfter++
		}
		if n == inj.k && (inj.mode == modeIntPanic || inj.mode == modeIntRecord) {
			select {
			case vm.Interrupt <- fn:
			default:
				// channel unexpectedly full: reported through chanLen/delivery
			}
		}
		if n >= stepCap {
			e.capSnap = snapshot(vm)
			runtime.Goexit()
		}
	})
	e.out = guarded(func() (otto.Value, error) { return vm.Run(s.p.script()) })
	otto.VerifSetStepHook(vm, nil)
	e.hostAfter = h.hostAfter
	e.final = snapshot(vm)
	e.log = append([]string(nil), h.log...)
	e.scopes, e.labels = otto.VerifRestState(vm)
	e.evalDepth = otto.VerifEvalDepth(vm)
	if vm.Interrupt != nil {
		e.chanLen = len(vm.Interrupt)
	}
	return e
}

func (e *exec) rest() string {
	return fmt.Sprintf("scopes=%d labels=%d interrupt_chan=%d", e.scopes, e.labels, e.chanLen) + evalLeak(e.evalDepth)
}

const restClean = "scopes=0 labels=0 interrupt_chan=0"

// evalLeak renders the runtime's count of direct evals in progress when it is
// not 0 (at rest it must be: VerifEvalDepth, hook added for this check).
func evalLeak(n int) string {
	if n == 0 {
		return ""
	}
	return fmt.Sprintf(" active_direct_evals=%d", n)
}

// restSuffix is the non-clean part of a rest-state report ("" when at rest).
func restSuffix(vm *otto.Otto) string {
	sc, lb := otto.VerifRestState(vm)
	ev := otto.VerifEvalDepth(vm)
	if sc == 0 && lb == 0 && ev == 0 {
		return ""
	}
	return fmt.Sprintf(" [rest scopes=%d labels=%d%s]", sc, lb, evalLeak(ev))
}

func (e *exec) delivery(runGID int64) string {
	if len(e.delivered) == 0 {
		return "never"
	}
	parts := make([]string, len(e.delivered))
	for i, st := range e.delivered {
		g := "run-goroutine"
		if e.delivGID[i] != runGID {
			g = "other-goroutine"
		}
		parts[i] = fmt.Sprintf("step %d on %s", st, g)
	}
	return strings.Join(parts, ", ")
}

// followUpSrc is the fixed follow-up program of oracle (5): functions,
// recursion, labels, try/finally, closures over globals, with, eval, a native
// callback and a host call. It writes no tracked global.
const followUpSrc = `(function(){
  var out = [];
  function fact(n){ return n <= 1 ? 1 : n * fact(n - 1); }
  out.push(fact(5));
  outer: for (var i = 0; i < 3; i++) { for (var j = 0; j < 3; j++) { if (j == 1) continue outer; if (i == 2) break outer; out.push(i * 10 + j); } }
  try { try { throw new Error("x"); } finally { out.push("fin"); } } catch (e) { out.push(e.message); }
  var mk = (function(){ var c = 0; return function(){ return ++c + (probe === "global" ? 100 : 0); }; })();
  out.push(mk(), mk());
  L: { out.push("a"); break L; out.push("b"); }
  with ({ probe: "w" }) { out.push(probe); }
  out.push(probe, typeof e_1, typeof e_2);
  out.push([3, 1, 2].sort(function(a, b){ return a - b; }).join(""));
  out.push(eval("1 + 1"), typeof tick, hvcall(function(){ return "cb"; }));
  try { null.x; } catch (e2) { out.push(e2 instanceof TypeError); }
  M: for (var k in { a: 1, b: 2 }) { switch (k) { case "a": continue M; default: out.push(k); } }
  return out.join(",");
})()`

const followUpExpected = "ok:s:120,0,10,fin,x,101,102,a,w,global,undefined,undefined,123,2,function,cb,true,b" + "; " + headroomExpected

// headroomSrc measures, in one Run under SetStackDepthLimit(headroomLimit), how
// deep plain calls and pure direct-eval nestings can still go before the
// RangeError. The usable depth must not depend on the runtime's history: with
// limit 8 the IIFE sits at index 1 and rec number i at 1+i (i <= 6); tryEv runs at
// index 2 and tryEv(j) nests j+1 direct evals (the outer eval(s) included), which need 2+j+1 units (j <= 4). (Calls and evals are
// probed separately so that the probe does not depend on how mixed nestings are
// charged - that is the limits-mixed family's subject.)
const headroomSrc = `(function(){ var n = 0, m = 0; function rec(){ n++; rec(); } try { rec(); } catch (e) { if (!(e instanceof RangeError)) n = "?" + e; } ` +
	`function tryEv(k){ var s = "1"; while (k-- > 0) s = "eval(" + JSON.stringify(s) + ")"; try { eval(s); return true; } catch (e) { return !(e instanceof RangeError) && "?" + e; } } ` +
	`for (var j = 1; j <= 10; j++) { var t = tryEv(j); if (t === true) m = j; else { if (t !== false) m = t; break; } } return n + "/" + m; })()`

const headroomLimit = 8
const headroomExpected = "headroom(limit 8)=ok:s:6/4"

// headroom runs the probe under headroomLimit and puts the limit back to restore.
func headroom(vm *otto.Otto, restore int) string {
	vm.SetStackDepthLimit(headroomLimit)
	otto.VerifSetStepHook(vm, func(n int) {
		if n > termCap {
			runtime.Goexit()
		}
	})
	out := guarded(func() (otto.Value, error) { return vm.Run(headroomScript.get()) })
	otto.VerifSetStepHook(vm, nil)
	vm.SetStackDepthLimit(restore)
	res := fmt.Sprintf("headroom(limit %d)=%s", headroomLimit, out.outcome(nil))
	return res + restSuffix(vm)
}

// followUp runs the follow-up program and reports its outcome plus the rest
// state and whether it changed any tracked global.
func (s *session) followUp(before string) string {
	vm := s.vm
	vm.Interrupt = nil
	s.h.exitSeen = false
	otto.VerifSetStepHook(vm, func(n int) {
		if n > termCap {
			runtime.Goexit()
		}
	})
	out := guarded(func() (otto.Value, error) { return vm.Run(followUpScript.get()) })
	otto.VerifSetStepHook(vm, nil)
	res := out.outcome(nil)
	res += restSuffix(vm)
	if after := snapshot(vm); after != before {
		res += " [tracked globals changed: " + after + "]"
	}
	// limit headroom after the history == limit headroom on a fresh runtime
	return res + "; " + headroom(vm, s.p.limit)
}

// reset puts the tracked globals back so that P can be run a second time.
func (s *session) reset() error {
	s.vm.Interrupt = nil
	_, err := s.vm.Run(resetScript.get())
	return err
}

// compile parses a source once (scripts are runtime-independent parse trees; every
// Run converts the tree afresh, so sharing one across fresh runtimes is safe).
func compile(src string) *otto.Script {
	sc, err := otto.New().Compile("", src)
	if err != nil {
		panic("c18: generated source does not parse: " + err.Error() + " :: " + src)
	}
	return sc
}

// lazyScript compiles its source on first use: nothing of otto runs at package
// initialisation, so a parser defect in the tree under test surfaces inside a worker (with
// crash attribution) and cannot take down the supervisor or the other checks of the binary.
type lazyScript struct {
	src  string
	once sync.Once
	sc   *otto.Script
}

func lazy(src string) *lazyScript { return &lazyScript{src: src} }

func (l *lazyScript) get() *otto.Script {
	l.once.Do(func() { l.sc = compile(l.src) })
	return l.sc
}

var (
	followUpScript = lazy(followUpSrc)
	headroomScript = lazy(headroomSrc)
	resetScript    = lazy(resetSrc)
	preludeScript  = lazy(preludeSrc)
)

func (p *prog) script() *otto.Script {
	if p.sc == nil {
		p.sc = compile(p.src)
	}
	return p.sc.(*otto.Script)
}

func logString(l []string) string { return strings.Join(l, ",") }
