package c18

import (
	"fmt"
	"strings"
)

// ---------------------------------------------------------------------------
// Program generator: nestings of context wrappers around a marked body.
//
// A wrapper is a source template with one hole '@' (the code that runs inside
// the context) and a level suffix '#'. Around every wrapper instance the
// generator emits progress markers, all plain global assignments:
//
//	pre_#  = 1                    before the construct
//	aft_#  = 1                    directly after the hole (normal completion of the hole)
//	post_# = probe+":"+typeof e_1+":"+typeof e_2   after the construct (also a scope-leak probe)
//
// so that the observable global state identifies how far execution got, and
// whether a with-object / catch-parameter environment leaked past its
// statement. No `var` is used anywhere: every name is a global the harness
// tracks (see trackedNames). Property reads whose getter is the context are
// assigned (v_# = o.x) rather than written as bare expression statements:
// otto does not call GetValue on an expression statement inside a loop body
// unless it is the last one (`for(;;){ o.x; z = 1 }` never runs the getter), a
// C01 matter that must not leak into this check.
// ---------------------------------------------------------------------------

// how an exception raised inside the hole leaves the wrapper (ES5 12.14 and
// the wrapper's own host function for the host re-entry wrappers)
const (
	excProp        = iota // propagates; nothing of the wrapper runs afterwards
	excCatch              // try{@}catch(e){c_#=CLS(e)}: caught, execution continues after the construct
	excFin                // fin_# = 1 runs, then the exception propagates
	excCatchFin           // caught, c_# and fin_# set, continues
	excHostSwallow        // host function gets the error from Otto.Call/Value.Call/Otto.Eval/Otto.Run, logs it, returns normally
	excHostRethrow        // host function re-panics the *otto.Error it got (otto's own idiom, runtime.go convertCallParameter)
)

const (
	injNone  = iota
	injWith  // hole runs inside with({probe:"with"})
	injCatch // hole runs inside catch(e_#) with e_# = "t"
)

type wrapper struct {
	name      string
	tmpl      string
	quoted    bool // the hole sits inside a double-quoted JS string literal
	exc       int
	tryRegion bool // the hole is a try block or a catch block (both run under tryCatchEvaluate)
	inject    int
	cut       bool // the hole's code is global code (indirect eval, Function, Otto.Run): lexical environments do not reach it
	finOK     bool // fin_# = 1 on normal completion as well
	cOK       bool // c_# = "string:t" is set on the way (construct throws "t" itself and catches it before the hole runs / after)
}

// The catch parameter of wrappers whose hole is NOT the catch block is x_# (never
// probed): otto keeps the catch environment in place while the finally block of
// the same statement runs (`try{throw 1}catch(e){}finally{typeof e}` gives
// "number"; ES5 12.14 restores the environment first) - normal-execution
// semantics (C01), deliberately kept out of this check's observations.
const cls = `c_# = (x_# instanceof RangeError ? "R" : x_# instanceof TypeError ? "T" : x_# instanceof Error ? "E" : typeof x_#) + ":" + x_#;`

var wrappers = []wrapper{
	{name: "fcall", tmpl: `f_# = function(){ @ }; f_#();`},
	{name: "method", tmpl: `m_# = { m: function(){ @ } }; m_#.m();`},
	{name: "new", tmpl: `C_# = function(){ @ }; new C_#();`},
	{name: "call", tmpl: `(function(){ @ }).call(null);`},
	{name: "apply", tmpl: `(function(){ @ }).apply(null, []);`},
	{name: "bound", tmpl: `(function(){ @ }).bind(null)();`},
	{name: "getter", tmpl: `v_# = ({ get x(){ @ return 1; } }).x;`},
	{name: "setter", tmpl: `({ set x(v){ @ } }).x = 1;`},
	{name: "valueof_add", tmpl: `1 + { valueOf: function(){ @ return 1; } };`},
	{name: "valueof_lt", tmpl: `1 < { valueOf: function(){ @ return 1; } };`},
	{name: "valueof_eq", tmpl: `1 == { valueOf: function(){ @ return 1; } };`},
	{name: "tostring_key", tmpl: `v_# = ({})[{ toString: function(){ @ return "k"; } }];`},
	{name: "forEach", tmpl: `[1].forEach(function(){ @ });`},
	{name: "map", tmpl: `[1].map(function(){ @ return 1; });`},
	{name: "filter", tmpl: `[1].filter(function(){ @ return true; });`},
	{name: "some", tmpl: `[1].some(function(){ @ return true; });`},
	{name: "every", tmpl: `[1].every(function(){ @ return true; });`},
	{name: "reduce", tmpl: `[1, 2].reduce(function(a, b){ @ return a; });`},
	{name: "sort", tmpl: `[2, 1].sort(function(a, b){ @ return a - b; });`},
	{name: "replace", tmpl: `"a".replace("a", function(){ @ return "b"; });`},
	{name: "replace_re", tmpl: `"a".replace(/a/, function(){ @ return "b"; });`},
	{name: "tojson", tmpl: `JSON.stringify({ toJSON: function(){ @ return 1; } });`},
	{name: "replacer", tmpl: `JSON.stringify(1, function(k, v){ @ return v; });`},
	{name: "reviver", tmpl: `JSON.parse("1", function(k, v){ @ return v; });`},
	{name: "defprop_get", tmpl: `d_# = {}; Object.defineProperty(d_#, "x", { get: function(){ @ return 1; } }); v_# = d_#.x;`},
	{name: "eval_direct", tmpl: `eval("@");`, quoted: true},
	{name: "eval_indirect", tmpl: `(0, eval)("@");`, quoted: true, cut: true},
	{name: "Function", tmpl: `Function("@")();`, quoted: true, cut: true},
	{name: "try_c.body", tmpl: `try { @ } catch (x_#) { ` + cls + ` }`, exc: excCatch, tryRegion: true},
	{name: "try_c.catch", tmpl: `try { throw "t"; } catch (e_#) { ce_# = e_#; @ }`, tryRegion: true, inject: injCatch},
	{name: "try_f.body", tmpl: `try { @ } finally { fin_# = 1; }`, exc: excFin, tryRegion: true, finOK: true},
	{name: "try_f.fin", tmpl: `try { tb_# = 1; } finally { @ }`},
	{name: "try_cf.body", tmpl: `try { @ } catch (x_#) { ` + cls + ` } finally { fin_# = 1; }`, exc: excCatchFin, tryRegion: true, finOK: true},
	{name: "try_cf.catch", tmpl: `try { throw "t"; } catch (e_#) { ce_# = e_#; @ } finally { fin_# = 1; }`, exc: excFin, tryRegion: true, inject: injCatch, finOK: true},
	{name: "try_cf.fin", tmpl: `try { throw "t"; } catch (x_#) { ` + cls + ` } finally { @ }`, cOK: true},
	{name: "lcall", tmpl: `lf_# = function(){ @ }; L_#: lf_#();`},
	{name: "lblock", tmpl: `L_#: { @ break L_#; }`},
	{name: "lfor", tmpl: `L_#: for (i_# = 0; i_# < 1; i_#++) { @ continue L_#; }`},
	{name: "lwhile", tmpl: `w_# = 0; L_#: while (w_# < 1) { w_#++; @ continue L_#; }`},
	{name: "ldo", tmpl: `L_#: do { @ continue L_#; } while (false);`},
	{name: "lforin", tmpl: `L_#: for (k_# in { a: 1 }) { @ continue L_#; }`},
	{name: "switch", tmpl: `switch (1) { case 1: @ break; }`},
	{name: "with", tmpl: `with ({ probe: "with" }) { @ }`, inject: injWith},
	{name: "hcall", tmpl: `cb_# = function(){ @ }; hcall("cb_#");`, exc: excHostSwallow},
	{name: "hvcall", tmpl: `hvcall(function(){ @ });`, exc: excHostSwallow},
	{name: "heval", tmpl: `heval("@");`, quoted: true, exc: excHostSwallow},
	{name: "hrun", tmpl: `hrun("@");`, quoted: true, exc: excHostSwallow, cut: true},
	{name: "hcallp", tmpl: `cb_# = function(){ @ }; hcallp("cb_#");`, exc: excHostRethrow},
}

// maxDepth is the deepest nesting generated (levels are numbered 1 = outermost).
const maxDepth = 2

// per-level global names used by the wrappers and markers
var levelNames = []string{"pre", "aft", "post", "c", "fin", "tb", "f", "m", "C", "d", "i", "w", "k", "cb", "v", "lf", "ce"}

// body-level global names ("o.p" is read through the object o)
var bodyNames = []string{"g1", "g2", "o.p", "i0", "s0", "ra", "rb", "probe"}

var trackedNames = func() []string {
	var l []string
	for lv := 1; lv <= maxDepth; lv++ {
		for _, n := range levelNames {
			l = append(l, fmt.Sprintf("%s_%d", n, lv))
		}
	}
	return append(l, bodyNames...)
}()

var trackedIndex = func() map[string]int {
	m := map[string]int{}
	for i, n := range trackedNames {
		m[n] = i
	}
	return m
}()

// resetSrc puts every tracked global back to its initial state (run between
// the first and the second execution on one runtime, with no step hook).
var resetSrc = func() string {
	var sb strings.Builder
	for _, n := range trackedNames {
		switch n {
		case "o.p":
			sb.WriteString("o.p = 0; ")
		case "probe":
		default:
			sb.WriteString(n + " = undefined; ")
		}
	}
	return sb.String()
}()

// preludeSrc is run once on every fresh runtime before P.
const preludeSrc = `probe = "global"; o = { p: 0 };`

type body struct {
	name    string
	src     string
	nonterm bool // does not terminate by itself (k is bounded instead)
	limit   int  // stack depth limit to configure (0 = none)
	ticks   int  // tick calls of one uninterrupted execution (terminating bodies)
	// model of the body for the abnormal-exit families: assignments committed
	// before the body's own throw (throwAfter >= 0) and the exception it raises.
	throws *excDesc
}

// excDesc describes a JS exception as the script and the embedder see it.
type excDesc struct {
	cls     string // what a catch block records: CLS(e) (class tag + ":" + String(e))
	errText string // err.Error() of the error an API entry point returns when it is not caught
}

var (
	excRange = &excDesc{cls: "R:RangeError: boom", errText: "RangeError: boom"}
	excPrim  = &excDesc{cls: "number:7", errText: "7"}
	// a direct eval whose source does not parse: the abnormal exit happens before any eval code runs
	excEvalParse = &excDesc{cls: "E:SyntaxError: (anonymous): Line 1:2 Unexpected end of input (and 1 more errors)", errText: "SyntaxError: (anonymous): Line 1:2 Unexpected end of input (and 1 more errors)"}
	excOverflow  = &excDesc{cls: "R:RangeError: Maximum call stack size exceeded", errText: "RangeError: Maximum call stack size exceeded"}
	excHostType  = &excDesc{cls: "T:TypeError: boom", errText: "TypeError: boom"}
	excHostVal   = &excDesc{cls: "number:42", errText: "42"}
	excHostStr   = &excDesc{cls: "string:boom", errText: "boom"}
)

const recLimit = 24

var (
	bodyAsg     = body{name: "asg", src: `g1 = 1; tick(1); g2 = g1 + 1; tick(2); o.p = 3; tick(3);`, ticks: 3}
	bodyLoop    = body{name: "loop", src: `s0 = 0; for (i0 = 0; i0 < 3; i0++) { s0 += i0; tick(i0); }`, ticks: 3}
	bodyForBlk  = body{name: "for_block", src: `for(;;){}`, nonterm: true}
	bodyForEmp  = body{name: "for_empty", src: `for(;;);`, nonterm: true}
	bodyWhile   = body{name: "while", src: `while(true){}`, nonterm: true}
	bodyDo      = body{name: "do", src: `do{}while(true);`, nonterm: true}
	bodyRec     = body{name: "mutrec", src: `ra = function(){ rb(); }; rb = function(){ ra(); }; ra();`, limit: recLimit, throws: excOverflow}
	bodyThrowE  = body{name: "throw_error", src: `g1 = 1; tick(1); throw new RangeError("boom"); g2 = 2;`, ticks: 1, throws: excRange}
	bodyEvalBad = body{name: "eval_parse_error", src: `g1 = 1; tick(1); eval("("); g2 = 2;`, ticks: 1, throws: excEvalParse}
	// the thrown value's toString runs script code while the API entry point renders the
	// uncaught exception (or while a catch clause of a wrapper stringifies it)
	bodyThrowTS = body{name: "throw_tostring", src: `g1 = 1; tick(1); throw { toString: function(){ g2 = 2; tick(2); for (i0 = 0; i0 < 2; i0++) { s0 = i0; } return "ts"; } };`, ticks: 2}
	bodyThrowP  = body{name: "throw_prim", src: `g1 = 1; tick(1); throw 7; g2 = 2;`, ticks: 1, throws: excPrim}
)

var interruptBodies = []body{bodyAsg, bodyLoop, bodyForBlk, bodyForEmp, bodyWhile, bodyDo, bodyRec, bodyThrowTS}

// prog is one generated program.
type prog struct {
	key   string
	nest  []int // wrapper indices, outermost first
	body  body
	src   string
	limit int
	sc    interface{} // *otto.Script, compiled lazily (exec.go)
}

func jsQuote(s string) string {
	s = strings.ReplaceAll(s, `\`, `\\`)
	s = strings.ReplaceAll(s, `"`, `\"`)
	return s
}

func postMarker(level int) string {
	var sb strings.Builder
	fmt.Fprintf(&sb, `post_%d = probe`, level)
	for lv := 1; lv <= maxDepth; lv++ {
		fmt.Fprintf(&sb, ` + ":" + typeof e_%d`, lv)
	}
	sb.WriteString(";")
	return sb.String()
}

func render(nest []int, b body) string {
	var rec func(i int) string
	rec = func(i int) string {
		if i == len(nest) {
			return b.src
		}
		level := i + 1
		w := wrappers[nest[i]]
		inner := rec(i+1) + fmt.Sprintf(" aft_%d = 1;", level)
		if w.quoted {
			inner = jsQuote(inner)
		}
		t := strings.ReplaceAll(w.tmpl, "#", fmt.Sprint(level))
		t = strings.Replace(t, "@", inner, 1)
		return fmt.Sprintf("pre_%d = 1; %s %s", level, t, postMarker(level))
	}
	return rec(0)
}

func makeProg(nest []int, b body) *prog {
	names := make([]string, len(nest))
	for i, w := range nest {
		names[i] = wrappers[w].name
	}
	return &prog{
		key:   strings.Join(names, ">") + "/" + b.name,
		nest:  append([]int(nil), nest...),
		body:  b,
		src:   render(nest, b),
		limit: b.limit,
	}
}

// nestings enumerates every nesting of wrappers of depth 1..depth.
func nestings(depth int) [][]int {
	var out [][]int
	for d := 1; d <= depth; d++ {
		idx := make([]int, d)
		for {
			out = append(out, append([]int(nil), idx...))
			i := d - 1
			for i >= 0 {
				idx[i]++
				if idx[i] < len(wrappers) {
					break
				}
				idx[i] = 0
				i--
			}
			if i < 0 {
				break
			}
		}
	}
	return out
}

// ---------------------------------------------------------------------------
// Reference model of the wrappers (the oracle of the abnormal-exit families).
// It predicts, from ES5 12.14 (try), 12.10 (with), 10.4.2 (eval code), 15.3.2.1
// (Function) and the host functions' own code, which markers are set, what the
// tick log holds and how Run ends when the body raises an exception or a host
// function panics.
// ---------------------------------------------------------------------------

type flowKind int

const (
	flowNormal  flowKind = iota
	flowExc              // a JavaScript exception is propagating
	flowForeign          // a Go panic that is not a JavaScript exception is propagating
)

type flow struct {
	kind flowKind
	exc  *excDesc
	// foreign string panics are catchable by an enclosing script try (pinned by
	// otto's Test_issue383): they become the exception asExc at the innermost
	// try/catch block they cross; other foreign values never convert.
	asExc *excDesc
	// alternative model of defect F-C18-002 only: a re-panicked *otto.Error. It is
	// still the exception orig for catchPanic (API entry points), but a script
	// try/catch block replaces it by the conversion TypeError raised outside
	// that block.
	orig *excDesc
}

// injection into the body for the model (host panic at the j-th tick call)
type bodyInj struct {
	tickJ   int // 1-based tick call that panics, 0 = none
	payload int
}

const (
	payGoError = iota
	payString
	payValue
	payTypeError
	nPayloads
)

var payloadNames = []string{"goerror", "string", "value", "typeerror"}

type modelOut struct {
	vars    map[string]string // predicted canonical values of marker globals (absent = "u")
	log     []string
	outcome string // "ok" | "err:<text>" | "panic:foreign"
}

func lv(name string, level int) string { return fmt.Sprintf("%s_%d", name, level) }

// probeValue renders the value post_<level> must get: which injected
// environments (with object, catch parameters) are in scope right after the
// construct of that level, i.e. in the hole of level-1.
func probeValue(nest []int, level int) string {
	// Code of `level` (its markers) sits in the holes of levels 1..level-1. The
	// environment injected by level m is visible there iff none of the
	// constructs in between (levels m+1..level-1) makes its hole global code.
	vis := func(m int) bool {
		if m >= level || m > len(nest) {
			return false
		}
		for x := m + 1; x < level; x++ {
			if wrappers[nest[x-1]].cut {
				return false
			}
		}
		return true
	}
	s := "global"
	for m := 1; m < level; m++ {
		if vis(m) && wrappers[nest[m-1]].inject == injWith {
			s = "with"
		}
	}
	for m := 1; m <= maxDepth; m++ {
		if vis(m) && wrappers[nest[m-1]].inject == injCatch {
			s += ":string"
		} else {
			s += ":undefined"
		}
	}
	return s
}

func runModel(p *prog, inj bodyInj) modelOut { return runModelWith(p, inj, nil) }

// runModelAlt is the alternative model used by the known-finding signature
// c18-rethrown-error-in-try (conv = the conversion TypeError that was observed).
func runModelAlt(p *prog, inj bodyInj, conv *excDesc) modelOut { return runModelWith(p, inj, conv) }

func runModelWith(p *prog, inj bodyInj, conv *excDesc) modelOut {
	out := modelOut{vars: map[string]string{}}
	set := func(name, v string) { out.vars[name] = v }
	one := "d:1"

	runBody := func() flow {
		b := p.body
		tick := func(j int, arg string) *flow {
			out.log = append(out.log, "tick:"+arg)
			if inj.tickJ == j {
				switch inj.payload {
				case payGoError:
					return &flow{kind: flowForeign}
				case payString:
					return &flow{kind: flowForeign, asExc: excHostStr}
				case payValue:
					return &flow{kind: flowExc, exc: excHostVal}
				case payTypeError:
					return &flow{kind: flowExc, exc: excHostType}
				}
			}
			return nil
		}
		switch b.name {
		case "asg":
			set("g1", one)
			if f := tick(1, "1"); f != nil {
				return *f
			}
			set("g2", "d:2")
			if f := tick(2, "2"); f != nil {
				return *f
			}
			set("o.p", "d:3")
			if f := tick(3, "3"); f != nil {
				return *f
			}
			return flow{}
		case "throw_error", "throw_prim", "eval_parse_error":
			set("g1", one)
			if f := tick(1, "1"); f != nil {
				return *f
			}
			return flow{kind: flowExc, exc: b.throws}
		case "mutrec":
			return flow{kind: flowExc, exc: b.throws}
		}
		panic("model: body " + b.name + " not modelled")
	}

	var level func(i int) flow
	level = func(i int) flow {
		if i == len(p.nest) {
			return runBody()
		}
		l := i + 1
		w := wrappers[p.nest[i]]
		set(lv("pre", l), one)
		f := level(i + 1)
		if f.kind == flowNormal {
			set(lv("aft", l), one)
			if w.finOK {
				set(lv("fin", l), one)
			}
			if w.cOK {
				set(lv("c", l), "s:string:t")
			}
			set(lv("post", l), "s:"+probeValue(p.nest, l))
			return f
		}
		if w.cOK { // try_cf.fin: the catch block ran before the hole
			set(lv("c", l), "s:string:t")
		}
		if f.kind == flowForeign && f.orig != nil {
			switch {
			case w.tryRegion:
				return flow{kind: flowExc, exc: conv} // raised outside this try statement: its catch/finally are skipped
			case w.exc == excHostSwallow || w.exc == excHostRethrow:
				f = flow{kind: flowExc, exc: f.orig} // catchPanic of the API entry point accepts *otto.Error
			default:
				return f
			}
		}
		if f.kind == flowForeign {
			if f.asExc != nil && w.tryRegion {
				f = flow{kind: flowExc, exc: f.asExc} // converted by the try/catch block it crosses
			} else {
				return f // host wrappers and everything else let it pass untouched
			}
		}
		// f is a JavaScript exception leaving the hole
		switch w.exc {
		case excProp:
			return f
		case excFin:
			set(lv("fin", l), one)
			return f
		case excCatch, excCatchFin:
			set(lv("c", l), "s:"+f.exc.cls)
			if w.exc == excCatchFin {
				set(lv("fin", l), one)
			}
			set(lv("post", l), "s:"+probeValue(p.nest, l))
			return flow{}
		case excHostSwallow:
			out.log = append(out.log, "hosterr:"+f.exc.errText)
			set(lv("post", l), "s:"+probeValue(p.nest, l))
			return flow{}
		case excHostRethrow:
			if f.exc.isErrorObject() {
				// the host re-panics the *otto.Error: same class and message reach the script
				if conv != nil {
					return flow{kind: flowForeign, orig: f.exc}
				}
				return f
			}
			out.log = append(out.log, "hosterr:"+f.exc.errText)
			set(lv("post", l), "s:"+probeValue(p.nest, l))
			return flow{}
		}
		panic("model: wrapper exc kind")
	}
	f := level(0)
	switch f.kind {
	case flowNormal:
		out.outcome = "ok"
	case flowExc:
		out.outcome = "err:" + f.exc.errText
	case flowForeign:
		out.outcome = "panic:foreign"
		if f.orig != nil {
			out.outcome = "err:" + f.orig.errText
		}
	}
	return out
}

// isErrorObject: the exception is an Error instance, so API entry points
// return it as *otto.Error (primitives come back as plain Go errors).
func (e *excDesc) isErrorObject() bool {
	return strings.HasPrefix(e.cls, "R:") || strings.HasPrefix(e.cls, "T:") || strings.HasPrefix(e.cls, "E:")
}

// modelNames are the globals the model predicts (projection of the snapshot).
var modelNames = func() []string {
	var l []string
	for lvl := 1; lvl <= maxDepth; lvl++ {
		for _, n := range []string{"pre", "aft", "post", "c", "fin"} {
			l = append(l, lv(n, lvl))
		}
	}
	return append(l, "g1", "g2", "o.p")
}()

func (m modelOut) render() string {
	var sb strings.Builder
	for _, n := range modelNames {
		v, ok := m.vars[n]
		if !ok {
			if n == "o.p" {
				v = "d:0"
			} else {
				v = "u"
			}
		}
		sb.WriteString(n + "=" + v + " ")
	}
	return sb.String()
}
