package c08

import (
	"fmt"
	"strings"

	"verif/mc/checks/c07/objdrv"
	"verif/mc/engine"
	om "verif/mc/ref/objmodel"
)

// Mutation histories (E2): breadth-first over model states of one array; every
// transition replays the shortest agreeing path on a fresh real array plus one
// operation and compares outcome, return value, the whole receiver and the
// length invariant.

type hop struct {
	id, js string
	m      func(w *cw, a *om.Obj) om.Value
	isSort bool
}

func call(name string, args ...V) func(w *cw, a *om.Obj) om.Value {
	return func(w *cw, a *om.Obj) om.Value { return methodFn[name](w.r, om.ObjV(a), argsModel(w, args)) }
}

func histOps() []hop {
	put := func(p string, v float64) func(w *cw, a *om.Obj) om.Value {
		return func(w *cw, a *om.Obj) om.Value { w.r.Put(a, p, om.Num(v), false); return om.Num(0) }
	}
	return []hop{
		{id: "push(1)", js: "o.push(1)", m: call("push", num(1))},
		{id: "pop()", js: "o.pop()", m: call("pop")},
		{id: "shift()", js: "o.shift()", m: call("shift")},
		{id: "unshift(1)", js: "o.unshift(1)", m: call("unshift", num(1))},
		{id: "reverse()", js: "o.reverse()", m: call("reverse")},
		{id: "sort()", js: "o.sort()", m: call("sort"), isSort: true},
		{id: "splice(1,1)", js: "o.splice(1,1)", m: call("splice", num(1), num(1))},
		{id: "splice(1,0,9)", js: "o.splice(1,0,9)", m: call("splice", num(1), num(0), num(9))},
		{id: "length=1", js: "(o.length = 1, 0)", m: put("length", 1)},
		{id: "length=5", js: "(o.length = 5, 0)", m: put("length", 5)},
		{id: "[5]=1", js: "(o[5] = 1, 0)", m: put("5", 1)},
		{id: "delete[0]", js: "delete o[0]", m: func(w *cw, a *om.Obj) om.Value { return om.Boolean(w.r.Delete(a, "0", false)) }},
		{id: "freeze[0]", js: `(Object.defineProperty(o,"0",{writable:false,configurable:false}), 0)`, m: func(w *cw, a *om.Obj) om.Value {
			d := w.r.NewObject()
			d.Set("writable", om.DataDesc(om.FalseV, true, true, true))
			d.Set("configurable", om.DataDesc(om.FalseV, true, true, true))
			w.r.ObjectDefineProperty(om.ObjV(a), om.Str("0"), om.ObjV(d))
			return om.Num(0)
		}},
		{id: "length-readonly", js: `(Object.defineProperty(o,"length",{writable:false}), 0)`, m: func(w *cw, a *om.Obj) om.Value {
			d := w.r.NewObject()
			d.Set("writable", om.DataDesc(om.FalseV, true, true, true))
			w.r.ObjectDefineProperty(om.ObjV(a), om.Str("length"), om.ObjV(d))
			return om.Num(0)
		}},
	}
}

func runHist(r *engine.Run) {
	im := objdrv.New(prelude8)
	depth := 2
	if r.Thorough() {
		depth = 3
	}
	roots := [][]V{{}, {num(1)}, {num(1), num(2), num(3)}, {num(1), vHole, num(3)}, {vHole, vHole}, {str("a"), vU}, {num(2), num(10), num(1)}}
	ops := histOps()
	byID := map[string]hop{}
	for _, o := range ops {
		byID[o.id] = o
	}
	// sort() is applied only to arrays whose properties are all plain (15.4.4.11: otherwise implementation-defined)
	plainState := func(dump string) bool {
		_, _, plain := parseArrayDump(dump)
		return plain && strings.Contains(dump, "|ext=1|") && strings.HasSuffix(dump, ":100")
	}
	var quirk om.Quirks
	modelRun := func(root []V, path []hop, last *hop) (exp []string, dump string) {
		w := newCW(false)
		w.r.Quirk = quirk
		a := arr(root...).Model(w)
		a.O.Label = "o"
		for _, o := range path {
			o := o
			om.Try(func() { o.m(w, a.O) })
		}
		w.r.Log = nil
		if last == nil {
			return nil, w.r.Dump(a.O)
		}
		exp = finish(w, a, func() om.Value { return last.m(w, a.O) })
		return exp, exp[2]
	}
	// every step is its own program: a throwing prefix step (no JS try/catch in the harness) must not end the history
	source := func(root []V, path []hop, last hop) []string {
		progs := []string{"o = " + arrayLiteral(root) + "; __script = []; 0"}
		for _, o := range path {
			progs = append(progs, o.js+"; 0")
		}
		return append(progs, "__log = []; __done = false; __ret = undefined; __ret = __c("+last.js+"); __done = true; 0")
	}
	pid := func(path []hop) string {
		ids := make([]string, len(path))
		for i, o := range path {
			ids[i] = o.id
		}
		return strings.Join(ids, ";")
	}
	type st struct{ path []hop }
	for _, root := range roots {
		rootID := arr(root...).ID()
		if r.ReplayKey != "" && !strings.HasPrefix(r.ReplayKey, "hist/"+rootID+"/") {
			continue
		}
		_, d0 := modelRun(root, nil, nil)
		states := []st{{}}
		seen := map[string]bool{d0: true}
		rejected := map[string]bool{}
		r.Tree(1, 0)
		for si := 0; si < len(states); si++ {
			S := states[si]
			if len(S.path) >= depth {
				continue
			}
			_, sd := modelRun(root, S.path, nil)
			leaf := len(S.path)+1 >= depth
			for _, o := range ops {
				o := o
				if o.isSort && !plainState(sd) {
					continue
				}
				key := "hist/" + rootID + "/" + pid(S.path) + "/" + o.id
				mine := r.MineKey(key)
				exp, nd := modelRun(root, S.path, &o)
				known := seen[nd] || rejected[nd] || leaf
				if !mine && known {
					continue
				}
				progs := source(root, S.path, o)
				src := strings.Join(progs, "\n")
				objdrv.Begin(r, key)
				im.Ensure()
				panicked := ""
				for _, p := range progs[:len(progs)-1] {
					if _, oc := im.Run(p); strings.HasPrefix(oc, "GO-PANIC") {
						panicked = oc
						break
					}
				}
				var obs []string
				if panicked != "" {
					obs = []string{panicked + " (in a prefix step)", "n/a", "n/a", "n/a", "n/a"}
				} else {
					obs = observe(im, progs[len(progs)-1], "")
				}
				objdrv.End()
				agree := true
				for i := range exp {
					if exp[i] != obs[i] && i != 3 {
						agree = false
					}
				}
				if mine {
					if o.isSort && agree {
						// nothing more: a unique sorted result exists for plain arrays under the default comparator
					}
					compare(r, key, src, exp, obs, false, func(aux map[string]string) {
						aux["method"] = "history:" + o.id
						buildQuirkList()
						for name, q := range quirkList {
							quirk = q
							alt, _ := modelRun(root, S.path, &o)
							aux["alt:"+name] = join(alt)
						}
						quirk = om.Quirks{}
					})
				}
				if !known {
					if agree {
						seen[nd] = true
						states = append(states, st{append(append([]hop(nil), S.path...), o)})
						if r.Shard == 0 || r.NShards <= 1 {
							r.Tree(1, 0)
						}
					} else {
						rejected[nd] = true
					}
				}
			}
		}
	}
	r.Bound("history_depth", fmt.Sprint(depth))
	r.Bound("operations", fmt.Sprint(len(ops)))
	r.Bound("initial_arrays", fmt.Sprint(len(roots)))
	_ = byID
}
