package c08

import (
	"fmt"
	"math"
	"strings"

	"verif/mc/ox"
	om "verif/mc/ref/objmodel"
)

// V is a value specification that can be rendered both as JS source and as a
// model value.
type V struct {
	K string // hole u n num str bool arr T vo2 alike omitted
	N float64
	S string
	B bool
	L []V
}

var (
	vHole    = V{K: "hole"}
	vU       = V{K: "u"}
	vNull    = V{K: "n"}
	vOmitted = V{K: "omitted"}
	vT       = V{K: "T"}
)

func num(f float64) V { return V{K: "num", N: f} }
func str(s string) V  { return V{K: "str", S: s} }
func arr(l ...V) V    { return V{K: "arr", L: l} }

// JS renders the value as a JS expression.
func (v V) JS() string {
	switch v.K {
	case "hole":
		return ""
	case "u":
		return "undefined"
	case "n":
		return "null"
	case "num":
		return ox.JSNum(v.N)
	case "str":
		return ox.JSLit(v.S)
	case "bool":
		return fmt.Sprint(v.B)
	case "arr":
		return arrayLiteral(v.L)
	case "T":
		return "T"
	case "vo2":
		return "{valueOf:function(){return 2}}"
	case "alike":
		// array-like item: {length:1, 0:5}
		return "{length:1,0:5}"
	case "throw":
		return `"THROW"`
	case "cb", "cb4":
		return v.K
	case "obj":
		return "{}"
	case "Sobj":
		return `new String("s")`
	case "Nobj":
		return "new Number(2)"
	case "Bobj":
		return "new Boolean(false)"
	case "logobj":
		return fmt.Sprintf("__L(%q,%s)", v.S, ox.JSNum(v.N))
	case "rawstr":
		// the characters themselves (UTF-8 source text), not \u escapes: an escaped
		// surrogate pair in a literal is a different matter (lexer, C03/C09)
		return `"` + v.S + `"`
	}
	panic("V.JS " + v.K)
}

// arrayLiteral renders an array initialiser; every element is followed by a
// comma so that trailing holes count (11.1.4: [1,,] has length 2).
func arrayLiteral(l []V) string {
	var sb strings.Builder
	sb.WriteByte('[')
	for _, e := range l {
		sb.WriteString(e.JS())
		sb.WriteByte(',')
	}
	sb.WriteByte(']')
	return sb.String()
}

// ID is a short stable identifier for case keys.
func (v V) ID() string {
	switch v.K {
	case "hole":
		return "_"
	case "u":
		return "u"
	case "n":
		return "n"
	case "num":
		return ox.JSNum(v.N)
	case "str":
		return "'" + v.S + "'"
	case "bool":
		return fmt.Sprint(v.B)
	case "arr":
		ids := make([]string, len(v.L))
		for i, e := range v.L {
			ids[i] = e.ID()
		}
		return "[" + strings.Join(ids, " ") + "]"
	case "logobj":
		return "L(" + v.S + ")"
	case "rawstr":
		return "'" + v.S + "'"
	}
	return v.K
}

// Model builds the value in the model world.
func (v V) Model(w *cw) om.Value {
	switch v.K {
	case "hole":
		return om.Hole
	case "u", "omitted":
		return om.Undef
	case "n":
		return om.NullV
	case "num":
		return om.Num(v.N)
	case "str", "rawstr":
		return om.Str(v.S)
	case "bool":
		return om.Boolean(v.B)
	case "arr":
		el := make([]om.Value, len(v.L))
		for i, e := range v.L {
			el[i] = e.Model(w)
		}
		return om.ObjV(w.r.NewArrayFrom(el))
	case "T":
		return om.ObjV(w.T)
	case "vo2":
		o := w.r.NewObject()
		f := w.r.NewFunction("", func(*om.Realm, om.Value, []om.Value) om.Value { return om.Num(2) })
		o.Set("valueOf", om.DataDesc(om.ObjV(f), true, true, true))
		return om.ObjV(o)
	case "cb":
		return om.ObjV(w.cb)
	case "cb4":
		return om.ObjV(w.cb4)
	case "obj":
		return om.ObjV(w.r.NewObject())
	case "Sobj":
		return om.ObjV(w.r.NewStringObject("s"))
	case "Nobj":
		return om.ObjV(w.r.ToObject(om.Num(2)))
	case "Bobj":
		return om.ObjV(w.r.ToObject(om.FalseV))
	case "logobj":
		o := w.r.NewObject()
		tag, n := v.S, v.N
		vo := w.r.NewFunction("", func(r *om.Realm, _ om.Value, _ []om.Value) om.Value {
			r.Log = append(r.Log, tag+".valueOf")
			return om.Num(n)
		})
		ts := w.r.NewFunction("", func(r *om.Realm, _ om.Value, _ []om.Value) om.Value {
			r.Log = append(r.Log, tag+".toString")
			return om.Str(om.NumberToString(n))
		})
		o.Set("valueOf", om.DataDesc(om.ObjV(vo), true, true, true))
		o.Set("toString", om.DataDesc(om.ObjV(ts), true, true, true))
		return om.ObjV(o)
	case "alike":
		o := w.r.NewObject()
		o.Set("length", om.DataDesc(om.Num(1), true, true, true))
		o.Set("0", om.DataDesc(om.Num(5), true, true, true))
		return om.ObjV(o)
	}
	panic("V.Model " + v.K)
}

func argsJS(args []V) string {
	parts := make([]string, len(args))
	for i, a := range args {
		parts[i] = a.JS()
	}
	return strings.Join(parts, ",")
}

func argsID(args []V) string {
	parts := make([]string, len(args))
	for i, a := range args {
		parts[i] = a.ID()
	}
	return "(" + strings.Join(parts, ",") + ")"
}

func argsModel(w *cw, args []V) []om.Value {
	out := make([]om.Value, len(args))
	for i, a := range args {
		out[i] = a.Model(w)
	}
	return out
}

// positions is the position-argument alphabet of the property statement
// ("omitted" first: an omitted argument ends the argument list).
var positions = []V{vOmitted, vU, vNull, num(math.NaN()), num(math.Inf(-1)), num(-5), num(-1), num(-0.5), num(0), num(0.5),
	num(1), num(2), num(3), num(4), num(5), num(math.Inf(1)), str("1"), {K: "bool", B: true}}

// elements is the element alphabet of enumerated receivers.
var elements = []V{vHole, num(1), num(2), vU, str("a")}

// cw is the model world of one C08 case.
type cw struct {
	r      *om.Realm
	T      *om.Obj // thisArg object
	global *om.Obj
	script []V // callback answers; K "throw" = throw
	si     int
	cb     *om.Obj // callback for every/some/forEach/map/filter (3 arguments)
	cb4    *om.Obj // callback for reduce/reduceRight (4 arguments)
	ga, sa *om.Obj // getter/setter of accessor elements
}

var baseRealm = om.NewRealm()

// newCW builds a model world. fresh = own intrinsics (needed when the case
// modifies Array.prototype).
func newCW(fresh bool) *cw {
	w := &cw{}
	if fresh {
		w.r = om.NewRealm()
	} else {
		w.r = baseRealm.Fork()
	}
	w.global = w.r.NewObject()
	w.global.Label = "global"
	w.T = w.r.NewObject()
	w.T.Label = "T"
	thisOf := func(this om.Value) om.Value {
		// 10.4.3 for a non-strict function
		if this.K == om.Undefined || this.K == om.Null {
			return om.ObjV(w.global)
		}
		if this.K != om.Object {
			return om.ObjV(w.r.ToObject(this))
		}
		return this
	}
	answer := func() om.Value {
		if w.si >= len(w.script) {
			return om.Undef
		}
		a := w.script[w.si]
		w.si++
		if a.K == "throw" {
			om.ThrowValue(om.Str("cb-throw!"))
		}
		return a.Model(w)
	}
	at := func(args []om.Value, i int) om.Value {
		if i < len(args) {
			return args[i]
		}
		return om.Undef
	}
	w.cb = w.r.NewFunction("cb", func(r *om.Realm, this om.Value, args []om.Value) om.Value {
		r.Log = append(r.Log, "cb("+r.Render(at(args, 0))+","+r.Render(at(args, 1))+","+r.Render(at(args, 2))+",this="+r.Render(thisOf(this))+")")
		return answer()
	})
	w.cb4 = w.r.NewFunction("cb4", func(r *om.Realm, this om.Value, args []om.Value) om.Value {
		r.Log = append(r.Log, "cb4("+r.Render(at(args, 0))+","+r.Render(at(args, 1))+","+r.Render(at(args, 2))+","+r.Render(at(args, 3))+",this="+r.Render(thisOf(this))+")")
		return answer()
	})
	w.ga = w.r.NewFunction("ga", func(r *om.Realm, this om.Value, _ []om.Value) om.Value {
		r.Log = append(r.Log, "ga")
		return om.Str("A")
	})
	w.sa = w.r.NewFunction("sa", func(r *om.Realm, this om.Value, args []om.Value) om.Value {
		r.Log = append(r.Log, "sa:"+r.Render(at(args, 0)))
		return om.Undef
	})
	return w
}

const sep = " ;; "

// prelude8 is the JS side of cw.
const prelude8 = `
__label(__global, "global");
__label(Array.prototype, "Array.prototype");
__label(Object.prototype, "Object.prototype");
var T = __label({}, "T");
var __script = [], __si = 0, __ret, __done = false;
function __ans() { var a = __script[__si++]; if (a === "THROW") throw "cb-throw!"; return a; }
var cb = __label(function (v, i, obj) { __log[__log.length] = "cb(" + __c(v) + "," + __c(i) + "," + __c(obj) + ",this=" + __c(this) + ")"; return __ans(); }, "cb");
var cb4 = __label(function (acc, v, i, obj) { __log[__log.length] = "cb4(" + __c(acc) + "," + __c(v) + "," + __c(i) + "," + __c(obj) + ",this=" + __c(this) + ")"; return __ans(); }, "cb4");
var __af = __label(function () { return arguments; }, "callee");
var ga = __label(function () { __log[__log.length] = "ga"; return "A"; }, "ga");
var sa = __label(function (v) { __log[__log.length] = "sa:" + __c(v); }, "sa");
function __inv(x) {
  if (Object.prototype.toString.call(x) !== "[object Array]") return "n/a";
  var names = __gopn(x), len = x.length;
  for (var i = 0; i < names.length; i++) if (__isIdx(names[i]) && !(Number(names[i]) < len)) return "length " + len + " <= own index " + names[i];
  return "ok";
}
function __obs8() {
  var isObj = (typeof o === "object" && o !== null) || typeof o === "function";
  return (__done ? __ret : "-") + "` + sep + `" + (isObj ? __dump(o) : __c(o)) + "` + sep + `" + __takelog() + "` + sep + `" + (isObj ? __inv(o) : "n/a");
}
`
