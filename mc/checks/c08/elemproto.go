package c08

import (
	"fmt"
	"strings"

	"verif/mc/checks/c07/objdrv"
	"verif/mc/engine"
	om "verif/mc/ref/objmodel"
)

// elemproto: the methods that invoke a METHOD OF THE ELEMENT.
//
// toLocaleString (15.4.4.3 steps 6-8, 10.d) does ToObject(element), [[Get]]
// "toLocaleString" on the wrapper, IsCallable, [[Call]] with the wrapper as this;
// join (15.4.4.5 steps 8, 10.c) and toString (through join) do ToString(element),
// which for an object is [[DefaultValue]] hint String: toString, then valueOf,
// each through [[Get]] on the element. None of these steps has an exemption for
// a kind of element, and which user-visible function runs is only observable
// when the ENVIRONMENT differs from the stock one. The family therefore varies
//
//	environment: one of {String,Number,Boolean,Object,Array}.prototype x one of
//	             {toLocaleString,toString,valueOf} x {replaced by a logging function
//	             that returns a string, replaced by a logging function that returns an
//	             object, replaced by a logging function that throws, set to undefined,
//	             deleted}, plus the stock environment; thorough adds the joint
//	             (toString mode x valueOf mode) environments of one prototype
//	x receiver:  every array of length 1 and 2 over the element KINDS primitive
//	             string/number/boolean, String/Number/Boolean object, plain object,
//	             array, hole, undefined, null, and every array-like {length:1,0:e}
//	x method:    toString, toLocaleString, join
//
// and compares outcome, returned string and the call log (which replaced function
// ran, typeof/[[Class]]/primitive value of its this, in which order) with the
// model. The environment is installed after the receiver is built and restored
// before anything is rendered, so the harness never runs under it.

const preludeElemProto = `
var __EP = {String: String.prototype, Number: Number.prototype, Boolean: Boolean.prototype, Object: Object.prototype, Array: Array.prototype};
var __sv = String.prototype.valueOf, __nv = Number.prototype.valueOf, __bv = Boolean.prototype.valueOf, __dp = Object.defineProperty;
var __epSaved = [], __res;
function __epThis(t) {
  var c = __cls(t);
  if (c === "String") return c + ":" + __sv.call(t);
  if (c === "Number") return c + ":" + __nv.call(t);
  if (c === "Boolean") return c + ":" + __bv.call(t);
  return c;
}
function __epInstall(pn, name, mode) {
  var P = __EP[pn];
  __epSaved[__epSaved.length] = [P, name, __gopd(P, name)];
  if (mode === "delete") { delete P[name]; return; }
  if (mode === "undef") { P[name] = undefined; return; }
  var tag = pn + "." + name;
  P[name] = function () {
    var d = tag + "(" + (typeof this) + ":" + __epThis(this) + ")";
    __log[__log.length] = d;
    if (mode === "throw") throw "ep-throw!";
    if (mode === "obj") return {};
    return "<" + d + ">";
  };
}
function __epRestore() {
  for (var i = __epSaved.length - 1; i >= 0; i--) {
    var s = __epSaved[i];
    if (s[2] === undefined) delete s[0][s[1]]; else __dp(s[0], s[1], s[2]);
  }
  __epSaved = [];
}
`

type epPatch struct{ proto, name, mode string }

type epEnv struct {
	id      string
	patches []epPatch
}

var epProtos = []string{"String", "Number", "Boolean", "Object", "Array"}
var epNames = []string{"toLocaleString", "toString", "valueOf"}
var epModes = []string{"str", "obj", "throw", "undef", "delete"}

func epEnvs(thorough bool) []epEnv {
	envs := []epEnv{{id: "stock"}}
	for _, p := range epProtos {
		for _, n := range epNames {
			for _, m := range epModes {
				envs = append(envs, epEnv{id: p + "." + n + "=" + m, patches: []epPatch{{p, n, m}}})
			}
		}
	}
	if thorough {
		for _, p := range epProtos {
			for _, m1 := range epModes {
				for _, m2 := range epModes {
					envs = append(envs, epEnv{id: p + ".toString=" + m1 + "+valueOf=" + m2,
						patches: []epPatch{{p, "toString", m1}, {p, "valueOf", m2}}})
				}
			}
		}
	}
	return envs
}

// epKinds is the element-kind alphabet.
var epKinds = []V{str("a"), num(1), {K: "bool", B: true}, {K: "Sobj"}, {K: "Nobj"}, {K: "Bobj"}, {K: "obj"}, arr(num(7)), vHole, vU, vNull}

func epThisModel(o *om.Obj) string {
	switch o.Class {
	case "String":
		return "String:" + o.Prim.S
	case "Number":
		return "Number:" + om.NumberToString(o.Prim.N)
	case "Boolean":
		if o.Prim.B {
			return "Boolean:true"
		}
		return "Boolean:false"
	}
	return o.Class
}

func epInstallModel(w *cw, p epPatch) {
	r := w.r
	P := map[string]*om.Obj{"String": r.StringPrototype, "Number": r.NumberPrototype, "Boolean": r.BooleanPrototype,
		"Object": r.ObjectPrototype, "Array": r.ArrayPrototype}[p.proto]
	switch p.mode {
	case "delete":
		r.Delete(P, p.name, false)
		return
	case "undef":
		r.Put(P, p.name, om.Undef, false)
		return
	}
	tag, mode := p.proto+"."+p.name, p.mode
	fn := r.NewFunction(tag, func(r *om.Realm, this om.Value, _ []om.Value) om.Value {
		// 10.4.3, non-strict function: this is always an object
		var o *om.Obj
		switch this.K {
		case om.Object:
			o = this.O
		case om.Undefined, om.Null:
			o = w.global
		default:
			o = r.ToObject(this)
		}
		d := tag + "(object:" + epThisModel(o) + ")"
		r.Log = append(r.Log, d)
		switch mode {
		case "throw":
			om.ThrowValue(om.Str("ep-throw!"))
		case "obj":
			return om.ObjV(r.NewObject())
		}
		return om.Str("<" + d + ">")
	})
	r.Put(P, p.name, om.ObjV(fn), false)
}

func runElemProto(r *engine.Run) {
	im := objdrv.New(prelude8 + preludeElemProto)
	type rcv struct {
		id, js  string
		isArray bool
		model   func(w *cw) om.Value
	}
	var recvs []rcv
	addArr := func(el ...V) {
		e := append([]V(nil), el...)
		recvs = append(recvs, rcv{id: arr(e...).ID(), js: "o = " + arrayLiteral(e) + ";", isArray: true,
			model: func(w *cw) om.Value { return arr(e...).Model(w) }})
	}
	for _, a := range epKinds {
		addArr(a)
	}
	for _, a := range epKinds {
		for _, b := range epKinds {
			addArr(a, b)
		}
	}
	for _, a := range epKinds {
		a := a
		js := "o = {length:1,0:" + a.JS() + "};"
		if a.K == "hole" {
			js = "o = {length:1};"
		}
		recvs = append(recvs, rcv{id: "like[" + a.ID() + "]", js: js,
			model: func(w *cw) om.Value {
				o := w.r.NewObject()
				o.Set("length", om.DataDesc(om.Num(1), true, true, true))
				if a.K != "hole" {
					o.Set("0", om.DataDesc(a.Model(w), true, true, true))
				}
				return om.ObjV(o)
			}})
	}
	methods := []string{"toString", "toLocaleString", "join"}
	envs := epEnvs(r.Thorough())
	for _, env := range envs {
		if r.Expired() {
			r.Cap("time budget reached")
			return
		}
		var install strings.Builder
		for _, p := range env.patches {
			fmt.Fprintf(&install, "__epInstall(%q,%q,%q); ", p.proto, p.name, p.mode)
		}
		for _, rc := range recvs {
			for _, m := range methods {
				key := "elemproto(" + env.id + ")/" + rc.id + "/" + m
				if !r.MineKey(key) {
					continue
				}
				callJS := "o." + m + "()"
				if !rc.isArray {
					callJS = "Array.prototype." + m + ".call(o)"
				}
				src := fmt.Sprintf("%s __log = []; __done = false; __res = undefined; %s__res = %s; __done = true; 0", rc.js, install.String(), callJS)

				// model: fresh intrinsics, the receiver is built before the environment is installed
				w := newCW(true)
				this := rc.model(w)
				this.O.Label = "o"
				for _, p := range env.patches {
					epInstallModel(w, p)
				}
				w.r.Log = nil
				var ret om.Value
				expOutcome, expRet := "ok", "-"
				if t := om.Try(func() {
					// the method itself is reached through [[Get]] (o.m() / Array.prototype.m.call(o)) and may be the patched one
					holder := w.r.ArrayPrototype
					if rc.isArray {
						holder = this.O
					}
					fn := w.r.Get(holder, m)
					if !om.IsCallable(fn) {
						om.ThrowError("TypeError")
					}
					ret = fn.O.Call(w.r, this, nil)
				}); t != nil {
					expOutcome = t.Class
					if expOutcome == "Thrown" {
						expOutcome = "Thrown(" + w.r.ToString(t.Val) + ")"
					}
				} else {
					expRet = w.r.Render(ret)
				}
				exp := []string{expOutcome, expRet, "n/a", strings.Join(w.r.Log, ","), "n/a"}

				// implementation
				objdrv.Begin(r, key)
				im.Ensure()
				_, oc := im.Run(src)
				obs := []string{oc, "n/a", "n/a", "n/a", "n/a"}
				if !strings.HasPrefix(oc, "GO-PANIC") && !strings.HasPrefix(oc, "COMPILE") {
					val, oc2 := im.Run(`__epRestore(); (__done ? __c(__res) : "-") + "` + sep + `" + __takelog()`)
					f := strings.Split(val, sep)
					switch {
					case oc2 != "ok":
						obs[1] = "OBSERVE:" + oc2
						im.Dirty = true // the environment may not have been restored
					case len(f) != 2:
						obs[1] = "MALFORMED:" + val
						im.Dirty = true
					default:
						obs[1], obs[3] = f[0], f[1]
					}
				}
				objdrv.End()
				compare(r, key, src, exp, obs, false, func(aux map[string]string) {
					aux["method"] = m
					aux["recv"] = rc.id
					aux["env"] = env.id
					aux["args"] = "()"
					aux["nargs"] = "0"
				})
			}
		}
	}
	r.Bound("environments", fmt.Sprintf("%d: stock + {String,Number,Boolean,Object,Array}.prototype x {toLocaleString,toString,valueOf} x {logging fn returning a string / an object / throwing, undefined, deleted}; thorough: + joint toString x valueOf modes per prototype", len(envs)))
	r.Bound("element_kinds", "\"a\", 1, true, new String(\"s\"), new Number(2), new Boolean(false), {}, [7], hole, undefined, null")
	r.Bound("receivers", fmt.Sprintf("%d: arrays of length 1 and 2 over the element kinds, array-likes {length:1,0:e}", len(recvs)))
	r.Bound("methods", strings.Join(methods, ","))
}
