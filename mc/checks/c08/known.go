package c08

import (
	"verif/mc/engine"
	om "verif/mc/ref/objmodel"
)

// Known findings of C08 are matched by ALTERNATIVE MODELS: ref/objmodel carries
// one defect-injection switch (Quirks) per known defect of otto. For a
// mismatching case the check re-runs the reference model with
//
//	alt:<sig>      only that switch on
//	alt:ALL        every switch whose finding is still open
//	alt:ALL-<sig>  all open switches except that one
//
// and stores the complete expected observation of each run in Mismatch.Aux. A
// signature accepts a mismatch when the observation equals the model with just
// its defect injected, or equals the all-open-defects model and its own defect is
// needed for that (alt:ALL differs from alt:ALL-<sig>). Any other wrong answer on
// the same input is a VIOLATION.
var quirkBySig = map[string]om.Quirks{
	"c08-result-holes-undefined":       {ResultHolesUndefined: true},
	"c08-splice-noargs-deletes-all":    {SpliceNoArgsDeletesAll: true},
	"c08-reduce-only-holes":            {ReduceOnlyHolesUndefined: true},
	"c08-reduceright-string-index":     {ReduceRightStringIndex: true},
	"c08-lastindexof-clamp":            {LastIndexOfClamp: true},
	"c08-index-parseint":               {ArrayIndexParseInt: true},
	"c08-array-length-same-value":      {ArrayLengthSameValueRejects: true},
	"c08-reverse-delete-first":         {ReverseDeleteFirst: true},
	"c08-join-separator-first":         {JoinSeparatorFirst: true},
	"c08-lastindexof-converts-empty":   {LastIndexOfConvertsOnEmpty: true},
	"c08-callable-before-length":       {CallableBeforeLength: true},
	"c08-reverse-sort-return-raw-this": {ReturnRawThis: true},
	"c08-length-converted-once":        {LengthConvertedOnce: true},
}

func merge(a, b om.Quirks) om.Quirks {
	return om.Quirks{
		ArgumentsKeepMapping:        a.ArgumentsKeepMapping || b.ArgumentsKeepMapping,
		ResultHolesUndefined:        a.ResultHolesUndefined || b.ResultHolesUndefined,
		SpliceNoArgsDeletesAll:      a.SpliceNoArgsDeletesAll || b.SpliceNoArgsDeletesAll,
		ReduceOnlyHolesUndefined:    a.ReduceOnlyHolesUndefined || b.ReduceOnlyHolesUndefined,
		ReduceRightStringIndex:      a.ReduceRightStringIndex || b.ReduceRightStringIndex,
		LastIndexOfClamp:            a.LastIndexOfClamp || b.LastIndexOfClamp,
		ArrayIndexParseInt:          a.ArrayIndexParseInt || b.ArrayIndexParseInt,
		ArrayLengthSameValueRejects: a.ArrayLengthSameValueRejects || b.ArrayLengthSameValueRejects,
		ReverseDeleteFirst:          a.ReverseDeleteFirst || b.ReverseDeleteFirst,
		JoinSeparatorFirst:          a.JoinSeparatorFirst || b.JoinSeparatorFirst,
		LastIndexOfConvertsOnEmpty:  a.LastIndexOfConvertsOnEmpty || b.LastIndexOfConvertsOnEmpty,
		CallableBeforeLength:        a.CallableBeforeLength || b.CallableBeforeLength,
		ReturnRawThis:               a.ReturnRawThis || b.ReturnRawThis,
		LengthConvertedOnce:         a.LengthConvertedOnce || b.LengthConvertedOnce,
	}
}

var quirksReady bool

// buildQuirkList fills quirkList from the open findings (read-only use of the committed findings).
func buildQuirkList() {
	if quirksReady {
		return
	}
	quirksReady = true
	open := map[string]bool{}
	for _, f := range engine.KnownFor("C08") {
		if f.Status == "open" {
			open[f.Signature] = true
		}
	}
	all := om.Quirks{}
	for sig, q := range quirkBySig {
		if open[sig] {
			all = merge(all, q)
		}
	}
	quirkList["ALL"] = all
	for sig, q := range quirkBySig {
		quirkList[sig] = q
		if !open[sig] {
			continue
		}
		rest := om.Quirks{}
		for s2, q2 := range quirkBySig {
			if s2 != sig && open[s2] {
				rest = merge(rest, q2)
			}
		}
		quirkList["ALL-"+sig] = rest
	}
}

func init() {
	// sort is judged by its postcondition; the alternative models are alternative postconditions
	engine.RegisterSignature("c08-sort-infinite-comparator", func(m *engine.Mismatch) bool {
		return m.Aux != nil && m.Aux["method"] == "sort" && m.Aux["mag"] == "Infinity" && m.Aux["alt:infinite-is-zero"] == "ok"
	})
	engine.RegisterSignature("c08-sort-utf8-order", func(m *engine.Mismatch) bool {
		return m.Aux != nil && m.Aux["method"] == "sort" && m.Aux["alt:utf8-order"] == "ok"
	})
	for sig := range quirkBySig {
		sig := sig
		engine.RegisterSignature(sig, func(m *engine.Mismatch) bool {
			if m.Aux == nil || m.Observed == m.Expected {
				return false
			}
			if alt, ok := m.Aux["alt:"+sig]; ok && alt == m.Observed {
				return true
			}
			all, ok1 := m.Aux["alt:ALL"]
			rest, ok2 := m.Aux["alt:ALL-"+sig]
			return ok1 && ok2 && all == m.Observed && rest != all
		})
	}
}
