// Package c08 checks that arrays keep the length invariant and that the Array
// constructor and the Array.prototype methods follow ES5 15.4: bounded
// exhaustive enumeration of receivers x methods x arguments against the
// step-by-step transcriptions in ref/objmodel. See DESIGN.md section 3, C08.
package c08

import (
	"os"
	"time"

	"verif/mc/engine"
)

func budget(d time.Duration) time.Duration {
	if v, err := time.ParseDuration(os.Getenv("MC_BUDGET")); err == nil && v > 0 {
		return v
	}
	return d
}

func init() {
	engine.Register(&engine.Check{
		ID:    "C08",
		Title: "Arrays keep the length invariant; Array methods follow ES5 15.4",
		Rule: "a case is one call (receiver, method, argument list, callback script) executed on a fresh real receiver; compared with the 15.4.4.x algorithm run over the model object: " +
			"thrown class, return value (deep), receiver afterwards (every own property with value and attributes, so partial effects before a TypeError count), callback/getter/setter log, " +
			"and the length invariant evaluated on the real array. elemproto: the call runs in an environment where one toLocaleString/toString/valueOf of String/Number/Boolean/Object/Array.prototype is replaced by a logging function, made non-callable or deleted, over receivers of every element kind; outcome, returned string and the log of element-method calls (function, this class and value, order) are compared. Trivial = the call throws TypeError by construction before anything is touched (non-callable callback).",
		Families: []engine.Family{
			// cheap families first: when the time budget runs out the large enumerations are the ones cut short
			{Name: "ctor", Run: runCtor},
			{Name: "canon", Run: runCanon},
			{Name: "length", Run: runLength},
			{Name: "sort", Run: runSort},
			{Name: "hist", Run: runHist},
			{Name: "steporder", Run: runStepOrder},
			{Name: "primitives", Run: runPrimitives},
			{Name: "poison", Run: runPoison},
			{Name: "elemproto", Run: runElemProto},
			{Name: "attrs", Run: runAttrs},
			{Name: "stack", Run: runStack},
			{Name: "access", Run: runAccess},
			{Name: "reduce", Run: runReduce},
			{Name: "iterate", Run: runIterate},
			{Name: "search", Run: runSearch},
			{Name: "slice", Run: runSlice},
			{Name: "splice", Run: runSplice},
		},
		Assumptions: []string{
			"ref/objmodel is a faithful transcription of ES5.1 15.4 (trusted; validated against V8 at development time)",
			"model decisions where ES5.1 and every implementation/ES2015 differ: concat/slice/splice set the length of the result array; splice with one argument deletes to the end",
			"sort is judged by the 15.4.4.11 postcondition (any conforming permutation), not by a reference algorithm",
			"the harness JS uses only basic statements, no try/catch (a Go panic must surface as GO-PANIC)",
		},
		CrashIsViolation: true,
		QuickBudget:      budget(80 * time.Second),
		ThoroughBudget:   budget(14 * time.Minute),
	})
}
