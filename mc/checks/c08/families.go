package c08

import (
	"fmt"

	"verif/mc/checks/c07/objdrv"
	"verif/mc/engine"
)

func maxLen(r *engine.Run) int {
	if r.Thorough() {
		return 4
	}
	return 3
}

// receivers of a family: the enumerated plain arrays plus the variants.
func allRecvs(r *engine.Run) []recv {
	return append(enumArrays(maxLen(r)), variantRecvs()...)
}

func eachCase(r *engine.Run, recvs []recv, gen func(rc recv, emit func(method string, args []V, script []V, trivial bool))) {
	im := objdrv.New(prelude8)
	for _, rc := range recvs {
		if r.Expired() {
			r.Cap("time budget reached")
			return
		}
		rc := rc
		gen(rc, func(method string, args []V, script []V, trivial bool) {
			runCase(r, im, callCase{rc: rc, method: method, args: args, script: script, trivial: trivial})
		})
	}
	r.Bound("array_length", fmt.Sprint(maxLen(r)))
	r.Bound("element_alphabet", "hole, 1, 2, undefined, \"a\"")
	r.Bound("receivers", fmt.Sprint(len(recvs)))
}

// ---- access: toString, toLocaleString, join, concat ----

func runAccess(r *engine.Run) {
	seps := [][]V{{}, {vU}, {str("-")}, {str("")}, {vNull}, {num(1)}}
	items := [][]V{{}, {num(9)}, {arr(num(9), vHole, num(8))}, {num(9), arr(num(7))}, {arr(vHole, vHole)}, {{K: "alike"}}, {vU, vNull}}
	eachCase(r, allRecvs(r), func(rc recv, emit func(string, []V, []V, bool)) {
		if rc.bigLen {
			return
		}
		emit("toString", nil, nil, false)
		emit("toLocaleString", nil, nil, false)
		for _, s := range seps {
			emit("join", s, nil, false)
		}
		for _, it := range items {
			emit("concat", it, nil, false)
		}
	})
}

// ---- stack: push, pop, shift, unshift, reverse ----

func runStack(r *engine.Run) {
	items := [][]V{{}, {num(9)}, {num(9), num(8)}, {vU}}
	eachCase(r, allRecvs(r), func(rc recv, emit func(string, []V, []V, bool)) {
		emit("pop", nil, nil, false)
		for _, it := range items {
			emit("push", it, nil, false)
		}
		if rc.bigLen {
			return
		}
		emit("shift", nil, nil, false)
		emit("reverse", nil, nil, false)
		for _, it := range items {
			emit("unshift", it, nil, false)
		}
	})
}

// ---- slice(start, end) over the full position alphabet ----

func runSlice(r *engine.Run) {
	eachCase(r, allRecvs(r), func(rc recv, emit func(string, []V, []V, bool)) {
		if rc.bigLen {
			return
		}
		for _, s := range positions {
			if s.K == "omitted" {
				emit("slice", nil, nil, false)
				continue
			}
			for _, e := range positions {
				if e.K == "omitted" {
					emit("slice", []V{s}, nil, false)
				} else {
					emit("slice", []V{s, e}, nil, false)
				}
			}
		}
	})
}

// ---- splice(start, deleteCount, items) ----

func runSplice(r *engine.Run) {
	items := [][]V{{}, {num(9), num(8)}}
	if r.Thorough() {
		items = [][]V{{}, {num(9)}, {num(9), num(8)}}
	}
	eachCase(r, allRecvs(r), func(rc recv, emit func(string, []V, []V, bool)) {
		if rc.bigLen {
			return
		}
		for _, s := range positions {
			if s.K == "omitted" {
				emit("splice", nil, nil, false)
				continue
			}
			for _, d := range positions {
				if d.K == "omitted" {
					emit("splice", []V{s}, nil, false)
					continue
				}
				for _, it := range items {
					emit("splice", append([]V{s, d}, it...), nil, false)
				}
			}
		}
	})
}

// ---- indexOf / lastIndexOf ----

func runSearch(r *engine.Run) {
	searches := []V{num(1), vU, str("a"), num(2)}
	eachCase(r, allRecvs(r), func(rc recv, emit func(string, []V, []V, bool)) {
		if rc.bigLen {
			return
		}
		for _, m := range []string{"indexOf", "lastIndexOf"} {
			emit(m, nil, nil, false)
			for _, s := range searches {
				for _, p := range positions {
					if p.K == "omitted" {
						emit(m, []V{s}, nil, false)
					} else {
						emit(m, []V{s, p}, nil, false)
					}
				}
			}
		}
	})
}

// scripts enumerates callback answer sequences of length n: every true/false
// sequence, and "k answers true, then throw" for every k < n.
func scripts(n int) [][]V {
	t, f := V{K: "bool", B: true}, V{K: "bool", B: false}
	var out [][]V
	for mask := 0; mask < 1<<n; mask++ {
		s := make([]V, n)
		for i := range s {
			if mask&(1<<i) != 0 {
				s[i] = f
			} else {
				s[i] = t
			}
		}
		out = append(out, s)
	}
	for k := 0; k < n; k++ {
		s := make([]V, k+1)
		for i := 0; i < k; i++ {
			s[i] = t
		}
		s[k] = V{K: "throw"}
		out = append(out, s)
	}
	return out
}

func scriptLen(rc recv) int {
	n := len(rc.elems)
	if rc.plain {
		n = present(rc.elems)
	}
	if n > 4 {
		n = 4
	}
	return n
}

// ---- every, some, forEach, map, filter ----

func runIterate(r *engine.Run) {
	cb := V{K: "cb"}
	eachCase(r, allRecvs(r), func(rc recv, emit func(string, []V, []V, bool)) {
		if rc.bigLen {
			return
		}
		n := scriptLen(rc)
		for _, m := range []string{"every", "some", "forEach", "map", "filter"} {
			for _, s := range scripts(n) {
				emit(m, []V{cb}, s, false)
			}
			all := scripts(n)[0]
			emit(m, []V{cb, vT}, all, false)
			emit(m, []V{cb, vU}, all, false)
			if len(rc.elems) <= 2 || !rc.plain {
				emit(m, nil, nil, true)
				emit(m, []V{num(1)}, nil, true)
				emit(m, []V{{K: "obj"}, vT}, nil, true)
			}
		}
	})
}

// ---- reduce, reduceRight ----

func runReduce(r *engine.Run) {
	cb4 := V{K: "cb4"}
	eachCase(r, allRecvs(r), func(rc recv, emit func(string, []V, []V, bool)) {
		if rc.bigLen {
			return
		}
		n := scriptLen(rc)
		for _, m := range []string{"reduce", "reduceRight"} {
			// answers r0, r1, ... ; and throw after k answers
			var vals []V
			for i := 0; i < n; i++ {
				vals = append(vals, str(fmt.Sprintf("r%d", i)))
			}
			for _, init := range [][]V{{}, {str("I")}, {vU}} {
				emit(m, append([]V{cb4}, init...), vals, false)
				for k := 0; k < n; k++ {
					s := append(append([]V(nil), vals[:k]...), V{K: "throw"})
					emit(m, append([]V{cb4}, init...), s, false)
				}
			}
			if len(rc.elems) <= 2 || !rc.plain {
				emit(m, nil, nil, true)
				emit(m, []V{num(1), str("I")}, nil, true)
			}
		}
	})
}
