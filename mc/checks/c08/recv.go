package c08

import (
	"fmt"
	"math"

	om "verif/mc/ref/objmodel"
)

// recv is a receiver specification: how to build it in JS (as global o) and in the model.
type recv struct {
	id      string
	js      string // statements; must leave the receiver in global o
	post    string // cleanup statements run after the observation
	model   func(w *cw) om.Value
	fresh   bool // the model needs its own intrinsics (Array.prototype is modified)
	isArray bool // a genuine array: methods are invoked as o.m(...), otherwise Array.prototype.m.call(o, ...)
	elems   []V  // logical elements (for sizing callback scripts)
	plain   bool // enumerated plain array (no attribute variants)
	bigLen  bool // ToUint32(length) is huge: only O(1) methods are applicable
}

func plainArray(elems []V) recv {
	e := append([]V(nil), elems...)
	return recv{id: arr(e...).ID(), js: "o = " + arrayLiteral(e) + ";", isArray: true, elems: e, plain: true,
		model: func(w *cw) om.Value { return arr(e...).Model(w) }}
}

// enumArrays lists all arrays of length <= maxLen over the element alphabet.
func enumArrays(maxLen int) []recv {
	var out []recv
	var rec func(prefix []V, n int)
	rec = func(prefix []V, n int) {
		if len(prefix) == n {
			out = append(out, plainArray(prefix))
			return
		}
		for _, e := range elements {
			rec(append(append([]V(nil), prefix...), e), n)
		}
	}
	for n := 0; n <= maxLen; n++ {
		rec(nil, n)
	}
	return out
}

func present(elems []V) int {
	n := 0
	for _, e := range elems {
		if e.K != "hole" {
			n++
		}
	}
	return n
}

// variantRecvs: attribute variants of a few base arrays, array-likes, a string, arguments.
func variantRecvs() []recv {
	var out []recv
	bases := [][]V{{num(1), num(2), num(3)}, {num(1), vHole, num(3)}, {vHole, num(2), vHole}, {str("a"), vU}}
	for _, b := range bases {
		b := b
		lit := arrayLiteral(b)
		id := arr(b...).ID()
		mk := func(w *cw) *om.Obj { return arr(b...).Model(w).O }
		add := func(suffix, js string, f func(w *cw, a *om.Obj)) {
			out = append(out, recv{id: id + suffix, js: "o = " + lit + "; " + js, isArray: true, elems: b,
				model: func(w *cw) om.Value {
					a := mk(w)
					f(w, a)
					return om.ObjV(a)
				}})
		}
		def := func(w *cw, a *om.Obj, p string, d om.Desc) { w.r.DefineOwnProperty(a, p, d, false) }
		add("+nwlen", `Object.defineProperty(o,"length",{writable:false});`, func(w *cw, a *om.Obj) {
			def(w, a, "length", om.Desc{Writable: false, HasWritable: true})
		})
		for _, i := range []int{0, len(b) - 1} {
			if b[i].K == "hole" {
				continue
			}
			p := fmt.Sprint(i)
			add("+nw"+p, fmt.Sprintf(`Object.defineProperty(o,"%s",{writable:false});`, p), func(w *cw, a *om.Obj) {
				def(w, a, p, om.Desc{Writable: false, HasWritable: true})
			})
			// fully specified descriptor: a generic {configurable:false} would trip C07's finding F-C07-001 in the setup
			add("+nc"+p, fmt.Sprintf(`Object.defineProperty(o,"%s",{value:o[%s],writable:true,enumerable:true,configurable:false});`, p, p), func(w *cw, a *om.Obj) {
				def(w, a, p, om.Desc{Configurable: false, HasConfigurable: true})
			})
			add("+acc"+p, fmt.Sprintf(`Object.defineProperty(o,"%s",{get:ga,set:sa,enumerable:true,configurable:true});`, p), func(w *cw, a *om.Obj) {
				def(w, a, p, om.Desc{Get: om.ObjV(w.ga), HasGet: true, Set: om.ObjV(w.sa), HasSet: true, Enumerable: true, HasEnumerable: true, Configurable: true, HasConfigurable: true})
			})
		}
		add("+sealed", `Object.seal(o);`, func(w *cw, a *om.Obj) { w.r.ObjectSeal(om.ObjV(a)) })
		add("+frozen", `Object.freeze(o);`, func(w *cw, a *om.Obj) { w.r.ObjectFreeze(om.ObjV(a)) })
		add("+nonext", `Object.preventExtensions(o);`, func(w *cw, a *om.Obj) { w.r.ObjectPreventExtensions(om.ObjV(a)) })
		// index 1 inherited from Array.prototype (cleaned up after the observation)
		out = append(out, recv{id: id + "+proto1", js: `Array.prototype[1] = "P"; o = ` + lit + ";", post: `delete Array.prototype[1];`,
			isArray: true, elems: b, fresh: true,
			model: func(w *cw) om.Value {
				w.r.Put(w.r.ArrayPrototype, "1", om.Str("P"), false)
				return om.ObjV(mk(w))
			}})
	}
	// array-likes {length: n, 0:1, 1:2, 2:3}
	type ln struct {
		id, js string
		v      om.Value
	}
	lens := []ln{{"0", "0", om.Num(0)}, {"2", "2", om.Num(2)}, {"'2'", `"2"`, om.Str("2")}, {"3", "3", om.Num(3)}, {"2.7", "2.7", om.Num(2.7)},
		{"NaN", "NaN", om.NaNV}, {"2^32+1", "4294967297", om.Num(4294967297)}, {"-1", "-1", om.Num(-1)}, {"absent", "", om.Undef}}
	for _, l := range lens {
		l := l
		js := `o = {0:1,1:2,2:3};`
		if l.js != "" {
			js = `o = {length:` + l.js + `,0:1,1:2,2:3};`
		}
		out = append(out, recv{id: "like(length=" + l.id + ")", js: js, elems: []V{num(1), num(2), num(3)}, bigLen: l.id == "-1",
			model: func(w *cw) om.Value {
				o := w.r.NewObject()
				if l.js != "" {
					o.Set("length", om.DataDesc(l.v, true, true, true))
				}
				for i := 0; i < 3; i++ {
					o.Set(fmt.Sprint(i), om.DataDesc(om.Num(float64(i+1)), true, true, true))
				}
				return om.ObjV(o)
			}})
	}
	// sparse array-like with holes
	out = append(out, recv{id: "like(length=3,holes)", js: `o = {length:3,1:"b"};`, elems: []V{vHole, str("b"), vHole},
		model: func(w *cw) om.Value {
			o := w.r.NewObject()
			o.Set("length", om.DataDesc(om.Num(3), true, true, true))
			o.Set("1", om.DataDesc(om.Str("b"), true, true, true))
			return om.ObjV(o)
		}})
	// a primitive string (ToObject gives a String object with read-only index properties)
	out = append(out, recv{id: "string'ab'", js: `o = "ab";`, elems: []V{str("a"), str("b")},
		model: func(w *cw) om.Value { return om.Str("ab") }})
	// an arguments object
	out = append(out, recv{id: "arguments(1,2)", js: `o = __af(1, 2);`, elems: []V{num(1), num(2)},
		model: func(w *cw) om.Value {
			callee := w.r.NewFunction("callee", nil)
			return om.ObjV(w.r.NewArguments([]om.Value{om.Num(1), om.Num(2)}, nil, callee))
		}})
	return out
}

var _ = math.Inf
