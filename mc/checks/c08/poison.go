package c08

import (
	"fmt"
	"strings"

	"verif/mc/checks/c07/objdrv"
	"verif/mc/engine"
	om "verif/mc/ref/objmodel"
)

// poison: every operation that CREATES an array must give it OWN data elements
// {writable, enumerable, configurable: true} through [[DefineOwnProperty]]
// (15.4.4.4 5.b.iii.3.b, 15.4.4.10 10.c.ii, 15.4.4.12 9.c.ii, 15.4.4.19 8.c.iii,
// 15.4.4.20 9.c.iii.1, 15.4.2.1, 11.1.4, 15.2.3.4/14, 15.5.4.10/14), never through
// [[Put]], which would consult Array.prototype. The family varies the ENVIRONMENT:
// Array.prototype carries an accessor (logging getter/setter), a getter-only
// accessor or a read-only data property at index 0, 1 or 2 while the array is
// created. The harness itself uses arrays, so nothing is rendered while the
// prototype is poisoned: the case stores its result, the prototype is restored,
// and only then the result is dumped with all attributes; the poison's
// getter/setter and the callback log into a string. Fresh runtime per case.

const preludePoison = `
var __plog = "", __res, __pscript = [], __psi = 0;
var pg = __label(function () { __plog += "pg;"; return "P"; }, "pg");
var ps = __label(function (v) { __plog += "ps(" + (typeof v) + ":" + v + ");"; }, "ps");
var pcb = __label(function (v, i) { __plog += "cb(" + (typeof v) + ":" + v + "," + (typeof i) + ":" + i + ");"; return __pscript[__psi++]; }, "pcb");
`

func runPoison(r *engine.Run) {
	im := objdrv.New(prelude8 + preludePoison)
	typed := func(r *om.Realm, v om.Value) string {
		t := map[om.Kind]string{om.Undefined: "undefined", om.Null: "object", om.Bool: "boolean", om.Number: "number", om.String: "string", om.Object: "object"}[v.K]
		return t + ":" + r.ToString(v)
	}
	type world struct {
		w      *cw
		pg, ps *om.Obj
		pcb    *om.Obj
		script []om.Value
		si     int
	}
	newWorld := func() *world {
		x := &world{w: newCW(true)}
		x.pg = x.w.r.NewFunction("pg", func(r *om.Realm, _ om.Value, _ []om.Value) om.Value {
			r.Log = append(r.Log, "pg;")
			return om.Str("P")
		})
		x.ps = x.w.r.NewFunction("ps", func(r *om.Realm, _ om.Value, args []om.Value) om.Value {
			v := om.Undef
			if len(args) > 0 {
				v = args[0]
			}
			r.Log = append(r.Log, "ps("+typed(r, v)+");")
			return om.Undef
		})
		x.pcb = x.w.r.NewFunction("pcb", func(r *om.Realm, _ om.Value, args []om.Value) om.Value {
			r.Log = append(r.Log, "cb("+typed(r, args[0])+","+typed(r, args[1])+");")
			if x.si < len(x.script) {
				x.si++
				return x.script[x.si-1]
			}
			return om.Undef
		})
		return x
	}
	type poison struct {
		id, js string
		m      func(x *world, p string)
	}
	acc := func(set bool) func(x *world, p string) {
		return func(x *world, p string) {
			d := om.Desc{Get: om.ObjV(x.pg), HasGet: true, Enumerable: true, HasEnumerable: true, Configurable: true, HasConfigurable: true}
			if set {
				d.Set, d.HasSet = om.ObjV(x.ps), true
			}
			x.w.r.DefineOwnProperty(x.w.r.ArrayPrototype, p, d, false)
		}
	}
	kinds := []poison{
		{"accessor", `Object.defineProperty(Array.prototype,%q,{get:pg,set:ps,enumerable:true,configurable:true});`, acc(true)},
		{"getter-only", `Object.defineProperty(Array.prototype,%q,{get:pg,enumerable:true,configurable:true});`, acc(false)},
		{"read-only", `Object.defineProperty(Array.prototype,%q,{value:"RO",writable:false,enumerable:true,configurable:true});`, func(x *world, p string) {
			x.w.r.DefineOwnProperty(x.w.r.ArrayPrototype, p, om.DataDesc(om.Str("RO"), false, true, true), false)
		}},
	}
	strs := func(x *world, ss ...string) om.Value {
		out := make([]om.Value, len(ss))
		for i, s := range ss {
			out[i] = om.Str(s)
		}
		return om.ObjV(x.w.r.NewArrayFrom(out))
	}
	nums := func(ns ...float64) []om.Value {
		out := make([]om.Value, len(ns))
		for i, n := range ns {
			out[i] = om.Num(n)
		}
		return out
	}
	recvOf := func(x *world, holes bool) om.Value {
		if holes {
			return arr(num(1), vHole, num(3), num(4)).Model(x.w)
		}
		return arr(num(1), num(2), num(3), num(4)).Model(x.w)
	}
	method := func(name string, holes bool, script []om.Value, args func(x *world) []om.Value) func(x *world) om.Value {
		return func(x *world) om.Value {
			x.script = script
			var a []om.Value
			if args != nil {
				a = args(x)
			}
			return methodFn[name](x.w.r, recvOf(x, holes), a)
		}
	}
	cbArg := func(x *world) []om.Value { return []om.Value{om.ObjV(x.pcb)} }
	type mk struct {
		id, setup, expr string
		m               func(x *world) om.Value
	}
	makers := []mk{
		{"literal", "", "[1,2,3,4]", func(x *world) om.Value { return arr(num(1), num(2), num(3), num(4)).Model(x.w) }},
		{"literal-holes", "", "[1,,3,]", func(x *world) om.Value { return arr(num(1), vHole, num(3)).Model(x.w) }},
		{"Array(1,2,3)", "", "Array(1,2,3)", func(x *world) om.Value { return x.w.r.ArrayConstruct(nums(1, 2, 3)) }},
		{"new Array(1,2,3)", "", "new Array(1,2,3)", func(x *world) om.Value { return x.w.r.ArrayConstruct(nums(1, 2, 3)) }},
		{"new Array('x')", "", `new Array("x")`, func(x *world) om.Value { return x.w.r.ArrayConstruct([]om.Value{om.Str("x")}) }},
		{"Object.keys", "", "Object.keys({a:1,b:2,c:3})", func(x *world) om.Value { return strs(x, "a", "b", "c") }},
		{"Object.getOwnPropertyNames", "", "Object.getOwnPropertyNames({a:1,b:2,c:3})", func(x *world) om.Value { return strs(x, "a", "b", "c") }},
		{"split", "", `"a,b,c".split(",")`, func(x *world) om.Value { return strs(x, "a", "b", "c") }},
		{"split-empty-separator", "", `"abc".split("")`, func(x *world) om.Value { return strs(x, "a", "b", "c") }},
		{"match-global", "", `"abc".match(/[a-c]/g)`, func(x *world) om.Value { return strs(x, "a", "b", "c") }},
		{"arguments-slice", "", `(function(){ return Array.prototype.slice.call(arguments); })("a","b","c")`, func(x *world) om.Value { return strs(x, "a", "b", "c") }},
		{"apply-array-like", "", `Array.apply(null, {length:3,0:"a",1:"b",2:"c"})`, func(x *world) om.Value { return strs(x, "a", "b", "c") }},
	}
	for _, holes := range []bool{false, true} {
		lit := "[1,2,3,4]"
		tag := "[1 2 3 4]"
		if holes {
			lit, tag = "[1,,3,4]", "[1 _ 3 4]"
		}
		add := func(id, setup, expr string, m func(x *world) om.Value) {
			makers = append(makers, mk{tag + "." + id, setup, expr, m})
		}
		add("map", "__pscript = [10,20,30,40];", lit+".map(pcb)", method("map", holes, nums(10, 20, 30, 40), cbArg))
		add("filter-all", "__pscript = [true,true,true,true];", lit+".filter(pcb)", method("filter", holes, []om.Value{om.TrueV, om.TrueV, om.TrueV, om.TrueV}, cbArg))
		add("filter-tail", "__pscript = [false,true,true,true];", lit+".filter(pcb)", method("filter", holes, []om.Value{om.FalseV, om.TrueV, om.TrueV, om.TrueV}, cbArg))
		add("slice()", "", lit+".slice()", method("slice", holes, nil, nil))
		add("slice(1)", "", lit+".slice(1)", method("slice", holes, nil, func(*world) []om.Value { return nums(1) }))
		add("splice(0,3)", "", lit+".splice(0,3)", method("splice", holes, nil, func(*world) []om.Value { return nums(0, 3) }))
		add("splice(1,2,9)", "", lit+".splice(1,2,9)", method("splice", holes, nil, func(*world) []om.Value { return nums(1, 2, 9) }))
		add("concat()", "", lit+".concat()", method("concat", holes, nil, nil))
		add("concat(9,[8,7])", "", lit+".concat(9,[8,7])", method("concat", holes, nil, func(x *world) []om.Value {
			return []om.Value{om.Num(9), arr(num(8), num(7)).Model(x.w)}
		}))
	}
	for _, k := range kinds {
		for idx := 0; idx < 3; idx++ {
			p := fmt.Sprint(idx)
			for _, m := range makers {
				key := fmt.Sprintf("poison(%s@%s)/%s", k.id, p, m.id)
				if !r.MineKey(key) {
					continue
				}
				// model
				x := newWorld()
				k.m(x, p)
				x.w.r.Log = nil
				var ret om.Value
				expOutcome := "ok"
				if t := om.Try(func() { ret = m.m(x) }); t != nil {
					expOutcome = t.Class
				}
				expLog := strings.Join(x.w.r.Log, "")
				x.w.r.Delete(x.w.r.ArrayPrototype, p, false)
				exp := expOutcome + sep + "-" + sep + expLog
				if expOutcome == "ok" {
					exp = expOutcome + sep + x.w.r.Render(ret) + sep + expLog
				}
				// implementation: fresh runtime; create under poison, restore, then render
				objdrv.Begin(r, key)
				im.Fresh()
				src := fmt.Sprintf(`__plog = ""; __psi = 0; __res = undefined; %s %s __res = (%s); 0`, m.setup, fmt.Sprintf(k.js, p), m.expr)
				_, oc := im.Run(src)
				obs := oc
				if !strings.HasPrefix(oc, "GO-PANIC") {
					_, oc2 := im.Run(fmt.Sprintf("delete Array.prototype[%q]", p))
					val, oc3 := im.Run(`(` + fmt.Sprintf("%q", "") + ` + __c(__res)) + "` + sep + `" + __plog`)
					switch {
					case oc2 != "ok" && oc2 != "":
						obs = oc + sep + "CLEANUP:" + oc2
					case oc3 != "ok":
						obs = oc + sep + "RENDER:" + oc3
					case oc == "ok":
						obs = oc + sep + val
					default:
						f := strings.SplitN(val, sep, 2)
						obs = oc + sep + "-" + sep + f[len(f)-1]
					}
				}
				objdrv.End()
				r.Eval(true)
				r.Tree(1, 1)
				r.Outcome(obs)
				if r.WantSample() {
					r.Sample(src + "  =>  " + obs)
				}
				if exp != obs {
					debugDump(key, "poison", exp, obs)
					r.Mismatch(engine.Mismatch{Key: key, Input: src, Expected: exp, Observed: obs,
						Aux: map[string]string{"method": "create:" + m.id, "poison": k.id, "index": p}})
				}
			}
		}
	}
	r.Bound("poisons", "Array.prototype[i], i in 0..2: accessor with setter, getter only, read-only data property")
	r.Bound("creators", fmt.Sprintf("%d: literals, Array/new Array, Object.keys/getOwnPropertyNames, split, match, arguments->slice, Array.apply, and map/filter/slice/splice/concat on [1,2,3,4] and [1,,3,4]", len(makers)))
}
