package c08

import (
	"fmt"
	"os"
	"strings"

	"verif/mc/checks/c07/objdrv"
	"verif/mc/engine"
	om "verif/mc/ref/objmodel"
)

// callCase is one method call on one receiver.
type callCase struct {
	rc      recv
	method  string
	args    []V
	script  []V  // callback answers
	trivial bool // by construction "TypeError before anything is touched"
}

func scriptID(s []V) string {
	if len(s) == 0 {
		return ""
	}
	var sb strings.Builder
	sb.WriteByte('~')
	for _, a := range s {
		switch {
		case a.K == "throw":
			sb.WriteByte('X')
		case a.K == "bool" && a.B:
			sb.WriteByte('t')
		case a.K == "bool":
			sb.WriteByte('f')
		default:
			sb.WriteString(a.ID())
		}
	}
	return sb.String()
}

func (c callCase) key() string { return c.rc.id + "/" + c.method + argsID(c.args) + scriptID(c.script) }

func (c callCase) callJS() string {
	if c.rc.isArray {
		return fmt.Sprintf("o.%s(%s)", c.method, argsJS(c.args))
	}
	if len(c.args) == 0 {
		return fmt.Sprintf("Array.prototype.%s.call(o)", c.method)
	}
	return fmt.Sprintf("Array.prototype.%s.call(o,%s)", c.method, argsJS(c.args))
}

func (c callCase) source() string {
	return fmt.Sprintf("%s __log = []; __script = [%s]; __si = 0; __done = false; __ret = undefined; __ret = __c(%s); __done = true; 0",
		c.rc.js, argsJS(c.script), c.callJS())
}

var methodFn = map[string]func(r *om.Realm, this om.Value, args []om.Value) om.Value{}

func init() {
	for _, m := range om.ArrayMethods {
		methodFn[m.Name] = m.Fn
	}
}

// parts of an observation
var partNames = []string{"outcome", "ret", "recv", "log", "inv"}

// expect runs the case on the reference model (with optional defect-injection quirks).
func (c callCase) expect(q om.Quirks) []string {
	w := newCW(c.rc.fresh)
	w.r.Quirk = q
	this := c.rc.model(w)
	if this.K == om.Object {
		this.O.Label = "o"
	}
	w.script = c.script
	args := argsModel(w, c.args)
	w.r.Log = nil
	return finish(w, this, func() om.Value { return methodFn[c.method](w.r, this, args) })
}

func finish(w *cw, this om.Value, call func() om.Value) []string {
	var ret om.Value
	outcome, retS := "ok", "-"
	if t := om.Try(func() { ret = call() }); t != nil {
		outcome = t.Class
		if outcome == "Thrown" {
			outcome = "Thrown(" + w.r.ToString(t.Val) + ")"
		}
	} else {
		retS = w.r.Render(ret)
	}
	recvS, inv := "", "n/a"
	if this.K == om.Object {
		recvS = w.r.Dump(this.O)
		if this.O.Class == "Array" {
			inv = modelInv(w, this.O)
		}
	} else {
		recvS = w.r.Render(this)
	}
	return []string{outcome, retS, recvS, strings.Join(w.r.Log, ","), inv}
}

// modelInv is the length invariant evaluated on the model object (always "ok"
// unless the model itself is broken, which is then a harness error).
func modelInv(w *cw, a *om.Obj) string {
	l := w.r.Get(a, "length").N
	for _, n := range a.OwnNames() {
		if i, ok := om.IsArrayIndex(n); ok && !(float64(i) < l) {
			return fmt.Sprintf("length %v <= own index %s", l, n)
		}
	}
	return "ok"
}

// observe runs the case on the implementation.
func observe(im *objdrv.Impl, src, post string) []string {
	im.Ensure()
	_, oc := im.Run(src)
	if strings.HasPrefix(oc, "GO-PANIC") {
		return []string{oc, "n/a", "n/a", "n/a", "n/a"}
	}
	if strings.HasPrefix(oc, "COMPILE") {
		return []string{oc, "n/a", "n/a", "n/a", "n/a"}
	}
	obsSrc := "__obs8()"
	if post != "" {
		obsSrc = "var __r = __obs8(); " + post + " __r"
	}
	val, oc2 := im.Run(obsSrc)
	if oc2 != "ok" {
		if post != "" {
			im.Dirty = true // cleanup may not have run
		}
		return []string{oc, "OBSERVE:" + oc2, "n/a", "n/a", "n/a"}
	}
	f := strings.Split(val, sep)
	if len(f) != 4 {
		return []string{oc, "MALFORMED:" + val, "n/a", "n/a", "n/a"}
	}
	return []string{oc, f[0], f[1], f[2], f[3]}
}

func join(parts []string) string { return strings.Join(parts, sep) }

// runCase executes and compares one case.
func runCase(r *engine.Run, im *objdrv.Impl, c callCase) {
	key := c.key()
	if !r.MineKey(key) {
		return
	}
	src := c.source()
	objdrv.Begin(r, key)
	obs := observe(im, src, c.rc.post)
	objdrv.End()
	exp := c.expect(om.Quirks{})
	compare(r, key, src, exp, obs, c.trivial, func(aux map[string]string) {
		aux["method"] = c.method
		aux["recv"] = c.rc.id
		aux["args"] = argsID(c.args)
		aux["nargs"] = fmt.Sprint(len(c.args))
		buildQuirkList()
		for name, q := range quirkList {
			aux["alt:"+name] = join(c.expect(q))
		}
	})
}

// compare files the mismatch (one per case, all parts) and does the accounting.
func compare(r *engine.Run, key, src string, exp, obs []string, trivial bool, fill func(aux map[string]string)) {
	r.Eval(!trivial)
	r.Tree(1, 1)
	r.Outcome(join(obs))
	if r.WantSample() && !trivial {
		r.Sample(src + "  =>  " + join(obs))
	}
	if exp[4] != "ok" && exp[4] != "n/a" {
		r.HarnessError("model violates the length invariant: " + key + ": " + exp[4])
	}
	same := true
	for i := range exp {
		if obs[i] == "n/a" && i > 0 {
			continue
		}
		if exp[i] != obs[i] {
			same = false
		}
	}
	if same {
		return
	}
	aux := map[string]string{}
	var diff []string
	for i, n := range partNames {
		aux["exp."+n], aux["obs."+n] = exp[i], obs[i]
		if exp[i] != obs[i] && !(obs[i] == "n/a" && i > 0) {
			diff = append(diff, n)
		}
	}
	aux["diff"] = strings.Join(diff, ",")
	if fill != nil {
		fill(aux)
	}
	debugDump(key, aux["diff"], join(exp), join(obs))
	r.Mismatch(engine.Mismatch{Key: key, Input: src, Expected: join(exp), Observed: join(obs), Aux: aux})
}

var dumpFile *os.File

// debugDump appends every mismatch to the file named by MC_C08_DUMP (development aid).
func debugDump(key, part, exp, obs string) {
	if dumpFile == nil {
		p := os.Getenv("MC_C08_DUMP")
		if p == "" {
			return
		}
		f, err := os.OpenFile(p, os.O_APPEND|os.O_CREATE|os.O_WRONLY, 0o644)
		if err != nil {
			return
		}
		dumpFile = f
	}
	fmt.Fprintf(dumpFile, "%s\t%s\t%s\t%s\n", part, exp, obs, key)
}

// quirkList: the alternative models of the known findings (see known.go).
var quirkList = map[string]om.Quirks{}
