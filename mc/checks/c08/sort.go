package c08

import (
	"fmt"
	"slices"
	"sort"
	"strconv"
	"strings"
	"unicode/utf16"

	"verif/mc/checks/c07/objdrv"
	"verif/mc/engine"
	om "verif/mc/ref/objmodel"
)

// Sort is specified by a postcondition (15.4.4.11), not an algorithm: the
// result is a permutation of the elements; defined values come first in an
// order consistent with comparefn (or with the string order when comparefn is
// undefined), then the undefined values, then the holes. The sequence of
// [[Get]]/[[Put]]/[[Delete]]/comparefn calls is implementation-defined.

const preludeSort = `
var __rank = [], __mode = "rank", __calls = 0, __mag = 1, __zero = 0;
var cmp = __label(function (a, b) {
  __log[__log.length] = "cmp(" + __c(a) + "," + __c(b) + ")";
  __calls++;
  switch (__mode) {
  case "rank": return __rank[a] - __rank[b];
  case "sign": var d = __rank[a] - __rank[b]; return d > 0 ? __mag : d < 0 ? -__mag : __zero;
  case "pos": return 1;
  case "neg": return -1;
  case "alt": return (__calls % 2) ? 1 : -1;
  case "nan": return NaN;
  case "undef": return undefined;
  }
}, "cmp");
`

// weakOrders lists every total preorder on k labelled elements as a rank vector
// (ranks 0..m-1, every rank used): 1, 1, 3, 13, 75 for k = 0..4.
func weakOrders(k int) [][]int {
	var out [][]int
	var rec func(cur []int, used int)
	rec = func(cur []int, used int) {
		if len(cur) == k {
			// every rank below max must be used
			seen := map[int]bool{}
			max := -1
			for _, r := range cur {
				seen[r] = true
				if r > max {
					max = r
				}
			}
			if len(seen) == max+1 {
				out = append(out, append([]int(nil), cur...))
			}
			return
		}
		for r := 0; r < k; r++ {
			rec(append(cur, r), used)
		}
	}
	rec(nil, 0)
	return out
}

type sortElem struct {
	kind string // hole u v
	v    string // canonical value
}

// parseArrayDump extracts (index -> value) and length from the dump of a plain array or array-like.
func parseArrayDump(d string) (elems map[int]string, length int, plain bool) {
	elems = map[int]string{}
	plain = true
	i := strings.LastIndex(d, "|")
	if i < 0 {
		return nil, 0, false
	}
	for _, p := range strings.Split(d[i+1:], ",") {
		eq := strings.IndexByte(p, '=')
		if eq < 0 {
			return nil, 0, false
		}
		name, rest := p[:eq], p[eq+1:]
		c := strings.LastIndexByte(rest, ':')
		if c < 0 {
			return nil, 0, false
		}
		val, attrs := rest[:c], rest[c+1:]
		if name == "length" {
			n, err := strconv.Atoi(strings.TrimPrefix(val, "d:"))
			if err != nil {
				return nil, 0, false
			}
			length = n
			continue
		}
		idx, err := strconv.Atoi(name)
		if err != nil {
			plain = false
			continue
		}
		if attrs != "111" {
			plain = false
		}
		elems[idx] = val
	}
	return elems, length, plain
}

// judgeSort checks the postcondition. less(a, b) < 0 / 0 / > 0 on canonical defined values; nil = no order requirement.
func judgeSort(before []V, dump string, cmp func(a, b string) int, placement bool) string {
	elems, length, plain := parseArrayDump(dump)
	if elems == nil {
		return "unparsable receiver " + dump
	}
	if !plain {
		return "own properties changed attributes or names: " + dump
	}
	if length != len(before) {
		return fmt.Sprintf("length changed %d -> %d", len(before), length)
	}
	var want, got []string
	holes, undefs := 0, 0
	for _, e := range before {
		switch e.K {
		case "hole":
			holes++
		case "u":
			undefs++
			want = append(want, "u")
		default:
			want = append(want, renderV(e))
		}
	}
	for i := 0; i < length; i++ {
		if v, ok := elems[i]; ok {
			got = append(got, v)
		}
	}
	for i := range elems {
		if i >= length {
			return fmt.Sprintf("own index %d beyond length %d", i, length)
		}
	}
	a, b := append([]string(nil), want...), append([]string(nil), got...)
	sort.Strings(a)
	sort.Strings(b)
	if strings.Join(a, ",") != strings.Join(b, ",") {
		return fmt.Sprintf("not a permutation: had [%s], has [%s]", strings.Join(want, " "), strings.Join(got, " "))
	}
	if !placement {
		return "ok"
	}
	ndef := len(want) - undefs
	for i := 0; i < length; i++ {
		v, ok := elems[i]
		switch {
		case i < ndef:
			if !ok || v == "u" {
				return fmt.Sprintf("index %d should hold a defined value (defined values first, then undefined, then holes): %s", i, dump)
			}
		case i < ndef+undefs:
			if !ok || v != "u" {
				return fmt.Sprintf("index %d should hold undefined: %s", i, dump)
			}
		default:
			if ok {
				return fmt.Sprintf("index %d should be a hole: %s", i, dump)
			}
		}
	}
	if cmp != nil {
		for i := 0; i+1 < ndef; i++ {
			if cmp(elems[i], elems[i+1]) > 0 {
				return fmt.Sprintf("elements %d and %d out of order (%s before %s): %s", i, i+1, elems[i], elems[i+1], dump)
			}
		}
	}
	return "ok"
}

func renderV(v V) string {
	w := newCW(false)
	return w.r.Render(v.Model(w))
}

func runSort(r *engine.Run) {
	im := objdrv.New(prelude8 + preludeSort)
	n := maxLen(r)

	sortCase := func(key, setup string, before []V, call string, judge func(outcome, ret, recv, log string) string, aux map[string]string, alts ...func(recv string) (string, string)) {
		if !r.MineKey(key) {
			return
		}
		src := fmt.Sprintf("o = %s; %s __log = []; __calls = 0; __done = false; __ret = undefined; __ret = __c(%s); __done = true; 0", arrayLiteral(before), setup, call)
		objdrv.Begin(r, key)
		obs := observe(im, src, "")
		objdrv.End()
		verdict := judge(obs[0], obs[1], obs[2], obs[3])
		if obs[4] != "ok" && obs[4] != "n/a" {
			verdict = "length invariant: " + obs[4]
		}
		r.Eval(true)
		r.Tree(1, 1)
		r.Outcome(join(obs))
		if r.WantSample() {
			r.Sample(src + "  =>  " + join(obs))
		}
		if verdict != "ok" {
			a := map[string]string{"method": "sort", "verdict": verdict, "obs.outcome": obs[0], "obs.recv": obs[2]}
			for k, v := range aux {
				a[k] = v
			}
			for _, alt := range alts {
				name, v := alt(obs[2])
				a["alt:"+name] = v
			}
			debugDump(key, "sort", "15.4.4.11 postcondition", verdict+" | "+join(obs))
			r.Mismatch(engine.Mismatch{Key: key, Input: src, Expected: "ok (15.4.4.11 postcondition)", Observed: verdict + " | " + join(obs), Aux: a})
		}
	}

	// (a) default comparator over {hole, undefined, 1, 2, 10, "a"}: string order 1 < 10 < 2 < a
	alpha := []V{vHole, vU, num(1), num(2), num(10), str("a")}
	var rec func(prefix []V, size int, f func([]V))
	rec = func(prefix []V, size int, f func([]V)) {
		if len(prefix) == size {
			f(prefix)
			return
		}
		for _, e := range alpha {
			rec(append(append([]V(nil), prefix...), e), size, f)
		}
	}
	strOrder := func(a, b string) int {
		// canonical values d:1 d:2 d:10 s:a compare by ToString
		return strings.Compare(a[2:], b[2:])
	}
	for size := 0; size <= n; size++ {
		rec(nil, size, func(el []V) {
			el = append([]V(nil), el...)
			for _, arg := range []string{"", "undefined"} {
				key := "default/" + arr(el...).ID() + "/sort(" + arg + ")"
				sortCase(key, "", el, "o.sort("+arg+")", func(outcome, ret, recv, log string) string {
					if outcome != "ok" {
						return "threw " + outcome
					}
					if ret != "o:o" {
						return "returned " + ret + " instead of the receiver"
					}
					if log != "" {
						return "unexpected log " + log
					}
					return judgeSort(el, recv, strOrder, true)
				}, nil)
			}
		})
	}
	r.Bound("default_comparator_arrays", fmt.Sprintf("all arrays of length <= %d over {hole, undefined, 1, 2, 10, \"a\"}", n))

	// (a') default comparator on strings outside ASCII: SortCompare uses the < of 11.8.5, i.e. UTF-16
	// code units (U+FF5E > U+D83D U+DE00 although the code point U+1F600 is larger)
	raw := func(s string) V { return V{K: "rawstr", S: s} }
	alpha = []V{vU, str("a"), raw("\u00e9"), raw("\uff5e"), raw("\U0001F600"), raw("\U00010000")}
	byteOrder := func(a, b string) int { return strings.Compare(a[2:], b[2:]) }
	unitOrder := func(a, b string) int { return slices.Compare(utf16.Encode([]rune(a[2:])), utf16.Encode([]rune(b[2:]))) }
	for size := 2; size <= n; size++ {
		rec(nil, size, func(el []V) {
			el = append([]V(nil), el...)
			key := "default-utf16/" + arr(el...).ID() + "/sort()"
			sortCase(key, "", el, "o.sort()", func(outcome, ret, recv, log string) string {
				if outcome != "ok" {
					return "threw " + outcome
				}
				if ret != "o:o" {
					return "returned " + ret + " instead of the receiver"
				}
				return judgeSort(el, recv, unitOrder, true)
			}, nil, func(recv string) (string, string) { return "utf8-order", judgeSort(el, recv, byteOrder, true) })
		})
	}
	r.Bound("default_comparator_non_ascii", "arrays over {undefined, a, U+00E9, U+FF5E, U+1F600, U+10000}")

	// (b) every total preorder as comparator; (c) inconsistent comparators; (d) non-callable comparefn
	patterns := func(size int, f func(pat []string)) {
		var rec func(cur []string)
		rec = func(cur []string) {
			if len(cur) == size {
				f(cur)
				return
			}
			for _, k := range []string{"H", "U", "V"} {
				rec(append(append([]string(nil), cur...), k))
			}
		}
		rec(nil)
	}
	for size := 0; size <= n; size++ {
		patterns(size, func(pat []string) {
			var el []V
			k := 0
			for _, p := range pat {
				switch p {
				case "H":
					el = append(el, vHole)
				case "U":
					el = append(el, vU)
				default:
					k++
					el = append(el, num(float64(k)))
				}
			}
			valid := map[string]bool{}
			for i := 1; i <= k; i++ {
				valid[fmt.Sprintf("d:%d", i)] = true
			}
			logOK := func(log string) string {
				if log == "" {
					return "ok"
				}
				for _, c := range strings.Split(log, "),") {
					c = strings.TrimSuffix(strings.TrimPrefix(c, "cmp("), ")")
					ab := strings.Split(c, ",")
					if len(ab) != 2 || !valid[ab[0]] || !valid[ab[1]] {
						return "comparefn called with (" + c + "): only defined elements of the array may be compared"
					}
				}
				return "ok"
			}
			for _, ranks := range weakOrders(k) {
				ranks := ranks
				rk := make([]string, k+1)
				rk[0] = "0"
				for i, x := range ranks {
					rk[i+1] = fmt.Sprint(x)
				}
				key := fmt.Sprintf("preorder/%s/ranks%v", arr(el...).ID(), ranks)
				setup := fmt.Sprintf(`__mode = "rank"; __rank = [%s];`, strings.Join(rk, ","))
				cmpf := func(a, b string) int {
					x, _ := strconv.Atoi(a[2:])
					y, _ := strconv.Atoi(b[2:])
					return ranks[x-1] - ranks[y-1]
				}
				sortCase(key, setup, el, "o.sort(cmp)", func(outcome, ret, recv, log string) string {
					if outcome != "ok" {
						return "threw " + outcome
					}
					if ret != "o:o" {
						return "returned " + ret + " instead of the receiver"
					}
					if v := logOK(log); v != "ok" {
						return v
					}
					return judgeSort(el, recv, cmpf, true)
				}, nil)
				// the same preorder with the comparator's results mapped onto the lattice of
				// negative / zero / positive numbers: only the sign may matter (15.4.4.11)
				if k >= 2 {
					for _, mag := range []string{"Infinity", "0.5", "5e-324", "1e300"} {
						for _, zero := range []string{"0", "-0"} {
							mag, zero := mag, zero
							key := fmt.Sprintf("preorder/%s/ranks%v/mag=%s,zero=%s", arr(el...).ID(), ranks, mag, zero)
							setup := fmt.Sprintf(`__mode = "sign"; __mag = %s; __zero = %s; __rank = [%s];`, mag, zero, strings.Join(rk, ","))
							sortCase(key, setup, el, "o.sort(cmp)", func(outcome, ret, recv, log string) string {
								if outcome != "ok" {
									return "threw " + outcome
								}
								if ret != "o:o" {
									return "returned " + ret + " instead of the receiver"
								}
								if v := logOK(log); v != "ok" {
									return v
								}
								return judgeSort(el, recv, cmpf, true)
							}, map[string]string{"mag": mag, "zero": zero},
								// alternative model of the known finding: an infinite result counts as "equal", so any order of the defined values passes
								func(recv string) (string, string) { return "infinite-is-zero", judgeSort(el, recv, nil, true) })
						}
					}
				}
			}
			for _, mode := range []string{"pos", "neg", "alt", "nan", "undef"} {
				key := fmt.Sprintf("inconsistent/%s/%s", arr(el...).ID(), mode)
				sortCase(key, fmt.Sprintf(`__mode = "%s";`, mode), el, "o.sort(cmp)", func(outcome, ret, recv, log string) string {
					// implementation-defined order: termination, permutation, undefined/hole placement
					if outcome != "ok" {
						return "threw " + outcome
					}
					if v := logOK(log); v != "ok" {
						return v
					}
					return judgeSort(el, recv, nil, true)
				}, map[string]string{"mode": mode})
			}
			if k >= 2 {
				for _, bad := range []string{"1", "{}", `"x"`, "null"} {
					key := fmt.Sprintf("noncallable/%s/%s", arr(el...).ID(), bad)
					sortCase(key, "", el, "o.sort("+bad+")", func(outcome, ret, recv, log string) string {
						if outcome != "TypeError" {
							return "expected TypeError (SortCompare step 13.a), got " + outcome
						}
						return "ok"
					}, nil)
				}
			}
		})
	}
	r.Bound("comparators", "every total preorder on the defined elements (1,1,3,13,75 for 0..4 elements) + 5 inconsistent comparators + 4 non-callable values")
	r.Bound("sort_array_length", fmt.Sprint(n))
	_ = om.Undef
}
