package c08

import (
	"fmt"
	"math"
	"strings"

	"verif/mc/checks/c07/objdrv"
	"verif/mc/engine"
	om "verif/mc/ref/objmodel"
)

// exprCase: a receiver, a JS expression over it and the same step on the model.
type exprCase struct {
	key   string
	setup string // JS statements leaving the receiver in o
	expr  string // JS expression (its value is rendered with __c)
	model func(w *cw) (this om.Value, call func() om.Value)
	fresh bool
	post  string // cleanup statements after the observation
}

func runExpr(r *engine.Run, im *objdrv.Impl, c exprCase, fill func(aux map[string]string)) {
	if !r.MineKey(c.key) {
		return
	}
	src := fmt.Sprintf("%s __log = []; __done = false; __ret = undefined; __ret = __c(%s); __done = true; 0", c.setup, c.expr)
	objdrv.Begin(r, c.key)
	obs := observe(im, src, c.post)
	objdrv.End()
	exp := exprExpect(c, om.Quirks{})
	compare(r, c.key, src, exp, obs, false, func(aux map[string]string) {
		if fill != nil {
			fill(aux)
		}
		buildQuirkList()
		for name, q := range quirkList {
			aux["alt:"+name] = join(exprExpect(c, q))
		}
	})
}

func exprExpect(c exprCase, q om.Quirks) []string {
	w := newCW(c.fresh)
	w.r.Quirk = q
	this, call := c.model(w)
	if this.K == om.Object {
		this.O.Label = "o"
	}
	w.r.Log = nil
	return finish(w, this, call)
}

// ---- Array constructor (15.4.1, 15.4.2) and Array.isArray (15.4.3.2) ----

func runCtor(r *engine.Run) {
	im := objdrv.New(prelude8)
	argLists := [][]V{{}, {num(3)}, {num(0)}, {num(-1)}, {num(1.5)}, {num(4294967295)}, {num(4294967296)}, {num(math.NaN())}, {num(math.Inf(1))},
		{num(math.Copysign(0, -1))}, {str("3")}, {vU}, {vNull}, {{K: "bool", B: true}}, {str("a")}, {num(1), num(2)}, {vU, vU}, {num(3), num(3)},
		{arr(num(1))}, {{K: "obj"}}, {num(1), vU, str("a"), vNull}}
	for _, form := range []string{"Array", "new Array"} {
		for _, args := range argLists {
			args := args
			c := exprCase{key: "ctor/" + form + argsID(args), setup: "o = 0;", expr: form + "(" + argsJS(args) + ")",
				model: func(w *cw) (om.Value, func() om.Value) {
					a := argsModel(w, args)
					return om.Num(0), func() om.Value { return w.r.ArrayConstruct(a) }
				}}
			runExpr(r, im, c, func(aux map[string]string) { aux["method"] = "Array" })
		}
	}
	type subj struct {
		id, js string
		m      func(w *cw) om.Value
	}
	subjects := []subj{
		{"[]", "[]", func(w *cw) om.Value { return arr().Model(w) }},
		{"new Array(2)", "new Array(2)", func(w *cw) om.Value { return w.r.ArrayConstruct([]om.Value{om.Num(2)}) }},
		{"Array.prototype", "Array.prototype", func(w *cw) om.Value { return om.ObjV(w.r.ArrayPrototype) }},
		{"{}", "({})", func(w *cw) om.Value { return om.ObjV(w.r.NewObject()) }},
		{"{length:0}", "({length:0})", func(w *cw) om.Value { return V{K: "alike"}.Model(w) }},
		{"'a'", `"a"`, func(w *cw) om.Value { return om.Str("a") }},
		{"new String", `new String("a")`, func(w *cw) om.Value { return om.ObjV(w.r.NewStringObject("a")) }},
		{"arguments", "__af(1)", func(w *cw) om.Value { return om.ObjV(w.r.NewArguments([]om.Value{om.Num(1)}, nil, w.cb)) }},
		{"null", "null", func(w *cw) om.Value { return om.NullV }},
		{"undefined", "undefined", func(w *cw) om.Value { return om.Undef }},
		{"1", "1", func(w *cw) om.Value { return om.Num(1) }},
		{"function", "cb", func(w *cw) om.Value { return om.ObjV(w.cb) }},
		{"Object.create(Array.prototype)", "Object.create(Array.prototype)", func(w *cw) om.Value { return w.r.ObjectCreate(om.ObjV(w.r.ArrayPrototype), om.Undef) }},
	}
	for _, s := range subjects {
		s := s
		c := exprCase{key: "isArray/" + s.id, setup: "o = 0;", expr: "Array.isArray(" + s.js + ")",
			model: func(w *cw) (om.Value, func() om.Value) {
				return om.Num(0), func() om.Value { return om.Boolean(om.ArrayIsArray(s.m(w))) }
			}}
		runExpr(r, im, c, func(aux map[string]string) { aux["method"] = "isArray" })
	}
	c := exprCase{key: "isArray/()", setup: "o = 0;", expr: "Array.isArray()",
		model: func(w *cw) (om.Value, func() om.Value) { return om.Num(0), func() om.Value { return om.FalseV } }}
	runExpr(r, im, c, nil)
	r.Bound("constructor_argument_lists", fmt.Sprint(len(argLists)))
}

// ---- index canonicalisation table ----

var canonNames = []string{"0", "1", "01", "+1", "1.0", "1e0", "-0", " 1", "0x1", "4294967294", "4294967295", "4294967296", "1.5", "2", "00", "1 ", "-1", "Infinity", "NaN", ""}

func runCanon(r *engine.Run) {
	im := objdrv.New(prelude8)
	bases := [][]V{{}, {num(1), num(2)}}
	type opdef struct {
		id   string
		expr func(name string) string
		m    func(w *cw, a *om.Obj, name string) om.Value
	}
	full := func(w *cw, v om.Value) om.Value {
		d := w.r.NewObject()
		d.Set("value", om.DataDesc(v, true, true, true))
		for _, f := range []string{"writable", "enumerable", "configurable"} {
			d.Set(f, om.DataDesc(om.TrueV, true, true, true))
		}
		return om.ObjV(d)
	}
	ops := []opdef{
		{"put", func(n string) string { return fmt.Sprintf("(o[%q] = 7)", n) },
			func(w *cw, a *om.Obj, n string) om.Value { w.r.Put(a, n, om.Num(7), false); return om.Num(7) }},
		{"get", func(n string) string { return fmt.Sprintf("o[%q]", n) },
			func(w *cw, a *om.Obj, n string) om.Value { return w.r.Get(a, n) }},
		{"in", func(n string) string { return fmt.Sprintf("(%q in o)", n) },
			func(w *cw, a *om.Obj, n string) om.Value { return om.Boolean(w.r.HasProperty(a, n)) }},
		{"delete", func(n string) string { return fmt.Sprintf("delete o[%q]", n) },
			func(w *cw, a *om.Obj, n string) om.Value { return om.Boolean(w.r.Delete(a, n, false)) }},
		{"define", func(n string) string {
			return fmt.Sprintf("Object.defineProperty(o,%q,{value:7,writable:true,enumerable:true,configurable:true}) === o", n)
		}, func(w *cw, a *om.Obj, n string) om.Value {
			return om.Boolean(om.SameValue(w.r.ObjectDefineProperty(om.ObjV(a), om.Str(n), full(w, om.Num(7))), om.ObjV(a)))
		}},
		{"hasOwn", func(n string) string { return fmt.Sprintf("o.hasOwnProperty(%q)", n) },
			func(w *cw, a *om.Obj, n string) om.Value {
				return om.Boolean(w.r.HasOwnProperty(om.ObjV(a), om.Str(n)))
			}},
		{"put-then-get-canonical", func(n string) string { return fmt.Sprintf("(o[%q] = 7, o[1])", n) },
			func(w *cw, a *om.Obj, n string) om.Value { w.r.Put(a, n, om.Num(7), false); return w.r.Get(a, "1") }},
	}
	for _, b := range bases {
		b := b
		for _, name := range canonNames {
			name := name
			for _, o := range ops {
				o := o
				c := exprCase{key: fmt.Sprintf("canon/%s/%s/%q", arr(b...).ID(), o.id, name), setup: "o = " + arrayLiteral(b) + ";", expr: o.expr(name),
					model: func(w *cw) (om.Value, func() om.Value) {
						a := arr(b...).Model(w)
						return a, func() om.Value { return o.m(w, a.O, name) }
					}}
				_, isIdx := om.IsArrayIndex(name)
				runExpr(r, im, c, func(aux map[string]string) {
					aux["method"] = "canon:" + o.id
					aux["name"] = name
					aux["canonical"] = fmt.Sprint(isIdx)
				})
			}
		}
	}
	r.Bound("names", strings.Join(canonNames, "|"))
}

// ---- length table: a.length = v and defineProperty(a, "length", d) ----

func runLength(r *engine.Run) {
	im := objdrv.New(prelude8 + preludeOrder)
	vals := []V{num(0), num(1), num(2), num(3), num(4), num(4294967295), num(4294967296), num(-1), num(1.5), num(math.NaN()), str("2"), str("x"),
		{K: "bool", B: true}, vNull, vU, {K: "vo2"}, num(math.Copysign(0, -1)), str(""), str("1e0"),
		// objects with logging valueOf/toString: 15.4.5.1 steps 3.c-3.d convert the value twice
		logArg("v1", 1), logArg("v5", 5), logArg("v1.5", 1.5)}
	type rv struct {
		id, js string
		m      func(w *cw) *om.Obj
	}
	var recvs []rv
	for _, nc := range []int{-1, 0, 1, 2} {
		for _, lw := range []bool{true, false} {
			nc, lw := nc, lw
			id := fmt.Sprintf("[1 2 3]nc%d,lenW=%v", nc, lw)
			js := "o = [1,2,3];"
			if nc >= 0 {
				js += fmt.Sprintf(` Object.defineProperty(o,"%d",{value:o[%d],writable:true,enumerable:true,configurable:false});`, nc, nc)
			}
			if !lw {
				js += ` Object.defineProperty(o,"length",{writable:false});`
			}
			recvs = append(recvs, rv{id, js, func(w *cw) *om.Obj {
				a := arr(num(1), num(2), num(3)).Model(w).O
				if nc >= 0 {
					w.r.DefineOwnProperty(a, fmt.Sprint(nc), om.Desc{Configurable: false, HasConfigurable: true}, false)
				}
				if !lw {
					w.r.DefineOwnProperty(a, "length", om.Desc{Writable: false, HasWritable: true}, false)
				}
				return a
			}})
		}
	}
	// attribute combinations of the descriptor next to value: writable absent/true/false x enumerable absent/true/false x configurable absent/true/false
	type attr struct {
		js string
		f  func(w *cw, d *om.Obj)
	}
	tri := func(name string) []attr {
		return []attr{{"", func(*cw, *om.Obj) {}},
			{name + ":true", func(w *cw, d *om.Obj) { d.Set(name, om.DataDesc(om.TrueV, true, true, true)) }},
			{name + ":false", func(w *cw, d *om.Obj) { d.Set(name, om.DataDesc(om.FalseV, true, true, true)) }}}
	}
	for _, rc := range recvs {
		rc := rc
		for _, v := range vals {
			v := v
			c := exprCase{key: fmt.Sprintf("length/%s/assign/%s", rc.id, v.ID()), setup: rc.js, expr: "(o.length = " + v.JS() + ", 0)",
				model: func(w *cw) (om.Value, func() om.Value) {
					a := rc.m(w)
					return om.ObjV(a), func() om.Value { w.r.Put(a, "length", v.Model(w), false); return om.Num(0) }
				}}
			runExpr(r, im, c, func(aux map[string]string) { aux["method"] = "length=" })
			for _, wa := range tri("writable") {
				for _, ea := range tri("enumerable") {
					for _, ca := range tri("configurable") {
						wa, ea, ca := wa, ea, ca
						if (ea.js != "" || ca.js != "") && !r.Thorough() && !(v.K == "num" && (v.N == 2 || v.N == 3)) {
							continue // quick: enumerable/configurable combinations only for two lengths
						}
						fields := []string{"value:" + v.JS()}
						for _, a := range []attr{wa, ea, ca} {
							if a.js != "" {
								fields = append(fields, a.js)
							}
						}
						djs := "{" + strings.Join(fields, ",") + "}"
						c := exprCase{key: fmt.Sprintf("length/%s/define/%s/%s|%s|%s", rc.id, v.ID(), wa.js, ea.js, ca.js), setup: rc.js,
							expr: `Object.defineProperty(o,"length",` + djs + `) === o`,
							model: func(w *cw) (om.Value, func() om.Value) {
								a := rc.m(w)
								return om.ObjV(a), func() om.Value {
									d := w.r.NewObject()
									d.Set("value", om.DataDesc(v.Model(w), true, true, true))
									wa.f(w, d)
									ea.f(w, d)
									ca.f(w, d)
									return om.Boolean(om.SameValue(w.r.ObjectDefineProperty(om.ObjV(a), om.Str("length"), om.ObjV(d)), om.ObjV(a)))
								}
							}}
						runExpr(r, im, c, func(aux map[string]string) {
							aux["method"] = "defineProperty(length)"
							aux["value"] = v.ID()
							aux["recv"] = rc.id
						})
					}
				}
			}
		}
	}
	r.Bound("length_values", fmt.Sprint(len(vals)))
	r.Bound("length_receivers", "[1,2,3] x non-configurable element at none/0/1/2 x length writable/read-only")
}
