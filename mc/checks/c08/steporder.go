package c08

import (
	"fmt"

	"verif/mc/checks/c07/objdrv"
	"verif/mc/engine"
	om "verif/mc/ref/objmodel"
)

// ---- attrs: attribute variants of EVERY enumerated array (not just four bases) x the mutating methods ----
//
// Partial effects before a TypeError depend on the order of [[Put]]/[[Delete]] in
// the algorithm (e.g. reverse 15.4.4.8 step 6.i: Put lower, then Delete upper), and
// that order only shows on receivers that reject one of the two: non-extensible,
// sealed, frozen arrays, read-only length, non-writable / non-configurable
// elements, combined with holes at every position.

func attrVariants(b []V) []recv {
	var out []recv
	lit := arrayLiteral(b)
	id := arr(b...).ID()
	mk := func(w *cw) *om.Obj { return arr(b...).Model(w).O }
	add := func(suffix, js string, f func(w *cw, a *om.Obj)) {
		out = append(out, recv{id: id + suffix, js: "o = " + lit + "; " + js, isArray: true, elems: b,
			model: func(w *cw) om.Value {
				a := mk(w)
				f(w, a)
				return om.ObjV(a)
			}})
	}
	def := func(w *cw, a *om.Obj, p string, d om.Desc) { w.r.DefineOwnProperty(a, p, d, false) }
	add("+nonext", `Object.preventExtensions(o);`, func(w *cw, a *om.Obj) { w.r.ObjectPreventExtensions(om.ObjV(a)) })
	add("+sealed", `Object.seal(o);`, func(w *cw, a *om.Obj) { w.r.ObjectSeal(om.ObjV(a)) })
	add("+frozen", `Object.freeze(o);`, func(w *cw, a *om.Obj) { w.r.ObjectFreeze(om.ObjV(a)) })
	add("+nwlen", `Object.defineProperty(o,"length",{writable:false});`, func(w *cw, a *om.Obj) {
		def(w, a, "length", om.Desc{Writable: false, HasWritable: true})
	})
	for i := range b {
		if b[i].K == "hole" {
			continue
		}
		p := fmt.Sprint(i)
		add("+nw"+p, fmt.Sprintf(`Object.defineProperty(o,"%s",{writable:false});`, p), func(w *cw, a *om.Obj) {
			def(w, a, p, om.Desc{Writable: false, HasWritable: true})
		})
		add("+nc"+p, fmt.Sprintf(`Object.defineProperty(o,"%s",{value:o[%s],writable:true,enumerable:true,configurable:false});`, p, p), func(w *cw, a *om.Obj) {
			def(w, a, p, om.Desc{Configurable: false, HasConfigurable: true})
		})
	}
	return out
}

func runAttrs(r *engine.Run) {
	var recvs []recv
	for _, rc := range enumArrays(3) {
		if len(rc.elems) == 0 {
			continue
		}
		recvs = append(recvs, attrVariants(rc.elems)...)
	}
	eachCase(r, recvs, func(rc recv, emit func(string, []V, []V, bool)) {
		emit("pop", nil, nil, false)
		emit("push", []V{num(9)}, nil, false)
		emit("shift", nil, nil, false)
		emit("unshift", []V{num(9)}, nil, false)
		emit("unshift", nil, nil, false)
		emit("reverse", nil, nil, false)
		emit("splice", []V{num(0), num(1)}, nil, false)
		emit("splice", []V{num(1), num(0), num(9)}, nil, false)
		emit("splice", []V{num(1), num(1), num(9), num(8)}, nil, false)
		emit("splice", []V{num(0)}, nil, false)
	})
}

// ---- steporder: the ORDER of the observable steps of every method ----
//
// The receiver is an array-like whose "length" is an accessor (logging getter and
// setter; the getter may throw RangeError), the position/separator arguments are
// objects with logging valueOf/toString, the callback may be missing. The log
// shows in which order length is read, arguments are converted, IsCallable is
// tested (a TypeError with or without the preceding "len") and elements are
// touched; it is compared with the 15.4.4.x step order of the model.

const preludeOrder = `
var __lenMode = "log", __lenN = 2;
var lg = __label(function () { __log[__log.length] = "len"; if (__lenMode === "throw") throw new RangeError("len"); return __lenN; }, "lg");
var ls = __label(function (v) { __log[__log.length] = "setlen:" + __c(v); }, "ls");
function __R() { var r = {0:"a",1:"b",2:"c"}; Object.defineProperty(r,"length",{get:lg,set:ls,enumerable:true,configurable:true}); return r; }
function __L(tag, v) {
  return { valueOf: function () { __log[__log.length] = tag + ".valueOf"; return v; },
           toString: function () { __log[__log.length] = tag + ".toString"; return String(v); } };
}
`

func logArg(tag string, v float64) V { return V{K: "logobj", S: tag, N: v} }

func runStepOrder(r *engine.Run) {
	im := objdrv.New(prelude8 + preludeOrder)
	type lenMode struct {
		id, mode string
		n        float64
	}
	modes := []lenMode{{"len=2", "log", 2}, {"len=0", "log", 0}, {"len-throws", "throw", 0}}
	a0, a1 := logArg("a0", 1), logArg("a1", 2)
	cb, cb4 := V{K: "cb"}, V{K: "cb4"}
	t := V{K: "bool", B: true}
	type mc struct {
		method string
		args   []V
		script []V
	}
	var calls []mc
	add := func(m string, args ...V) { calls = append(calls, mc{m, args, nil}) }
	add("toString")
	add("toLocaleString")
	add("concat", num(9))
	add("join")
	add("join", a0)
	add("pop")
	add("push", num(9))
	add("push")
	add("reverse")
	add("shift")
	add("unshift", num(9))
	add("slice", a0, a1)
	add("slice", a0)
	add("slice")
	add("splice", a0, a1, num(9))
	add("splice", a0)
	add("indexOf", str("b"), a0)
	add("indexOf", str("b"))
	add("lastIndexOf", str("b"), a0)
	add("lastIndexOf", str("b"))
	for _, m := range []string{"every", "some", "forEach", "map", "filter"} {
		calls = append(calls, mc{m, []V{cb}, []V{t, t, t}}, mc{m, []V{cb, vT}, []V{t, t, t}})
		add(m)
		add(m, V{K: "obj"})
		add(m, num(1), vT)
	}
	for _, m := range []string{"reduce", "reduceRight"} {
		calls = append(calls, mc{m, []V{cb4}, []V{str("r0"), str("r1")}}, mc{m, []V{cb4, str("I")}, []V{str("r0"), str("r1")}})
		add(m)
		add(m, V{K: "obj"}, str("I"))
	}
	for _, lm := range modes {
		lm := lm
		rc := recv{id: "R(" + lm.id + ")", js: fmt.Sprintf(`__lenMode = "%s"; __lenN = %v; o = __R();`, lm.mode, lm.n),
			elems: []V{str("a"), str("b"), str("c")},
			model: func(w *cw) om.Value {
				o := w.r.NewObject()
				for i, s := range []string{"a", "b", "c"} {
					o.Set(fmt.Sprint(i), om.DataDesc(om.Str(s), true, true, true))
				}
				lg := w.r.NewFunction("lg", func(r *om.Realm, _ om.Value, _ []om.Value) om.Value {
					r.Log = append(r.Log, "len")
					if lm.mode == "throw" {
						om.ThrowError("RangeError")
					}
					return om.Num(lm.n)
				})
				ls := w.r.NewFunction("ls", func(r *om.Realm, _ om.Value, args []om.Value) om.Value {
					v := om.Undef
					if len(args) > 0 {
						v = args[0]
					}
					r.Log = append(r.Log, "setlen:"+r.Render(v))
					return om.Undef
				})
				o.Set("length", om.Desc{Get: om.ObjV(lg), HasGet: true, Set: om.ObjV(ls), HasSet: true, Enumerable: true, HasEnumerable: true, Configurable: true, HasConfigurable: true})
				return om.ObjV(o)
			}}
		for _, c := range calls {
			if r.Expired() {
				r.Cap("time budget reached")
				return
			}
			runCase(r, im, callCase{rc: rc, method: c.method, args: c.args, script: c.script})
		}
	}
	r.Bound("receivers", "array-like {0:a,1:b,2:c} with accessor length: getter logs and returns 2 / returns 0 / throws RangeError; setter logs")
	r.Bound("arguments", "positions and separator as objects with logging valueOf/toString; callback present / missing / not callable")
	r.Bound("calls", fmt.Sprint(len(calls)))
}

// ---- primitives: every method on primitive this values (ToObject in step 1; reverse and sort return that object) ----

func runPrimitives(r *engine.Run) {
	im := objdrv.New(prelude8)
	prims := []struct {
		id, js string
		v      om.Value
		elems  []V
	}{
		{"true", "true", om.TrueV, nil}, {"1", "1", om.Num(1), nil}, {"''", `""`, om.Str(""), nil}, {"'ab'", `"ab"`, om.Str("ab"), []V{str("a"), str("b")}},
	}
	cb, cb4 := V{K: "cb"}, V{K: "cb4"}
	t := V{K: "bool", B: true}
	for _, p := range prims {
		p := p
		rc := recv{id: "prim(" + p.id + ")", js: "o = " + p.js + ";", elems: p.elems, model: func(w *cw) om.Value { return p.v }}
		emit := func(m string, script []V, args ...V) {
			runCase(r, im, callCase{rc: rc, method: m, args: args, script: script})
		}
		emit("toString", nil)
		emit("toLocaleString", nil)
		emit("concat", nil, num(9))
		emit("join", nil)
		emit("join", nil, str("-"))
		emit("pop", nil)
		emit("push", nil)
		emit("push", nil, num(9))
		emit("reverse", nil)
		emit("shift", nil)
		emit("unshift", nil)
		emit("unshift", nil, num(9))
		emit("slice", nil)
		emit("slice", nil, num(0), num(1))
		emit("splice", nil)
		emit("splice", nil, num(0), num(1))
		emit("indexOf", nil, str("b"))
		emit("lastIndexOf", nil, str("b"))
		for _, m := range []string{"every", "some", "forEach", "map", "filter"} {
			emit(m, []V{t, t}, cb)
			emit(m, nil)
		}
		for _, m := range []string{"reduce", "reduceRight"} {
			emit(m, []V{str("r0")}, cb4)
			emit(m, []V{str("r0"), str("r1")}, cb4, str("I"))
		}
		if len(p.elems) == 0 {
			// no element: no [[Put]]/[[Delete]] sequence to be implementation-defined about
			emit("sort", nil)
			emit("sort", nil, vU)
		}
	}
	r.Bound("primitive_receivers", "true, 1, \"\", \"ab\"")
}
