package c08

import (
	"fmt"
	"os"
	"strings"
	"testing"

	"verif/mc/checks/c07/objdrv"
	om "verif/mc/ref/objmodel"
)

// TestNodeGen is a development-time aid (second opinion, never an oracle): with
// C08_NODEGEN=<file> it writes a JS program that runs a deterministic sample of
// the single-call cases under another engine and prints every case whose
// observation differs from the reference model. Skipped otherwise.
func TestNodeGen(t *testing.T) {
	out := os.Getenv("C08_NODEGEN")
	if out == "" {
		t.Skip("development aid")
	}
	var sb strings.Builder
	sb.WriteString("(function(){\n" + objdrv.Prelude + prelude8 + `
var __n = 0, __bad = 0;
function __case(key, f, exp) {
  __n++;
  __log = []; __si = 0; __done = false; __ret = undefined;
  var oc = "ok";
  try { f(); } catch (e) {
    oc = (e instanceof TypeError) ? "TypeError" : (e instanceof RangeError) ? "RangeError" : (typeof e === "string") ? "Thrown(" + e + ")" : "Other:" + e;
  }
  var obs = oc + "` + sep + `" + __obs8();
  if (obs !== exp) { __bad++; if (__bad < 400) console.log(key + "\n   model: " + exp + "\n   node:  " + obs); }
}
`)
	recvs := append(enumArrays(3), variantRecvs()...)
	n := 0
	emit := func(c callCase) {
		n++
		if n%7 != 0 && !strings.Contains(c.rc.id, "+") && !strings.HasPrefix(c.rc.id, "like") {
			return
		}
		exp := c.expect(om.Quirks{})
		body := fmt.Sprintf("%s __script = [%s]; __ret = __c(%s); __done = true;", c.rc.js, argsJS(c.script), c.callJS())
		fmt.Fprintf(&sb, "__case(%q, function(){ %s }, %q); %s\n", c.key(), body, join(exp), c.rc.post)
	}
	cb, cb4 := V{K: "cb"}, V{K: "cb4"}
	for _, rc := range recvs {
		if rc.bigLen || strings.Contains(rc.id, "2^32") {
			continue // ES2015 ToLength (2^53-1) replaced ToUint32 for array-likes
		}
		for _, m := range []string{"toString", "toLocaleString", "pop", "shift", "reverse"} {
			emit(callCase{rc: rc, method: m})
		}
		for _, a := range [][]V{{}, {num(9)}, {num(9), num(8)}} {
			emit(callCase{rc: rc, method: "push", args: a})
			emit(callCase{rc: rc, method: "unshift", args: a})
			emit(callCase{rc: rc, method: "concat", args: a})
		}
		emit(callCase{rc: rc, method: "concat", args: []V{arr(num(9), vHole, num(8))}})
		for _, s := range [][]V{{}, {str("-")}, {vNull}} {
			emit(callCase{rc: rc, method: "join", args: s})
		}
		for _, s := range positions {
			for _, e := range positions {
				var a []V
				if s.K != "omitted" {
					a = append(a, s)
					if e.K != "omitted" {
						a = append(a, e)
					}
				} else if e.K != "omitted" {
					continue
				}
				emit(callCase{rc: rc, method: "slice", args: a})
				emit(callCase{rc: rc, method: "splice", args: a})
				if len(a) == 2 {
					emit(callCase{rc: rc, method: "splice", args: append(append([]V(nil), a...), num(9), num(8))})
					emit(callCase{rc: rc, method: "indexOf", args: []V{num(1), e}})
					emit(callCase{rc: rc, method: "lastIndexOf", args: []V{num(1), e}})
				}
			}
		}
		k := scriptLen(rc)
		for _, m := range []string{"every", "some", "forEach", "map", "filter"} {
			for _, s := range scripts(k) {
				emit(callCase{rc: rc, method: m, args: []V{cb}, script: s})
			}
			emit(callCase{rc: rc, method: m, args: []V{cb, vT}, script: scripts(k)[0]})
			emit(callCase{rc: rc, method: m, args: []V{num(1)}})
		}
		for _, m := range []string{"reduce", "reduceRight"} {
			var vals []V
			for i := 0; i < k; i++ {
				vals = append(vals, str(fmt.Sprintf("r%d", i)))
			}
			emit(callCase{rc: rc, method: m, args: []V{cb4}, script: vals})
			emit(callCase{rc: rc, method: m, args: []V{cb4, str("I")}, script: vals})
			if k > 0 {
				emit(callCase{rc: rc, method: m, args: []V{cb4}, script: append(append([]V(nil), vals[:k-1]...), V{K: "throw"})})
			}
		}
	}
	sb.WriteString(`console.log("cases: " + __n + ", different: " + __bad);` + "\n}).call(globalThis);\n")
	if err := os.WriteFile(out, []byte(sb.String()), 0o644); err != nil {
		t.Fatal(err)
	}
}
