package c04

import (
	"fmt"
	"strings"

	"github.com/robertkrimen/otto/ast"
	"github.com/robertkrimen/otto/parser"

	"verif/mc/engine"
	"verif/mc/ref/syntax"
)

// The parsefunction family drives parser.ParseFunction(parameterList, body),
// the second exported entry point of the parser (the one behind the Function
// constructor). ES5 15.3.2.1: the parameter text has to be a
// FormalParameterList(opt) and the body text a FunctionBody ON THEIR OWN; the
// entry point builds "(function(" + P + ") {\n" + B + "\n})" and parses that,
// so text that closes the synthetic wrapper early and re-opens it is the class
// of junk that only this entry point can wrongly accept.

// fragment: a piece of text made of whole tokens; the fragments that hold
// several tokens are the ones that close / re-open the wrapper in one step, so
// that wrapper-escaping texts are reached within the length bound.
type fragment struct {
	text string
	toks []string
}

func frag(toks ...string) fragment { return fragment{text: strings.Join(toks, ""), toks: toks} }

var fnFragments = []fragment{
	frag("x"), frag("a"), frag(";"), frag("\n"), frag(","), frag("return"), frag("{"), frag("}"),
	frag("("), frag(")"), frag("}", ")"), frag("(", "function", "("), frag(")", "{"), frag("function"), frag("="), frag("1"),
}

// fixed partners of the enumerated side
var fnFixedParams = []string{"", "a", "a , x"}
var fnFixedBodies = []string{"", "return a", "x ( )\nx = a"}

// fnText joins fragments with single spaces (no two tokens can merge).
func fnText(idx []int) (text string, toks []string) {
	parts := make([]string, len(idx))
	for j, i := range idx {
		parts[j] = fnFragments[i].text
		toks = append(toks, fnFragments[i].toks...)
	}
	return strings.Join(parts, " "), toks
}

func fnToks(text string) []string {
	// tokens of the fixed texts (same token vocabulary, separated by blanks or "\n")
	var out []string
	for _, line := range strings.SplitAfter(text, "\n") {
		nl := strings.HasSuffix(line, "\n")
		out = append(out, strings.Fields(line)...)
		if nl {
			out = append(out, "\n")
		}
	}
	return out
}

// neverBelowZero: the bracket depth of the token string never drops below its
// starting level. No fragment hides a bracket inside a string, regular
// expression or comment, so the brackets are exactly these tokens.
func neverBelowZero(toks []string) bool {
	d := 0
	for _, t := range toks {
		switch t {
		case "(", "{", "[":
			d++
		case ")", "}", "]":
			d--
			if d < 0 {
				return false
			}
		}
	}
	return true
}

// pieceOK decides whether text is derivable from the nonterminal that sits at
// the hole of the wrapper pre+text+post, given that pre ends with the opening
// bracket of the hole and post starts with its closing bracket: every ES5
// production that contains an opening bracket contains its partner, so the
// brackets of a derivable text are matched in pairs; when the depth inside the
// text never drops below its starting level, the hole's opening bracket is
// matched by the hole's closing bracket and the text in between is derived
// from the hole's nonterminal iff the whole wrapper is a Program. When the
// depth does drop below, the text is not derivable from anything bracket-balanced.
func pieceOK(pre, text, post string, toks []string, opt syntax.Options) bool {
	if !neverBelowZero(toks) {
		return false
	}
	return syntax.Parse(pre+text+post, opt).Accepted()
}

// directParams is an independent recogniser of FormalParameterList(opt) over
// the token vocabulary of the family (self-check of pieceOK). It returns the
// parameter names.
func directParams(toks []string) ([]string, bool) {
	var names []string
	wantIdent, any := true, false
	for _, t := range toks {
		if t == "\n" {
			continue
		}
		any = true
		if wantIdent {
			if t != "x" && t != "a" {
				return nil, false
			}
			names = append(names, t)
		} else if t != "," {
			return nil, false
		}
		wantIdent = !wantIdent
	}
	if any && wantIdent {
		return nil, false
	}
	return names, true
}

// jointOneFunction: the text is a Program of exactly one expression statement
// whose expression is a function expression (plain ES5.1, no relaxation).
func jointOneFunction(wrapped string) bool {
	res := syntax.Parse(wrapped, syntax.Options{})
	if !res.Accepted() || res.Tree == nil || len(res.Tree.Kids) != 1 {
		return false
	}
	st := res.Tree.Kids[0]
	return st != nil && st.Kind == "Expr" && len(st.Kids) == 1 && st.Kids[0] != nil && st.Kids[0].Kind == "Function"
}

// sigParseFunctionJoint: ParseFunction accepts a parameter text and a body text
// that are not a FormalParameterList / FunctionBody on their own when BOTH
// escape the synthetic wrapper and their concatenation inside the wrapper is
// one function expression.
func sigParseFunctionJoint(m *engine.Mismatch) bool {
	return strings.HasSuffix(m.Key, "#reject") && m.Expected == "reject" && m.Observed == "accept" && m.Aux["joint"] == "1" && m.Aux["explain"] == ""
}

type fnResult struct {
	fn       *ast.FunctionLiteral
	err      error
	panicked bool
	panicVal string
}

func guardedParseFunction(params, body string) (res fnResult) {
	defer func() {
		if p := recover(); p != nil {
			res.panicked = true
			res.panicVal = fmt.Sprint(p)
		}
	}()
	res.fn, res.err = parser.ParseFunction(params, body)
	return
}

// fnOne executes one (parameter text, body text) case.
func (h *harness) fnOne(key, params string, ptoks []string, body string, btoks []string) {
	r := h.r
	wrapped := "(function(" + params + ") {\n" + body + "\n})" // the text ParseFunction documents it parses
	const ppre, ppost = "function f(", "\n){}"
	const bpre, bpost = "function f(){\n", "\n}"
	pOK := pieceOK(ppre, params, ppost, ptoks, syntax.Options{})
	bOK := pieceOK(bpre, body, bpost, btoks, syntax.Options{})
	names, dOK := directParams(ptoks)
	if dOK != pOK {
		r.HarnessError(fmt.Sprintf("parsefunction: the two parameter-list recognisers disagree on %q: wrapper %v, direct %v", params, pOK, dOK))
		return
	}
	input := fmt.Sprintf("ParseFunction(%q, %q)", params, body)

	r.Begin(key)
	res := guardedParseFunction(params, body)
	r.End()

	outcome := ""
	nontrivial := false
	switch {
	case res.panicked:
		outcome = "panic"
		h.mismatch(engine.Mismatch{Key: key + "#total", Input: input, Expected: "ParseFunction returns", Observed: "panic: " + res.panicVal})
	case res.err != nil:
		outcome = "reject: " + res.err.Error()
		h.stats.rejected++
		if res.fn != nil {
			h.mismatch(engine.Mismatch{Key: key + "#tree", Input: input, Expected: "nil literal with an error", Observed: "a literal and an error"})
		}
		nontrivial = h.fnPositions(key, input, wrapped, res.err)
		if pOK && bOK {
			h.mismatch(engine.Mismatch{Key: key + "#accept", Input: input, Expected: "accept", Observed: outcome,
				Note: "the parameter text is a FormalParameterList and the body text a FunctionBody on their own"})
		}
	default:
		outcome = "accept"
		h.stats.accepted++
		nontrivial = true
		h.stats.refConsulted++
		h.explain = ""
		if !pOK || !bOK {
			h.stats.refRejected++
			which := "the body text is not a FunctionBody"
			if !pOK {
				which = "the parameter text is not a FormalParameterList"
			}
			aux := map[string]string{}
			// alternative models: the pieces are what they have to be under the
			// relaxations otto is known to apply (never when a piece escapes the wrapper)
			if neverBelowZero(ptoks) && neverBelowZero(btoks) {
				relaxed := syntax.Options{Relax: syntax.AllRelax}
				rp := syntax.Parse(ppre+params+ppost, relaxed)
				rb := syntax.Parse(bpre+body+bpost, relaxed)
				if rp.Accepted() && rb.Accepted() {
					if used := (rp.Used | rb.Used).Names(); len(used) > 0 {
						aux["explain"] = strings.Join(used, "+")
						which += "; it is one under " + aux["explain"]
					}
				}
			}
			// alternative model "the concatenation is one function": both pieces escape
			// the wrapper and the wrapper text as a whole is one function expression
			if !neverBelowZero(ptoks) && !neverBelowZero(btoks) && jointOneFunction(wrapped) {
				aux["joint"] = "1"
				which += "; both pieces escape the wrapper and the concatenation is one function expression"
			}
			h.explain = aux["explain"]
			h.mismatch(engine.Mismatch{Key: key + "#reject", Input: input, Expected: "reject", Observed: "accept", Note: which, Aux: aux})
		}
		if res.fn == nil {
			h.mismatch(engine.Mismatch{Key: key + "#tree", Input: input, Expected: "a function literal", Observed: "nil literal with nil error"})
			break
		}
		// the literal is the whole wrapper: from "function" to the closing brace
		base := 1
		if i0, i1 := int(res.fn.Idx0()), int(res.fn.Idx1()); i0 != base+1 || i1 != base+len(wrapped)-1 {
			h.mismatch(engine.Mismatch{Key: key + "#cover", Input: input, Expected: fmt.Sprintf("literal spans [%d,%d) of %q", base+1, base+len(wrapped)-1, wrapped),
				Observed: fmt.Sprintf("literal spans [%d,%d)", i0, i1), Aux: map[string]string{"explain": h.explain}})
		}
		if pOK {
			var got []string
			if res.fn.ParameterList != nil {
				for _, id := range res.fn.ParameterList.List {
					if id != nil {
						got = append(got, id.Name)
					}
				}
			}
			if strings.Join(got, ",") != strings.Join(names, ",") {
				h.mismatch(engine.Mismatch{Key: key + "#params", Input: input, Expected: strings.Join(names, ","), Observed: strings.Join(got, ",")})
			}
		}
		// spans inside the (wrapper) text and the parent, Walk
		prog := &ast.Program{Body: []ast.Statement{&ast.ExpressionStatement{Expression: res.fn}}}
		outcome += h.wellFormed(key, wrapped, prog)
	}
	r.Eval(nontrivial)
	r.Tree(1, 1)
	r.Outcome(clip(outcome, 200))
	if r.WantSample() && nontrivial {
		r.Sample(fmt.Sprintf("%s => %s", input, clip(outcome, 140)))
	}
}

// fnPositions: the error is an ErrorList whose positions designate points of
// the text that was parsed (the wrapper); the entry "Unexpected token )" that
// ParseFunction files itself for a wrapper that is not one function literal
// carries no position (Position{}), which is what it documents.
func (h *harness) fnPositions(key, input, wrapped string, err error) bool {
	pl, ok := err.(*parser.ErrorList)
	if !ok || pl == nil || len(*pl) == 0 {
		h.mismatch(engine.Mismatch{Key: key + "#pos", Input: input, Expected: "non-empty *parser.ErrorList", Observed: fmt.Sprintf("%T %v", err, err)})
		return false
	}
	list := *pl
	last := list[len(list)-1]
	if last != nil && last.Message == "Unexpected token )" && last.Position.Line == 0 && last.Position.Column == 0 {
		list = list[:len(list)-1]
		if len(list) == 0 {
			return true // the wrapper parsed completely: the whole text was consumed
		}
	}
	rest := list
	return h.positions(key, wrapped, &rest)
}

// fnStrings enumerates every fragment string of length <= max.
func fnStrings(max int, f func(idx []int)) {
	idx := make([]int, 0, max)
	var rec func()
	rec = func() {
		f(idx)
		if len(idx) == max {
			return
		}
		for i := range fnFragments {
			idx = append(idx, i)
			rec()
			idx = idx[:len(idx)-1]
		}
	}
	rec()
}

func fnKey(idx []int) string {
	var kb strings.Builder
	for _, i := range idx {
		kb.WriteByte("0123456789abcdef"[i])
	}
	return kb.String()
}

// runParseFunction: (A) every fragment string of length <= L as the body with
// three fixed parameter texts, (B) every fragment string of length <= L as the
// parameter text with three fixed bodies, (C) every pair of fragment strings of
// length <= 2. L = 4.
func runParseFunction(r *engine.Run) {
	h := newHarness(r, 2048)
	// L = 4 in both tiers: at L = 5 the alphabet spells `x ( ) = a`, which otto rejects early
	// ("invalid left-hand side in assignment") as ES5 clause 16 permits; the piece oracle does not model that licence.
	max := 4
	stop := false
	for pi, p := range fnFixedParams {
		ptoks := fnToks(p)
		fnStrings(max, func(idx []int) {
			if stop || len(idx) == 2 && r.Expired() {
				stop = true
				return
			}
			if key := fmt.Sprintf("A/%d/%s", pi, fnKey(idx)); mine(r, key) {
				body, btoks := fnText(idx)
				h.fnOne(key, p, ptoks, body, btoks)
			}
		})
	}
	for bi, b := range fnFixedBodies {
		btoks := fnToks(b)
		fnStrings(max, func(idx []int) {
			if stop || len(idx) == 2 && r.Expired() {
				stop = true
				return
			}
			if key := fmt.Sprintf("B/%d/%s", bi, fnKey(idx)); mine(r, key) {
				params, ptoks := fnText(idx)
				h.fnOne(key, params, ptoks, b, btoks)
			}
		})
	}
	fnStrings(2, func(pidx []int) {
		if stop || r.Expired() {
			stop = true
			return
		}
		params, ptoks := fnText(pidx)
		pk := fnKey(pidx)
		fnStrings(2, func(bidx []int) {
			if key := fmt.Sprintf("C/%s/%s", pk, fnKey(bidx)); mine(r, key) {
				body, btoks := fnText(bidx)
				h.fnOne(key, params, ptoks, body, btoks)
			}
		})
	})
	if stop {
		r.Cap("time budget reached in parsefunction")
	} else {
		r.Bound("fragments", fmt.Sprint(len(fnFragments)))
		r.Bound("one_sided_len", fmt.Sprint(max))
		r.Bound("two_sided_len", "2")
	}
	h.finish("parsefunction")
}
