// Package c04 checks that parsing is total (no panic, no hang, error positions
// inside the input), that text ES5 rejects is rejected (reference recogniser
// ref/syntax, reject direction only), that rejected source has no side effect
// on a runtime asked to run it, and that accepted trees are well-formed (spans
// inside the file and inside the parent's span, ast.Walk visits every non-nil
// node exactly once with balanced Enter/Exit and never passes a nil node).
package c04

import (
	"fmt"
	"reflect"
	"regexp"
	"sort"
	"strings"
	"time"

	"github.com/robertkrimen/otto"
	"github.com/robertkrimen/otto/ast"
	"github.com/robertkrimen/otto/parser"

	"verif/mc/checks/c03"
	"verif/mc/engine"
	"verif/mc/ref/syntax"
)

func init() {
	engine.Register(&engine.Check{
		ID:    "C04",
		Title: "Parsing is total: junk is rejected cleanly, accepted trees are well-formed",
		Rule: "E1: every byte string of length <=2 and every string of length 3 over a 40-byte alphabet; UTF-8 malformations at every position of carrier programs; " +
			"every token string up to the stated length over ten 16-token alphabets; every byte prefix and every single-token deletion / insertion / replacement / adjacent swap " +
			"(thorough: all pairs of edits for the 30 shortest) of a corpus of valid programs; parser.ParseFunction on every (parameter text, body text) pair built from strings over 16 fragments (single tokens and the wrapper-closing / re-opening pieces }) and (function( and ){ ): one side every string of length <=4 with three fixed partners, and both sides every string of length <=2, accepted only when each piece is a FormalParameterList / FunctionBody on its own and the literal spans the whole wrapper; every ES5 ReservedWord in every \\uXXXX spelling (one character escaped at every position, all, alternating; lower and upper case hex) in 35 Identifier positions (binding names, labels, operands, assignment targets; kept where the plainly spelled text is rejected, so the word is not a keyword of that position) and 6 IdentifierName positions. A case is non-trivial when otto accepted it (reference consulted, spans and Walk checked on every node) " +
			"or rejected it after consuming at least one token (error position beyond offset 0); every case is also run on a runtime and its global state compared.",
		Families: []engine.Family{
			{Name: "bytes", Run: runBytes},
			{Name: "utf8", Run: runUTF8},
			{Name: "tokens", Run: runTokens},
			{Name: "mutations", Run: runMutations},
			{Name: "mutations2", Run: runMutations2, ThoroughOnly: true},
			{Name: "valid", Run: runValid},
			{Name: "pairs", Run: runPairs},
			{Name: "noin", Run: runNoIn},
			{Name: "spellings", Run: runSpellings},
			{Name: "escapedwords", Run: runEscapedWords},
			{Name: "comments", Run: runComments},
			{Name: "literals", Run: runLiterals},
			{Name: "lexerrors", Run: runLexErrors},
			{Name: "regexmode", Run: runRegexMode},
			{Name: "fileset", Run: runFileSet},
			{Name: "deep", Run: runDeep},
			{Name: "deepchild", Run: runDeepChild},
			{Name: "earlyerrors", Run: runEarlyErrors},
			{Name: "parsefunction", Run: runParseFunction},
		},
		Assumptions: []string{
			"ref/syntax is a faithful recogniser of ES5.1 programs (see C03); only its reject verdicts are used here, and where it is deliberately lenient (call expressions as assignment targets, regexp bodies with ] { } or incomplete escapes) no claim is made",
			"invalid UTF-8 is not a program (ES5 clause 6: source text is Unicode)",
			"side effects are observed through a host-function call counter and five sentinel globals per case, and a full dump of the global object's own properties (names and types) every batch of cases",
			"a hang is a case that runs longer than the engine watchdog (60 s); a Go panic is recovered per case, a fatal error kills the worker and is attributed to the announced case",
		},
		CrashIsViolation: true,
		QuickBudget:      80 * time.Second,
		ThoroughBudget:   14 * time.Minute,
	})
	for _, name := range syntax.AllRelax.Names() {
		name := name
		engine.RegisterSignature("c04-accepts-"+name, func(m *engine.Mismatch) bool { return explains(m, name) })
	}
	for _, q := range syntax.AllQuirks() {
		name := "q:" + q.String()
		engine.RegisterSignature("c04-quirk-"+q.String(), func(m *engine.Mismatch) bool { return explains(m, name) })
	}
	engine.RegisterSignature("c04-quirk-cr-x-lf", func(m *engine.Mismatch) bool { return explains(m, "q:cr-x-lf") })
	engine.RegisterSignature("c04-inline-sourcemap", func(m *engine.Mismatch) bool {
		src, ok := m.Input.(string)
		if !ok || !c03.BadInlineSourceMap(src) {
			return false
		}
		// the source-map error (not an ErrorList) is returned by ParseFile and by Run
		return m.Expected == "*parser.ErrorList" && !strings.Contains(m.Observed, "ErrorList")
	})
	engine.RegisterSignature("c04-ignore-regexp-errors-skips-validation", sigIgnoreRegExpErrors)
	engine.RegisterSignature("c04-new-chain-unbounded", func(m *engine.Mismatch) bool {
		return strings.HasSuffix(m.Key, "#bound") && (m.Aux["production"] == "new" || m.Aux["production"] == "new-args") && strings.HasPrefix(m.Observed, "accept")
	})
	engine.RegisterSignature("c04-idx-empty-list", sigIdxEmptyList)
	engine.RegisterSignature("c04-walk-typed-nil", sigWalkTypedNil)
	engine.RegisterSignature("c04-silent-bad-node", sigSilentBadNode)
	engine.RegisterSignature("c04-parsefunction-joint", sigParseFunctionJoint)
}

// explains: otto accepted text that the reference rejects, and the reference
// accepts it under an alternative model: the set of relaxations whose relaxed
// branch was taken (ref/syntax.Relax), possibly together with one quirk
// ("q:<name>", ref/syntax.Quirk) or the CR-x-LF lexer defect. Aux["explain"]
// lists these items; the signature for one item matches when the item is in
// the list and every other item of the list has an open known finding too.
// It covers the acceptance itself and, for the same input, spans that lie
// outside the file / the parent (a tree that should not exist).
func explains(m *engine.Mismatch, item string) bool {
	if m.Aux["explain"] == "" || m.Aux["mode"] != "" {
		return false
	}
	switch {
	case m.Expected == "reject" && m.Observed == "accept":
	case strings.HasSuffix(m.Aux["what"], ".outside-file") || strings.HasSuffix(m.Aux["what"], ".outside-parent"):
		if item != "switch-unterminated" {
			return false
		}
	default:
		return false
	}
	open := map[string]bool{}
	for _, f := range engine.KnownFor("C04") {
		if f.Status != "open" {
			continue
		}
		if strings.HasPrefix(f.Signature, "c04-accepts-") {
			open[strings.TrimPrefix(f.Signature, "c04-accepts-")] = true
		}
		if strings.HasPrefix(f.Signature, "c04-quirk-") {
			open["q:"+strings.TrimPrefix(f.Signature, "c04-quirk-")] = true
		}
	}
	hit := false
	for _, u := range strings.Split(m.Aux["explain"], "+") {
		if u == item {
			hit = true
		}
		if !open[u] {
			return false
		}
	}
	return hit
}

var reCRXLF = regexp.MustCompile("\r[^\n]\n")

// explain searches the alternative models for one that accepts src.
func explain(src string) string {
	items := func(res syntax.Result, extra ...string) string {
		return strings.Join(append(res.Used.Names(), extra...), "+")
	}
	if res := syntax.Parse(src, syntax.Options{Relax: syntax.AllRelax}); res.Accepted() {
		return items(res)
	}
	for _, q := range syntax.AllQuirks() {
		if res := syntax.Parse(src, syntax.Options{Relax: syntax.AllRelax, Quirk: q}); res.Accepted() {
			return items(res, "q:"+q.String())
		}
	}
	// otto's lexer: CR followed, two bytes on, by LF swallows the character in between
	if src2 := reCRXLF.ReplaceAllString(src, "\r\n"); src2 != src {
		if res := syntax.Parse(src2, syntax.Options{Relax: syntax.AllRelax}); res.Accepted() {
			return items(res, "q:cr-x-lf")
		}
	}
	return ""
}

// mine is r.MineKey for case keys: a replay key carries the sub-check suffix
// ("#reject", "#span:...") of the mismatch, the case key is the part before it.
func mine(r *engine.Run, key string) bool {
	if r.ReplayKey != "" {
		rk := r.ReplayKey
		if i := strings.IndexByte(rk, '#'); i >= 0 {
			rk = rk[:i]
		}
		return rk == key
	}
	return r.Mine()
}

// parseResult is what one guarded call of parser.ParseFile gave.
type parseResult struct {
	prog     *ast.Program
	err      error
	panicked bool
	panicVal string
}

func guardedParse(src string, mode parser.Mode) (res parseResult) {
	defer func() {
		if p := recover(); p != nil {
			res.panicked = true
			res.panicVal = fmt.Sprint(p)
		}
	}()
	res.prog, res.err = parser.ParseFile(nil, "", src, mode)
	return
}

type harness struct {
	r        *engine.Run
	vm       *otto.Otto
	ticks    int
	baseline string
	snapshot *otto.Script
	batch    int
	inBatch  int
	lastKey  string
	lastSrc  string
	stats    struct{ accepted, rejected, refConsulted, refRejected, nodes int }
	classes  map[string]*classStat
	explain  string // explanation of the current case's wrongful acceptance, if any
	// mode is the parser.Mode of ParseFile; 0 (the mode of Otto.Run) except in the regexmode family.
	mode parser.Mode
}

type classStat struct {
	n       int
	example string
}

// mismatch files a mismatch and tallies its class for the evidence notes.
func (h *harness) mismatch(m engine.Mismatch) {
	cls := m.Key
	if i := strings.IndexByte(cls, '#'); i >= 0 {
		cls = cls[i+1:]
	}
	if m.Aux["explain"] != "" {
		cls += ":" + m.Aux["explain"]
	} else if cls == "reject" {
		cls += ":unexplained"
	}
	if h.classes == nil {
		h.classes = map[string]*classStat{}
	}
	c := h.classes[cls]
	if c == nil {
		c = &classStat{example: fmt.Sprintf("%q", m.Input)}
		h.classes[cls] = c
	}
	c.n++
	h.r.Mismatch(m)
}

const snapshotSrc = `(function(g){ var n = Object.getOwnPropertyNames(g).sort(); var s = n.length + ":"; for (var i = 0; i < n.length; i++) { s += n[i] + "=" + typeof g[n[i]] + ";" } return s })(this)`

var sentinels = []string{"a", "b", "g", "L", "v"}

func newHarness(r *engine.Run, batch int) *harness {
	h := &harness{r: r, batch: batch}
	h.freshVM()
	return h
}

func (h *harness) freshVM() {
	h.vm = otto.New()
	h.ticks = 0
	tick := func(call otto.FunctionCall) otto.Value { h.ticks++; return otto.UndefinedValue() }
	h.vm.Set("x", tick)
	h.vm.Set("f", tick)
	h.vm.Set("tick", tick)
	s, err := h.vm.Compile("", snapshotSrc)
	if err != nil {
		h.r.HarnessError("snapshot script: " + err.Error())
		return
	}
	h.snapshot = s
	h.baseline = h.dump()
	h.inBatch = 0
}

func (h *harness) dump() string {
	v, err := h.vm.Run(h.snapshot)
	if err != nil {
		return "error: " + err.Error()
	}
	return v.String()
}

// cheapState: the call counter and the sentinel globals.
func (h *harness) cheapState() string {
	var sb strings.Builder
	fmt.Fprintf(&sb, "ticks=%d", h.ticks)
	for _, n := range sentinels {
		v, err := h.vm.Get(n)
		if err != nil || !v.IsUndefined() {
			fmt.Fprintf(&sb, " %s=%v", n, v)
		}
	}
	for _, n := range []string{"x", "f"} {
		v, _ := h.vm.Get(n)
		if !v.IsFunction() {
			fmt.Fprintf(&sb, " %s=%v", n, v)
		}
	}
	return sb.String()
}

func (h *harness) flush() {
	if h.inBatch == 0 {
		return
	}
	if d := h.dump(); d != h.baseline {
		h.mismatch(engine.Mismatch{Key: h.lastKey + "#effect-batch", Input: h.lastSrc, Expected: "global object unchanged",
			Observed: "global object changed", Note: fmt.Sprintf("within the last %d rejected sources run on this runtime; diff %s", h.inBatch, firstDiff(h.baseline, d))})
		h.freshVM()
	}
	h.inBatch = 0
}

func firstDiff(a, b string) string {
	as, bs := strings.Split(a, ";"), strings.Split(b, ";")
	m := map[string]bool{}
	for _, x := range as {
		m[x] = true
	}
	for _, x := range bs {
		if !m[x] {
			return x
		}
	}
	return "?"
}

// one executes one case: all four oracles.
func (h *harness) one(key, src string) {
	r := h.r
	// The watchdog window covers parsing and, for rejected text, the run on the
	// runtime: neither may hang.
	r.Begin(key)
	defer r.End()
	res := guardedParse(src, h.mode)
	nontrivial := false
	outcome := ""
	switch {
	case res.panicked:
		outcome = "panic"
		h.mismatch(engine.Mismatch{Key: key + "#total", Input: src, Expected: "ParseFile returns", Observed: "panic: " + res.panicVal})
	case res.err != nil:
		outcome = "reject: " + res.err.Error()
		h.stats.rejected++
		nontrivial = h.positions(key, src, res.err)
		if h.mode == 0 { // Run always parses in mode 0
			h.noEffect(key, src)
		}
	default:
		outcome = "accept"
		h.stats.accepted++
		nontrivial = true
		// (b) reject direction
		h.stats.refConsulted++
		expl := ""
		if ref := syntax.Parse(src, syntax.Options{}); !ref.Accepted() {
			h.stats.refRejected++
			aux := map[string]string{}
			note := ref.Err.Error()
			if h.mode != 0 {
				aux["mode"] = fmt.Sprint(uint(h.mode))
			}
			if expl = explain(src); expl != "" {
				aux["explain"] = expl
				note += "; accepted by the reference under " + expl
			} else if res.prog != nil && hasBadNode(res.prog) {
				aux["bad"] = "1"
			}
			h.mismatch(engine.Mismatch{Key: key + "#reject", Input: src, Expected: "reject", Observed: "accept", Note: note, Aux: aux})
		}
		h.explain = expl
		// (d) well-formed tree
		outcome += h.wellFormed(key, src, res.prog)
		if res.prog != nil {
			outcome += " " + c03.Convert(res.prog).Dump()
		}
	}
	r.Eval(nontrivial)
	r.Tree(1, 1) // every enumerated string is a node of the prefix/edit tree and is executed
	r.Outcome(outcome)
	if r.WantSample() && nontrivial {
		r.Sample(fmt.Sprintf("%q => %s", src, clip(outcome, 140)))
	}
}

func clip(s string, n int) string {
	if len(s) > n {
		return s[:n] + "..."
	}
	return s
}

// lineStarts: offsets at which lines start, line terminators per ES5 7.3
// (CR LF is one terminator).
func lineStarts(src string) []int {
	starts := []int{0}
	for i := 0; i < len(src); {
		c := src[i]
		switch {
		case c == '\r':
			i++
			if i < len(src) && src[i] == '\n' {
				i++
			}
			starts = append(starts, i)
		case c == '\n':
			i++
			starts = append(starts, i)
		case c == 0xE2 && i+2 < len(src) && src[i+1] == 0x80 && (src[i+2] == 0xA8 || src[i+2] == 0xA9):
			i += 3
			starts = append(starts, i)
		default:
			i++
		}
	}
	return starts
}

// positions checks (a): every error position has line >= 1, column >= 1 and
// designates a point of the input (a byte of that line, its terminator, or the
// end of the input). It reports whether some error lies beyond offset 0.
func (h *harness) positions(key, src string, err error) bool {
	pl, ok := err.(*parser.ErrorList)
	if !ok || pl == nil {
		h.mismatch(engine.Mismatch{Key: key + "#pos", Input: src, Expected: "*parser.ErrorList", Observed: fmt.Sprintf("%T", err)})
		return false
	}
	list := *pl
	starts := lineStarts(src)
	beyond := false
	for i, e := range list {
		if e == nil {
			h.mismatch(engine.Mismatch{Key: key + "#pos", Input: src, Expected: "non-nil error", Observed: fmt.Sprintf("nil entry %d", i)})
			continue
		}
		p := e.Position
		bad := ""
		switch {
		case p.Line < 1 || p.Column < 1:
			bad = "line/column below 1"
		case p.Line > len(starts):
			bad = "line beyond the input"
		default:
			off := starts[p.Line-1] + p.Column - 1
			limit := len(src)
			if p.Line < len(starts) {
				limit = starts[p.Line] // first byte of the next line
			}
			if off > limit {
				bad = "column beyond the line"
			}
			if off > 0 {
				beyond = true
			}
		}
		if bad != "" {
			h.mismatch(engine.Mismatch{Key: key + "#pos", Input: src, Expected: "position inside the input",
				Observed: fmt.Sprintf("%s: line %d column %d (%s)", bad, p.Line, p.Column, e.Message), Aux: map[string]string{"msg": e.Message}})
		}
	}
	if len(list) == 0 {
		h.mismatch(engine.Mismatch{Key: key + "#pos", Input: src, Expected: "non-empty error list", Observed: "empty list returned as error"})
	}
	return beyond
}

// noEffect checks (c): running a source the parser rejects changes nothing.
func (h *harness) noEffect(key, src string) {
	before := h.cheapState()
	var err error
	var pv interface{}
	func() {
		defer func() { pv = recover() }()
		_, err = h.vm.Run(src)
	}()
	if pv != nil {
		h.mismatch(engine.Mismatch{Key: key + "#effect", Input: src, Expected: "Run returns an error", Observed: fmt.Sprint("panic: ", pv)})
		h.freshVM()
		return
	}
	if err == nil {
		h.mismatch(engine.Mismatch{Key: key + "#effect", Input: src, Expected: "Run returns the parse error", Observed: "Run returned no error"})
	}
	if after := h.cheapState(); after != before {
		h.mismatch(engine.Mismatch{Key: key + "#effect", Input: src, Expected: before, Observed: after})
		h.freshVM()
		return
	}
	h.inBatch++
	h.lastKey, h.lastSrc = key, src
	if h.inBatch >= h.batch {
		h.flush()
	}
}

var nodeType = reflect.TypeOf((*ast.Node)(nil)).Elem()

// skipped fields: cross references and non-syntactic data, not children.
var skipField = map[string]bool{"DeclarationList": true, "Comments": true, "File": true}

type child struct {
	n        ast.Node
	typedNil bool
}

// children lists the Node-valued fields of a node by reflection (through
// non-Node structs such as ast.Property and *ast.ParameterList).
func children(n ast.Node) []child {
	var out []child
	var visit func(v reflect.Value)
	visit = func(v reflect.Value) {
		switch v.Kind() {
		case reflect.Interface:
			if v.IsNil() {
				return
			}
			if v.Type().Implements(nodeType) || v.Elem().Type().Implements(nodeType) {
				e := v.Elem()
				if e.Kind() == reflect.Ptr && e.IsNil() {
					out = append(out, child{typedNil: true})
					return
				}
				if nn, ok := v.Interface().(ast.Node); ok {
					out = append(out, child{n: nn})
				}
			}
		case reflect.Ptr:
			if v.Type().Implements(nodeType) {
				if v.IsNil() {
					return // a nil pointer field is an absent child
				}
				out = append(out, child{n: v.Interface().(ast.Node)})
				return
			}
			if !v.IsNil() && v.Elem().Kind() == reflect.Struct {
				visit(v.Elem())
			}
		case reflect.Slice:
			for i := 0; i < v.Len(); i++ {
				visit(v.Index(i))
			}
		case reflect.Struct:
			for i := 0; i < v.NumField(); i++ {
				if skipField[v.Type().Field(i).Name] || !v.Type().Field(i).IsExported() {
					continue
				}
				visit(v.Field(i))
			}
		}
	}
	rv := reflect.ValueOf(n)
	if rv.Kind() == reflect.Ptr && !rv.IsNil() {
		visit(rv.Elem())
	}
	return out
}

func hasBadNode(p *ast.Program) bool {
	found := false
	var rec func(n ast.Node)
	rec = func(n ast.Node) {
		switch n.(type) {
		case *ast.BadExpression, *ast.BadStatement:
			found = true
		}
		for _, c := range children(n) {
			if c.n != nil {
				rec(c.n)
			}
		}
	}
	rec(p)
	return found
}

type span struct {
	i0, i1 int
	ok     bool
}

func safeSpan(n ast.Node) (s span, panicMsg string) {
	defer func() {
		if p := recover(); p != nil {
			panicMsg = fmt.Sprint(p)
		}
	}()
	s.i0 = int(n.Idx0())
	s.i1 = int(n.Idx1())
	s.ok = true
	return
}

// wellFormed checks (d) on an accepted program.
func (h *harness) wellFormed(key, src string, prog *ast.Program) string {
	if prog == nil {
		h.mismatch(engine.Mismatch{Key: key + "#tree", Input: src, Expected: "a program", Observed: "nil program with nil error"})
		return "/nil"
	}
	if hasBadNode(prog) {
		h.mismatch(engine.Mismatch{Key: key + "#tree", Input: src, Expected: "no Bad node in an accepted tree", Observed: "Bad node with nil error", Aux: map[string]string{"bad": "1"}})
	}
	base := 1
	if prog.File != nil {
		base = prog.File.Base()
	}
	limit := base + len(src)
	reported := map[string]bool{}
	report := func(kind, what string, n ast.Node, exp, obs string) {
		id := kind + "/" + what
		if reported[id] {
			return
		}
		reported[id] = true
		h.mismatch(engine.Mismatch{Key: key + "#" + kind + ":" + what, Input: src, Expected: exp, Observed: obs,
			Aux: map[string]string{"node": fmt.Sprintf("%T", n), "what": what, "explain": h.explain}})
	}
	var nodes []ast.Node
	var rec func(n ast.Node, parent span, hasParent bool)
	rec = func(n ast.Node, parent span, hasParent bool) {
		nodes = append(nodes, n)
		s, pm := safeSpan(n)
		tn := fmt.Sprintf("%T", n)
		if pm != "" {
			report("span", tn+".Idx-panic", n, "Idx0/Idx1 return", "panic: "+pm)
		} else {
			switch {
			case s.i0 < base || s.i1 > limit || s.i0 > s.i1:
				report("span", tn+".outside-file", n, fmt.Sprintf("%d <= Idx0 <= Idx1 <= %d", base, limit), fmt.Sprintf("Idx0=%d Idx1=%d", s.i0, s.i1))
			case hasParent && parent.ok && (s.i0 < parent.i0 || s.i1 > parent.i1):
				report("span", tn+".outside-parent", n, fmt.Sprintf("within parent [%d,%d)", parent.i0, parent.i1), fmt.Sprintf("[%d,%d)", s.i0, s.i1))
			}
		}
		for _, c := range children(n) {
			if c.n != nil {
				rec(c.n, s, true)
			}
		}
	}
	_, isEmpty := safeSpan(prog)
	if len(prog.Body) == 0 {
		// the span of an empty program: must not panic either
		if isEmpty != "" {
			report("span", "*ast.Program.Idx-panic", prog, "Idx0/Idx1 return", "panic: "+isEmpty)
		}
		nodes = append(nodes, prog)
	} else {
		rec(prog, span{}, false)
	}
	h.stats.nodes += len(nodes)

	// ast.Walk with a recording visitor
	rec2 := &recorder{}
	var wp interface{}
	func() {
		defer func() { wp = recover() }()
		ast.Walk(rec2, prog)
	}()
	switch {
	case wp != nil:
		report("walk", "panic", prog, "Walk returns", fmt.Sprint("panic: ", wp))
	default:
		if rec2.unbalanced != "" {
			report("walk", "unbalanced", prog, "balanced Enter/Exit", rec2.unbalanced)
		}
		for _, t := range rec2.nils {
			report("walk", "nil:"+t, prog, "no nil node passed to the visitor", "Enter("+t+") with a nil node")
		}
		want := map[ast.Node]int{}
		for _, n := range nodes {
			want[n]++
		}
		for n, c := range rec2.seen {
			if want[n] != c {
				report("walk", fmt.Sprintf("count:%T", n), n, fmt.Sprintf("visited %d time(s)", want[n]), fmt.Sprintf("visited %d time(s)", c))
			}
		}
		for n, c := range want {
			if rec2.seen[n] == 0 {
				report("walk", fmt.Sprintf("missed:%T", n), n, fmt.Sprintf("visited %d time(s)", c), "never visited")
			}
		}
	}
	return fmt.Sprintf("/%d-nodes", len(nodes))
}

type recorder struct {
	stack      []ast.Node
	seen       map[ast.Node]int
	nils       []string
	unbalanced string
}

func isNilNode(n ast.Node) bool {
	if n == nil {
		return true
	}
	v := reflect.ValueOf(n)
	return v.Kind() == reflect.Ptr && v.IsNil()
}

func (r *recorder) Enter(n ast.Node) ast.Visitor {
	if r.seen == nil {
		r.seen = map[ast.Node]int{}
	}
	if isNilNode(n) {
		t := fmt.Sprintf("%T", n)
		dup := false
		for _, x := range r.nils {
			dup = dup || x == t
		}
		if !dup {
			r.nils = append(r.nils, t)
			sort.Strings(r.nils)
		}
	} else {
		r.seen[n]++
	}
	r.stack = append(r.stack, n)
	return r
}

func (r *recorder) Exit(n ast.Node) {
	if len(r.stack) == 0 {
		r.unbalanced = "Exit without Enter"
		return
	}
	top := r.stack[len(r.stack)-1]
	r.stack = r.stack[:len(r.stack)-1]
	if isNilNode(top) != isNilNode(n) || !isNilNode(n) && top != n {
		r.unbalanced = fmt.Sprintf("Exit(%T) does not match Enter(%T)", n, top)
	}
}

var reIncompatible = regexp.MustCompile(`\(\?[=!]|\\[1-9]`)

// sigIgnoreRegExpErrors: under parser.IgnoreRegExpErrors a pattern that
// contains a look-ahead or a back-reference (what TransformRegExp calls an
// RE2 compatibility error) is not validated at all: the only reason the
// reference rejects the text is the regexp body.
func sigIgnoreRegExpErrors(m *engine.Mismatch) bool {
	src, ok := m.Input.(string)
	return ok && m.Expected == "reject" && m.Observed == "accept" && m.Aux["mode"] == fmt.Sprint(uint(parser.IgnoreRegExpErrors)) &&
		m.Aux["explain"] == "regex-body" && reIncompatible.MatchString(src)
}

// sigIdxEmptyList: Idx0/Idx1 of a node whose span is derived from a child
// list panics when that list is empty (case clause without statements, the
// always-allocated for-initializer sequence, the empty program).
func sigIdxEmptyList(m *engine.Mismatch) bool {
	if !strings.HasPrefix(m.Observed, "panic: runtime error: index out of range [") {
		return false
	}
	switch m.Aux["what"] {
	case "*ast.CaseStatement.Idx-panic", "*ast.SequenceExpression.Idx-panic", "*ast.Program.Idx-panic":
		return strings.HasSuffix(m.Observed, "with length 0") || strings.HasSuffix(m.Observed, "[-1]")
	}
	return false
}

// sigWalkTypedNil: ast.Walk passes a typed-nil *ast.Identifier (absent label /
// function name) or *ast.CatchStatement (try without catch) to Enter.
func sigWalkTypedNil(m *engine.Mismatch) bool {
	switch m.Aux["what"] {
	case "nil:*ast.Identifier", "nil:*ast.CatchStatement":
		return strings.HasPrefix(m.Observed, "Enter(")
	}
	return false
}

// sigSilentBadNode: see F-C03-010; the same defect seen from C04's side (an
// accepted tree that contains a Bad node, which the reference rejects or not).
func sigSilentBadNode(m *engine.Mismatch) bool {
	src, ok := m.Input.(string)
	if !ok || m.Aux["bad"] != "1" {
		return false
	}
	return syntax.Parse(src, syntax.Options{Quirk: syntax.QuirkDotNameLettersOnly}).BadNode
}

func (h *harness) finish(name string) {
	h.flush()
	var cl []string
	for c := range h.classes {
		cl = append(cl, c)
	}
	sort.Strings(cl)
	for _, c := range cl {
		if len(cl) <= 40 {
			h.r.Note(fmt.Sprintf("%s shard %d: mismatch class %s: %d cases, e.g. %s", name, h.r.Shard, c, h.classes[c].n, h.classes[c].example))
		}
	}
	h.r.Note(fmt.Sprintf("%s shard %d: otto accepted %d, rejected %d; reference consulted %d, of which it rejects %d; %d nodes span/Walk-checked",
		name, h.r.Shard, h.stats.accepted, h.stats.rejected, h.stats.refConsulted, h.stats.refRejected, h.stats.nodes))
}
