package c04

import (
	"bytes"
	"fmt"
	"os"
	"os/exec"

	"github.com/robertkrimen/otto/ast"
	"github.com/robertkrimen/otto/file"
	"github.com/robertkrimen/otto/parser"
	"sort"
	"strings"

	"verif/mc/checks/c03"
	"verif/mc/engine"
	"verif/mc/ref/syntax"
)

// byteAlphabet: 40 bytes that reach every branch of the lexer's first switch.
var byteAlphabet = []byte("a1x0\"'\\/*+-=(){}[];,.:?!<>&|^~% \n\r\t\x80\xc3\xa9\xe2\xff")

// runBytes: all byte strings of length <= 2, and of length 3 over the alphabet.
func runBytes(r *engine.Run) {
	h := newHarness(r, 64)
	if mine(r, "len0") {
		h.one("len0", "")
	}
	for a := 0; a < 256; a++ {
		if k := fmt.Sprintf("1/%02x", a); mine(r, k) {
			h.one(k, string([]byte{byte(a)}))
		}
	}
	for a := 0; a < 256; a++ {
		for b := 0; b < 256; b++ {
			if k := fmt.Sprintf("2/%02x%02x", a, b); mine(r, k) {
				h.one(k, string([]byte{byte(a), byte(b)}))
			}
		}
	}
	for _, a := range byteAlphabet {
		for _, b := range byteAlphabet {
			for _, c := range byteAlphabet {
				if k := fmt.Sprintf("3/%02x%02x%02x", a, b, c); mine(r, k) {
					h.one(k, string([]byte{a, b, c}))
				}
			}
		}
	}
	if r.Thorough() {
		small := byteAlphabet[:20]
		for _, a := range small {
			for _, b := range small {
				for _, c := range small {
					for _, d := range byteAlphabet {
						if k := fmt.Sprintf("4/%02x%02x%02x%02x", a, b, c, d); mine(r, k) {
							h.one(k, string([]byte{a, b, c, d}))
						}
					}
				}
			}
		}
		r.Bound("len4", "20^3 x 40 bytes")
	}
	r.Bound("all_bytes_len", "2")
	r.Bound("alphabet_len3", fmt.Sprint(len(byteAlphabet)))
	h.finish("bytes")
}

var malformed = []string{
	"\xc3", "\xe2\x82", "\xf0\x9f\x98", "\xc0\x80", "\xc1\xbf", "\xe0\x80\x80", "\xf0\x80\x80\x80", "\xed\xa0\x80", "\xed\xbf\xbf",
	"\xfe", "\xff", "\x80", "\xbf", "\xf8\x88\x80\x80\x80", "\xf4\x90\x80\x80", "\xe2\x28\xa1", "\xf0\x28\x8c\xbc", "\xc3\x28",
}

var carriers = []string{
	"x = \"a\u00e9\" ;", "// c\u00e9\nx ( ) ;", "/* \u00e9 */ x ( ) ;", "\u00e9 = 1 ; x ( ) ;", "x = /\u00e9/g ;", "if ( a ) { x ( '\u20ac' ) }",
}

// runUTF8: every malformed sequence inserted at, and substituted at, every byte position of the carriers.
func runUTF8(r *engine.Run) {
	h := newHarness(r, 32)
	for ci, c := range carriers {
		for p := 0; p <= len(c); p++ {
			for mi, m := range malformed {
				if k := fmt.Sprintf("ins/%d/%d/%d", ci, p, mi); mine(r, k) {
					h.one(k, c[:p]+m+c[p:])
				}
				if p < len(c) {
					if k := fmt.Sprintf("sub/%d/%d/%d", ci, p, mi); mine(r, k) {
						h.one(k, c[:p]+m+c[p+1:])
					}
				}
			}
		}
	}
	r.Bound("carriers", fmt.Sprint(len(carriers)))
	r.Bound("malformations", fmt.Sprint(len(malformed)))
	h.finish("utf8")
}

type alphabet struct {
	name   string
	tokens []string
	quick  int // maximal length in the quick tier
	thor   int // maximal length in the thorough tier
}

// alphabets: ten 16-token alphabets chosen so that together they reach every
// statement parser, every punctuator class, reserved words used as
// identifiers, good and bad regular expression literals, Go's &^ tokens, the
// object literal forms and the restricted productions; "\n" is a token.
var alphabets = []alphabet{
	{"core", strings.Fields(`x 1 "s" ( ) { } ; , = + ++ / function var if`), 5, 6},
	{"loops", strings.Fields(`for in while do break continue x ( ) ; { } var = L :`), 4, 5},
	{"jumps", strings.Fields(`return switch case default try catch finally throw x ( ) { } : ; function`), 4, 5},
	{"members", append(strings.Fields(`with new ? : . [ ] ( ) , x 1 ++ - typeof`), "\n"), 4, 5},
	{"reserved", strings.Fields(`class enum super const export import extends null true this x = ( ) ; var`), 4, 5},
	{"regexp", append(strings.Fields(`/a/ /(/ /[/ /a/gg /(?=a)/ /\1/ x = / ( ) g 1 ; +`), "\n"), 4, 5},
	{"andnot", append(strings.Fields(`&^ &^= x = 1 ; ( ) + & ^ ^= &= a ,`), "\n"), 4, 5},
	{"object", strings.Fields(`get set x { } ( ) : , = 1 "s" if function ; a`), 4, 5},
	{"asi", append(strings.Fields(`x ; ++ -- return break { } ( ) function L : = 1`), "\n"), 4, 5},
	{"labels", strings.Fields(`L : M for ( ; ) { } continue break while do x function if`), 4, 5},
}

// runTokens: every token string up to the tier's length over each alphabet.
func runTokens(r *engine.Run) {
	h := newHarness(r, 2048)
	for _, a := range alphabets {
		max := a.quick
		if r.Thorough() {
			max = a.thor
		}
		idx := make([]int, 0, max)
		var rec func()
		stop := false
		rec = func() {
			if stop {
				return
			}
			if len(idx) > 0 {
				var kb strings.Builder
				kb.WriteString(a.name)
				kb.WriteByte('/')
				for _, i := range idx {
					kb.WriteByte("0123456789abcdef"[i])
				}
				if key := kb.String(); mine(r, key) {
					parts := make([]string, len(idx))
					for j, i := range idx {
						parts[j] = a.tokens[i]
					}
					h.one(key, strings.Join(parts, " "))
				}
			}
			if len(idx) == max {
				return
			}
			if len(idx) == 2 && r.Expired() {
				stop = true
				return
			}
			for i := range a.tokens {
				idx = append(idx, i)
				rec()
				idx = idx[:len(idx)-1]
			}
		}
		rec()
		if stop {
			r.Cap("time budget reached in alphabet " + a.name)
			break
		}
		r.Bound(a.name+"_len", fmt.Sprint(max))
	}
	h.finish("tokens")
}

// editAlphabet: tokens inserted / substituted by the edit families.
var editAlphabet = append(strings.Fields(`x 1 ( ) { } [ ] ; , = + ++ / . : ? in if else for function var return break continue L case default catch new "s" /a/ &^= get`), "\n")

type edit struct {
	kind string // del ins rep swap
	pos  int
	tok  int
}

func edits(n int) []edit {
	var out []edit
	for p := 0; p < n; p++ {
		out = append(out, edit{"del", p, 0})
	}
	for p := 0; p+1 < n; p++ {
		out = append(out, edit{"swap", p, 0})
	}
	for p := 0; p <= n; p++ {
		for t := range editAlphabet {
			out = append(out, edit{"ins", p, t})
		}
	}
	for p := 0; p < n; p++ {
		for t := range editAlphabet {
			out = append(out, edit{"rep", p, t})
		}
	}
	return out
}

func apply(toks []string, e edit) []string {
	out := make([]string, 0, len(toks)+1)
	switch e.kind {
	case "del":
		out = append(out, toks[:e.pos]...)
		out = append(out, toks[e.pos+1:]...)
	case "swap":
		out = append(out, toks...)
		out[e.pos], out[e.pos+1] = out[e.pos+1], out[e.pos]
	case "ins":
		out = append(out, toks[:e.pos]...)
		out = append(out, editAlphabet[e.tok])
		out = append(out, toks[e.pos:]...)
	case "rep":
		out = append(out, toks...)
		out[e.pos] = editAlphabet[e.tok]
	}
	return out
}

func (e edit) key() string { return fmt.Sprintf("%s%d.%d", e.kind, e.pos, e.tok) }

func corpus(r *engine.Run) [][]string {
	var out [][]string
	for _, s := range c03.CorpusTexts() {
		if !syntax.Parse(s, syntax.Options{}).Accepted() {
			r.HarnessError("corpus program rejected by the reference: " + s)
			continue
		}
		out = append(out, strings.Split(s, " "))
	}
	return out
}

// runMutations: every byte prefix and every single-token edit of the corpus.
func runMutations(r *engine.Run) {
	h := newHarness(r, 64)
	cp := corpus(r)
	for ci, toks := range cp {
		src := strings.Join(toks, " ")
		for p := 0; p <= len(src); p++ {
			if k := fmt.Sprintf("%d/prefix/%d", ci, p); mine(r, k) {
				h.one(k, src[:p])
			}
		}
		for _, e := range edits(len(toks)) {
			if k := fmt.Sprintf("%d/%s", ci, e.key()); mine(r, k) {
				h.one(k, strings.Join(apply(toks, e), " "))
			}
		}
	}
	r.Bound("corpus", fmt.Sprint(len(cp)))
	r.Bound("edit_tokens", fmt.Sprint(len(editAlphabet)))
	h.finish("mutations")
}

// runMutations2: all ordered pairs of edits of the 30 shortest corpus programs.
func runMutations2(r *engine.Run) {
	h := newHarness(r, 512)
	cp := corpus(r)
	sort.SliceStable(cp, func(i, j int) bool { return len(cp[i]) < len(cp[j]) })
	if len(cp) > 30 {
		cp = cp[:30]
	}
	// a smaller insertion alphabet keeps the product tractable
	small := map[string]bool{}
	for _, t := range strings.Fields(`x ( ) { } ; , = + : in function var L`) {
		small[t] = true
	}
	small["\n"] = true
	keep := func(e edit) bool {
		return e.kind == "del" || e.kind == "swap" || small[editAlphabet[e.tok]]
	}
	for ci, toks := range cp {
		for _, e1 := range edits(len(toks)) {
			if !keep(e1) {
				continue
			}
			t1 := apply(toks, e1)
			if r.Expired() {
				r.Cap("time budget reached")
				h.finish("mutations2")
				return
			}
			for _, e2 := range edits(len(t1)) {
				if !keep(e2) {
					continue
				}
				if k := fmt.Sprintf("%d/%s/%s", ci, e1.key(), e2.key()); mine(r, k) {
					h.one(k, strings.Join(apply(t1, e2), " "))
				}
			}
		}
	}
	r.Bound("programs", fmt.Sprint(len(cp)))
	h.finish("mutations2")
}

// runValid: spans and ast.Walk on valid programs that contain every node kind.
func runValid(r *engine.Run) {
	h := newHarness(r, 64)
	c03.ValidTexts(func(key, src string) {
		if mine(r, key) {
			h.one(key, src)
		}
		if k2 := key + "/compact"; mine(r, k2) {
			h.one(k2, strings.ReplaceAll(strings.ReplaceAll(src, " ( ", "("), " ) ", ")"))
		}
	})
	extras := []string{
		"", " ", "\n", ";", "switch ( a ) { case 1 : }", "switch ( a ) { default : }", "for ( ; ; ) ;", "for ( ; ; ) { }",
		"break ;", "L : break L ;", "try { } finally { }", "( function ( ) { } )", "a . b\u0663", "x = (a)++", "(a)", "new a", "new (a)",
		"\ufeffx", "x\ufeff", "x = /a/ g", "/a/", "1", "'s'", "a\n++\nb", "/* c */", "// c", "({})", "({ get a ( ) { } , set a ( v ) { } })",
		"function f ( a , b ) { return a }", "x = function g ( ) { }", "if ( a ) ; else ;", "do ; while ( a )", "with ( a ) ;", "throw a",
		"var a = 1 , b", "a ? b : c", "a , b , c", "[ , a , , ]", "a [ b ] ( c ) . d", "this", "null", "true", "debugger",
	}
	for i, s := range extras {
		if k := fmt.Sprintf("extra/%d", i); mine(r, k) {
			h.one(k, s)
		}
	}
	h.finish("valid")
}

// runPairs: the ASI matrix of C03 seen from the reject side (and totality,
// spans, Walk on the accepted ones).
func runPairs(r *engine.Run) {
	h := newHarness(r, 64)
	c03.ASITexts(r.Thorough(), func(key, src string) {
		if mine(r, key) {
			h.one(key, src)
		}
	})
	// restricted production that is an error
	for _, lt := range []string{"\n", "\r", "\r\n", "\u2028", "\u2029", "/*\n*/", "//c\n"} {
		for i, s := range []string{"throw%sa ;", "function f ( ) { throw%sa }", "try { throw%s} catch ( e ) { }", "if ( a )%selse b", "for ( a%s b%s c ) ;", "do a%swhile ( b ) c"} {
			if k := fmt.Sprintf("err/%d/%q", i, lt); mine(r, k) {
				h.one(k, strings.ReplaceAll(s, "%s", lt))
			}
		}
	}
	h.finish("pairs")
}

// runNoIn: the NoIn matrix (C03's generator) from the reject side: an `in`
// that ES5 does not admit in the first clause of a for header must be rejected.
func runNoIn(r *engine.Run) {
	h := newHarness(r, 64)
	c03.NoInTexts(func(key, src string) {
		if mine(r, key) {
			h.one(key, src)
		}
	})
	h.finish("noin")
}

// runSpellings: C03's spelling lattice from the reject side: a string or
// numeric spelling of get / set / a label / a flag is not the contextual word.
func runSpellings(r *engine.Run) {
	h := newHarness(r, 64)
	c03.SpellingTexts(func(key, src string) {
		if mine(r, key) {
			h.one(key, src)
		}
	})
	h.finish("spellings")
}

// runComments: comment contents (including source-map directives) keep
// parsing total: a tree, or an error list with positions inside the input.
func runComments(r *engine.Run) {
	h := newHarness(r, 256)
	max := 4
	if r.Thorough() {
		max = 5
	}
	c03.CommentTexts(max, func(key, src string) {
		if mine(r, key) {
			h.one(key, src)
		}
	})
	r.Bound("pieces", fmt.Sprint(max))
	h.finish("comments")
}

// runLiterals: numeric and string literal spellings, valid or not.
func runLiterals(r *engine.Run) {
	h := newHarness(r, 256)
	const alphabet = "0179.eE+-xXaF8_bo"
	maxLen := 3
	if r.Thorough() {
		maxLen = 4
	}
	var rec func(prefix string)
	rec = func(prefix string) {
		if prefix != "" {
			if k := "num/" + prefix; mine(r, k) {
				h.one(k, "x = "+prefix+" ;")
			}
		}
		if len(prefix) == maxLen {
			return
		}
		for i := 0; i < len(alphabet); i++ {
			rec(prefix + alphabet[i:i+1])
		}
	}
	rec("")
	// string literal bodies over an alphabet of escape ingredients
	const salpha = "\\xu01a8\"'\n\r"
	smax := 3
	if r.Thorough() {
		smax = 5
	}
	var srec func(prefix string)
	srec = func(prefix string) {
		if k := "str/" + fmt.Sprintf("%x", prefix); mine(r, k) {
			h.one(k, "x = \""+prefix+"\" ;")
		}
		if len(prefix) == smax {
			return
		}
		for i := 0; i < len(salpha); i++ {
			srec(prefix + salpha[i:i+1])
		}
	}
	srec("")
	for i, s := range []string{"\"a\u2028b\"", "'a\u2029b'", "\"\\u{41}\"", "\"\\", "\"", "'", "\"a", "'\\'", "\"\\u004\"", "\"\\xg0\"", "x = \"\\\u2028\"", "/", "/a", "/[/", "/a/\\u0067", "a\\u0020b", "\\u00", "a\\", "@", "#", "`", "a = 1 @", "\u0085", "a \u0085 b", "a\u180eb", "a\u200bb", "a\u2003b", "\u3000a"} {
		if k := fmt.Sprintf("misc/%d", i); mine(r, k) {
			h.one(k, s)
		}
	}
	r.Bound("num_len", fmt.Sprint(maxLen))
	r.Bound("str_len", fmt.Sprint(smax))
	h.finish("literals")
}

// runEarlyErrors: the parse-time early errors named by the property, each
// construct in each context; the reference decides which texts are errors and
// otto must reject those (the accepted ones get the tree checks).
func runEarlyErrors(r *engine.Run) {
	h := newHarness(r, 64)
	n := 0
	try := func(key, src string) {
		n++
		if mine(r, key) {
			h.one(key, src)
		}
	}
	// jumps in contexts
	jumps := []string{"break ;", "continue ;", "return ;", "return 1 ;", "break L ;", "continue L ;", "break M ;", "continue M ;"}
	contexts := []string{
		"%s", "{ %s }", "if ( a ) %s", "if ( a ) ; else %s", "L : %s", "L : { %s }", "L : M : %s", "with ( a ) %s", "try { %s } finally { }",
		"try { } catch ( e ) { %s }", "try { } finally { %s }", "switch ( a ) { case 1 : %s }", "switch ( a ) { default : %s }", "L : switch ( a ) { case 1 : %s }",
		"while ( a ) %s", "do %s while ( a ) ;", "for ( ; ; ) %s", "for ( k in o ) %s", "L : while ( a ) %s", "L : M : for ( ; ; ) { %s }", "L : { while ( a ) { %s } }",
		"M : { L : for ( ; ; ) { %s } }", "L : for ( ; ; ) { M : { %s } }", "while ( a ) { switch ( b ) { case 1 : %s } }", "L : while ( a ) { ( function ( ) { %s } ) }",
		"function f ( ) { %s }", "function f ( ) { L : %s }", "function f ( ) { while ( a ) { %s } }", "L : for ( ; ; ) { function f ( ) { %s } }", "x = function ( ) { %s } ;",
		"x = { get a ( ) { %s } } ;", "while ( a ) { x = function ( ) { while ( b ) %s } }", "L : L : %s", "L : { L : %s }", "L : { x = function ( ) { L : %s } }", "L : ; L : %s",
	}
	for ci, c := range contexts {
		for ji, j := range jumps {
			try(fmt.Sprintf("jump/%d/%d", ci, ji), strings.ReplaceAll(c, "%s", j))
		}
		try(fmt.Sprintf("jump/%d/x", ci), strings.ReplaceAll(c, "%s", "x ( ) ;"))
	}
	// sibling histories: the parser state left behind by an earlier, complete
	// sibling statement (label stack slots, iteration-label flags, inSwitch /
	// inIteration / inFunction, allowIn) must not change the verdict for the
	// next statement. Every history is placed before the whole text and
	// directly after every `{` of the context, one position at a time.
	histories := []string{
		"a : while ( 0 ) ;", "L : while ( 0 ) ;", "M : for ( ; ; ) break M ;", "a : b : for ( ; ; ) continue a ;", "L : M : do ; while ( 0 ) ;",
		"a : { }", "L : { break L ; }", "a : switch ( 0 ) { default : break a ; }", "while ( 0 ) ;", "for ( k in o ) continue ;", "switch ( 0 ) { case 1 : break ; }",
		"switch ( 0 ) { case 1 : switch ( 1 ) { } }", "function g ( ) { L : while ( 0 ) continue L ; return ; }", "h = function ( ) { M : for ( ; ; ) break M ; } ;",
		"try { } catch ( e ) { }", "for ( var i = 0 in { } ) ;", "for ( a ? p in q : d ; ; ) break ;", "a : L : ;", "if ( 0 ) L : while ( 0 ) ;", "{ L : while ( 0 ) ; }",
	}
	for hi, hs := range histories {
		for ci, c := range contexts {
			toks := strings.Split(c, " ")
			var places []int
			places = append(places, 0)
			for ti, t := range toks {
				if t == "{" {
					places = append(places, ti+1)
				}
			}
			for pi, pl := range places {
				with := strings.Join(append(append(append([]string(nil), toks[:pl]...), hs), toks[pl:]...), " ")
				for ji, j := range jumps {
					try(fmt.Sprintf("hist/%d/%d/%d/%d", hi, ci, pi, ji), strings.ReplaceAll(with, "%s", j))
				}
			}
		}
	}
	// switch clauses: every sequence of <= 4 clauses over {case, default}
	for l := 0; l <= 4; l++ {
		for m := 0; m < 1<<uint(l); m++ {
			var sb strings.Builder
			sb.WriteString("switch ( a ) {")
			for i := 0; i < l; i++ {
				if m&(1<<uint(i)) != 0 {
					sb.WriteString(" default : x ( ) ;")
				} else {
					fmt.Fprintf(&sb, " case %d : b = 1 ;", i)
				}
			}
			sb.WriteString(" }")
			try(fmt.Sprintf("switch/%d/%d", l, m), sb.String())
		}
	}
	// assignment / increment / for-in targets
	targets := []string{"a", "a . b", "a [ 0 ]", "( a )", "( a . b )", "( ( a ) )", "1", "\"s\"", "null", "true", "this", "a + b", "( a + b )", "- a", "! a", "a ++", "++ a", "( a , b )",
		"a ? b : c", "( a = b )", "[ a ]", "{ }", "( { } )", "function ( ) { }", "( function ( ) { } )", "new a", "new a ( )", "new a . b", "/r/", "typeof a", "a && b", "a = b", "void 0", "a . b . c", "a ( ) . b", "a ( ) [ 0 ]", "( a ( ) . b )"}
	for ti, t := range targets {
		for oi, op := range syntax.AssignOps() {
			try(fmt.Sprintf("assign/%d/%d", ti, oi), t+" "+op+" 1 ;")
			try(fmt.Sprintf("assign2/%d/%d", ti, oi), "x = "+t+" "+op+" 1 ;")
		}
		for oi, op := range []string{"++", "--"} {
			try(fmt.Sprintf("prefix/%d/%d", ti, oi), op+" "+t+" ;")
			try(fmt.Sprintf("postfix/%d/%d", ti, oi), t+" "+op+" ;")
			try(fmt.Sprintf("prefix2/%d/%d", ti, oi), "x = "+op+" "+t+" ;")
			try(fmt.Sprintf("postfix2/%d/%d", ti, oi), "x = "+t+" "+op+" ;")
		}
		try(fmt.Sprintf("forin/%d", ti), "for ( "+t+" in o ) ;")
		try(fmt.Sprintf("forinvar/%d", ti), "for ( var "+t+" in o ) ;")
	}
	// try without handler, catch parameter forms
	for i, s := range []string{"try { }", "try { } x ( )", "try { } catch { }", "try { } catch ( ) { }", "try { } catch ( 1 ) { }", "try { } catch ( a , b ) { }", "try { } catch ( a . b ) { }",
		"try x ( ) ; catch ( e ) { }", "try { } catch ( e ) x ( )", "try { } finally x ( )", "try { } finally { } catch ( e ) { }", "try { } catch ( e ) { } catch ( f ) { }", "catch ( e ) { }", "finally { }",
		"try { } catch ( e ) { } finally { } finally { }", "else x ( )", "case 1 : x ( )", "default : x ( )", "if ( a ) else b", "if a b", "while ( ) x ( )", "do x ( ) while a", "for ( ; ) ;", "for ( ; ; ; ) ;",
		"for ( var a , b in c ) ;", "for ( var a = 1 , b = 2 in c ) ;", "for ( a in b in c ) ;", "for ( a in b ; ; ) ;", "for ( var in o ) ;", "for ( in o ) ;", "with x ( )", "switch ( a ) { x ( ) }", "switch ( a ) { case : }",
		"switch a { }", "function ( ) { }", "function f { }", "function f ( ) x ( )", "function f ( 1 ) { }", "function f ( a , , b ) { }", "function f ( a b ) { }", "var", "var 1", "var a =", "var a , ;", "throw ;", "throw", "new", "a .", "a . 1", "a [ ]",
		"a ( , )", "a ( b c )", "( )", "( a", "a )", "[ a", "a ]", "{ a : }", "x = { a }", "x = { a : 1 , , }", "x = { , }", "x = [ a b ]", "a ? b", "a ? : c", "a ? b : ", "a = ", "= a", "a + ", "* a", "a * * b", "a ! b", "a ~ b", "! ", "typeof", "delete", "void",
		"x = { get a ( ) { } , get a ( ) { } }", "x = { a : 1 , get a ( ) { } }", "x = { get a ( ) { } , a : 1 }", "x = { set a ( v ) { } , set a ( w ) { } }", "x = { a : 1 , a : 2 }", "x = { get a ( ) { } , set a ( v ) { } }", "x = { get a ( b ) { } }",
		"x = { set a ( ) { } }", "x = { set a ( b , c ) { } }", "x = { get : 1 , set : 2 }", "x = { get get ( ) { } }", "x = { get ( ) { } }", "x = { get a : 1 }", "x = { \"a\" 1 }", "x = { 1 }", "x = { a : 1 b : 2 }", "f ( a , )", "new f ( a , )",
		"( function ( a , ) { } )", "function f ( a , ) { }", "( a ) : x ( )", "do ; while ( 0 ) x ( )", "if ( a ) function g ( ) { }", "{ function g ( ) { } }", "L : function g ( ) { }", "while ( a ) function g ( ) { }",
		"L : { for ( ; ; ) { continue L ; } }", "L : if ( a ) while ( b ) continue L ;", "a &^= b", "a &^ b", "a = b &^ c", "for ( a < b in c ; ; ) ;", "x = /[/", "x = /[/ ; x ( )", "switch ( a ) {", "switch ( a ) { case 1 : x ( )",
		"x = /a/in b ;", "x = /a/instanceof b ;", "x = /a/g in b ;", "x = /a/ in b ;", "x = /a/\nin b ;", "a \u0085 + b", "x = /a/ g ;", "( /a/\ng )", "\r!\n", "a =\r1\n+ 2", "a . new\n++ b", "x . with\n++"} {
		try(fmt.Sprintf("misc/%d", i), s)
	}
	// reserved words where an Identifier is required
	words := strings.Fields(`break case catch continue debugger default delete do else finally for function if in instanceof new return switch this throw try typeof var void while with
		class const enum export extends import super null true false let static yield implements interface package private protected public undefined NaN eval arguments get set of`)
	positions := []string{"var %s ;", "var %s = 1 ;", "function %s ( ) { }", "function f ( %s ) { }", "x = function %s ( ) { } ;", "x = function ( a , %s ) { } ;", "try { } catch ( %s ) { }", "%s : x ( ) ;", "L : for ( ; ; ) break %s ;",
		"x = %s ;", "%s = 1 ;", "%s ++ ;", "x = a . %s ;", "x = { %s : 1 } ;", "x = { get %s ( ) { } } ;", "for ( var %s in o ) ;", "for ( %s in o ) ;", "%s ( ) ;", "x = { set a ( %s ) { } } ;"}
	for wi, w := range words {
		for pi, p := range positions {
			try(fmt.Sprintf("word/%d/%d", wi, pi), strings.ReplaceAll(p, "%s", w))
		}
	}
	// regular expression literals: bodies x flags
	bodies := []string{"a", "(", ")", "[", "]", "a)", "(a", "(?:a)", "(?=a)", "(?!a)", "(?a)", "(?", "a*", "*", "a**", "a+?", "+", "?", "a{1}", "a{1,}", "a{1,2}", "a{2,1}", "a{1}{2}", "{1}", "a{", "a{,1}", "^*", "$+", "\\b*", "(?=a)*",
		"[a-z]", "[z-a]", "[a-\\d]", "[\\d-a]", "[]", "[^]", "[\\]]", "[/]", "\\/", "\\", "a|b", "|", "a||b", "(|)", "\\1", "(a)\\1", "\\2(a)", "\\x41", "\\xZ", "\\u0041", "\\u00", "\\cA", "\\c1", "\\0", "\\08", ".", "\\.", "a\\"}
	for bi, b := range bodies {
		for fi, f := range []string{"", "g", "i", "m", "gim", "mig", "gg", "x", "gx", "G", "ii", "gimg", "1", "g1", "$", "_"} {
			try(fmt.Sprintf("regex/%d/%d", bi, fi), "x = /"+b+"/"+f+" ;")
		}
	}
	// structural regular expression bodies: each early-error atom (and a few
	// valid controls) at top level, inside every kind of group and nesting, in
	// each alternative, after each kind of atom, and inside classes.
	atoms, places := regexAtoms, regexPlaces
	for ai, a := range atoms {
		for pi, pl := range places {
			body := strings.ReplaceAll(pl, "X", a)
			for fi, fl := range []string{"", "g"} {
				try(fmt.Sprintf("restruct/%d/%d/%d", ai, pi, fi), "x = /"+body+"/"+fl+" ;")
			}
			try(fmt.Sprintf("restruct/%d/%d/test", ai, pi), "hit = 1 ; /"+body+"/ . test ( a ) ;")
		}
	}
	r.Bound("cases", fmt.Sprint(n))
	h.finish("earlyerrors")
}

// structural regular expression bodies: early-error atoms (and valid controls)
// and the placements they are put in (X).
var regexAtoms = []string{"^*", "$+", "\\b?", "\\B{2}", "^{1,}", "${2,3}", "^+?", "*", "+", "?", "{2}", "{2,}", "a**", "a+*", "a?{2}", "a{1}{2}", "a{2,1}", "a{3,2}?", ")", "(", "(?", "(?a)", "(?<a)",
	"[", "[z-a]", "[a-\\d-z]", "\\", "a|*", "(|*)", "a", "^", "$", "\\b", "a*", "a{2}", "[*]", "\\*", "(?:)", "()"}
var regexPlaces = []string{"X", "(X)", "(?:X)", "((X))", "(?:(X))", "((?:X))", "(((X)))", "(?=X)", "(?!X)", "X|b", "a|X", "a|X|b", "(a|X)", "(?:X|b)", "(a)|(X)", "aX", "\\dX", "[a]X", "(a)X", ".X", "\\bX",
	"Xa", "X(a)", "a(X)b", "(a(X))", "(X)(X)", "(X)*", "(?:X)+", "[X]", "[^X]", "[aX]", "[X-]", "(a)\\1X", "a{2}X", "a|(X{2})", "((X)x)"}

// runRegexMode: parser.IgnoreRegExpErrors (not the mode of Otto.Run) only
// waives RE2 compatibility: a body that 15.10.1 rejects must still be rejected,
// in particular when it also contains a look-ahead or a back-reference.
func runRegexMode(r *engine.Run) {
	h := newHarness(r, 64)
	h.mode = parser.IgnoreRegExpErrors
	around := []string{"B", "(?=a)B", "B(?=a)", "(?!a)B", "B(?!a)", "(a)\\1B", "B(a)\\1", "(?:(?=a)B)", "a|(?=b)B", "(?=a)|B", "(?=B)", "(?=a)(B)", "\\1(B)"}
	for ai, a := range regexAtoms {
		for pi, pl := range regexPlaces {
			body := strings.ReplaceAll(pl, "X", a)
			for wi, w := range around {
				if wi > 0 && pi > 8 && !r.Thorough() {
					continue // quick: the incompatible neighbours with the first nine placements
				}
				if k := fmt.Sprintf("%d/%d/%d", ai, pi, wi); mine(r, k) {
					h.one(k, "x = /"+strings.ReplaceAll(w, "B", body)+"/ ;")
				}
			}
		}
	}
	r.Bound("mode", "parser.IgnoreRegExpErrors")
	h.finish("regexmode")
}

// runLexErrors: every lexical early error as one token, followed - across each
// kind of separator - by every class of next token. State that belongs to the
// erroneous token must not be consulted after the cursor has moved: the text
// stays rejected (the reference decides; a few juxtapositions without a
// separator merge into a valid token, e.g. `1e` `5`) and running it has no effect.
func runLexErrors(r *engine.Run) {
	h := newHarness(r, 64)
	bad := []string{
		`'\x4'`, `"\xg1"`, `'\x'`, `'\u00g0'`, `"\u12"`, `'\u'`, `"a\u123"`, `'\xZZb'`,
		"3in", "3a", "08", "09.5", "1e", "1e+", "1.e-", "0x", "0xg", "1_0", "0b1", "1.2.3", "5..",
		"'abc", "\"abc", "'a\\", "/abc", "/[/", "/a\\", "/* c", "/a/gg", "/a/x", "/(/", "/a**/", "/*/",
		`\u00`, `a b`, `1a`, `a\`, `\x41`, "@", "#", "`", "a@",
	}
	prefixes := []string{"", "x = ", "hit = 1 ; ", "f ( ", "a = [ "}
	seps := []string{"", " ", "\n", " // c\n", " /* c */ ", "/*\n*/", " ;", " ;\n", "\r\n", "\r", "\u2028", "\n\n", ","}
	next := []string{
		"", "'b'", "\"use strict\"", "\"b\" ;", "'b'\n'c'", `'\x41'`, `"a\nb"`, `'A' ;`, "1", ".5", "0x1", "1e3", "/r/g", "/=r/", "/[/]/ ;", "b", "b ;", "b ( )", "this", "null", "true",
		"in b", "instanceof b", "if ( b ) c", "function g ( ) { }", "var v", "return", "typeof b", "new B", "else", "case", "debugger", "x ( ) ;",
	}
	for _, p := range strings.Fields(`{ } ( ) [ ] . ; , < > <= >= == != === !== + - * % ++ -- << >> >>> & | ^ ! ~ && || ? : = += -= *= %= <<= >>= >>>= &= |= ^= / /=`) {
		next = append(next, p, p+" b")
	}
	for bi, b := range bad {
		for pi, p := range prefixes {
			for si, s := range seps {
				for ni, n := range next {
					if k := fmt.Sprintf("%d/%d/%d/%d", bi, pi, si, ni); mine(r, k) {
						h.one(k, p+b+s+n)
					}
				}
			}
		}
	}
	// positions where the parser admits a WIDER token class than an expression
	// does (property names, names after a dot, labels, declared names, jump
	// labels, regexp flags ...): the erroneous token must be rejected there too.
	widening := []string{
		"x = { BAD : 1 }", "x = { BAD : hit }", "( { BAD : 1 } )", "x = { a : 1 , BAD : 2 }", "x = { BAD : 1 , a : 2 }", "x = { get BAD ( ) { } }", "x = { set BAD ( v ) { } }",
		"x = { get BAD ( ) { return 1 } , set BAD ( v ) { } }", "x = { get : BAD }", "x = { BAD }", "x = { BAD ( ) { } }",
		"a . BAD", "a . BAD ( )", "a . BAD = 1", "a . BAD . b", "a . b . BAD ;", "this . BAD",
		"BAD : ;", "BAD : while ( 0 ) ;", "L : BAD : ;", "L : for ( ; ; ) break BAD", "L : for ( ; ; ) continue BAD ;", "L : for ( ; ; ) { break BAD }",
		"function BAD ( ) { }", "function f ( BAD ) { }", "function f ( a , BAD ) { }", "x = function BAD ( ) { }", "x = function ( BAD ) { }", "x = { set a ( BAD ) { } }",
		"var BAD", "var BAD = 1", "var a , BAD", "var a = 1 , BAD = 2 ;", "for ( var BAD in o ) ;", "for ( var BAD = 0 ; ; ) break ;", "for ( BAD in o ) ;", "for ( a in BAD ) ;",
		"try { } catch ( BAD ) { }", "switch ( a ) { case BAD : }", "switch ( a ) { case BAD : x ( ) ; default : }", "switch ( BAD ) { }",
		"x = /a/BAD", "x = /a/ BAD", "x = /a/gBAD ;", "new BAD", "new BAD ( )", "typeof BAD", "delete BAD", "a [ BAD ]", "f ( BAD )", "f ( a , BAD )", "( BAD )", "[ BAD ]", "[ a , BAD ]",
		"BAD ++", "++ BAD", "BAD = 1", "a ? BAD : b", "a ? b : BAD", "a , BAD", "a + BAD", "BAD + a", "a in BAD", "BAD in a", "if ( BAD ) ;", "while ( BAD ) ;", "do ; while ( BAD )",
		"with ( BAD ) ;", "throw BAD", "function f ( ) { return BAD }", "hit = 1 ; x = { BAD : hit } ; hit = 2",
	}
	for bi, b := range bad {
		for wi, w := range widening {
			if k := fmt.Sprintf("w/%d/%d", bi, wi); mine(r, k) {
				h.one(k, strings.ReplaceAll(w, "BAD", b))
			}
			if k := fmt.Sprintf("wc/%d/%d", bi, wi); mine(r, k) {
				// the same with no white space around the token
				h.one(k, strings.ReplaceAll(strings.ReplaceAll(strings.ReplaceAll(w, " BAD ", b), " BAD", b), "BAD ", b))
			}
		}
	}
	r.Bound("widening_contexts", fmt.Sprint(len(widening)))
	r.Bound("bad_tokens", fmt.Sprint(len(bad)))
	r.Bound("separators", fmt.Sprint(len(seps)))
	r.Bound("next_tokens", fmt.Sprint(len(next)))
	h.finish("lexerrors")
}

type deepProduction struct {
	name, pre, mid, post string
}

// deepProductions: one text shape per recursive production of the grammar
// (and per iterative chain that builds a deep tree).
// iterativeChains are parsed by loops: accepting them is fine; every other
// shape recurses in the parser and must run into its nesting bound.
var deepProductions = []deepProduction{
	{"paren", "(", "a", ")"}, {"paren-open", "(", "a", ""}, {"array", "[", "a", "]"}, {"array-open", "[", "", ""}, {"object", "{a:", "1", "}"}, {"object-open", "{a:", "", ""},
	{"block", "{", "", "}"}, {"block-open", "{", "", ""}, {"not", "!", "a", ""}, {"minus", "- ", "a", ""}, {"typeof", "typeof ", "a", ""}, {"void", "void ", "a", ""}, {"delete", "delete ", "a", ""},
	{"preinc", "++", "a", ""}, {"new", "new ", "a", ""}, {"new-args", "new ", "a", "()"}, {"new-member", "new a.b(new ", "a", ")"}, {"call-arg", "f(", "a", ")"}, {"call-open", "f(", "", ""},
	{"index", "a[", "0", "]"}, {"cond-test", "a?", "b", ":c"}, {"cond-alt", "a?b:", "c", ""}, {"assign", "a=", "b", ""}, {"assign-op", "a+=", "b", ""}, {"comma-paren", "(a,", "b", ")"},
	{"function-expr", "x=function(){", "", "}"}, {"function-decl", "function f(){", "", "}"}, {"function-open", "function f(){", "", ""}, {"getter", "x={get a(){", "", "}}"},
	{"if", "if(a)", ";", ""}, {"if-else", "if(a);else ", ";", ""}, {"while", "while(a)", ";", ""}, {"for", "for(;;)", ";", ""}, {"forin", "for(a in b)", ";", ""}, {"do", "do ", ";", " while(a);"},
	{"with", "with(a)", ";", ""}, {"try", "try{", "", "}finally{}"}, {"catch", "try{}catch(e){", "", "}"}, {"switch", "switch(a){case 1:", "", "}"}, {"switch-open", "switch(a){default:", "", ""},
	{"member-chain", "", "a", ".b"}, {"index-chain", "", "a", "[0]"}, {"call-chain", "", "f", "()"}, {"binary-chain", "a+", "a", ""}, {"logical-chain", "a&&", "a", ""}, {"comma-chain", "a,", "a", ""},
	{"relational-chain", "a<", "a", ""}, {"in-chain", "a in ", "a", ""}, {"postfix-after", "", "a", "++;a"}, {"var-chain", "var a=", "1", ""}, {"var-list", "var a,", "b", ""},
	{"regexp-group", "x=/(", "a", ")/"}, {"regexp-group-open", "x=/(", "a", ""}, {"regexp-noncapture", "x=/(?:", "a", ")/"}, {"regexp-class", "x=/[", "a", "]/"}, {"regexp-alt", "x=/a|", "a", "/"},
	{"string-escapes", "x='\\\\x41", "", "'"}, {"comment-blocks", "/**/", "a", ""}, {"line-comments", "//\n", "a", ""}, {"semicolons", ";", "", ""}, {"braces-close", "}", "", ""}, {"else-chain", "if(a);else if(a)", ";", ""},
}

var iterativeChains = map[string]bool{"member-chain": true, "index-chain": true, "call-chain": true, "binary-chain": true, "logical-chain": true, "comma-chain": true,
	"relational-chain": true, "in-chain": true, "postfix-after": true, "var-list": true, "regexp-class": true, "regexp-alt": true, "string-escapes": true, "comment-blocks": true,
	"line-comments": true, "semicolons": true, "else-chain": false}

const deepN = 100000

func deepText(p deepProduction) string {
	if p.name == "string-escapes" {
		return "x='" + strings.Repeat("\\x41", deepN) + "'"
	}
	return strings.Repeat(p.pre, deepN) + p.mid + strings.Repeat(p.post, deepN)
}

// runDeepChild does nothing in an ordinary run. The deep family re-executes
// this binary with a production's name as key; the child parses the text and
// reports on stderr. (A fatal stack overflow kills the child, not the worker.)
func runDeepChild(r *engine.Run) {
	if r.ReplayKey == "" {
		return
	}
	for _, p := range deepProductions {
		if p.name != r.ReplayKey {
			continue
		}
		res := guardedParse(deepText(p), 0)
		switch {
		case res.panicked:
			fmt.Fprintf(os.Stderr, "DEEP-RESULT panic %s\n", clip(res.panicVal, 200))
		case res.err != nil:
			fmt.Fprintf(os.Stderr, "DEEP-RESULT reject %s\n", clip(res.err.Error(), 200))
		default:
			fmt.Fprintf(os.Stderr, "DEEP-RESULT accept\n")
		}
	}
}

// runDeep: every recursive production nested (and every iterative chain
// extended) 10^5 times. ParseFile must return - a tree or an error list - and
// must not take the process down; and a production that recurses in the parser
// must be stopped by the parser's nesting bound (maxNesting), because recursion
// that the bound does not see grows the stack with the input until the Go
// runtime kills the process (`new ` x 8*10^6 is a fatal stack overflow).
// Each text is parsed in a child process.
func runDeep(r *engine.Run) {
	self, err := os.Executable()
	if err != nil {
		r.HarnessError("os.Executable: " + err.Error())
		return
	}
	for _, p := range deepProductions {
		key := "deep/" + p.name
		if !mine(r, key) {
			continue
		}
		r.Begin(key)
		cmd := exec.Command(self, "worker", r.Property, "--tier", "quick", "--family", "deepchild", "--key", p.name)
		cmd.Env = append(os.Environ(), "GOTRACEBACK=none")
		var stderr bytes.Buffer
		cmd.Stderr = &stderr
		cmd.Stdout = nil
		runErr := cmd.Run()
		r.End()
		out := stderr.String()
		obs := ""
		if i := strings.Index(out, "DEEP-RESULT "); i >= 0 {
			obs = strings.TrimSpace(strings.SplitN(out[i+len("DEEP-RESULT "):], "\n", 2)[0])
		}
		r.Eval(true)
		r.Tree(1, 1)
		switch {
		case strings.HasPrefix(obs, "accept") && !iterativeChains[p.name]:
			r.Outcome(p.name + ": " + obs)
			r.Mismatch(engine.Mismatch{Key: key + "#bound", Input: fmt.Sprintf("%q x %d + %q + %q x %d", p.pre, deepN, p.mid, p.post, deepN),
				Expected: "reject (nesting bound)", Observed: "accept: recursion not covered by the nesting bound", Aux: map[string]string{"production": p.name}})
		case strings.HasPrefix(obs, "accept"), strings.HasPrefix(obs, "reject"):
			r.Outcome(p.name + ": " + obs)
			if r.WantSample() {
				r.Sample(fmt.Sprintf("%s x 10^5 (%q ... %q ... %q) => %s", p.name, p.pre, p.mid, p.post, clip(obs, 120)))
			}
		default:
			what := "child process died"
			if strings.Contains(out, "stack overflow") || strings.Contains(out, "stack exceeds") {
				what = "fatal error: stack overflow"
			} else if obs != "" {
				what = obs
			}
			r.Outcome(p.name + ": " + what)
			r.Mismatch(engine.Mismatch{Key: key + "#total", Input: fmt.Sprintf("%q x %d + %q + %q x %d", p.pre, deepN, p.mid, p.post, deepN),
				Expected: "ParseFile returns", Observed: what, Note: fmt.Sprintf("%v; %s", runErr, clip(out, 400)), Aux: map[string]string{"production": p.name}})
		}
	}
	r.Bound("depth", fmt.Sprint(deepN))
	r.Bound("productions", fmt.Sprint(len(deepProductions)))
}

// filesetTexts: at least one text per error kind (invalid UTF-8, illegal
// characters, unterminated string / regexp / comment, bad literals, every early
// error) plus valid programs, for the FileSet dimension.
func filesetTexts() []string {
	out := []string{
		"x = '\xff';", "\xffx", "x = 1 ; \xc3", "// c\xe2\x82\nx", "x = \"a\xed\xa0\x80\" ;", "/* \xfe */ x", "x = /\xff/ ;",
		"@", "x = # ;", "a \\ b", "x = `", "x = 'abc", "x = \"abc\n\"", "x = /abc", "x = /[/\n", "/* never closed", "x = 1 /* open", "x = 3in ;", "x = 08 ;", "x = 1e ;", "x = 0x ;",
		"x = '\\x4' ;", "x = \"\\u12\" ;", "\\u00 = 1", "x = /a/gg ;", "x = /(/ ;", "x = /a**/ ;", "x = /^*/ ;",
		"break ;", "continue ;", "return 1 ;", "L : L : ;", "while ( a ) break M ;", "L : { while ( a ) continue L ; }", "1 = 2 ;", "a + b = c ;", "++ 1 ;", "this ++ ;", "for ( 1 in o ) ;",
		"try { }", "switch ( a ) { default : ; default : ; }", "var class ;", "var if = 1 ;", "function ( ) { }", "function f ( a , ) { }", "x = { get a ( b ) { } } ;", "x = { + : 1 } ;",
		"( a ) : b ;", "a &^= b", "throw\na ;", "if ( a ) else b", "for ( ; ) ;", "a ? b ;", "x = ;", ") ;", "x = ( ;", "x = [ 1 , ;", "x = { a : ;", "a . 1", "new ;", "var ;", "do ; while",
		"x = 1 ;\n\ny = ) ;", "x = 1 ;\r\ny = ) ;", "x = 1 ;\u2028y = ) ;", "\n\n\n  @", "x = 1 ;\n//# sourceMappingURL=data:application/json,AAAA",
		"", ";", "x = 1 ;", "a . b\u0663", "for ( ; ; ) { }", "switch ( 1 ) { case 1 : }", "try { } finally { }", "x = /a/g . test ( 's' ) ;\n'use strict' ;",
	}
	for _, m := range malformed {
		for _, c := range carriers[:3] {
			for _, p := range []int{0, len(c) / 2, len(c)} {
				out = append(out, c[:p]+m+c[p:])
			}
		}
	}
	for i, s := range c03.CorpusTexts() {
		out = append(out, s)
		if i%4 == 0 {
			out = append(out, s[:len(s)/3], s[:2*len(s)/3], s+" )")
		}
	}
	return out
}

type fsObservation struct {
	outcome string   // "accept", "reject", "panic: ..."
	errors  []string // "line:col message" per error
	files   []string // file name per error
	spans   []string // per node, relative to the file's base: "type off0-off1"
	base    int
}

func observeInFileSet(fs *file.FileSet, name, src string) (o fsObservation) {
	defer func() {
		if p := recover(); p != nil {
			o.outcome = fmt.Sprint("panic: ", p)
		}
	}()
	prog, err := parser.ParseFile(fs, name, src, 0)
	o.outcome = "accept"
	if err != nil {
		o.outcome = "reject"
		if l, ok := err.(*parser.ErrorList); ok && l != nil {
			for _, e := range *l {
				o.errors = append(o.errors, fmt.Sprintf("%d:%d %s", e.Position.Line, e.Position.Column, e.Message))
				o.files = append(o.files, e.Position.Filename)
			}
		} else {
			o.outcome = fmt.Sprintf("reject with %T", err)
		}
	}
	if prog == nil || err != nil {
		return o // spans are required of accepted trees only
	}
	o.base = 1
	if prog.File != nil {
		o.base = prog.File.Base()
	}
	var rec func(n ast.Node)
	rec = func(n ast.Node) {
		s, pm := safeSpan(n)
		if pm != "" {
			o.spans = append(o.spans, fmt.Sprintf("%T panic", n))
		} else {
			o.spans = append(o.spans, fmt.Sprintf("%T %d-%d", n, s.i0-o.base, s.i1-o.base))
		}
		for _, c := range children(n) {
			if c.n != nil {
				rec(c.n)
			}
		}
	}
	if len(prog.Body) > 0 {
		rec(prog)
	}
	return o
}

// runFileSet: the position oracles with the file at a later base of a shared
// file.FileSet (second and third file, after files of different lengths):
// ParseFile returns, the error list is the same as for a fresh parse (same
// messages, same file-relative line:column, the right file name) and every
// node's span is the base-1 span shifted exactly by the file's base.
func runFileSet(r *engine.Run) {
	first := []string{"var first = 1;\nvar second = 2;\n", "", "x\n"}
	for ti, src := range filesetTexts() {
		key := fmt.Sprintf("t%d", ti)
		if !mine(r, key) {
			continue
		}
		r.Begin(key)
		ref := observeInFileSet(nil, "", src)
		r.End()
		for fi, f := range first {
			fs := &file.FileSet{}
			if _, err := parser.ParseFile(fs, "first.js", f, 0); err != nil {
				r.HarnessError("first file does not parse: " + err.Error())
				return
			}
			for pos, name := range []string{"second.js", "third.js"} {
				k := fmt.Sprintf("%s/%d/%d", key, fi, pos)
				r.Begin(k)
				obs := observeInFileSet(fs, name, src)
				r.End()
				r.Eval(ref.outcome != "accept" || len(ref.spans) > 0)
				r.Tree(1, 1)
				r.Outcome(obs.outcome + strings.Join(obs.errors, "|"))
				if r.WantSample() {
					r.Sample(fmt.Sprintf("%q as %s (base %d) => %s %v", clip(src, 80), name, obs.base, obs.outcome, obs.errors))
				}
				exp := fmt.Sprintf("%s errors=%q spans=%q", ref.outcome, ref.errors, ref.spans)
				got := fmt.Sprintf("%s errors=%q spans=%q", obs.outcome, obs.errors, obs.spans)
				if exp != got {
					r.Mismatch(engine.Mismatch{Key: k + "#fileset", Input: src, Expected: clip(exp, 600), Observed: clip(got, 600), Note: fmt.Sprintf("file %s at base %d", name, obs.base)})
					continue
				}
				for _, fn := range obs.files {
					if fn != name {
						r.Mismatch(engine.Mismatch{Key: k + "#filename", Input: src, Expected: name, Observed: fn})
						break
					}
				}
				if obs.outcome == "accept" && obs.base <= 1 {
					r.Mismatch(engine.Mismatch{Key: k + "#base", Input: src, Expected: "a base beyond the first file", Observed: fmt.Sprint(obs.base)})
				}
			}
		}
	}
	r.Bound("texts", fmt.Sprint(len(filesetTexts())))
	r.Bound("files", "2nd and 3rd file after 3 first files")
}
