package c04

import (
	"fmt"
	"strings"

	"verif/mc/engine"
	"verif/mc/ref/syntax"
)

// es5ReservedWords: every ES5 7.6.1 ReservedWord of non-strict code (keywords,
// future reserved words, null and the boolean literals).
var es5ReservedWords = strings.Fields(`break case catch continue debugger default delete do else finally for function if in
	instanceof new return switch this throw try typeof var void while with
	class const enum export extends import super null true false`)

// identifierPositions: texts with a hole (%W) in every position where the
// grammar demands an Identifier (7.6: an IdentifierName that is not a
// ReservedWord): binding names, labels and label references, expression
// operands and assignment targets.
var identifierPositions = []string{
	"var %W = 2 ;", "var a , %W ;", "for ( var %W in o ) ;", "for ( var %W = 0 ; ; ) break ;",
	"function %W ( ) { }", "function f ( %W ) { }", "function f ( a , %W ) { }", "x = function %W ( ) { } ;", "x = function ( %W ) { } ;",
	"x = { set a ( %W ) { } } ;", "try { } catch ( %W ) { }",
	"%W : x ;", "%W : for ( ; ; ) { break %W ; }", "%W : for ( ; ; ) { continue %W ; }", "L : for ( ; ; ) { break %W ; }",
	"x = %W ;", "x = %W + 1 ;", "x = 1 + %W ;", "%W = 3 ;", "%W ++ ;", "-- %W ;", "%W += 1 ;", "typeof %W ;", "f ( %W ) ;", "%W ( ) ;", "new %W ;",
	"%W . a ;", "%W [ 0 ] ;", "x = [ %W ] ;", "x = { a : %W } ;", "for ( %W in o ) ;", "if ( %W ) ;", "return_ = a ? %W : b ;",
	"marker = 1 ; var %W = 2 ;", "marker = 1 ; %W = 2 ;",
}

// identifierNamePositions: the hole is an IdentifierName (11.1.5, 11.2.1):
// reserved words, escaped or not, are admitted.
var identifierNamePositions = []string{
	"a . %W ;", "a . %W = 1 ;", "a . %W ( ) ;", "x = { %W : 1 } ;", "x = { get %W ( ) { } , set %W ( v ) { } } ;", "x = { a : 1 , %W : 2 } ;",
}

// escapedSpellings: every spelling class of w with \uXXXX escapes: exactly one
// character escaped (every position), every character escaped, every second
// character escaped (both phases); hex digits in lower and in upper case.
func escapedSpellings(w string) []string {
	var out []string
	seen := map[string]bool{}
	add := func(s string) {
		if !seen[s] {
			seen[s] = true
			out = append(out, s)
		}
	}
	build := func(esc func(i int) bool, format string) string {
		var b strings.Builder
		for i, c := range w {
			if esc(i) {
				fmt.Fprintf(&b, format, c)
			} else {
				b.WriteRune(c)
			}
		}
		return b.String()
	}
	for _, format := range []string{"\\u%04x", "\\u%04X"} {
		for p := range w {
			p := p
			add(build(func(i int) bool { return i == p }, format))
		}
		add(build(func(i int) bool { return true }, format))
		add(build(func(i int) bool { return i%2 == 0 }, format))
		add(build(func(i int) bool { return i%2 == 1 }, format))
	}
	return out
}

// runEscapedWords: every ES5 ReservedWord x every escaped spelling x every
// Identifier position whose plainly spelled text the reference rejects (there
// the word cannot be acting as a keyword, so only the question "is this an
// Identifier?" is asked: 7.6 says the escape contributes its character, 7.6.1
// that the result is still a ReservedWord), plus the same spellings in
// IdentifierName positions (accepted; spans and Walk checked).
func runEscapedWords(r *engine.Run) {
	h := newHarness(r, 64)
	positions, words, spellings := 0, 0, 0
	for ti, tpl := range identifierPositions {
		positions++
		for _, w := range es5ReservedWords {
			plain := strings.ReplaceAll(tpl, "%W", w)
			if syntax.Parse(plain, syntax.Options{}).Accepted() {
				r.Skip() // the word is a keyword of this position (this, null, typeof, function, new, ...)
				continue
			}
			if k := fmt.Sprintf("id/%d/%s/plain", ti, w); mine(r, k) {
				h.one(k, plain)
			}
			for si, s := range escapedSpellings(w) {
				if k := fmt.Sprintf("id/%d/%s/%d", ti, w, si); mine(r, k) {
					h.one(k, strings.ReplaceAll(tpl, "%W", s))
				}
			}
		}
	}
	for ti, tpl := range identifierNamePositions {
		positions++
		for _, w := range es5ReservedWords {
			if k := fmt.Sprintf("name/%d/%s/plain", ti, w); mine(r, k) {
				h.one(k, strings.ReplaceAll(tpl, "%W", w))
			}
			for si, s := range escapedSpellings(w) {
				if k := fmt.Sprintf("name/%d/%s/%d", ti, w, si); mine(r, k) {
					h.one(k, strings.ReplaceAll(tpl, "%W", s))
				}
			}
		}
	}
	for _, w := range es5ReservedWords {
		words++
		spellings += len(escapedSpellings(w))
	}
	r.Bound("positions", fmt.Sprint(positions))
	r.Bound("reserved_words", fmt.Sprint(words))
	r.Bound("escaped_spellings", fmt.Sprint(spellings))
	h.finish("escapedwords")
}
