package c12

import (
	"fmt"
	"math"
	"strconv"
	"strings"
	"time"

	"github.com/robertkrimen/otto"

	"verif/mc/engine"
	"verif/mc/ref/date"
)

// zones: every local/UTC twin (getters, setters, constructor vs Date.UTC) is only
// distinguishable when LocalTZA != 0. The family sets time.Local to fixed zones
// (constant offset, no daylight saving: LocalTime(t) = t + LocalTZA,
// UTC(t) = t - LocalTZA, 15.9.1.7-9 with DaylightSavingTA = 0) and checks that
//   - getTime/valueOf, the getUTC* accessors, toISOString, Date.UTC, setTime and the
//     setUTC* setters do not depend on the zone at all,
//   - get<Field>() = getUTC<Field>() of the shifted time value, getTimezoneOffset() = -LocalTZA/60000,
//   - set<Field>(...) composes from LocalTime(t) and stores TimeClip(UTC(...)) (15.9.5.28-40),
//   - new Date(y, m, ...) = TimeClip(UTC(MakeDate(...))) (15.9.3.1)
// on instants around local and UTC midnight at month ends, year ends, the leap day,
// the epoch and both ends of the time-value range. Zones with daylight-saving
// transitions need tzdata and are outside the bound.

type zone struct {
	name string
	secs int
}

var zoneList = []zone{{"+05:30", 19800}, {"-03:30", -12600}, {"+13:00", 46800}, {"-11:00", -39600}, {"+05:45:07", 20707}}

func zoneInstants(tza float64) []float64 {
	var out []float64
	seen := map[float64]bool{}
	add := func(t float64) {
		if math.Abs(t) <= 8.64e15 && !seen[t] {
			seen[t] = true
			out = append(out, t)
		}
	}
	type ymd struct{ y, m, d float64 }
	for _, c := range []ymd{{1970, 0, 1}, {1969, 11, 31}, {2000, 0, 31}, {2000, 1, 29}, {2000, 2, 1}, {1999, 11, 31}, {2001, 0, 1},
		{1900, 1, 28}, {2100, 2, 1}, {-1, 11, 31}, {0, 0, 1}, {10000, 0, 1}, {275760, 8, 13}, {275760, 8, 12}, {-271821, 3, 20}, {-271821, 3, 21}} {
		day := date.MakeDate(date.MakeDay(c.y, c.m, c.d), 0)
		for _, tod := range []float64{0, 1, 45296789, 82800000 /* 23:00 */, 86399999} {
			add(day + tod)
		}
		// local midnight and the millisecond before it
		add(day - tza)
		add(day - tza - 1)
		add(day - tza + 86399999)
	}
	return out
}

// zone setter alphabet: indices 0..7 = UTC setters + setTime (date.Setter), 8..14 = local twins
type zoneOp struct {
	idx  int // index into the prelude's ZN table
	s    date.Setter
	loc  bool
	args []float64
}

var zoneLocalNames = [...]string{"setMilliseconds", "setSeconds", "setMinutes", "setHours", "setDate", "setMonth", "setFullYear"}

func (o zoneOp) name() string {
	if o.loc {
		return zoneLocalNames[o.s]
	}
	return date.SetterNames[o.s]
}

func zoneOps() []zoneOp {
	vals := []float64{-1, 0, 1, 31, 60, 1000, math.NaN()}
	var out []zoneOp
	for idx := 0; idx < 15; idx++ {
		s, loc := date.Setter(idx), false
		if idx >= 8 {
			s, loc = date.Setter(idx-8), true
		}
		out = append(out, zoneOp{idx, s, loc, nil})
		for _, a := range vals {
			out = append(out, zoneOp{idx, s, loc, []float64{a}})
		}
		if date.SetterMaxArgs[s] >= 2 {
			for _, a := range vals {
				for _, b := range vals {
					out = append(out, zoneOp{idx, s, loc, []float64{a, b}})
				}
			}
		}
	}
	// years for revived dates
	for _, idx := range []int{6, 14} {
		out = append(out, zoneOp{idx, date.SetUTCFullYear, idx == 14, []float64{2000}}, zoneOp{idx, date.SetUTCFullYear, idx == 14, []float64{2001, 1}})
	}
	return out
}

func localFieldsString(t, tza float64) string {
	if math.IsNaN(t) {
		return fieldsString(t)
	}
	return fieldsString(t + tza)
}

func runZones(r *engine.Run) {
	defer func() { time.Local = time.UTC }()
	d := newDriver(r)
	es5 := date.Variant{}
	ops := zoneOps()
	stop := false
	expired := func() bool {
		if !stop && r.Expired() {
			r.Cap("time budget reached")
			stop = true
		}
		return stop
	}
	for zi, z := range zoneList {
		time.Local = time.FixedZone(z.name, z.secs)
		tza := float64(z.secs) * 1000
		zin := "[time.Local = " + z.name + "] "
		insts := append(zoneInstants(tza), math.NaN())

		// (a) accessors
		for ti, t := range insts {
			key := fmt.Sprintf("z%d.i.%d", zi, ti)
			if !mine(r, key) || expired() {
				continue
			}
			iso := "throw:RangeError"
			tzo := "NaN"
			if !math.IsNaN(t) {
				iso = "string:" + date.ISO(int64(t))
				tzo = num(-tza / 60000)
			}
			exp := num(t) + "," + num(t) + "|" + fieldsString(t) + "|" + localFieldsString(t, tza) + "|" + tzo + "|" + iso
			r.Begin(key)
			obs := d.call(func(m *machine) otto.Value { return m.zinst }, t)
			r.End()
			r.Eval(!math.IsNaN(t))
			r.Outcome(obs)
			if r.WantSample() && ti%7 == 3 {
				r.Sample(zin + "new Date(" + num(t) + ") => " + obs)
			}
			r.Check(key, zin+"new Date("+num(t)+"): getTime,valueOf | getUTC* | get* | getTimezoneOffset | toISOString", exp, obs)
		}

		// (b) setters, local and UTC
		for ti, t := range insts {
			if !r.Thorough() && ti%4 != 0 && !math.IsNaN(t) {
				continue // quick tier: every fourth instant and the invalid date
			}
			for oi, o := range ops {
				key := fmt.Sprintf("z%d.s.%d.%d", zi, ti, oi)
				if !mine(r, key) || expired() {
					continue
				}
				ztza := 0.0
				if o.loc {
					ztza = tza
				}
				post := date.ApplyLocal(es5, o.s, t, toArgs(o.args), ztza)
				render := func(p float64) string {
					return num(p) + "," + num(p) + "," + num(p) + "|" + fieldsString(p) + "|" + localFieldsString(p, tza)
				}
				exp := render(post)
				call := []interface{}{t, o.idx, len(o.args)}
				srcs := make([]string, len(o.args))
				for i := 0; i < 2; i++ {
					if i < len(o.args) {
						call = append(call, o.args[i])
						srcs[i] = num(o.args[i])
					} else {
						call = append(call, otto.UndefinedValue())
					}
				}
				input := fmt.Sprintf("%sd = new Date(%s); d.%s(%s)", zin, num(t), o.name(), strings.Join(srcs, ", "))
				r.Begin(key)
				obs := d.call(func(m *machine) otto.Value { return m.zset }, call...)
				r.End()
				r.Eval(!math.IsNaN(post))
				r.Outcome(obs)
				if r.WantSample() && o.loc && !math.IsNaN(post) && oi%11 == 5 {
					r.Sample(input + " => " + obs)
				}
				if obs == exp {
					continue
				}
				aux := altAux("L", exp, func(string) string {
					if !o.loc {
						return exp
					}
					return render(date.ApplyLocal(date.Variant{LocalZeroYear: true}, o.s, t, toArgs(o.args), ztza))
				})
				r.Mismatch(engine.Mismatch{Key: key, Input: input, Expected: exp, Observed: obs, Aux: aux})
			}
		}

		// (c) constructor (local fields) and Date.UTC (zone independent): the 3^7 offset product
		sizes := []int{2, 2, 3, 3, 3, 3, 3, 3, 3}
		idx := make([]int, len(sizes))
		for {
			parts := make([]string, len(idx))
			for i, x := range idx {
				parts[i] = strconv.Itoa(x)
			}
			key := fmt.Sprintf("z%d.c.%s", zi, strings.Join(parts, "."))
			if mine(r, key) && !expired() {
				b, opi := idx[0], idx[1]
				vals := make([]float64, 7)
				call := []interface{}{opi, 7}
				srcs := make([]string, 7)
				for i := 0; i < 7; i++ {
					base, _ := strconv.Atoi(tupleBases[b][i])
					vals[i] = float64(base + idx[2+i] - 1)
					call = append(call, vals[i])
					srcs[i] = num(vals[i])
				}
				ztza := 0.0
				if opi == 1 {
					ztza = tza
				}
				exp := num(date.FromFieldsLocal(es5, toArgs(vals), ztza))
				input := zin + tupleOps[opi] + "(" + strings.Join(srcs, ", ") + ")"
				r.Begin(key)
				obs := d.call(func(m *machine) otto.Value { return m.fields }, call...)
				r.End()
				r.Eval(true)
				r.Outcome(obs)
				r.Check(key, input, exp, obs)
			}
			i := len(sizes) - 1
			for i >= 0 {
				idx[i]++
				if idx[i] < sizes[i] {
					break
				}
				idx[i] = 0
				i--
			}
			if i < 0 {
				break
			}
		}
	}
	names := make([]string, len(zoneList))
	for i, z := range zoneList {
		names[i] = z.name
	}
	r.Bound("zones", strings.Join(names, " ")+" (fixed offsets, no daylight saving)")
	r.Bound("setter_operations", fmt.Sprintf("%d: 7 local + 7 UTC setters + setTime, arity 0..2 over {-1,0,1,31,60,1000,NaN}", len(ops)))
	if !r.Thorough() {
		r.Bound("setter_receivers", "every fourth instant + invalid (quick tier)")
	}
	r.Bound("instants", "16 calendar days x {00:00:00.000, .001, 12:34:56.789, 23:00, 23:59:59.999, local midnight -1/0, local 23:59:59.999} + invalid")
	r.Bound("constructor", "3^7 offsets x 2 bases x {Date.UTC, new Date}")
}
