// Package c12 checks that otto's Date arithmetic is the ES5.1 proleptic-Gregorian
// time-value algebra (15.9.1) by bounded exhaustive enumeration against the
// reference model ref/date:
//
//	instants   every day of full 400-year cycles x times of day + boundary instants:
//	           UTC accessors, getTime/valueOf, toISOString, toJSON, Date.parse / new Date of the ISO text
//	tuples     Date.UTC(...) and new Date(y, m, ...) field tuples with <= 2 deviating components (E1)
//	offsets    the 3^7 product of {-1,0,+1} offsets of two base tuples
//	isoforms   every 15.9.1.15 shape (date-only / date-time forms, Z and +-HH:mm offsets) of a date set
//	isoyears   expanded-year (+-YYYYYY) and four-digit texts over a leap-class year lattice x month/day lattice,
//	           direct parse (nonexistent days -> NaN) and toISOString -> parse round trip
//	reentrant  setters called with logging / mutating / throwing valueOf arguments: step order of 15.9.5.27-41
//	invalidroutes  every route into the invalid state (TimeClip overflow by each setter, setTime, NaN arguments,
//	           constructor overflow, unparsable text, Date.prototype) followed by 1-2 setters, all getters after each step
//	bigfields  field magnitudes 1e7..1e22, 2^31/2^32/2^53/2^63/2^64 neighbours, ... at every field position, cancelling pairs, two-digit years x one large field
//	zones      time.Local set to fixed non-UTC zones: local/UTC twins of getters, setters, constructor vs Date.UTC
//	history    E2 BFS over the time value under the 8 UTC setters + setTime
package c12

import (
	"fmt"
	"math"
	"sort"
	"strconv"
	"strings"
	"time"

	"github.com/robertkrimen/otto"

	"verif/mc/engine"
	"verif/mc/ox"
	"verif/mc/ref/date"
)

func init() {
	// Local time must be UTC: the multi-argument constructor composes fields in
	// local time (15.9.3.1) and the model takes LocalTZA = 0. The supervisor also
	// exports TZ=UTC to every worker.
	time.Local = time.UTC

	engine.Register(&engine.Check{
		ID:    "C12",
		Title: "Date arithmetic is the ES5 proleptic-Gregorian time-value algebra",
		Rule: "instants: every day of the 400-year cycle(s) at the stated times of day plus the listed boundary instants, each a distinct time value; " +
			"for each, getTime, valueOf, the 8 getUTC* accessors, toISOString, toJSON and Date.parse/new Date of the model's ISO text are compared with ref/date " +
			"(non-trivial = valid time value; when toISOString agrees with the model the parsed text is the text toISOString produced). " +
			"tuples: E1 choice tree over (base tuple, arity 2..7, Date.UTC | new Date) with <= 2 components replaced by a deviation value; offsets: full 3^7 product. " +
			"non-trivial = expected result is a number. isoforms: every ISO shape x date set. " +
			"isoyears: year lattice (all four Gregorian leap classes, negative / around 0 / 10000..10400 / range ends) x month-day lattice x {date-only, full} texts, expanded and four-digit spelling; valid dates also go through the instants observations. " +
			"reentrant: setter x arity 1..max+1 x {5,40,NaN}^arity x (no probe | position x 6 actions) x 3 receivers, every argument an object with a logging valueOf; " +
			"non-trivial = a probe acts or the receiver is invalid. " +
			"invalidroutes: route into the invalid state x follow-up setters (2- and 3-step histories), each step compared on return value, getTime, valueOf, 8 accessors, toISOString; non-trivial = the history ends in a valid date. " +
			"zones: 5 fixed zones x (instants around local/UTC midnight at month/year ends, leap day, epoch, range ends: all get*/getUTC* accessors, getTimezoneOffset, toISOString; 15 setters x arity 0..2; 3^7 constructor/Date.UTC offsets). " +
			"bigfields: one field (optionally a second, compensating one) replaced by a large finite value, all positions of Date.UTC / new Date / setUTC*; two-digit-year window (-0, 0, +-0.5, 1, 69, 70, 99, 99.9, 100, -1) x every other field large (Date.UTC / new Date adjust, setUTCFullYear does not); non-trivial = expected result is a number. " +
			"history: BFS over time values from 5 initial values under all setter operations, dedup on the model time value; every transition is " +
			"executed on a real Date object built by replaying the shortest path and compared on return value, getTime, valueOf and the 8 accessors; " +
			"non-trivial = pre-state or post-state is a valid date.",
		Families: []engine.Family{
			{Name: "selftest", Run: runSelfTest, Solo: true},
			{Name: "instants", Run: runInstants},
			{Name: "tuples", Run: runTuples},
			{Name: "offsets", Run: runOffsets},
			{Name: "isoforms", Run: runISOForms},
			{Name: "isoyears", Run: runISOYears},
			{Name: "reentrant", Run: runReentrant},
			{Name: "reentrantctor", Run: runReentrantCtor},
			{Name: "invalidroutes", Run: runInvalidRoutes},
			{Name: "bigfields", Run: runBigFields},
			{Name: "zones", Run: runZones},
			{Name: "history", Run: runHistory},
		},
		Assumptions: []string{
			"ref/date is a faithful transcription of ES5.1 15.9.1.2-15.9.1.15, 15.9.3.1-2, 15.9.4.3, 15.9.5.27-41 (integer arithmetic, no use of Go's time package); it is self-checked (MakeDay/MakeTime invert the accessor formulas on every swept instant; cycle length 146097 days)",
			"local time zone is UTC in the workers (TZ=UTC and time.Local = time.UTC), so the constructor's UTC(t) is the identity; only the zones family sets time.Local to fixed-offset zones (LocalTZA constant, DaylightSavingTA = 0) and restores UTC afterwards; zones with daylight-saving transitions are outside the bound",
			"arguments are primitives (numbers, undefined, null, one numeric string); ToNumber of these is taken from 9.3, not from otto; only the reentrant family passes objects, whose valueOf is harness code returning a number",
			"reentrant: the inner setter calls made from valueOf use primitive arguments and are modelled by the same ref/date.Apply the history family validates",
			"isoyears: a day that does not exist in its month (02-29 of a common year, 02-30, 02-31, 04-31) is an illegal element value in the sense of 15.9.4.2 and must give NaN",
			"a Date object's state is its time value: receivers for the instant family are built with new Date(t); history receivers are built by replaying the recorded setter path on a fresh object",
			"observations are rendered in-script by String(number); all compared numbers are integers below 2^53 (or NaN) where otto's number formatting is not in question",
		},
		CrashIsViolation: true,
		QuickBudget:      80 * time.Second,
		ThoroughBudget:   14 * time.Minute,
	})

	for name, flag := range map[string]byte{
		"c12-no-timeclip":             'C',
		"c12-year-test-no-toint":      'Y',
		"c12-setfullyear-nan":         'S',
		"c12-setter-shortcircuit":     'O',
		"c12-go-int-overflow":         'G',
		"c12-setfullyear-localzero":   'L',
		"c12-setter-int64-saturation": 'A',
		"c12-fields-shortcircuit":     'U',
		"c12-raw-year-month-limit":    'M',
		"c12-settime-stays-nan":       'T',
		"c12-iso-year-go-layout":      'I',
		"c12-iso-invalid-nothrow":     'R',
		"c12-parse-extended-year":     'P',
	} {
		f := flag
		engine.RegisterSignature(name, func(m *engine.Mismatch) bool { return flagSignature(m, f) })
	}
}

// flagSignature is the shared shape of all C12 known-finding predicates. When a
// case disagrees with the ES5 expectation the harness attaches, under
// Aux["alt.<FLAGS>"], what the model predicts when the named deviations from the
// specification (ref/date.Variant and the two formatting deviations) are switched
// on - only for flag sets that apply to the input class of the case. The
// predicate of flag f accepts a mismatch iff the observation equals exactly the
// prediction of some flag set containing f and differs from the prediction of
// that set without f (f is necessary to explain it). Any other wrong answer on
// the same input, or the same answer where the deviation does not apply, is
// not accepted.
func flagSignature(m *engine.Mismatch, f byte) bool {
	if m.Aux == nil || m.Expected == m.Observed {
		return false
	}
	for k, alt := range m.Aux {
		if !strings.HasPrefix(k, "alt.") {
			continue
		}
		flags := k[4:]
		i := strings.IndexByte(flags, f)
		if i < 0 || alt != m.Observed {
			continue
		}
		rest := flags[:i] + flags[i+1:]
		without := m.Expected
		if rest != "" {
			w, ok := m.Aux["alt."+rest]
			if !ok {
				// the reduced flag set predicts the ES5 answer for this input
				w = m.Expected
			}
			without = w
		}
		if without != m.Observed {
			return true
		}
	}
	return false
}

// subsets enumerates the non-empty subsets of flags (as sorted strings).
func subsets(flags string) []string {
	var out []string
	n := len(flags)
	for mask := 1; mask < 1<<n; mask++ {
		var sb strings.Builder
		for i := 0; i < n; i++ {
			if mask&(1<<i) != 0 {
				sb.WriteByte(flags[i])
			}
		}
		out = append(out, sb.String())
	}
	sort.Strings(out)
	return out
}

func variantOf(flags string) date.Variant {
	return date.Variant{
		NoTimeClip:      strings.IndexByte(flags, 'C') >= 0,
		YearTestNoToInt: strings.IndexByte(flags, 'Y') >= 0,
		NaNYearSticky:   strings.IndexByte(flags, 'S') >= 0,
	}
}

// altAux computes the alternative predictions for a mismatching case.
func altAux(flags string, expected string, predict func(flags string) string) map[string]string {
	aux := map[string]string{}
	for _, fs := range subsets(flags) {
		if p := predict(fs); p != expected {
			aux["alt."+fs] = p
		}
	}
	return aux
}

// ---------------------------------------------------------------------------
// driving otto

const prelude = `
(function(global){
  // Rendering: numbers as String(number) with -0 distinguished, anything else as "<typeof>:<String>".
  // The hot paths inline the common case (a number that is not -0) and fall back to v().
  function n(x) { return (x === 0 && 1 / x < 0) ? "-0" : String(x); }
  function v(x) { return typeof x === "number" ? n(x) : typeof x + ":" + String(x); }
  function fields(d) {
    var a = d.getUTCFullYear(), b = d.getUTCMonth(), c = d.getUTCDate(), e = d.getUTCDay(),
        f = d.getUTCHours(), g = d.getUTCMinutes(), h = d.getUTCSeconds(), i = d.getUTCMilliseconds();
    if (typeof a === "number" && typeof b === "number" && typeof c === "number" && typeof e === "number" &&
        typeof f === "number" && typeof g === "number" && typeof h === "number" && typeof i === "number" &&
        (a !== 0 || 1 / a > 0) && (b !== 0 || 1 / b > 0) && (e !== 0 || 1 / e > 0) && (f !== 0 || 1 / f > 0) &&
        (g !== 0 || 1 / g > 0) && (h !== 0 || 1 / h > 0) && (i !== 0 || 1 / i > 0))
      return a + "," + b + "," + c + "," + e + "," + f + "," + g + "," + h + "," + i;
    return v(a) + "," + v(b) + "," + v(c) + "," + v(e) + "," + v(f) + "," + v(g) + "," + v(h) + "," + v(i);
  }
  // instants: time | fields | iso | json | parse
  global.__inst = function(x, iso, hasIso) {
    var d = new Date(x), p = d.getTime(), q = d.valueOf(), r, s, t;
    r = (typeof p === "number" && typeof q === "number" && (p !== 0 || 1 / p > 0) && (q !== 0 || 1 / q > 0)) ? p + "," + q : v(p) + "," + v(q);
    try { s = d.toISOString(); s = typeof s === "string" ? "string:" + s : v(s); } catch (e) { s = "throw:" + (e && e.name); }
    try { t = d.toJSON("k"); t = typeof t === "string" ? "string:" + t : v(t); } catch (e) { t = "throw:" + (e && e.name); }
    r += "|" + fields(d) + "|" + s + "|" + t;
    if (hasIso) {
      p = Date.parse(iso); q = new Date(iso).getTime();
      r += "|" + ((typeof p === "number" && typeof q === "number" && (p !== 0 || 1 / p > 0) && (q !== 0 || 1 / q > 0)) ? p + "," + q : v(p) + "," + v(q));
    }
    return r;
  };
  global.__parse = function(s) { return v(Date.parse(s)) + "," + v(new Date(s).getTime()); };
  // round trip: text produced by toISOString parsed back
  global.__rt = function(t) {
    var s;
    try { s = new Date(t).toISOString(); } catch (e) { return "throw:" + (e && e.name); }
    return v(s) + "|" + v(Date.parse(s)) + "," + v(new Date(s).getTime());
  };
  // re-entrant setters: every argument is an object whose valueOf logs "<index>@<receiver time value>;",
  // optionally (index ppos) mutates the receiver or throws, and returns the argument's number.
  var SN = ["setUTCMilliseconds", "setUTCSeconds", "setUTCMinutes", "setUTCHours", "setUTCDate", "setUTCMonth", "setUTCFullYear", "setTime"];
  var marker = {};
  global.__reent = function(init, s, k, a0, a1, a2, a3, a4, ppos, pkind) {
    var d = new Date(init), log = "", vals = [a0, a1, a2, a3, a4], args = [], r;
    function mk(i) {
      return { valueOf: function() {
        log += i + "@" + v(d.getTime()) + ";";
        if (i === ppos) {
          switch (pkind) {
          case 1: d.setTime(0); break;
          case 2: d.setTime(NaN); break;
          case 3: d.setUTCHours(7); break;
          case 4: d.setUTCMonth(5, 1); break;
          case 5: d.setUTCFullYear(1999); break;
          case 6: throw marker;
          }
        }
        return vals[i];
      } };
    }
    for (var i = 0; i < k; i++) args.push(mk(i));
    try { r = v(d[SN[s]].apply(d, args)); } catch (e) { r = e === marker ? "throw:marker" : "throw:" + (e && e.name); }
    return log + "|" + r + "|" + v(d.getTime()) + "," + v(d.valueOf()) + "|" + fields(d);
  };
  global.__fields = function(op, k, a, b, c, d, e, f, g) {
    if (op === 0) {
      switch (k) {
      case 2: return v(Date.UTC(a, b));
      case 3: return v(Date.UTC(a, b, c));
      case 4: return v(Date.UTC(a, b, c, d));
      case 5: return v(Date.UTC(a, b, c, d, e));
      case 6: return v(Date.UTC(a, b, c, d, e, f));
      case 7: return v(Date.UTC(a, b, c, d, e, f, g));
      }
    } else {
      var o;
      switch (k) {
      case 2: o = new Date(a, b); break;
      case 3: o = new Date(a, b, c); break;
      case 4: o = new Date(a, b, c, d); break;
      case 5: o = new Date(a, b, c, d, e); break;
      case 6: o = new Date(a, b, c, d, e, f); break;
      case 7: o = new Date(a, b, c, d, e, f, g); break;
      }
      var x = o.getTime(), y = o.valueOf();
      return (x === y || (x !== x && y !== y)) ? v(x) : "getTime=" + v(x) + ",valueOf=" + v(y);
    }
    return "bad arity";
  };
  function ap(d, s, k, a, b, c, e) {
    switch (s) {
    case 0: switch (k) { case 0: return d.setUTCMilliseconds(); default: return d.setUTCMilliseconds(a); }
    case 1: switch (k) { case 0: return d.setUTCSeconds(); case 1: return d.setUTCSeconds(a); default: return d.setUTCSeconds(a, b); }
    case 2: switch (k) { case 0: return d.setUTCMinutes(); case 1: return d.setUTCMinutes(a); case 2: return d.setUTCMinutes(a, b); default: return d.setUTCMinutes(a, b, c); }
    case 3: switch (k) { case 0: return d.setUTCHours(); case 1: return d.setUTCHours(a); case 2: return d.setUTCHours(a, b); case 3: return d.setUTCHours(a, b, c); default: return d.setUTCHours(a, b, c, e); }
    case 4: switch (k) { case 0: return d.setUTCDate(); default: return d.setUTCDate(a); }
    case 5: switch (k) { case 0: return d.setUTCMonth(); case 1: return d.setUTCMonth(a); default: return d.setUTCMonth(a, b); }
    case 6: switch (k) { case 0: return d.setUTCFullYear(); case 1: return d.setUTCFullYear(a); case 2: return d.setUTCFullYear(a, b); default: return d.setUTCFullYear(a, b, c); }
    case 7: switch (k) { case 0: return d.setTime(); default: return d.setTime(a); }
    }
  }
  // argument conversion of Date.UTC (op 0) / new Date(...) (op 1): every argument an object whose valueOf logs
  // "<index>;" and returns its number; the one at ppos throws instead.
  global.__reentc = function(op, k, a0, a1, a2, a3, a4, a5, a6, a7, ppos) {
    var log = "", vals = [a0, a1, a2, a3, a4, a5, a6, a7], args = [], r;
    function mk(i) { return { valueOf: function() { log += i + ";"; if (i === ppos) throw marker; return vals[i]; } }; }
    for (var i = 0; i < k; i++) args.push(mk(i));
    try {
      if (op === 0) r = v(Date.UTC.apply(Date, args));
      else {
        var o;
        switch (k) {
        case 2: o = new Date(args[0], args[1]); break;
        case 3: o = new Date(args[0], args[1], args[2]); break;
        case 4: o = new Date(args[0], args[1], args[2], args[3]); break;
        case 5: o = new Date(args[0], args[1], args[2], args[3], args[4]); break;
        case 6: o = new Date(args[0], args[1], args[2], args[3], args[4], args[5]); break;
        case 7: o = new Date(args[0], args[1], args[2], args[3], args[4], args[5], args[6]); break;
        default: o = new Date(args[0], args[1], args[2], args[3], args[4], args[5], args[6], args[7]); break;
        }
        r = v(o.getTime());
      }
    } catch (e) { r = e === marker ? "throw:marker" : "throw:" + (e && e.name); }
    return log + "|" + r;
  };
  // sequences: receiver built by ctor (0: new Date(c0), 1: new Date(c0, c1), 2: Date.prototype), then n <= 3
  // setter calls; after construction and after every call: return value, getTime, valueOf | fields | toISOString
  function snap(d, r) {
    var s;
    try { s = d.toISOString(); s = typeof s === "string" ? "string:" + s : v(s); } catch (e) { s = "throw:" + (e && e.name); }
    return v(r) + "," + v(d.getTime()) + "," + v(d.valueOf()) + "|" + fields(d) + "|" + s;
  }
  global.__seq = function(ctor, c0, c1, n, s1, k1, a1, b1, c1_, d1, s2, k2, a2, b2, c2, d2, s3, k3, a3, b3, c3, d3) {
    var d = ctor === 0 ? new Date(c0) : ctor === 1 ? new Date(c0, c1) : Date.prototype;
    var out = snap(d, undefined);
    if (n > 0) out += " / " + snap(d, ap(d, s1, k1, a1, b1, c1_, d1));
    if (n > 1) out += " / " + snap(d, ap(d, s2, k2, a2, b2, c2, d2));
    if (n > 2) out += " / " + snap(d, ap(d, s3, k3, a3, b3, c3, d3));
    return out;
  };
  // zones: local and UTC twins side by side
  function lfields(d) {
    return v(d.getFullYear()) + "," + v(d.getMonth()) + "," + v(d.getDate()) + "," + v(d.getDay()) + "," +
      v(d.getHours()) + "," + v(d.getMinutes()) + "," + v(d.getSeconds()) + "," + v(d.getMilliseconds());
  }
  global.__zinst = function(x) {
    var d = new Date(x), s;
    try { s = d.toISOString(); s = typeof s === "string" ? "string:" + s : v(s); } catch (e) { s = "throw:" + (e && e.name); }
    return v(d.getTime()) + "," + v(d.valueOf()) + "|" + fields(d) + "|" + lfields(d) + "|" + v(d.getTimezoneOffset()) + "|" + s;
  };
  var ZN = ["setUTCMilliseconds", "setUTCSeconds", "setUTCMinutes", "setUTCHours", "setUTCDate", "setUTCMonth", "setUTCFullYear", "setTime",
            "setMilliseconds", "setSeconds", "setMinutes", "setHours", "setDate", "setMonth", "setFullYear"];
  global.__zset = function(init, s, k, a, b) {
    var d = new Date(init), m = ZN[s], r;
    r = k === 0 ? d[m]() : k === 1 ? d[m](a) : d[m](a, b);
    return v(r) + "," + v(d.getTime()) + "," + v(d.valueOf()) + "|" + fields(d) + "|" + lfields(d);
  };
  // history: apply np prefix operations, then one operation; report pre-state | return value, getTime, valueOf | fields
  global.__hist = function(init, np, s1, k1, a1, b1, c1, d1, s2, k2, a2, b2, c2, d2, s3, k3, a3, b3, c3, d3) {
    var d = new Date(init), r, pre, p, q;
    if (np === 0) { pre = d.getTime(); r = ap(d, s1, k1, a1, b1, c1, d1); }
    else if (np === 1) { ap(d, s1, k1, a1, b1, c1, d1); pre = d.getTime(); r = ap(d, s2, k2, a2, b2, c2, d2); }
    else { ap(d, s1, k1, a1, b1, c1, d1); ap(d, s2, k2, a2, b2, c2, d2); pre = d.getTime(); r = ap(d, s3, k3, a3, b3, c3, d3); }
    p = d.getTime(); q = d.valueOf();
    if (typeof pre === "number" && typeof r === "number" && typeof p === "number" && typeof q === "number" &&
        (pre !== 0 || 1 / pre > 0) && (r !== 0 || 1 / r > 0) && (p !== 0 || 1 / p > 0) && (q !== 0 || 1 / q > 0))
      return pre + "|" + r + "," + p + "," + q + "|" + fields(d);
    return v(pre) + "|" + v(r) + "," + v(p) + "," + v(q) + "|" + fields(d);
  };
})(this);
`

// machine is a reused runtime with the precompiled observation functions. Date
// objects are created afresh inside every call and no call touches global
// state, so reuse cannot matter; the runtime is nevertheless replaced after
// any error or Go panic.
type machine struct {
	vm                                                                  *otto.Otto
	inst, parse, rt, reent, reentc, seq, zinst, zset, fields, hist, und otto.Value
}

func newMachine() (*machine, error) {
	vm := otto.New()
	if res := ox.Run(vm, prelude); res.Err != nil || res.Panicked {
		return nil, fmt.Errorf("prelude failed: %v %v", res.Err, res.PanicVal)
	}
	m := &machine{vm: vm, und: otto.UndefinedValue()}
	var err error
	for name, dst := range map[string]*otto.Value{"__inst": &m.inst, "__parse": &m.parse, "__rt": &m.rt, "__reent": &m.reent, "__reentc": &m.reentc, "__seq": &m.seq, "__zinst": &m.zinst, "__zset": &m.zset, "__fields": &m.fields, "__hist": &m.hist} {
		if *dst, err = vm.Get(name); err != nil || !dst.IsFunction() {
			return nil, fmt.Errorf("prelude: %s missing", name)
		}
	}
	return m, nil
}

type driver struct {
	r *engine.Run
	m *machine
}

func newDriver(r *engine.Run) *driver {
	d := &driver{r: r}
	d.reset()
	return d
}

func (d *driver) reset() {
	m, err := newMachine()
	if err != nil {
		d.r.HarnessError(err.Error())
		d.m = nil
		return
	}
	d.m = m
}

// call invokes a prelude function; a thrown error or an escaping Go panic is an
// observation ("error:..."/"panic:...") and the runtime is replaced.
func (d *driver) call(fn func(m *machine) otto.Value, args ...interface{}) string {
	if d.m == nil {
		d.reset()
		if d.m == nil {
			return "harness: no runtime"
		}
	}
	f := fn(d.m)
	und := d.m.und
	res := ox.Guard(func() (otto.Value, error) { return f.Call(und, args...) })
	switch {
	case res.Panicked:
		d.reset()
		return "panic: " + oneLine(fmt.Sprint(res.PanicVal))
	case res.Err != nil:
		d.reset()
		return "error: " + oneLine(res.Err.Error())
	}
	s, err := res.Value.ToString()
	if err != nil {
		return "error: result not a string"
	}
	return s
}

func oneLine(s string) string {
	if i := strings.IndexByte(s, '\n'); i >= 0 {
		s = s[:i]
	}
	if len(s) > 200 {
		s = s[:200]
	}
	return s
}

// argument alphabet -----------------------------------------------------------

// jsArg is a primitive argument: its JavaScript source, the otto Value the
// parser/evaluator produces for that source, and its ToNumber (9.3).
type jsArg struct {
	Src string
	Val otto.Value
	Num float64
}

var argCache = map[string]jsArg{}

func arg(src string) jsArg {
	if a, ok := argCache[src]; ok {
		return a
	}
	vm := otto.New()
	v, err := vm.Run("(" + src + ")")
	if err != nil {
		panic("c12: bad argument source " + src)
	}
	a := jsArg{Src: src, Val: v}
	switch {
	case v.IsUndefined():
		a.Num = math.NaN()
	case v.IsNull():
		a.Num = 0
	case v.IsBoolean():
		if b, _ := v.ToBoolean(); b {
			a.Num = 1
		}
	case v.IsString():
		s, _ := v.ToString()
		f, err := strconv.ParseFloat(s, 64) // only plain decimal strings, or text that is no StringNumericLiteral at all
		if err != nil {
			f = math.NaN()
		}
		a.Num = f
	default:
		// number: take the value from the source text, not from otto
		a.Num = parseNumSrc(src)
	}
	argCache[src] = a
	return a
}

func parseNumSrc(src string) float64 {
	switch src {
	case "NaN":
		return math.NaN()
	case "Infinity":
		return math.Inf(1)
	case "-Infinity":
		return math.Inf(-1)
	case "-0":
		return math.Copysign(0, -1)
	}
	f, err := strconv.ParseFloat(src, 64)
	if err != nil {
		panic("c12: bad numeric source " + src)
	}
	return f
}

func args(srcs ...string) []jsArg {
	out := make([]jsArg, len(srcs))
	for i, s := range srcs {
		out[i] = arg(s)
	}
	return out
}

// rendering of model numbers exactly as the prelude's v() renders them
func num(x float64) string {
	switch {
	case math.IsNaN(x):
		return "NaN"
	case x == 0 && math.Signbit(x):
		return "-0"
	case math.IsInf(x, 1):
		return "Infinity"
	case math.IsInf(x, -1):
		return "-Infinity"
	}
	if x == math.Trunc(x) && math.Abs(x) < 1e21 {
		return strconv.FormatFloat(x, 'f', -1, 64)
	}
	return strconv.FormatFloat(x, 'g', -1, 64)
}

func fieldsString(t float64) string {
	if math.IsNaN(t) {
		return "NaN,NaN,NaN,NaN,NaN,NaN,NaN,NaN"
	}
	f := date.Decompose(int64(t))
	return fmt.Sprintf("%d,%d,%d,%d,%d,%d,%d,%d", f.Year, f.Month, f.Date, f.Day, f.Hours, f.Minutes, f.Seconds, f.Ms)
}

// mine is r.MineKey that also accepts replay keys carrying a "#group" suffix.
func mine(r *engine.Run, key string) bool {
	if r.ReplayKey != "" {
		k := r.ReplayKey
		if i := strings.IndexByte(k, '#'); i >= 0 {
			k = k[:i]
		}
		return k == key
	}
	return r.Mine()
}

// ---------------------------------------------------------------------------
// model self-test (oracle sanity; failures are harness errors, never violations)

func runSelfTest(r *engine.Run) {
	if r.ReplayKey != "" {
		return
	}
	fail := func(f string, a ...interface{}) { r.HarnessError("ref/date self-test: " + fmt.Sprintf(f, a...)) }
	// anchors from the specification text and the civil calendar
	if date.DayFromYear(1970) != 0 || date.DayFromYear(1971) != 365 || date.DayFromYear(1969) != -365 {
		fail("DayFromYear anchors")
	}
	if date.DayFromYear(2400)-date.DayFromYear(2000) != 146097 {
		fail("400-year cycle is not 146097 days")
	}
	if date.WeekDay(0) != 4 {
		fail("1970-01-01 is not a Thursday")
	}
	type anchor struct {
		t   int64
		iso string
	}
	for _, a := range []anchor{
		{0, "1970-01-01T00:00:00.000Z"},
		{-1, "1969-12-31T23:59:59.999Z"},
		{951782400000, "2000-02-29T00:00:00.000Z"},
		{1348616313047, "2012-09-25T23:38:33.047Z"},
		{8640000000000000, "+275760-09-13T00:00:00.000Z"},
		{-8640000000000000, "-271821-04-20T00:00:00.000Z"},
		{-62198755200000, "-000001-01-01T00:00:00.000Z"},
		{-62167219200000, "0000-01-01T00:00:00.000Z"},
		{253402300800000, "+010000-01-01T00:00:00.000Z"},
		{-12219292800000, "1582-10-15T00:00:00.000Z"},
	} {
		if got := date.ISO(a.t); got != a.iso {
			fail("ISO(%d) = %s, want %s", a.t, got, a.iso)
		}
	}
	// year lengths over the whole time-value range agree with DayFromYear differences
	n := int64(0)
	for y := int64(-271822); y <= 275761; y++ {
		if date.DayFromYear(y+1)-date.DayFromYear(y) != date.DaysInYear(y) {
			fail("DaysInYear(%d) inconsistent with DayFromYear", y)
			break
		}
		t := date.TimeFromYear(y)
		if date.YearFromTime(t) != y || date.YearFromTime(t-1) != y-1 || date.MonthFromTime(t) != 0 || date.DateFromTime(t) != 1 ||
			date.MonthFromTime(t-1) != 11 || date.DateFromTime(t-1) != 31 {
			fail("year boundary %d", y)
			break
		}
		n++
	}
	if date.TimeClip(8.64e15) != 8.64e15 || !math.IsNaN(date.TimeClip(8.64e15+1)) || !math.IsNaN(date.TimeClip(-8.64e15-1)) ||
		date.TimeClip(-0.5) != 0 || math.Signbit(date.TimeClip(-0.5)) || date.TimeClip(1.9) != 1 || date.TimeClip(-1.9) != -1 {
		fail("TimeClip")
	}
	es5 := date.Variant{}
	if v := date.FromFields(es5, []date.Arg{date.A(99), date.A(11), date.A(31), date.A(23), date.A(59), date.A(59), date.A(999)}); v != 946684799999 {
		fail("Date.UTC(99,11,31,23,59,59,999) = %v", v)
	}
	if v := date.FromFields(es5, []date.Arg{date.A(2000), date.A(-1)}); v != 944006400000 { // 1999-12-01
		fail("Date.UTC(2000,-1) = %v", v)
	}
	if v := date.Apply(es5, date.SetUTCFullYear, math.NaN(), []date.Arg{date.A(2000)}); v != 946684800000 {
		fail("setUTCFullYear on NaN = %v", v)
	}
	if v := date.Apply(es5, date.SetUTCDate, 951782400000, []date.Arg{date.A(31)}); v != 951782400000+2*date.MsPerDay {
		fail("setUTCDate(31) on 2000-02-29 = %v", v)
	}
	r.Note(fmt.Sprintf("ref/date self-test: %d year boundaries and the specification anchors checked (model only, not counted as evaluations)", n))
	r.Bound("years", "-271822..275761")
}
