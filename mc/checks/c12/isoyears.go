package c12

import (
	"fmt"
	"math"
	"sort"
	"strings"

	"github.com/robertkrimen/otto"

	"verif/mc/engine"
	"verif/mc/ref/date"
)

// Year lattice for the ISO text round trip, chosen so that the expanded-year form
// +-YYYYYY (15.9.1.15.1) meets all four Gregorian leap classes (y%400==0, y%100==0
// only, y%4==0 only, common year) on both sides of year 0, in 10000..10400, far out
// and at both ends of the time-value range; the years 0..9999 in it are also
// written in the expanded form ("+002000") by the isoyears family.
func isoYearLattice() []int64 {
	set := map[int64]bool{}
	for y := int64(-410); y <= 10; y++ { // year-0 neighbourhood, one whole negative 400-year cycle
		set[y] = true
	}
	for y := int64(9990); y <= 10410; y++ { // first expanded positive years, one whole cycle
		set[y] = true
	}
	for _, y := range []int64{
		// years 0..9999 (four-digit and expanded spelling)
		96, 100, 104, 400, 1600, 1700, 1900, 1996, 2000, 2001, 2004, 2100, 9600, 9700,
		// negative, further out
		-500, -800, -1900, -1996, -1999, -2000, -10000, -10100, -100000, -100100,
		// positive, further out
		20000, 20001, 20004, 20100, 20200, 100000, 100100, 100104, 123456,
		// range ends: 275760-09-13 and -271821-04-20
		275600, 275700, 275756, 275759, 275760, -271600, -271700, -271800, -271801, -271816, -271820, -271821,
	} {
		set[y] = true
	}
	out := make([]int64, 0, len(set))
	for y := range set {
		out = append(out, y)
	}
	sort.Slice(out, func(i, j int) bool { return out[i] < out[j] })
	return out
}

// month/day lattice around the leap day and the year ends; the entries that do
// not exist in a given year (02-29 in a common year, 02-30, 02-31, 04-31) are the
// "illegal element values" of 15.9.4.2 and must parse to NaN.
var isoYearMonthDays = [][2]int64{{1, 1}, {1, 31}, {2, 28}, {2, 29}, {2, 30}, {2, 31}, {3, 1}, {4, 30}, {4, 31}, {6, 1}, {12, 31}}

func daysInMonth(y, m int64) int64 {
	switch m {
	case 2:
		return 28 + date.DaysInYear(y) - 365
	case 4, 6, 9, 11:
		return 30
	}
	return 31
}

// latticeInstants are the valid lattice dates at 12:34:56.789 as time values
// (joined to the boundary set of the instants family: accessors, toISOString,
// toJSON and the parse of the model text are compared there).
func latticeInstants() []float64 {
	var out []float64
	for _, y := range isoYearLattice() {
		for _, md := range isoYearMonthDays {
			if md[1] > daysInMonth(y, md[0]) {
				continue
			}
			t := date.TimeClip(date.MakeDate(date.MakeDay(float64(y), float64(md[0]-1), float64(md[1])), 45296789))
			if !math.IsNaN(t) {
				out = append(out, t)
			}
		}
	}
	return out
}

// runISOYears: direct parse of model-formatted strings over the year lattice x
// month/day lattice, expanded spelling for every year and four-digit spelling for
// 0..9999, as date-only text and as full YYYY-MM-DDTHH:mm:ss.sssZ text; for the
// valid dates the full round trip t -> toISOString -> Date.parse is executed too.
func runISOYears(r *engine.Run) {
	d := newDriver(r)
	years := isoYearLattice()
	for _, y := range years {
		for _, md := range isoYearMonthDays {
			exists := md[1] <= daysInMonth(y, md[0])
			for _, expanded := range []bool{false, true} {
				if !expanded && (y < 0 || y > 9999) {
					continue
				}
				for shape := 0; shape < 2; shape++ {
					text := fmt.Sprintf("%s-%02d-%02d", yearText(y, expanded), md[0], md[1])
					var tod float64
					if shape == 1 {
						text += "T12:34:56.789Z"
						tod = 45296789
					}
					if !mine(r, text) {
						continue
					}
					tv := math.NaN()
					if exists {
						tv = date.TimeClip(date.MakeDate(date.MakeDay(float64(y), float64(md[0]-1), float64(md[1])), tod))
					}
					exp := num(tv) + "," + num(tv)
					roundTrip := !math.IsNaN(tv) && shape == 1
					if roundTrip {
						// t -> toISOString -> parse: text produced by the implementation itself
						exp += "|string:" + date.ISO(int64(tv)) + "|" + num(tv) + "," + num(tv)
					}
					r.Begin(text)
					obs := d.call(func(m *machine) otto.Value { return m.parse }, text)
					if roundTrip {
						obs += "|" + d.call(func(m *machine) otto.Value { return m.rt }, tv)
					}
					r.End()
					r.Eval(!math.IsNaN(tv))
					r.Outcome(obs)
					input := fmt.Sprintf("Date.parse(%q), new Date(%q).getTime()", text, text)
					if roundTrip {
						input += fmt.Sprintf("; s = new Date(%s).toISOString(), Date.parse(s), new Date(s).getTime()", num(tv))
					}
					if r.WantSample() && (y < 0 || y > 9999) && strings.HasSuffix(text, "Z") {
						r.Sample(input + " => " + obs)
					}
					if obs != exp {
						r.Mismatch(engine.Mismatch{Key: text, Input: input, Expected: exp, Observed: obs})
					}
				}
			}
		}
	}
	r.Bound("years", fmt.Sprintf("%d (-410..10, 9990..10410, leap-class representatives out to both range ends)", len(years)))
	r.Bound("month_days", fmt.Sprint(isoYearMonthDays))
	r.Bound("texts", "date-only and YYYY-MM-DDT12:34:56.789Z; expanded years always, four-digit years for 0..9999; nonexistent days expect NaN")
}
