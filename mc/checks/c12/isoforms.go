package c12

import (
	"fmt"
	"math"
	"strings"

	"github.com/robertkrimen/otto"

	"verif/mc/engine"
	"verif/mc/ref/date"
)

// isoforms: every shape of the 15.9.1.15 Date Time String Format
//
//	date forms  YYYY | YYYY-MM | YYYY-MM-DD      (year also as +-YYYYYY, 15.9.1.15.1)
//	time forms  (none) | THH:mm | THH:mm:ss | THH:mm:ss.sss
//	offsets     (none = "Z", ES5.1) | Z | +HH:mm | -HH:mm   (only after a time form)
//
// over a set of calendar dates. Only valid instances are generated (ES5 leaves
// the treatment of unrecognisable strings to the implementation); the expected
// value is MakeDate(MakeDay, MakeTime) of the fields present (absent month/day
// = 1, absent time fields = 0) minus the offset, clipped.

type isoOffset struct {
	text string
	ms   int64
}

var isoOffsets = []isoOffset{{"", 0}, {"Z", 0}, {"+00:00", 0}, {"+05:30", 19800000}, {"-08:00", -28800000}}

var isoYears = []int64{0, 1, 99, 100, 1582, 1600, 1899, 1900, 1969, 1970, 1972, 2000, 2038, 2100, 9999, -1, 10000, -271821, 275760}
var isoMonthDays = [][2]int64{{1, 1}, {2, 28}, {2, 29}, {3, 1}, {6, 15}, {9, 1}, {12, 31}}
var isoTimes = [][4]int64{{0, 0, 0, 0}, {12, 34, 56, 789}, {23, 59, 59, 999}}

func yearText(y int64, expanded bool) string {
	if !expanded {
		return fmt.Sprintf("%04d", y)
	}
	if y < 0 {
		return fmt.Sprintf("-%06d", -y)
	}
	return fmt.Sprintf("+%06d", y)
}

func runISOForms(r *engine.Run) {
	d := newDriver(r)
	seen := map[string]bool{}
	ndates := 0
	for _, y := range isoYears {
		for _, md := range isoMonthDays {
			if md[0] == 2 && md[1] == 29 && date.DaysInYear(y) != 366 {
				continue
			}
			ndates++
			for _, tm := range isoTimes {
				for _, expanded := range []bool{false, true} {
					if !expanded && (y < 0 || y > 9999) {
						continue
					}
					if expanded && y >= 0 && y <= 9999 && y != 2000 {
						continue
					}
					for dateForm := 0; dateForm < 3; dateForm++ {
						for timeForm := 0; timeForm < 4; timeForm++ {
							for oi, off := range isoOffsets {
								if timeForm == 0 && oi != 0 {
									continue
								}
								mo, dy := int64(1), int64(1)
								text := yearText(y, expanded)
								if dateForm >= 1 {
									mo = md[0]
									text += fmt.Sprintf("-%02d", mo)
								}
								if dateForm >= 2 {
									dy = md[1]
									text += fmt.Sprintf("-%02d", dy)
								}
								var h, mi, s, ms int64
								if timeForm >= 1 {
									h, mi = tm[0], tm[1]
									text += fmt.Sprintf("T%02d:%02d", h, mi)
								}
								if timeForm >= 2 {
									s = tm[2]
									text += fmt.Sprintf(":%02d", s)
								}
								if timeForm >= 3 {
									ms = tm[3]
									text += fmt.Sprintf(".%03d", ms)
								}
								text += off.text
								if seen[text] {
									continue
								}
								seen[text] = true
								if !mine(r, text) {
									continue
								}
								tv := date.TimeClip(date.MakeDate(date.MakeDay(float64(y), float64(mo-1), float64(dy)),
									date.MakeTime(float64(h), float64(mi), float64(s), float64(ms))) - float64(off.ms))
								exp := num(tv) + "," + num(tv)
								r.Begin(text)
								obs := d.call(func(m *machine) otto.Value { return m.parse }, text)
								r.End()
								r.Eval(!math.IsNaN(tv))
								r.Outcome(obs)
								if r.WantSample() {
									r.Sample(fmt.Sprintf("Date.parse(%q) => %s", text, obs))
								}
								if obs == exp {
									continue
								}
								raw := date.MakeDate(date.MakeDay(float64(y), float64(mo-1), float64(dy)),
									date.MakeTime(float64(h), float64(mi), float64(s), float64(ms))) - float64(off.ms)
								aux := altAux("CP", exp, func(flags string) string {
									if strings.IndexByte(flags, 'P') >= 0 && expanded {
										return "NaN,NaN" // the parser does not know the expanded-year form
									}
									if strings.IndexByte(flags, 'C') >= 0 {
										return num(raw) + "," + num(raw) // parsed but not clipped
									}
									return exp
								})
								r.Mismatch(engine.Mismatch{Key: text, Input: fmt.Sprintf("Date.parse(%q), new Date(%q).getTime()", text, text),
									Expected: exp, Observed: obs, Aux: aux})
							}
						}
					}
				}
			}
		}
	}
	r.Bound("calendar_dates", fmt.Sprint(ndates))
	r.Bound("times", fmt.Sprint(isoTimes))
	r.Bound("shapes", "3 date forms x (none | 3 time forms x 5 offsets), 4-digit and expanded years")
}
