package c12

import (
	"fmt"
	"math"
	"strings"

	"github.com/robertkrimen/otto"

	"verif/mc/engine"
	"verif/mc/ref/date"
)

// reentrant: the step order of the setters (15.9.5.27-15.9.5.41) made observable.
// Every argument is an object whose valueOf logs "<index>@<receiver time value>;"
// and returns the argument's number; at most one of them additionally mutates the
// SAME receiver through another setter, or throws. The specification fixes:
//
//	1. t = this time value, read at entry (NaN -> +0 only for setUTCFullYear, and only as a local value);
//	2. ToNumber of every argument the setter reads, left to right - whatever t is and
//	   whatever the earlier arguments were (no short cut on NaN); arguments beyond the
//	   setter's parameter list are never converted;
//	3. the result composed from the fields of t and the converted arguments;
//	4. one write of the receiver at the very end (an abrupt ToNumber leaves the
//	   receiver as the valueOf calls left it).

const reentValid = 949363199999 // 2000-01-31T23:59:59.999Z

var reentReceivers = []float64{reentValid, 0, math.NaN()}

var reentArgVals = []float64{5, 40, math.NaN()}

// inner actions of the probe argument
type reentAction struct {
	src   string
	s     date.Setter
	args  []float64
	throw bool
}

var reentActions = []reentAction{
	{src: ""},
	{src: "d.setTime(0)", s: date.SetTime, args: []float64{0}},
	{src: "d.setTime(NaN)", s: date.SetTime, args: []float64{math.NaN()}},
	{src: "d.setUTCHours(7)", s: date.SetUTCHours, args: []float64{7}},
	{src: "d.setUTCMonth(5, 1)", s: date.SetUTCMonth, args: []float64{5, 1}},
	{src: "d.setUTCFullYear(1999)", s: date.SetUTCFullYear, args: []float64{1999}},
	{src: "throw marker", throw: true},
}

func toArgs(v []float64) []date.Arg {
	out := make([]date.Arg, len(v))
	for i, x := range v {
		out[i] = date.A(x)
	}
	return out
}

// reentModel predicts log | outcome | getTime,valueOf | fields. ottoFlow selects
// the alternative model of the known finding "c12-setter-shortcircuit".
func reentModel(ottoFlow bool, s date.Setter, t0 float64, vals []float64, ppos, pkind int) string {
	es5 := date.Variant{}
	cur := t0
	var log strings.Builder
	finish := func(outcome string) string {
		return log.String() + "|" + outcome + "|" + num(cur) + "," + num(cur) + "|" + fieldsString(cur)
	}
	if ottoFlow && s == date.SetUTCFullYear && math.IsNaN(cur) {
		cur = 0 // +0 is stored in the receiver before the arguments are converted
	}
	t := cur // step 1
	if ottoFlow && s != date.SetTime && math.IsNaN(t) {
		return finish("NaN") // invalid receiver: arguments are not converted at all
	}
	nconv := len(vals)
	if max := date.SetterMaxArgs[s]; nconv > max {
		nconv = max
	}
	for i := 0; i < nconv; i++ {
		fmt.Fprintf(&log, "%d@%s;", i, num(cur))
		if i == ppos {
			a := reentActions[pkind]
			if a.throw {
				return finish("throw:marker")
			}
			if a.src != "" {
				cur = date.Apply(es5, a.s, cur, toArgs(a.args))
			}
		}
		if ottoFlow && s != date.SetTime && (math.IsNaN(vals[i]) || math.IsInf(vals[i], 0)) {
			cur = math.NaN() // first non-finite argument ends the call; later arguments are not converted
			return finish("NaN")
		}
	}
	cur = date.Apply(es5, s, t, toArgs(vals[:nconv]))
	return finish(num(cur))
}

func runReentrant(r *engine.Run) {
	d := newDriver(r)
	for s := date.Setter(0); s < date.NSetters; s++ {
		max := date.SetterMaxArgs[s]
		for k := 1; k <= max+1; k++ {
			nmask := 1
			for i := 0; i < k; i++ {
				nmask *= len(reentArgVals)
			}
			for vmask := 0; vmask < nmask; vmask++ {
				vals := make([]float64, k)
				for i, m := 0, vmask; i < k; i, m = i+1, m/len(reentArgVals) {
					vals[i] = reentArgVals[m%len(reentArgVals)]
				}
				for ppos := -1; ppos < k; ppos++ {
					for pkind := 1; pkind < len(reentActions); pkind++ {
						if ppos == -1 && pkind > 1 {
							break // no probe position: one case
						}
						kind := pkind
						if ppos == -1 {
							kind = 0
						}
						for ri, t0 := range reentReceivers {
							key := fmt.Sprintf("%d.%d.%d.%d.%d.%d", int(s), k, vmask, ppos, kind, ri)
							if !mine(r, key) {
								continue
							}
							exp := reentModel(false, s, t0, vals, ppos, kind)
							call := []interface{}{t0, int(s), k}
							parts := make([]string, k)
							for i := 0; i < 5; i++ {
								if i < k {
									call = append(call, vals[i])
									parts[i] = fmt.Sprintf("A%d(%s)", i, num(vals[i]))
									if i == ppos {
										parts[i] = fmt.Sprintf("A%d(%s){%s}", i, num(vals[i]), reentActions[kind].src)
									}
								} else {
									call = append(call, 0.0)
								}
							}
							call = append(call, ppos, kind)
							input := fmt.Sprintf("d = new Date(%s); d.%s(%s)   [A<i>(x){act} = {valueOf: function(){ log(i, d.getTime()); act; return x }}]",
								num(t0), date.SetterNames[s], strings.Join(parts, ", "))
							r.Begin(key)
							obs := d.call(func(m *machine) otto.Value { return m.reent }, call...)
							r.End()
							// non-trivial: a probe acts on a valid receiver, or the receiver is invalid and arguments must still be converted
							r.Eval(kind != 0 || math.IsNaN(t0))
							r.Outcome(obs)
							if r.WantSample() && kind >= 3 && kind <= 5 && !math.IsNaN(t0) && vmask == 0 {
								r.Sample(input + " => " + obs)
							}
							if obs == exp {
								continue
							}
							aux := altAux("O", exp, func(string) string { return reentModel(true, s, t0, vals, ppos, kind) })
							r.Mismatch(engine.Mismatch{Key: key, Input: input, Expected: exp, Observed: obs, Aux: aux})
						}
					}
				}
			}
		}
	}
	r.Bound("setters", "7 setUTC* + setTime, arity 1..max+1")
	r.Bound("argument_values", "{5, 40, NaN}^arity, every argument an object with a logging valueOf")
	r.Bound("probe", "no probe | one position x {setTime(0), setTime(NaN), setUTCHours(7), setUTCMonth(5,1), setUTCFullYear(1999), throw}")
	r.Bound("receivers", "2000-01-31T23:59:59.999Z, 0, invalid")
}

// reentrantctor: Date.UTC (15.9.4.3) and new Date(y, m, ...) (15.9.3.1) apply ToNumber to
// every supplied argument (up to seven), in order, before composing: a NaN or
// infinite earlier argument does not end the conversions; an eighth argument is
// never converted; an exception from valueOf propagates after the earlier conversions.
func runReentrantCtor(r *engine.Run) {
	d := newDriver(r)
	es5 := date.Variant{}
	vals3 := []float64{5, math.NaN(), math.Inf(1)}
	base := []float64{2000, 5, 15, 12, 30, 7, 9, 4}
	model := func(stopAtNonFinite bool, vals []float64, ppos int) string {
		var log strings.Builder
		n := len(vals)
		if n > 7 {
			n = 7
		}
		for i := 0; i < n; i++ {
			fmt.Fprintf(&log, "%d;", i)
			if i == ppos {
				return log.String() + "|throw:marker"
			}
			if stopAtNonFinite && (math.IsNaN(vals[i]) || math.IsInf(vals[i], 0)) {
				return log.String() + "|NaN"
			}
		}
		return log.String() + "|" + num(date.FromFields(es5, toArgs(vals[:n])))
	}
	for opi := 0; opi < 2; opi++ {
		for k := 2; k <= 8; k++ {
			// one or two positions take a value from {5, NaN, Infinity}; the others keep the base tuple
			for p1 := 0; p1 < k; p1++ {
				for v1 := range vals3 {
					for p2 := p1; p2 < k; p2++ {
						for v2 := range vals3 {
							if p2 == p1 && v2 != v1 {
								continue
							}
							for ppos := -1; ppos < k; ppos++ {
								key := fmt.Sprintf("%d.%d.%d.%d.%d.%d.%d", opi, k, p1, v1, p2, v2, ppos)
								if !mine(r, key) {
									continue
								}
								vals := append([]float64(nil), base[:k]...)
								vals[p1], vals[p2] = vals3[v1], vals3[v2]
								exp := model(false, vals, ppos)
								call := []interface{}{opi, k}
								parts := make([]string, k)
								for i := 0; i < 8; i++ {
									if i < k {
										call = append(call, vals[i])
										parts[i] = fmt.Sprintf("A%d(%s)", i, num(vals[i]))
										if i == ppos {
											parts[i] = fmt.Sprintf("A%d{throw marker}", i)
										}
									} else {
										call = append(call, 0.0)
									}
								}
								call = append(call, ppos)
								input := tupleOps[opi] + "(" + strings.Join(parts, ", ") + ")   [A<i>(x) = {valueOf: function(){ log(i); return x }}]"
								r.Begin(key)
								obs := d.call(func(m *machine) otto.Value { return m.reentc }, call...)
								r.End()
								r.Eval(true)
								r.Outcome(obs)
								if r.WantSample() && ppos > 1 && p1 == 0 && v1 == 1 {
									r.Sample(input + " => " + obs)
								}
								if obs == exp {
									continue
								}
								aux := altAux("U", exp, func(string) string { return model(true, vals, ppos) })
								r.Mismatch(engine.Mismatch{Key: key, Input: input, Expected: exp, Observed: obs, Aux: aux})
							}
						}
					}
				}
			}
		}
	}
	r.Bound("operations", "Date.UTC and new Date with 2..8 arguments, every argument an object with a logging valueOf")
	r.Bound("values", "base tuple with one or two positions from {5, NaN, Infinity}; no probe | one throwing position")
}
