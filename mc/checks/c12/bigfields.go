package c12

import (
	"fmt"
	"math"
	"strconv"
	"strings"
	"time"

	"github.com/robertkrimen/otto"

	"verif/mc/engine"
	"verif/mc/ref/date"
)

// bigfields: finite field values far outside the +-1e6 range of the other
// families, at every field position of Date.UTC, the multi-argument constructor
// and the setUTC* setters: decades 1e7..1e22, the neighbours of 2^31, 2^32, 2^53,
// 2^63, 2^64, the limits of a millisecond count held in int64 nanoseconds, the
// time-value range limit, 1e300 and the largest double. MakeTime/MakeDay/MakeDate
// are IEEE double computations (15.9.1.11-13): a large field either still gives
// an in-range time value (Date.UTC(1970,0,1,0,0,0,1e13) = 1e13) or NaN by
// TimeClip; it never wraps around.

func bigValues() []float64 {
	var pos []float64
	for e := 7; e <= 22; e++ {
		pos = append(pos, math.Pow(10, float64(e)))
	}
	p31, p32, p53, p63 := math.Pow(2, 31), math.Pow(2, 32), math.Pow(2, 53), math.Pow(2, 63)
	pos = append(pos, p31-1, p31, p31+1, p32-1, p32, p32+1, p53-1, p53, p53+2,
		math.Nextafter(p63, 0), p63, math.Nextafter(p63, math.Inf(1)), math.Pow(2, 64),
		9.2e12, 9223372036854, 9223372036855, 9.3e12, // ms * 1e6 ns around 2^63
		8.64e15-1, 8.64e15, 8.64e15+1, 1e300, math.MaxFloat64)
	var out []float64
	for _, x := range pos {
		out = append(out, x, -x)
	}
	return out
}

// bigTwoDigitYears: year arguments around the 0..99 window of 15.9.3.1 step 8
// (the test is on ToInteger(year): -0.5 and 99.9 are inside, -1 and 100 outside).
func bigTwoDigitYears() []float64 {
	return []float64{math.Copysign(0, -1), 0, 0.5, -0.5, 1, 69, 70, 99, 99.9, 100, -1}
}

// bigDecadeNeighbours: 10^e+1 for e = 6..13 and 9e12, 9e12+1 (a millisecond count
// near 2^63 ns / 1024), both signs: just beyond the decades of bigValues.
func bigDecadeNeighbours() []float64 {
	var out []float64
	for e := 6; e <= 13; e++ {
		x := math.Pow(10, float64(e)) + 1
		out = append(out, x, -x)
	}
	return append(out, 9e12, -9e12, 9e12+1, -(9e12 + 1))
}

func bigSrc(x float64) string { return strconv.FormatFloat(x, 'g', -1, 64) }

// --- alternative model "G": composition in Go int arithmetic through time.Date,
// as newDateTime / builtinDateBeforeSet / ecmaTime.goTime do it. It coincides
// with ref/date whenever nothing overflows; it is used only to recognise the
// known finding c12-go-int-overflow, never as the oracle.

func anyBig(v []float64) bool {
	for _, x := range v {
		if math.Abs(x) > 1e6 {
			return true
		}
	}
	return false
}

func goFromFields(v []float64) float64 {
	f := []float64{1900, 0, 1, 0, 0, 0, 0}
	for i, x := range v {
		if math.IsNaN(x) || math.IsInf(x, 0) {
			return math.NaN()
		}
		f[i] = x
	}
	year := math.Trunc(f[0])
	if year >= 0 && year <= 99 {
		year += 1900
	}
	t := time.Date(int(year), time.Month(int(f[1])+1), int(f[2]), int(f[3]), int(f[4]), int(f[5]), int(f[6])*1000*1000, time.UTC)
	return date.TimeClip(float64(t.UnixMilli()))
}

func goNumberInt(x float64) int {
	switch {
	case x == 0:
		return 0
	case x >= math.MaxInt64:
		return math.MaxInt64
	case x <= math.MinInt64:
		return math.MinInt64
	}
	return int(int64(x))
}

func goApply(s date.Setter, t float64, v []float64) float64 {
	if s == date.SetTime {
		return date.Apply(date.Variant{}, s, t, toArgs(v))
	}
	if math.IsNaN(t) {
		if s != date.SetUTCFullYear {
			return math.NaN()
		}
		t = 0
	}
	if max := date.SetterMaxArgs[s]; len(v) > max {
		v = v[:max]
	}
	if len(v) == 0 {
		return math.NaN()
	}
	for _, x := range v {
		if math.IsNaN(x) || math.IsInf(x, 0) {
			return math.NaN()
		}
	}
	d := date.Decompose(int64(t))
	// year, month, day, hour, minute, second, millisecond
	f := []int{int(d.Year), int(d.Month), int(d.Date), int(d.Hours), int(d.Minutes), int(d.Seconds), int(d.Ms)}
	first := map[date.Setter]int{date.SetUTCMilliseconds: 6, date.SetUTCSeconds: 5, date.SetUTCMinutes: 4, date.SetUTCHours: 3,
		date.SetUTCDate: 2, date.SetUTCMonth: 1, date.SetUTCFullYear: 0}[s]
	for i, x := range v {
		f[first+i] = goNumberInt(x)
	}
	g := time.Date(f[0], time.Month(f[1]+1), f[2], f[3], f[4], f[5], f[6]*(100*100*100), time.UTC)
	return date.TimeClip(float64(g.UnixMilli()))
}

// --- the family

var bigBases = [2][]float64{{1970, 0, 1, 0, 0, 0, 0}, {2000, 5, 15, 12, 30, 7, 9}}

var bigCompensators = []float64{-1e8, 1e8, -8.64e15, 8.64e15, -300000, 300000}

var bigReceivers = []float64{0, 961072207009, math.NaN()}

func runBigFields(r *engine.Run) {
	d := newDriver(r)
	big := bigValues()
	es5 := date.Variant{}

	tuple := func(key string, opi int, vals []float64) {
		if !mine(r, key) {
			return
		}
		call := []interface{}{opi, len(vals)}
		srcs := make([]string, len(vals))
		for i, x := range vals {
			call = append(call, x)
			srcs[i] = bigSrc(x)
		}
		exp := num(date.FromFields(es5, toArgs(vals)))
		input := tupleOps[opi] + "(" + strings.Join(srcs, ", ") + ")"
		if opi == 1 {
			input += ".getTime()"
		}
		r.Begin(key)
		obs := d.call(func(m *machine) otto.Value { return m.fields }, call...)
		r.End()
		r.Eval(exp != "NaN")
		r.Outcome(obs)
		if r.WantSample() && exp != "NaN" {
			r.Sample(input + " => " + obs)
		}
		if obs == exp {
			return
		}
		aux := altAux("G", exp, func(string) string {
			if !anyBig(vals) {
				return exp
			}
			return num(goFromFields(vals))
		})
		r.Mismatch(engine.Mismatch{Key: key, Input: input, Expected: exp, Observed: obs, Aux: aux})
	}
	for bi, base := range bigBases {
		for opi := 0; opi < 2; opi++ {
			for p := 0; p < 7; p++ {
				for xi, x := range big {
					// full arity and the shortest arity that contains position p
					for _, k := range []int{7, p + 1} {
						if k < 2 {
							continue
						}
						vals := append([]float64(nil), base[:k]...)
						vals[p] = x
						tuple(fmt.Sprintf("t%d.%d.%d.%d.%d", bi, opi, p, xi, k), opi, vals)
						if k == 7 && p+1 == 7 {
							break // both arities are the same tuple
						}
					}
					if bi != 0 {
						continue
					}
					// a second field that can bring the result back into range
					for q := 0; q < 7; q++ {
						if q == p {
							continue
						}
						for ci, c := range bigCompensators {
							vals := append([]float64(nil), base...)
							vals[p], vals[q] = x, c
							tuple(fmt.Sprintf("p%d.%d.%d.%d.%d", opi, p, xi, q, ci), opi, vals)
						}
					}
				}
			}
		}
	}

	// setters
	for ri, t0 := range bigReceivers {
		for s := date.Setter(0); s < date.NSetters; s++ {
			for p := 0; p < date.SetterMaxArgs[s]; p++ {
				for xi, x := range big {
					key := fmt.Sprintf("s%d.%d.%d.%d", ri, int(s), p, xi)
					if !mine(r, key) {
						continue
					}
					vals := make([]float64, p+1)
					vals[p] = x
					call := []interface{}{t0, 0, int(s), len(vals)}
					srcs := make([]string, len(vals))
					for i := 0; i < 4; i++ {
						if i < len(vals) {
							call = append(call, vals[i])
							srcs[i] = bigSrc(vals[i])
						} else {
							call = append(call, otto.UndefinedValue())
						}
					}
					post := date.Apply(es5, s, t0, toArgs(vals))
					render := func(p float64) string {
						return num(t0) + "|" + num(p) + "," + num(p) + "," + num(p) + "|" + fieldsString(p)
					}
					exp := render(post)
					input := fmt.Sprintf("d = new Date(%s); d.%s(%s)", num(t0), date.SetterNames[s], strings.Join(srcs, ", "))
					r.Begin(key)
					obs := d.call(func(m *machine) otto.Value { return m.hist }, call...)
					r.End()
					r.Eval(!math.IsNaN(post))
					r.Outcome(obs)
					if r.WantSample() && !math.IsNaN(post) && s != date.SetTime {
						r.Sample(input + " => " + obs)
					}
					if obs == exp {
						continue
					}
					aux := altAux("G", exp, func(string) string { return render(goApply(s, t0, vals)) })
					r.Mismatch(engine.Mismatch{Key: key, Input: input, Expected: exp, Observed: obs, Aux: aux})
				}
			}
		}
	}
	// cancelling pairs: a large field and the opposite amount in a finer unit. In IEEE arithmetic
	// MakeTime(0, 0, 1e18, -1e21) is exactly 0, so the result is an ordinary in-range time value.
	unit := []float64{0, 0, 86400000, 3600000, 60000, 1000, 1}
	for opi := 0; opi < 2; opi++ {
		for p := 2; p < 7; p++ {
			for q := p + 1; q < 7; q++ {
				for xi, x := range big {
					y := -x * (unit[p] / unit[q])
					if math.IsInf(y, 0) {
						continue
					}
					vals := append([]float64(nil), bigBases[0]...)
					vals[p], vals[q] = x, y
					tuple(fmt.Sprintf("c%d.%d.%d.%d", opi, p, q, xi), opi, vals)
				}
			}
		}
	}
	for ri, t0 := range bigReceivers[:2] {
		for _, s := range []date.Setter{date.SetUTCSeconds, date.SetUTCMinutes, date.SetUTCHours} {
			max := date.SetterMaxArgs[s]
			for p := 0; p < max; p++ {
				for q := p + 1; q < max; q++ {
					for xi, x := range big {
						// argument i of setter s is field 7-max+i of the tuple
						y := -x * (unit[7-max+p] / unit[7-max+q])
						if math.IsInf(y, 0) {
							continue
						}
						key := fmt.Sprintf("k%d.%d.%d.%d.%d", ri, int(s), p, q, xi)
						if !mine(r, key) {
							continue
						}
						vals := make([]float64, q+1)
						vals[p], vals[q] = x, y
						call := []interface{}{t0, 0, int(s), len(vals)}
						srcs := make([]string, len(vals))
						for i := 0; i < 4; i++ {
							if i < len(vals) {
								call = append(call, vals[i])
								srcs[i] = bigSrc(vals[i])
							} else {
								call = append(call, otto.UndefinedValue())
							}
						}
						render := func(p float64) string {
							return num(t0) + "|" + num(p) + "," + num(p) + "," + num(p) + "|" + fieldsString(p)
						}
						post := date.Apply(es5, s, t0, toArgs(vals))
						exp := render(post)
						input := fmt.Sprintf("d = new Date(%s); d.%s(%s)", num(t0), date.SetterNames[s], strings.Join(srcs, ", "))
						r.Begin(key)
						obs := d.call(func(m *machine) otto.Value { return m.hist }, call...)
						r.End()
						r.Eval(!math.IsNaN(post))
						r.Outcome(obs)
						if r.WantSample() && !math.IsNaN(post) && math.Abs(x) >= 1e18 {
							r.Sample(input + " => " + obs)
						}
						if obs == exp {
							continue
						}
						aux := altAux("A", exp, func(string) string {
							// A: arguments saturated to the int64 range before the (IEEE) composition
							sat := make([]float64, len(vals))
							hit := false
							for i, v := range vals {
								sat[i] = math.Max(math.Min(v, math.MaxInt64), math.MinInt64)
								hit = hit || sat[i] != v
							}
							if !hit {
								return exp
							}
							return render(date.Apply(es5, s, t0, toArgs(sat)))
						})
						r.Mismatch(engine.Mismatch{Key: key, Input: input, Expected: exp, Observed: obs, Aux: aux})
					}
				}
			}
		}
	}
	// year/month carry: a large year and the opposite number of months. MakeDay uses
	// ym = y + floor(m/12) (15.9.1.12 step 5): NaN is only for a RESULT that has no time value.
	rawLimit := func(vals []float64, exp string) string {
		// M: NaN whenever |year| > 1e6 or |month| > 1e7 on the raw fields
		if math.Abs(vals[0]) > 1e6 || math.Abs(vals[1]) > 1e7 {
			return "NaN"
		}
		return exp
	}
	for opi := 0; opi < 2; opi++ {
		for xi, x := range big {
			for ci, c := range []float64{0, 5, 12 * 83333} {
				m := -12*x + c
				if math.Abs(m) > 1e15 {
					continue // beyond that y + floor(m/12) is no longer exact in doubles: outside the bound
				}
				key := fmt.Sprintf("y%d.%d.%d", opi, xi, ci)
				vals := []float64{x, m, 1, 0, 0, 0, 0}
				if !mine(r, key) {
					continue
				}
				call := []interface{}{opi, 7}
				srcs := make([]string, 7)
				for i, v := range vals {
					call = append(call, v)
					srcs[i] = bigSrc(v)
				}
				exp := num(date.FromFields(es5, toArgs(vals)))
				input := tupleOps[opi] + "(" + strings.Join(srcs, ", ") + ")"
				if opi == 1 {
					input += ".getTime()"
				}
				r.Begin(key)
				obs := d.call(func(m *machine) otto.Value { return m.fields }, call...)
				r.End()
				r.Eval(exp != "NaN")
				r.Outcome(obs)
				if obs == exp {
					continue
				}
				aux := altAux("M", exp, func(string) string { return rawLimit(vals, exp) })
				r.Mismatch(engine.Mismatch{Key: key, Input: input, Expected: exp, Observed: obs, Aux: aux})
			}
		}
	}
	for xi, x := range big {
		for ci, c := range []float64{0, 5, 12 * 83333} {
			m := -12*x + c + 12*1970
			if math.Abs(m) > 1e15 {
				continue
			}
			key := fmt.Sprintf("ys.%d.%d", xi, ci)
			if !mine(r, key) {
				continue
			}
			vals := []float64{x, m}
			render := func(p float64) string { return "0|" + num(p) + "," + num(p) + "," + num(p) + "|" + fieldsString(p) }
			exp := render(date.Apply(es5, date.SetUTCFullYear, 0, toArgs(vals)))
			input := fmt.Sprintf("d = new Date(0); d.setUTCFullYear(%s, %s)", bigSrc(x), bigSrc(m))
			r.Begin(key)
			obs := d.call(func(m *machine) otto.Value { return m.hist }, 0.0, 0, int(date.SetUTCFullYear), 2, x, m, otto.UndefinedValue(), otto.UndefinedValue())
			r.End()
			r.Eval(!strings.Contains(exp, "NaN,NaN"))
			r.Outcome(obs)
			if obs == exp {
				continue
			}
			aux := altAux("M", exp, func(string) string {
				if math.Abs(x) > 1e6 || math.Abs(m) > 1e7 {
					return render(math.NaN())
				}
				return exp
			})
			r.Mismatch(engine.Mismatch{Key: key, Input: input, Expected: exp, Observed: obs, Aux: aux})
		}
	}
	// two-digit years: the 0..99 -> 1900+y rule of 15.9.3.1 step 8 / 15.9.4.3 step 8 tests
	// ToInteger(year) whatever the size of the other fields, and never applies to setUTCFullYear.
	twoDigit := bigTwoDigitYears()
	mags := append(append([]float64(nil), big...), bigDecadeNeighbours()...)
	for bi, base := range bigBases {
		for opi := 0; opi < 2; opi++ {
			for yi, y := range twoDigit {
				for p := 1; p < 7; p++ {
					for xi, x := range mags {
						for _, k := range []int{7, p + 1} {
							vals := append([]float64(nil), base[:k]...)
							vals[0], vals[p] = y, x
							tuple(fmt.Sprintf("d%d.%d.%d.%d.%d.%d", bi, opi, yi, p, xi, k), opi, vals)
							if p+1 == 7 {
								break
							}
						}
					}
				}
			}
		}
	}
	for ri, t0 := range bigReceivers[:2] {
		for yi, y := range twoDigit {
			for p := 1; p < 3; p++ {
				for xi, x := range mags {
					key := fmt.Sprintf("ds%d.%d.%d.%d", ri, yi, p, xi)
					if !mine(r, key) {
						continue
					}
					s := date.SetUTCFullYear
					vals := []float64{y, 0, 1}[:p+1]
					vals[p] = x
					call := []interface{}{t0, 0, int(s), len(vals)}
					srcs := make([]string, len(vals))
					for i := 0; i < 4; i++ {
						if i < len(vals) {
							call = append(call, vals[i])
							srcs[i] = bigSrc(vals[i])
						} else {
							call = append(call, otto.UndefinedValue())
						}
					}
					post := date.Apply(es5, s, t0, toArgs(vals))
					render := func(p float64) string {
						return num(t0) + "|" + num(p) + "," + num(p) + "," + num(p) + "|" + fieldsString(p)
					}
					exp := render(post)
					input := fmt.Sprintf("d = new Date(%s); d.%s(%s)", num(t0), date.SetterNames[s], strings.Join(srcs, ", "))
					r.Begin(key)
					obs := d.call(func(m *machine) otto.Value { return m.hist }, call...)
					r.End()
					r.Eval(!math.IsNaN(post))
					r.Outcome(obs)
					if obs == exp {
						continue
					}
					aux := altAux("G", exp, func(string) string { return render(goApply(s, t0, vals)) })
					r.Mismatch(engine.Mismatch{Key: key, Input: input, Expected: exp, Observed: obs, Aux: aux})
				}
			}
		}
	}
	r.Bound("two_digit_years", fmt.Sprintf("year from %d values {-0, 0, 0.5, -0.5, 1, 69, 70, 99, 99.9, 100, -1} x one other field (every position) from %d magnitudes (values + decade neighbours 10^e+1, 9e12, 9e12+1, both signs) x 2 bases x {Date.UTC, new Date} x {full, shortest} arity; setUTCFullYear(y, month[, day]) with the same years and magnitudes on 2 receivers (no adjustment)", len(twoDigit), len(mags)))
	r.Bound("year_month_carry", "year x with month -12x (+0, +5, +12*83333), |month| <= 1e15: Date.UTC, new Date, setUTCFullYear")
	r.Bound("cancelling_pairs", "field p = x, finer field q = -x * unit(p)/unit(q): all pairs of day..ms in Date.UTC / new Date, all argument pairs of setUTCSeconds/Minutes/Hours")
	r.Bound("values", fmt.Sprintf("%d: +-{1e7..1e22, 2^31-1..2^31+1, 2^32-1..2^32+1, 2^53-1, 2^53, 2^53+2, 2^63 and neighbours, 2^64, 9.2e12..9.3e12, 8.64e15-1..8.64e15+1, 1e300, MAX_VALUE}", len(big)))
	r.Bound("tuples", "2 bases x {Date.UTC, new Date} x 7 positions x {full, shortest} arity; base 1970: second field from {-1e8, 1e8, -8.64e15, 8.64e15, -300000, 300000}")
	r.Bound("setters", "3 receivers x every argument position of the 8 setters (earlier arguments 0)")
}
