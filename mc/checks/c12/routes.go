package c12

import (
	"fmt"
	"math"
	"strings"

	"github.com/robertkrimen/otto"

	"verif/mc/engine"
	"verif/mc/ref/date"
)

// invalidroutes: every ROUTE into the invalid state followed by setters and
// getters. The history family merges states on the time value, so it meets the
// invalid state only as new Date(NaN); an invalid date answers NaN to every
// accessor, which hides what the implementation keeps underneath (otto keeps a
// time.Time next to the isNaN flag). The year setters and setTime bring an
// invalid date back to life (15.9.5.27, 15.9.5.40/41 step 1: t = +0), so any
// leftover of the pre-invalid value becomes observable there. This family
// therefore enumerates the ways of becoming invalid - TimeClip overflow through
// each setter, setTime out of range / NaN / undefined / no argument, NaN
// arguments, constructor overflow, unparsable text, Date.prototype itself - as
// prefixes of 2-3 step histories, every step compared with ref/date on return
// value, getTime, valueOf, the 8 accessors and toISOString.

type seqOp struct {
	s    date.Setter
	args []jsArg
}

func (o seqOp) src() string {
	parts := make([]string, len(o.args))
	for i, a := range o.args {
		parts[i] = a.Src
	}
	return "d." + date.SetterNames[o.s] + "(" + strings.Join(parts, ", ") + ")"
}

func (o seqOp) model() []date.Arg {
	out := make([]date.Arg, len(o.args))
	for i, a := range o.args {
		out[i] = date.A(a.Num)
	}
	return out
}

func op(s date.Setter, srcs ...string) *seqOp { return &seqOp{s, args(srcs...)} }

type route struct {
	ctor   int      // 0: new Date(c0)   1: new Date(c0, c1)   2: Date.prototype
	c      []string // constructor argument sources
	via    *seqOp   // setter that invalidates the date (nil: invalid by construction)
	cmodel float64  // model time value after construction
}

const routeStart = "961072207009" // 2000-06-15T12:30:07.009Z

func invalidRoutes() []route {
	nan := math.NaN()
	var out []route
	// invalid by construction
	for _, c := range []string{"NaN", "undefined", "8640000000000001", "-8640000000000001", "Infinity", `"x"`} {
		out = append(out, route{ctor: 0, c: []string{c}, cmodel: nan})
	}
	out = append(out, route{ctor: 1, c: []string{"300000", "0"}, cmodel: nan})
	out = append(out, route{ctor: 1, c: []string{"-300000", "0"}, cmodel: nan})
	out = append(out, route{ctor: 1, c: []string{"NaN", "0"}, cmodel: nan})
	out = append(out, route{ctor: 2, cmodel: nan})
	// invalidated by a setter
	from := func(start string, ops ...*seqOp) {
		a := arg(start)
		for _, o := range ops {
			out = append(out, route{ctor: 0, c: []string{start}, via: o, cmodel: date.FromValue(date.Variant{}, a.Num)})
		}
	}
	from(routeStart,
		op(date.SetTime, "NaN"), op(date.SetTime, "undefined"), op(date.SetTime), op(date.SetTime, "8640000000000001"),
		op(date.SetTime, "-8640000000000001"), op(date.SetTime, "Infinity"),
		op(date.SetUTCFullYear, "300000"), op(date.SetUTCFullYear, "-300000"), op(date.SetUTCFullYear, "2000", "4000000"),
		op(date.SetUTCMonth, "4000000"), op(date.SetUTCMonth, "-4000000"), op(date.SetUTCMonth, "5", "100000001"),
		op(date.SetUTCDate, "100000001"), op(date.SetUTCDate, "-100100000"),
		op(date.SetUTCHours, "2500000000"), op(date.SetUTCHours, "-2500000000"), op(date.SetUTCHours, "0", "150000000000"),
		op(date.SetUTCMinutes, "150000000000"), op(date.SetUTCMinutes, "0", "9000000000000"),
		op(date.SetUTCSeconds, "9000000000000"), op(date.SetUTCSeconds, "-9000000000000"),
		// NaN arguments / missing arguments
		op(date.SetUTCMilliseconds, "NaN"), op(date.SetUTCMilliseconds), op(date.SetUTCSeconds, "1", "NaN"), op(date.SetUTCHours, "NaN"),
		op(date.SetUTCDate), op(date.SetUTCMonth, "undefined"), op(date.SetUTCFullYear, "NaN"), op(date.SetUTCFullYear, "2001", "1", "undefined"),
	)
	from("8640000000000000", op(date.SetUTCMilliseconds, "1"), op(date.SetUTCSeconds, "1"), op(date.SetUTCDate, "14"), op(date.SetUTCFullYear, "275761"))
	from("-8640000000000000", op(date.SetUTCMilliseconds, "-1"), op(date.SetUTCDate, "19"), op(date.SetUTCMonth, "2"))
	return out
}

func reviver(o *seqOp) bool { return o.s == date.SetUTCFullYear || o.s == date.SetTime }

func snapModel(ret string, t float64) string {
	iso := "throw:RangeError"
	if !math.IsNaN(t) {
		iso = "string:" + date.ISO(int64(t))
	}
	return ret + "," + num(t) + "," + num(t) + "|" + fieldsString(t) + "|" + iso
}

func runInvalidRoutes(r *engine.Run) {
	d := newDriver(r)
	es5 := date.Variant{}
	routes := invalidRoutes()
	// follow-up alphabets derived from the history alphabet
	// (f1: arity <= 2 over the model-distinct values; short[i]: member of the smaller arity <= 1 alphabet;
	// indices into f1 are the replay keys in both tiers)
	var f1 []*seqOp
	var short []bool
	for _, h := range histOps() {
		if !thirdStepOp(h) {
			continue
		}
		o := &seqOp{s: h.s}
		for _, a := range h.args {
			o.args = append(o.args, arg(histArgSrc[a]))
		}
		f1 = append(f1, o)
		short = append(short, len(h.args) <= 1)
	}
	// years that make the revived date land on interesting fields
	f1 = append(f1, op(date.SetUTCFullYear, "2001"), op(date.SetUTCFullYear, "2001", "1"), op(date.SetUTCFullYear, "2004", "1", "29"), op(date.SetTime, "86400000"))
	short = append(short, true, false, false, true)
	nshort := 0
	for _, b := range short {
		if b {
			nshort++
		}
	}
	nfirst := nshort
	if r.Thorough() {
		nfirst = len(f1)
	}
	und := otto.UndefinedValue()
	slot := func(call []interface{}, o *seqOp) []interface{} {
		call = append(call, int(o.s), len(o.args))
		for i := 0; i < 4; i++ {
			if i < len(o.args) {
				call = append(call, o.args[i].Val)
			} else {
				call = append(call, und)
			}
		}
		return call
	}
	stop := false
	run := func(ri int, rt route, key string, ops []*seqOp) {
		if stop || !mine(r, key) {
			return
		}
		if r.Expired() {
			r.Cap("time budget reached")
			stop = true
			return
		}
		var c0, c1 interface{} = und, und
		var csrc []string
		for i, c := range rt.c {
			a := arg(c)
			csrc = append(csrc, a.Src)
			if i == 0 {
				c0 = a.Val
			} else {
				c1 = a.Val
			}
		}
		input := "d = new Date(" + strings.Join(csrc, ", ") + ")"
		if rt.ctor == 2 {
			input = "d = Date.prototype"
		}
		all := ops
		if rt.via != nil {
			all = append([]*seqOp{rt.via}, ops...)
		}
		call := []interface{}{rt.ctor, c0, c1, len(all)}
		t := rt.cmodel
		exp := []string{snapModel("undefined:undefined", t)}
		for _, o := range all {
			call = slot(call, o)
			t = date.Apply(es5, o.s, t, o.model())
			exp = append(exp, snapModel(num(t), t))
			input += "; " + o.src()
		}
		for i := len(all); i < 3; i++ {
			call = append(call, 0, 0, und, und, und, und)
		}
		r.Begin(key)
		obs := d.call(func(m *machine) otto.Value { return m.seq }, call...)
		r.End()
		if rt.ctor == 2 {
			d.reset() // Date.prototype was mutated: never reuse that runtime
		}
		r.Tree(0, int64(len(all)))
		r.Eval(!math.IsNaN(t)) // non-trivial: the history ends in a valid (revived) date
		r.Outcome(obs)
		if r.WantSample() && !math.IsNaN(t) && rt.via != nil && len(ops) == 2 {
			r.Sample(input + " => " + obs)
		}
		r.Check(key, input, strings.Join(exp, " / "), obs)
	}
	for ri, rt := range routes {
		// two-step histories: route, then every operation of the depth-3 alphabet
		for i, o := range f1 {
			run(ri, rt, fmt.Sprintf("r%d.%d", ri, i), []*seqOp{o})
		}
		// three-step histories
		for i, o1 := range f1 {
			if !short[i] && !r.Thorough() {
				continue
			}
			for j, o2 := range f1 {
				if !short[j] {
					continue
				}
				// quick tier: one of the two steps can bring an invalid date back (setUTCFullYear, setTime)
				if !r.Thorough() && !reviver(o1) && !reviver(o2) {
					continue
				}
				run(ri, rt, fmt.Sprintf("r%d.%d.%d", ri, i, j), []*seqOp{o1, o2})
			}
		}
	}
	r.Bound("routes", fmt.Sprint(len(routes)))
	r.Bound("two_step", fmt.Sprintf("route x %d operations", len(f1)))
	r.Bound("three_step", fmt.Sprintf("route x %d x %d operations (quick: pairs in which at least one step is setUTCFullYear or setTime)", nfirst, nshort))
}
