package c12

import (
	"fmt"
	"math"
	"strconv"
	"strings"

	"github.com/robertkrimen/otto"

	"verif/mc/engine"
	"verif/mc/ref/date"
)

var tupleBases = [2][]string{
	{"2000", "0", "1", "0", "0", "0", "0"},
	{"1970", "11", "31", "23", "59", "59", "999"},
}

// deviation values for a tuple component (DESIGN C12 alphabet, extended by the
// fractional values around the two-digit-year window: -0.5 and 99.5).
var tupleDevs = []string{"NaN", "Infinity", "-Infinity", "undefined", "-1000000", "-13", "-1", "0", "1", "11", "12", "13",
	"24", "60", "99", "100", "1000", "1000000", "1.5", "-1.5", `"3"`, "null", "-0.5", "99.5"}

var tupleOps = [2]string{"Date.UTC", "new Date"}

// tupleCase executes one field tuple and compares it with 15.9.4.3 / 15.9.3.1.
func tupleCase(r *engine.Run, d *driver, key string, op int, vals []jsArg) {
	margs := make([]date.Arg, len(vals))
	call := make([]interface{}, 0, 9)
	call = append(call, op, len(vals))
	srcs := make([]string, len(vals))
	for i, a := range vals {
		margs[i] = date.A(a.Num)
		call = append(call, a.Val)
		srcs[i] = a.Src
	}
	exp := date.FromFields(date.Variant{}, margs)
	input := tupleOps[op] + "(" + strings.Join(srcs, ", ") + ")"
	if op == 1 {
		input += ".getTime()"
	}
	r.Begin(key)
	obs := d.call(func(m *machine) otto.Value { return m.fields }, call...)
	r.End()
	r.Eval(!math.IsNaN(exp))
	r.Outcome(obs)
	if r.WantSample() && !math.IsNaN(exp) {
		r.Sample(input + " => " + obs)
	}
	es := num(exp)
	if obs == es {
		return
	}
	aux := altAux("CY", es, func(flags string) string { return num(date.FromFields(variantOf(flags), margs)) })
	r.Mismatch(engine.Mismatch{Key: key, Input: input, Expected: es, Observed: obs, Aux: aux})
}

func runTuples(r *engine.Run) {
	d := newDriver(r)
	devs := args(tupleDevs...)
	var bases [2][]jsArg
	for i := range tupleBases {
		bases[i] = args(tupleBases[i]...)
	}
	stop := false
	engine.Explore(r, 2, func(c *engine.Chooser) {
		b := c.Pick(2)
		op := c.Pick(2)
		k := 2 + c.Pick(6)
		vals := make([]jsArg, k)
		dup := false
		for i := 0; i < k; i++ {
			dv := c.Deviate(1 + len(devs))
			if dv == 0 {
				vals[i] = bases[b][i]
			} else {
				vals[i] = devs[dv-1]
				if vals[i].Src == bases[b][i].Src {
					dup = true // "deviation" equal to the default: same tuple as a cheaper leaf
				}
			}
		}
		if dup {
			if r.Shard == 0 {
				r.Skip()
			}
			return
		}
		key := c.Key()
		if stop || !r.MineKey(key) {
			return
		}
		if r.Expired() {
			r.Cap("time budget reached")
			stop = true
			return
		}
		tupleCase(r, d, key, op, vals)
	})
	r.Bound("deviations", "2")
	r.Bound("arity", "2..7")
	r.Bound("deviation_values", strings.Join(tupleDevs, " "))
	r.Bound("bases", fmt.Sprint(tupleBases))
}

// runOffsets: all 7-tuples base + {-1,0,+1}^7 for both bases and both operations.
func runOffsets(r *engine.Run) {
	d := newDriver(r)
	one := func(idx []int) {
		b, op := idx[0], idx[1]
		vals := make([]jsArg, 7)
		parts := make([]string, len(idx))
		for i, x := range idx {
			parts[i] = strconv.Itoa(x)
		}
		for i := 0; i < 7; i++ {
			base, _ := strconv.Atoi(tupleBases[b][i])
			vals[i] = arg(strconv.Itoa(base + idx[2+i] - 1))
		}
		tupleCase(r, d, strings.Join(parts, "."), op, vals)
	}
	sizes := []int{2, 2, 3, 3, 3, 3, 3, 3, 3}
	if r.ReplayKey != "" {
		parts := strings.Split(r.ReplayKey, ".")
		if len(parts) != len(sizes) {
			return
		}
		idx := make([]int, len(sizes))
		for i, p := range parts {
			v, err := strconv.Atoi(p)
			if err != nil || v < 0 || v >= sizes[i] {
				return
			}
			idx[i] = v
		}
		one(idx)
		return
	}
	engine.Product(r, sizes, one)
	r.Bound("offsets", "{-1,0,+1}^7 x 2 bases x {Date.UTC, new Date}")
}
