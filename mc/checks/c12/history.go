package c12

import (
	"fmt"
	"math"
	"strconv"
	"strings"

	"github.com/robertkrimen/otto"

	"verif/mc/engine"
	"verif/mc/ref/date"
)

// history: E2 explicit-state BFS. The state of a Date object is its time value
// (one number or NaN): every setter is a function of the time value and its
// arguments, and after every transition all three redundant representations
// otto keeps (epoch -> getTime, value -> valueOf, time.Time -> getUTC*) are
// compared with the model, so two histories that reach the same model state
// and passed the comparison are the same implementation state.

var histInits = []float64{0, 951782400000 /* 2000-02-29 */, -1, 8.64e15, math.NaN()}

var histArgSrc = []string{"-1", "0", "1", "31", "60", "1000", "NaN", "1.5", "undefined", "-1.5"}

// histDistinct: the first histDistinct argument values have pairwise distinct
// ToInteger(ToNumber(.)); the others (1.5, undefined, -1.5) repeat one of them and
// exercise only the argument conversion, which does not depend on the receiver.
const histDistinct = 7

// thirdStepOp selects the operations applied to the depth-2 states in the
// thorough tier.
func thirdStepOp(op histOp) bool {
	if len(op.args) > 2 {
		return false
	}
	for _, a := range op.args {
		if a >= histDistinct {
			return false
		}
	}
	return true
}

type histOp struct {
	s    date.Setter
	args []int // indices into histArgSrc
}

// histOps is the operation alphabet (identical in both tiers; replay keys index
// it). For every setter and every legal arity 0..max: all tuples for arity <= 2;
// for arity 3 and 4 the first argument ranges over the whole alphabet and at
// most one of the later arguments differs from 0. The value alphabet contains
// 1.5 and -1.5 so that ToInteger is told apart from floor, ceil and round.
func histOps() []histOp {
	var ops []histOp
	n := len(histArgSrc)
	zero := 1 // index of "0"
	for s := date.Setter(0); s < date.NSetters; s++ {
		max := date.SetterMaxArgs[s]
		for k := 0; k <= max; k++ {
			switch {
			case k == 0:
				ops = append(ops, histOp{s, nil})
			case k == 1:
				for a := 0; a < n; a++ {
					ops = append(ops, histOp{s, []int{a}})
				}
			case k == 2:
				for a := 0; a < n; a++ {
					for b := 0; b < n; b++ {
						ops = append(ops, histOp{s, []int{a, b}})
					}
				}
			default:
				for a := 0; a < n; a++ {
					base := make([]int, k)
					base[0] = a
					for i := 1; i < k; i++ {
						base[i] = zero
					}
					ops = append(ops, histOp{s, append([]int(nil), base...)})
					for pos := 1; pos < k; pos++ {
						for b := 0; b < n; b++ {
							if b == zero {
								continue
							}
							t := append([]int(nil), base...)
							t[pos] = b
							ops = append(ops, histOp{s, t})
						}
					}
				}
			}
		}
	}
	return ops
}

type histState struct {
	t    float64
	init int
	path []int32
}

func tkey(t float64) uint64 {
	if math.IsNaN(t) {
		return 0x7ff8000000000001
	}
	return math.Float64bits(t + 0)
}

type histRunner struct {
	r      *engine.Run
	d      *driver
	ops    []histOp
	av     []jsArg
	direct int64
}

func (h *histRunner) modelArgs(op histOp) []date.Arg {
	out := make([]date.Arg, len(op.args))
	for i, a := range op.args {
		out[i] = date.A(h.av[a].Num)
	}
	return out
}

func (h *histRunner) opSrc(op histOp) string {
	parts := make([]string, len(op.args))
	for i, a := range op.args {
		parts[i] = h.av[a].Src
	}
	return "d." + date.SetterNames[op.s] + "(" + strings.Join(parts, ", ") + ")"
}

func (h *histRunner) slot(call []interface{}, op histOp) []interface{} {
	call = append(call, int(op.s), len(op.args))
	for i := 0; i < 4; i++ {
		if i < len(op.args) {
			call = append(call, h.av[op.args[i]].Val)
		} else {
			call = append(call, otto.UndefinedValue())
		}
	}
	return call
}

// transition executes path+op on a fresh Date object and compares the last
// step with the model (pre is the model state before the last step).
func (h *histRunner) transition(key string, init float64, path []int32, opi int, pre float64) {
	r := h.r
	op := h.ops[opi]
	margs := h.modelArgs(op)
	post := date.Apply(date.Variant{}, op.s, pre, margs)
	render := func(p float64) string { return num(p) + "," + num(p) + "," + num(p) + "|" + fieldsString(p) }
	exp := render(post)

	exec := func(init float64, path []int32) string {
		call := make([]interface{}, 0, 20)
		call = append(call, init, len(path))
		for _, p := range path {
			call = h.slot(call, h.ops[p])
		}
		call = h.slot(call, op)
		return h.d.call(func(m *machine) otto.Value { return m.hist }, call...)
	}
	r.Begin(key)
	obs := exec(init, path)
	direct := false
	if i := strings.IndexByte(obs, '|'); i >= 0 && len(path) > 0 && obs[:i] != num(pre) {
		// The real object did not reach the model's pre-state: an earlier transition of
		// this path disagreed with the model (reported where that transition was explored).
		// Check this transition from a receiver constructed directly in the model state.
		direct = true
		h.direct++
		obs = exec(pre, nil)
	}
	r.End()
	r.Tree(0, 1)
	r.Eval(!math.IsNaN(pre) || !math.IsNaN(post))
	r.Outcome(obs)
	var srcs []string
	recv := init
	if direct {
		recv = pre
	} else {
		for _, p := range path {
			srcs = append(srcs, h.opSrc(h.ops[p]))
		}
	}
	input := "d = new Date(" + num(recv) + "); " + strings.Join(append(srcs, h.opSrc(op)), "; ")
	if r.WantSample() && !math.IsNaN(post) && len(path) > 0 {
		r.Sample(input + " => " + obs)
	}
	want := num(pre) + "|" + exp
	if obs == want {
		return
	}
	o := obs
	if i := strings.IndexByte(obs, '|'); i >= 0 && obs[:i] == num(pre) {
		o = obs[i+1:]
	} else {
		exp = want
	}
	aux := altAux("CST", exp, func(flags string) string {
		p := date.Apply(variantOf(flags), op.s, pre, margs)
		if strings.IndexByte(flags, 'T') >= 0 && op.s == date.SetTime && math.IsNaN(pre) {
			// T: setTime computes and returns the new time value but an invalid receiver stays invalid
			return num(p) + ",NaN,NaN|" + fieldsString(math.NaN())
		}
		return render(p)
	})
	if direct {
		aux["receiver"] = "direct"
	}
	r.Mismatch(engine.Mismatch{Key: key, Input: input, Expected: exp, Observed: o, Aux: aux})
}

func histKey(init int, path []int32, opi int) string {
	var sb strings.Builder
	sb.WriteString("i")
	sb.WriteString(strconv.Itoa(init))
	for _, p := range path {
		sb.WriteByte('.')
		sb.WriteString(strconv.Itoa(int(p)))
	}
	sb.WriteByte('.')
	sb.WriteString(strconv.Itoa(opi))
	return sb.String()
}

func runHistory(r *engine.Run) {
	h := &histRunner{r: r, d: newDriver(r), ops: histOps(), av: args(histArgSrc...)}
	es5 := date.Variant{}

	if r.ReplayKey != "" {
		parts := strings.Split(strings.TrimPrefix(r.ReplayKey, "i"), ".")
		if len(parts) < 2 {
			return
		}
		var idx []int
		for _, p := range parts {
			v, err := strconv.Atoi(p)
			if err != nil {
				return
			}
			idx = append(idx, v)
		}
		if idx[0] < 0 || idx[0] >= len(histInits) {
			return
		}
		pre := histInits[idx[0]]
		var path []int32
		for _, p := range idx[1 : len(idx)-1] {
			if p < 0 || p >= len(h.ops) {
				return
			}
			pre = date.Apply(es5, h.ops[p].s, pre, h.modelArgs(h.ops[p]))
			path = append(path, int32(p))
		}
		last := idx[len(idx)-1]
		if last < 0 || last >= len(h.ops) {
			return
		}
		h.transition(r.ReplayKey, histInits[idx[0]], path, last, pre)
		return
	}

	depth := 2
	if r.Thorough() {
		depth = 3
	}
	seen := map[uint64]bool{}
	var frontier []histState
	for i, t := range histInits {
		if !seen[tkey(t)] {
			seen[tkey(t)] = true
			frontier = append(frontier, histState{t: t, init: i})
		}
	}
	if r.Shard == 0 {
		r.Tree(int64(len(frontier)), 0)
	}
	completed := 0
	stop := false
	for lvl := 1; lvl <= depth && !stop; lvl++ {
		var next []histState
		for si := range frontier {
			st := &frontier[si]
			if r.Expired() {
				r.Cap(fmt.Sprintf("time budget reached inside depth %d (%d states at that depth); depth %d completed", lvl, len(frontier), completed))
				stop = true
				break
			}
			for opi := range h.ops {
				op := h.ops[opi]
				if lvl >= 3 && !thirdStepOp(op) {
					continue // see Bound "depth3_operations"
				}
				if lvl == 2 && !r.Thorough() && len(op.args) > 2 {
					continue // quick tier: second step with arities 0..2 (subset of thorough)
				}
				if r.Mine() {
					h.transition(histKey(st.init, st.path, opi), histInits[st.init], st.path, opi, st.t)
				}
				if lvl == depth {
					continue // successors of the last level are not expanded
				}
				post := date.Apply(es5, op.s, st.t, h.modelArgs(op))
				k := tkey(post)
				if !seen[k] {
					seen[k] = true
					np := make([]int32, len(st.path)+1)
					copy(np, st.path)
					np[len(st.path)] = int32(opi)
					next = append(next, histState{t: post, init: st.init, path: np})
					if r.Shard == 0 {
						r.Tree(1, 0)
					}
				}
			}
		}
		if !stop {
			completed = lvl
		}
		frontier = next
	}
	r.Bound("depth", strconv.Itoa(completed))
	r.Bound("operations", strconv.Itoa(len(h.ops)))
	if !r.Thorough() {
		r.Bound("depth2_operations", "arities 0..2 only (quick tier)")
	}
	if depth >= 3 {
		n := 0
		for _, op := range h.ops {
			if thirdStepOp(op) {
				n++
			}
		}
		r.Bound("depth3_operations", fmt.Sprintf("%d (third step restricted to arities 0..2 and the model-distinct argument values %s)", n, strings.Join(histArgSrc[:histDistinct], " ")))
	}
	r.Bound("initial_values", "0, 951782400000, -1, 8.64e15, NaN")
	r.Bound("argument_values", strings.Join(histArgSrc, " "))
	if h.direct > 0 {
		r.Note("some transitions were checked from a receiver constructed directly in the model pre-state because the replayed prefix had left the model state (downstream of an already reported mismatch)")
	}
}
