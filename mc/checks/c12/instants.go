package c12

import (
	"fmt"
	"math"
	"strings"

	"github.com/robertkrimen/otto"

	"verif/mc/engine"
	"verif/mc/ref/date"
)

// cycle start years: each cycle is the 146097 days from <year>-03-01.
var cycleYearsThorough = []int64{2000, -400, 0, 1600}
var cycleYearsQuick = []int64{2000}

const cycleDays = 146097

// times of day in ms
var timesThorough = []int64{45296789 /* 12:34:56.789 */, 0, 86399999 /* 23:59:59.999 */}
var timesQuick = []int64{45296789}

var boundaryYears = []int64{-271821, -1, 0, 1, 4, 99, 100, 400, 1582, 1600, 1899, 1900, 1969, 1970, 1972, 2000, 2038, 2100, 9999, 10000, 275760}

// instant is one input of the instants family: a number, or a non-number
// primitive given by source.
type instant struct {
	key string
	src string      // JavaScript rendering of the argument
	arg interface{} // what is handed to otto (float64 or otto.Value)
	num float64     // ToNumber of the argument
}

func numInstant(x float64) instant {
	s := num(x)
	return instant{key: "t=" + s, src: s, arg: x, num: x}
}

func boundaryInstants() []instant {
	var out []instant
	seen := map[string]bool{}
	add := func(in instant) {
		if !seen[in.key] {
			seen[in.key] = true
			out = append(out, in)
		}
	}
	for _, x := range []float64{0, math.Copysign(0, -1), 1, -1, 999, -999, 1000, -1000, 86399999, -86399999, 86400000, -86400000,
		8.64e15, -8.64e15, 8.64e15 + 1, -8.64e15 - 1, 8.64e15 - 1, -8.64e15 + 1, 1e17, -1e17,
		math.NaN(), math.Inf(1), math.Inf(-1), 0.5, -0.5, 1.9, -1.9, -999.5, 999.5, -1000.5, 1e3 + 0.25} {
		add(numInstant(x))
	}
	for _, y := range boundaryYears {
		for m := 0; m < 12; m++ {
			t0 := date.MakeDate(date.MakeDay(float64(y), float64(m), 1), 0)
			for _, d := range []float64{-1, 0, 1} {
				add(numInstant(t0 + d))
			}
		}
	}
	// leap-class year lattice x month/day lattice at 12:34:56.789 (see isoyears.go)
	for _, t := range latticeInstants() {
		add(numInstant(t))
	}
	for _, src := range []string{"undefined", "null", "true", "false"} {
		a := arg(src)
		add(instant{key: "v=" + src, src: src, arg: a.Val, num: a.Num})
	}
	return out
}

// instantExpect renders the five observation groups of the instants family for
// argument value x under the given deviation flags ("" = ES5.1).
func instantExpect(x float64, flags string) (groups [5]string, tv float64) {
	tv = date.FromValue(variantOf(flags), x)
	valid := !math.IsNaN(tv)
	groups[0] = num(tv) + "," + num(tv)
	groups[1] = fieldsString(tv)
	if valid {
		ti := int64(tv)
		iso := date.ISO(ti)
		if strings.IndexByte(flags, 'I') >= 0 {
			iso = date.GoLayoutISO(ti)
		}
		groups[2] = "string:" + iso
		groups[3] = "string:" + iso
	} else {
		groups[2] = "throw:RangeError" // 15.9.5.43
		if strings.IndexByte(flags, 'R') >= 0 {
			groups[2] = "string:Invalid Date"
		}
		groups[3] = "object:null" // 15.9.5.44 step 3
	}
	return
}

var instGroupNames = [5]string{"time", "fields", "iso", "json", "parse"}
var instGroupFlags = [5]string{"C", "C", "CIR", "CI", "P"}

func runInstants(r *engine.Run) {
	d := newDriver(r)
	cycles, times := cycleYearsQuick, timesQuick
	if r.Thorough() {
		cycles, times = cycleYearsThorough, timesThorough
	}
	inSweep := map[string]bool{}
	stop := false
	one := func(in instant) {
		if stop || !mine(r, in.key) {
			return
		}
		if r.Expired() {
			r.Cap("time budget reached")
			stop = true
			return
		}
		exp, tv := instantExpect(in.num, "")
		valid := !math.IsNaN(tv)
		iso := ""
		if valid {
			ti := int64(tv)
			iso = date.ISO(ti)
			exp[4] = num(tv) + "," + num(tv)
			// oracle self-check: MakeDay/MakeTime invert the accessor formulas
			f := date.Decompose(ti)
			back := date.MakeDate(date.MakeDay(float64(f.Year), float64(f.Month), float64(f.Date)),
				date.MakeTime(float64(f.Hours), float64(f.Minutes), float64(f.Seconds), float64(f.Ms)))
			if back != tv || f.Day != ((date.Day(ti)%7+7+4)%7) {
				r.HarnessError(fmt.Sprintf("ref/date does not round-trip %v: %+v -> %v", tv, f, back))
			}
		}
		r.Begin(in.key)
		obs := d.call(func(m *machine) otto.Value { return m.inst }, in.arg, iso, valid)
		r.End()
		r.Eval(valid)
		r.Outcome(obs)
		src := "new Date(" + in.src + ")"
		if r.WantSample() && valid {
			r.Sample(src + " => " + obs)
		}
		og := strings.Split(obs, "|")
		n := 4
		if valid {
			n = 5
		}
		if len(og) != n {
			// error / panic / malformed: one mismatch for the whole case
			r.Mismatch(engine.Mismatch{Key: in.key, Input: src, Expected: strings.Join(exp[:n], "|"), Observed: obs})
			return
		}
		isoExtended := valid && (strings.HasPrefix(iso, "+") || strings.HasPrefix(iso, "-"))
		for g := 0; g < n; g++ {
			if og[g] == exp[g] {
				continue
			}
			gi := g
			aux := altAux(instGroupFlags[g], exp[g], func(flags string) string {
				if gi == 4 {
					if isoExtended { // P: the parser does not know the expanded-year form
						return "NaN,NaN"
					}
					return exp[4]
				}
				a, _ := instantExpect(in.num, flags)
				return a[gi]
			})
			aux["group"] = instGroupNames[g]
			input := src + " : " + instGroupNames[g]
			if g == 4 {
				input = fmt.Sprintf("Date.parse(%q), new Date(%q).getTime()", iso, iso)
			}
			r.Mismatch(engine.Mismatch{Key: in.key + "#" + instGroupNames[g], Input: input, Expected: exp[g], Observed: og[g], Aux: aux})
		}
	}

	bnd := boundaryInstants()
	nb := 0
	// sweep
	for _, cy := range cycles {
		day0 := int64(date.MakeDay(float64(cy), 2, 1))
		for _, tod := range times {
			for dd := int64(0); dd < cycleDays; dd++ {
				if stop {
					break
				}
				t := float64((day0+dd)*date.MsPerDay + tod)
				one(numInstant(t))
			}
		}
	}
	if r.ReplayKey == "" {
		// boundaries that are not already swept
		for _, cy := range cycles {
			day0 := int64(date.MakeDay(float64(cy), 2, 1))
			for _, in := range bnd {
				if in.arg == interface{}(in.num) && in.num == math.Trunc(in.num) && math.Abs(in.num) < 1e16 {
					ti := int64(in.num)
					dd := date.Day(ti) - day0
					if dd >= 0 && dd < cycleDays {
						for _, tod := range times {
							if date.TimeWithinDay(ti) == tod {
								inSweep[in.key] = true
							}
						}
					}
				}
			}
		}
	}
	for _, in := range bnd {
		if inSweep[in.key] {
			continue
		}
		nb++
		one(in)
	}
	r.Bound("cycles_from_year", fmt.Sprint(cycles))
	r.Bound("days_per_cycle", fmt.Sprint(cycleDays))
	r.Bound("times_of_day_ms", fmt.Sprint(times))
	r.Bound("boundary_instants", fmt.Sprint(nb))
}
