package brig

import (
	"math"
	"reflect"
	"strconv"
	"strings"

	"verif/mc/engine"
)

func init() {
	engine.RegisterSignature("brig-float-key-alias-names", sigFloatKeyAlias)
	engine.RegisterSignature("brig-integer-keys-enumerated-as-doubles", sigBigKeyEnumeration)
	engine.RegisterSignature("brig-float32-element-rejects-infinity", func(m *engine.Mismatch) bool {
		// a store of +-Infinity into a float32 element of a bridged slice/map is a RangeError
		return (m.Aux["sink"] == "slice-elem" || m.Aux["sink"] == "map-elem") && m.Aux["width"] == "float32" &&
			(m.Aux["value"] == "Infinity" || m.Aux["value"] == "-Infinity") && strings.HasPrefix(m.Aux["component"], "model ") &&
			strings.HasSuffix(m.Observed, "=loud")
	})
}

// sigFloatKeyAlias accepts: on a float-keyed bridged map a NON-canonical name
// that strconv.ParseFloat reads ("1e3", "+1000", ".5", "-0", "0x1p-1", "inf")
// behaves exactly as the canonical name of the parsed key would: read/in see
// that entry, write stores under it, delete removes it.
func sigFloatKeyAlias(m *engine.Mismatch) bool {
	if m.Aux["canonical"] != "false" || (m.Aux["map"] != "map[float64]string" && m.Aux["map"] != "map[float32]string") {
		return false
	}
	bits := 64
	if m.Aux["map"] == "map[float32]string" {
		bits = 32
	}
	f, err := strconv.ParseFloat(m.Aux["name"], bits)
	if err != nil {
		return false
	}
	var mp reflect.Value
	for _, mm := range mkMaps() {
		if mm.name == m.Aux["map"] {
			mp = reflect.ValueOf(mm.mk())
		}
	}
	k := reflect.New(mp.Type().Key()).Elem()
	k.SetFloat(f)
	if math.IsNaN(f) {
		return m.Aux["component"] == "write" // a NaN key can be added (again and again), never found
	}
	switch m.Aux["component"] {
	case "read":
		v := mp.MapIndex(k)
		return v.IsValid() && m.Observed == "read=ok:string,"+v.String()+",true"
	case "write":
		mp.SetMapIndex(k, reflect.ValueOf("w"))
		return m.Observed == "write=ok:0 -> "+renderMap(mp)
	case "delete":
		if !mp.MapIndex(k).IsValid() {
			return false
		}
		mp.SetMapIndex(k, reflect.Value{})
		return m.Observed == "delete=ok:0 -> "+renderMap(mp)
	}
	return false
}

// sigBigKeyEnumeration accepts: enumeration of a bridged map[int64] / map[uint64]
// holding keys above 2^53 names those keys with the digits of the nearest double
// (so the name reads undefined or another entry, and JSON.stringify loses members).
func sigBigKeyEnumeration(m *engine.Mismatch) bool {
	if m.Aux["op"] != "enumerate" || (m.Aux["map"] != "map[int64]string" && m.Aux["map"] != "map[uint64]string") {
		return false
	}
	switch m.Aux["component"] {
	case "JSON.stringify members":
		return m.Observed == "JSON.stringify members=2"
	case "Object.keys with read-back", "for-in with read-back":
		return !strings.Contains(m.Observed, "9007199254740993") && !strings.Contains(m.Observed, "18446744073709551615") &&
			!strings.Contains(m.Observed, "-9223372036854775808") && strings.Contains(m.Observed, "0=z")
	}
	return false
}
