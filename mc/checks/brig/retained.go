package brig

import (
	"fmt"
	"strings"

	"github.com/robertkrimen/otto"

	"verif/mc/engine"
)

// retained: a pointer read OUT OF a slot of a bridged holder (pointer field,
// pointer field of a nested struct, map value, slice element, interface field)
// is kept in a script variable (var c = p.Child); then every sequence of one
// and two operations re-points / nils the slot from the script and from Go,
// or renames the pointees through the reference, through the slot and from Go.
// After every step: the retained reference (typeof, member read), its Export
// (identity with the pointer that was bridged), the Go slot, and a fresh read of
// the slot from the script are compared with a Go memory model: c := p.Child
// copies the pointer - it keeps pointing at the old pointee whatever happens
// to the slot, and sees every change made to that pointee.

type RTIn struct{ Child *RTNode }

type RTNode struct {
	Name  string
	Child *RTNode
	In    RTIn
	M     map[string]*RTNode
	L     []*RTNode
	Any   interface{}
}

type rtHolder struct {
	name, ref string
	set       func(p *RTNode, n *RTNode) // n == nil: clear the slot
	get       func(p *RTNode) *RTNode
}

func rtHolders() []rtHolder {
	anyGet := func(p *RTNode) *RTNode {
		n, _ := p.Any.(*RTNode)
		return n
	}
	return []rtHolder{
		{"pointer field", "p.Child", func(p, n *RTNode) { p.Child = n }, func(p *RTNode) *RTNode { return p.Child }},
		{"pointer field of a nested struct", "p.In.Child", func(p, n *RTNode) { p.In.Child = n }, func(p *RTNode) *RTNode { return p.In.Child }},
		{"map value", "p.M.k", func(p, n *RTNode) { p.M["k"] = n }, func(p *RTNode) *RTNode { return p.M["k"] }},
		{"slice element", "p.L[0]", func(p, n *RTNode) { p.L[0] = n }, func(p *RTNode) *RTNode { return p.L[0] }},
		{"interface field", "p.Any", func(p, n *RTNode) {
			if n == nil {
				p.Any = nil
			} else {
				p.Any = n
			}
		}, anyGet},
	}
}

// model: which node the slot holds (0 old, 1 new, -1 nil) and the two names.
type rtModel struct {
	slot  int
	names [2]string
}

type rtOp struct {
	name string
	// run performs the operation on the implementation and returns the script
	// outcome ("" for Go-side operations); apply updates the model given it.
	run   func(vm *otto.Otto, h rtHolder, p *RTNode, nodes [2]*RTNode) string
	apply func(m *rtModel, outcome string)
}

func rtOps() []rtOp {
	failed := func(o string) bool { return strings.HasPrefix(o, "error: ") }
	return []rtOp{
		{"script: slot = q", func(vm *otto.Otto, h rtHolder, p *RTNode, n [2]*RTNode) string { return snStr(vm, h.ref+" = q; 0") },
			func(m *rtModel, o string) {
				if !failed(o) { // a loud refusal (pointer elements of maps and slices) stores nothing
					m.slot = 1
				}
			}},
		{"script: slot = null", func(vm *otto.Otto, h rtHolder, p *RTNode, n [2]*RTNode) string { return snStr(vm, h.ref+" = null; 0") },
			func(m *rtModel, o string) {
				if !failed(o) { // a loud refusal stores nothing
					m.slot = -1
				}
			}},
		{"Go: slot = new", func(vm *otto.Otto, h rtHolder, p *RTNode, n [2]*RTNode) string { h.set(p, n[1]); return "" },
			func(m *rtModel, o string) { m.slot = 1 }},
		{"Go: slot = nil", func(vm *otto.Otto, h rtHolder, p *RTNode, n [2]*RTNode) string { h.set(p, nil); return "" },
			func(m *rtModel, o string) { m.slot = -1 }},
		{"Go: old.Name = g", func(vm *otto.Otto, h rtHolder, p *RTNode, n [2]*RTNode) string { n[0].Name = "g"; return "" },
			func(m *rtModel, o string) { m.names[0] = "g" }},
		{"script: c.Name = viaC", func(vm *otto.Otto, h rtHolder, p *RTNode, n [2]*RTNode) string { return snStr(vm, `c.Name = "viaC"; 0`) },
			func(m *rtModel, o string) { m.names[0] = "viaC" }},
		{"script: slot.Name = viaSlot", func(vm *otto.Otto, h rtHolder, p *RTNode, n [2]*RTNode) string {
			return snStr(vm, h.ref+`.Name = "viaSlot"; 0`)
		},
			func(m *rtModel, o string) {
				if m.slot >= 0 {
					m.names[m.slot] = "viaSlot"
				}
			}},
	}
}

// RunRetained is the family body shared by the C15 and C16 checks.
func RunRetained(r *engine.Run) {
	ops := rtOps()
	holders := rtHolders()
	var seqs [][]int
	for i := range ops {
		seqs = append(seqs, []int{i})
		for j := range ops {
			seqs = append(seqs, []int{i, j})
		}
	}
	r.Bound("holders", "pointer field, pointer field of a nested struct, map value, slice element, interface field of a struct bridged by pointer")
	r.Bound("operations", fmt.Sprint(len(ops)))
	r.Bound("sequences", fmt.Sprintf("%d (length 1 and 2) after var c = <slot>", len(seqs)))
	slotName := func(s int, m *rtModel) string {
		if s < 0 {
			return "nil"
		}
		return []string{"old node", "new node"}[s] + " named " + m.names[s]
	}
	for _, h := range holders {
		for _, seq := range seqs {
			names := make([]string, len(seq))
			for i, o := range seq {
				names[i] = ops[o].name
			}
			key := h.name + "/" + strings.Join(names, " ; ")
			if !r.MineKey(key) {
				continue
			}
			r.Begin(key)
			vm := otto.New()
			nodes := [2]*RTNode{{Name: "old"}, {Name: "new"}}
			p := &RTNode{Name: "root", M: map[string]*RTNode{}, L: make([]*RTNode, 1)}
			h.set(p, nodes[0])
			vm.Set("p", p)
			vm.Set("q", nodes[1])
			m := &rtModel{slot: 0, names: [2]string{"old", "new"}}
			exp, got := NewObs(), NewObs()
			exp.Put("var c = "+h.ref, "0")
			got.Put("var c = "+h.ref, snStr(vm, "var c = "+h.ref+"; 0"))
			observe := func(tag string) {
				exp.Put(tag+"retained reference", "object:"+m.names[0])
				got.Put(tag+"retained reference", snStr(vm, `typeof c + ":" + c.Name`))
				exp.Put(tag+"Export of the reference", "the old node named "+m.names[0])
				got.Put(tag+"Export of the reference", Safe(func() string {
					c, err := vm.Get("c")
					if err != nil {
						return err.Error()
					}
					e, _ := c.Export()
					n, ok := e.(*RTNode)
					switch {
					case !ok:
						return fmt.Sprintf("%T", e)
					case n == nodes[0]:
						return "the old node named " + n.Name
					case n == nodes[1]:
						return "the new node named " + n.Name
					case n == nil:
						return "nil *RTNode"
					}
					return "another node named " + n.Name
				}))
				exp.Put(tag+"Go slot", slotName(m.slot, m))
				got.Put(tag+"Go slot", Safe(func() string {
					switch n := h.get(p); n {
					case nil:
						return "nil"
					case nodes[0]:
						return "old node named " + n.Name
					case nodes[1]:
						return "new node named " + n.Name
					default:
						return "another node named " + n.Name
					}
				}))
				want := "nil"
				if m.slot >= 0 {
					want = "object:" + m.names[m.slot]
				}
				exp.Put(tag+"fresh read of the slot", want)
				got.Put(tag+"fresh read of the slot", snStr(vm, fmt.Sprintf(`%[1]s == null ? "nil" : typeof %[1]s + ":" + %[1]s.Name`, h.ref)))
			}
			observe("step 0: ")
			for step, oi := range seq {
				op := ops[oi]
				out := op.run(vm, h, p, nodes)
				op.apply(m, out)
				observe(fmt.Sprintf("step %d %s: ", step+1, op.name))
			}
			r.End()
			r.Eval(true)
			r.Tree(1, int64(len(seq)))
			r.Outcome(got.String())
			if r.WantSample() {
				r.Sample(key + " => " + OneLine(got.String()))
			}
			Compare(r, key, fmt.Sprintf("p = &RTNode{..}; %s = old; var c = %s; %s", h.ref, h.ref, strings.Join(names, "; ")), exp, got, map[string]string{"holder": h.name})
		}
	}
}
