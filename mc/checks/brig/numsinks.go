package brig

import (
	"fmt"
	"math"
	"reflect"
	"strings"

	"github.com/robertkrimen/otto"

	"verif/mc/engine"
	"verif/mc/ref/bridge"
)

// Number sinks: the Go -> JavaScript -> Go round trip of numbers through every
// STORE route. Every boundary value of every Go numeric width (integer
// min/-1/0/1/max, both zeros, +-MaxFloat32 and its double neighbours, the
// smallest float32 subnormal and its double neighbours, MaxFloat64, the smallest
// double, +-Infinity, NaN, 2^24+1, 2^53, 2^63, 2^64) reaches the script through
// every Go -> JS transport (Set global, element of a bridged slice, value of a
// bridged map, field of a bridged struct, result of a Go function; doubles also
// as a literal) and is written by the script into every Go numeric width
// through every sink: call parameter, variadic parameter (alone and as the
// tail), struct field, slice element, array element, map element, array ->
// typed slice, object -> typed map, object -> struct.
// Oracle (ktModel, the same as the kind-twins model): a value that is exactly
// representable in the destination width arrives exactly (bit for bit: the sign
// of zero, NaN, the infinities); one that is not is refused loudly with nothing
// stored and the callee not called (float32 destinations may instead round to
// nearest, pinned by call_test.go). A Go integer above 2^53 may arrive either
// exactly or as the nearest double does.

var nsSinks = []string{"call", "variadic", "variadic-tail", "field", "slice-elem", "array-elem", "map-elem", "array-param", "objmap-param", "objstruct-param"}

type nsSource struct {
	name string
	x    interface{}
}

func nsSources() []nsSource {
	var out []nsSource
	add := func(x interface{}) {
		out = append(out, nsSource{bridge.Render(x), x})
	}
	for _, x := range []interface{}{
		int8(math.MinInt8), int8(-1), int8(0), int8(1), int8(math.MaxInt8),
		int16(math.MinInt16), int16(-1), int16(1), int16(math.MaxInt16),
		int32(math.MinInt32), int32(-1), int32(1), int32(math.MaxInt32),
		int64(math.MinInt64), int64(-1), int64(0), int64(1), int64(math.MaxInt64), int64(1 << 53), int64(1<<53 + 1),
		int(math.MinInt64), int(-1), int(1), int(math.MaxInt64),
		uint8(0), uint8(1), uint8(math.MaxUint8),
		uint16(1), uint16(math.MaxUint16),
		uint32(1), uint32(math.MaxUint32),
		uint64(0), uint64(1), uint64(1 << 63), uint64(math.MaxUint64),
		uint(1), uint(math.MaxUint64),
	} {
		add(x)
	}
	negz := math.Copysign(0, -1)
	for _, f := range []float32{
		0, float32(negz), 1.5, -1.5, 16777216, math.MaxFloat32, -math.MaxFloat32,
		math.SmallestNonzeroFloat32, -math.SmallestNonzeroFloat32, 1.1754944e-38, // smallest normal
		float32(math.Inf(1)), float32(math.Inf(-1)), float32(math.NaN()),
	} {
		add(f)
	}
	for _, f := range []float64{
		0, negz, 0.5, -0.5, 1.5, 16777217, 1 << 53, 1 << 63, -(1 << 63), 1 << 64,
		math.MaxFloat32, -math.MaxFloat32,
		math.Nextafter(math.MaxFloat32, math.Inf(1)), -math.Nextafter(math.MaxFloat32, math.Inf(1)),
		math.Nextafter(math.MaxFloat32, 0),
		math.Ldexp(1, 128), // the first double that float32 conversion turns into +Inf by magnitude alone
		math.SmallestNonzeroFloat32, -math.SmallestNonzeroFloat32,
		math.Nextafter(math.SmallestNonzeroFloat32, 0), math.Nextafter(math.SmallestNonzeroFloat32, 1),
		math.SmallestNonzeroFloat32 / 2,
		math.SmallestNonzeroFloat64, -math.SmallestNonzeroFloat64,
		math.MaxFloat64, -math.MaxFloat64,
		math.Inf(1), math.Inf(-1), math.NaN(),
	} {
		add(f)
	}
	return out
}

var nsTransports = []string{"global", "slice", "map", "field", "result", "literal"}

// nsInstall makes the source value reachable from the script and returns the
// expression that reads it ("" when the transport does not apply).
func nsInstall(vm *otto.Otto, transport string, x interface{}) (string, error) {
	v := reflect.ValueOf(x)
	t := v.Type()
	switch transport {
	case "global":
		return "g_src", vm.Set("g_src", x)
	case "slice":
		s := reflect.MakeSlice(reflect.SliceOf(t), 1, 1)
		s.Index(0).Set(v)
		return "s_src[0]", vm.Set("s_src", s.Interface())
	case "map":
		m := reflect.MakeMap(reflect.MapOf(reflect.TypeOf(""), t))
		m.SetMapIndex(reflect.ValueOf("k"), v)
		return "m_src.k", vm.Set("m_src", m.Interface())
	case "field":
		p := reflect.New(reflect.StructOf([]reflect.StructField{{Name: "V", Type: t}}))
		p.Elem().Field(0).Set(v)
		return "p_src.V", vm.Set("p_src", p.Interface())
	case "result":
		f := reflect.MakeFunc(reflect.FuncOf(nil, []reflect.Type{t}, false), func([]reflect.Value) []reflect.Value { return []reflect.Value{v} })
		return "f_src()", vm.Set("f_src", f.Interface())
	case "literal":
		if t.Kind() != reflect.Float64 {
			return "", nil
		}
		return "(" + bridge.JSNumSrc(v.Float()) + ")", nil
	}
	return "", fmt.Errorf("unknown transport %s", transport)
}

// nsModel lists the acceptable outcomes of writing the Go value x into width w.
func nsModel(sink string, w ktWidth, x interface{}) []string {
	v := reflect.ValueOf(x)
	var f float64
	exactInt := false
	var exact reflect.Value
	switch v.Kind() {
	case reflect.Float32, reflect.Float64:
		f = v.Float()
	case reflect.Int, reflect.Int8, reflect.Int16, reflect.Int32, reflect.Int64:
		i := v.Int()
		f = float64(i)
		if f >= math.Ldexp(1, 63) || int64(f) != i {
			exact = reflect.New(w.t).Elem()
			switch w.t.Kind() {
			case reflect.Int, reflect.Int64:
				exact.SetInt(i)
				exactInt = true
			case reflect.Uint, reflect.Uint64:
				if i >= 0 {
					exact.SetUint(uint64(i))
					exactInt = true
				}
			}
		}
	default:
		u := v.Uint()
		f = float64(u)
		if f >= math.Ldexp(1, 64) || uint64(f) != u {
			exact = reflect.New(w.t).Elem()
			switch w.t.Kind() {
			case reflect.Uint, reflect.Uint64:
				exact.SetUint(u)
				exactInt = true
			case reflect.Int, reflect.Int64:
				if u <= math.MaxInt64 {
					exact.SetInt(int64(u))
					exactInt = true
				}
			}
		}
	}
	acc := ktModel(sink, w, f)
	if exactInt {
		acc = append(acc, "ok:"+bridge.Render(exact.Interface()))
	}
	return acc
}

// RunNumSinks is the family body.
func RunNumSinks(r *engine.Run) {
	ws := ktWidths()
	srcs := nsSources()
	r.Bound("destination widths", fmt.Sprint(len(ws)))
	r.Bound("source values", fmt.Sprint(len(srcs)))
	r.Bound("transports", strings.Join(nsTransports, ", "))
	r.Bound("sinks", strings.Join(nsSinks, ", "))
	var k *ktRig
	for _, sink := range nsSinks {
		for _, w := range ws {
			for _, s := range srcs {
				key := sink + "/" + w.name + "/" + s.name
				if !r.MineKey(key) {
					continue
				}
				if k == nil {
					k = newKTRig()
				}
				r.Begin(key)
				exp, got := NewObs(), NewObs()
				acc := nsModel(sink, w, s.x)
				var outs []string
				for _, tr := range nsTransports {
					expr, err := nsInstall(k.vm, tr, s.x)
					if err != nil {
						r.HarnessError("numsinks: installing " + s.name + " via " + tr + ": " + err.Error())
						continue
					}
					if expr == "" {
						continue
					}
					out := k.run(sink, w, expr)
					if strings.HasPrefix(out, "PANIC") {
						k = newKTRig()
					}
					outs = append(outs, out)
					okay := false
					for _, a := range acc {
						if out == a {
							okay = true
						}
					}
					if okay {
						exp.Put(tr, out)
					} else {
						exp.Put(tr, strings.Join(acc, " | "))
					}
					got.Put(tr, out)
				}
				r.End()
				r.Eval(len(outs) > 0 && strings.HasPrefix(outs[0], "ok:"))
				r.Tree(1, int64(len(outs)))
				r.Outcome(w.name + "|" + strings.Join(outs, "|"))
				if r.WantSample() {
					r.Sample(sink + " " + w.name + " <- " + s.name + " => " + strings.Join(outs, " | "))
				}
				Compare(r, key, sink+" of width "+w.name+" receives the Go value "+s.name+" through the script", exp, got,
					map[string]string{"sink": sink, "width": w.name, "value": s.name})
			}
		}
	}
}
