// Package brig is the shared Rig of the C15/C16 checks: ordered observation
// vectors, component-wise comparison, and a runtime with recording host
// functions (bit-exact transport of in-language observations, structural
// traversal of a value as seen by a script).
package brig

import (
	"fmt"
	"sort"
	"strings"

	"github.com/robertkrimen/otto"

	"verif/mc/engine"
	"verif/mc/ox"
	"verif/mc/ref/bridge"
)

// ---------------------------------------------------------------------------
// observation vectors

// Obs is an ordered vector of named observations.
type Obs struct {
	Names []string
	M     map[string]string
}

func NewObs() *Obs { return &Obs{M: map[string]string{}} }

func (o *Obs) Put(name, val string) {
	if _, dup := o.M[name]; !dup {
		o.Names = append(o.Names, name)
	}
	o.M[name] = val
}

func (o *Obs) String() string {
	var sb strings.Builder
	for _, n := range o.Names {
		sb.WriteString(n)
		sb.WriteByte('=')
		sb.WriteString(o.M[n])
		sb.WriteByte('\n')
	}
	return sb.String()
}

// safe runs f and renders an escaping Go panic as an observation.
func Safe(f func() string) (out string) {
	defer func() {
		if p := recover(); p != nil {
			out = "PANIC: " + OneLine(fmt.Sprint(p))
		}
	}()
	return f()
}

func OneLine(s string) string {
	s = strings.ReplaceAll(s, "\n", " ")
	if len(s) > 160 {
		s = s[:160] + "..."
	}
	return s
}

// compare files one mismatch per component of exp that differs in got. All
// mismatches of a case share the case key (replay re-executes the whole case).
func Compare(r *engine.Run, key, input string, exp, got *Obs, aux map[string]string) bool {
	ok := true
	for _, n := range exp.Names {
		e, g := exp.M[n], got.M[n]
		if e == g {
			continue
		}
		ok = false
		a := map[string]string{"component": n}
		for k, v := range aux {
			a[k] = v
		}
		r.Mismatch(engine.Mismatch{
			Key: key, Input: input,
			Expected: n + "=" + e, Observed: n + "=" + g,
			Aux: a,
		})
	}
	return ok
}

// ErrStr renders an API error by class.
func ErrStr(err error) string {
	if err == nil {
		return "ok"
	}
	return "err:" + ox.ErrClass(err)
}

// ---------------------------------------------------------------------------
// the recording runtime

// Rig is a runtime with the recording host functions installed.
type Rig struct {
	VM   *otto.Otto
	Rec  *Obs         // filled by __rec(name, value)
	root *bridge.Node // built by the __view traversal
	stk  []*bridge.Node
	key  []string
	bad  string
}

const Prelude = `
function __same(x, y) { return x === y ? (x !== 0 || 1 / x === 1 / y) : (x !== x && y !== y); }
function __en(e) { return (e instanceof Error) ? e.name : ("thrown:" + typeof e); }
function __probe(x) {
  __rec("typeof", typeof x);
  try { __rec("Number", Number(x)); } catch (e) { __rec("Number", "!" + __en(e)); }
  try { __rec("String", String(x)); } catch (e) { __rec("String", "!" + __en(e)); }
  __rec("Boolean", Boolean(x));
  try { __rec("JSON", JSON.stringify(x)); } catch (e) { __rec("JSON", "!" + __en(e)); }
  __rec("class", (typeof x === "object" && x !== null || typeof x === "function") ? Object.prototype.toString.call(x).slice(8, -1) : "");
  try { __rec("isNaN", isNaN(x)); } catch (e) { __rec("isNaN", "!" + __en(e)); }
  __rec("isnull", x === null);
}
function __view(x) {
  var t = typeof x, i;
  if (t === "function") { __tok("F"); return; }
  if (t !== "object" || x === null) { __leaf(x); return; }
  var c = Object.prototype.toString.call(x);
  if (c === "[object Array]" || c === "[object GoSlice]" || c === "[object GoArray]") {
    __tok("[");
    for (i = 0; i < x.length; i++) { if (i in x) __view(x[i]); else __tok("H"); }
    __tok("]");
    return;
  }
  __tok("{");
  for (var k in x) { if (typeof x[k] === "function") continue; __key(k); __view(x[k]); }
  __tok("}");
}
`

func NewRig() *Rig {
	g := &Rig{VM: otto.New(), Rec: NewObs()}
	g.VM.Set("__rec", func(call otto.FunctionCall) otto.Value {
		name, _ := call.Argument(0).ToString()
		g.Rec.Put(name, ox.Canon(call.Argument(1)))
		return otto.UndefinedValue()
	})
	g.VM.Set("__tok", func(call otto.FunctionCall) otto.Value {
		t, _ := call.Argument(0).ToString()
		switch t {
		case "[":
			g.push(&bridge.Node{K: bridge.Arr})
		case "{":
			g.push(&bridge.Node{K: bridge.Obj, Vals: map[string]*bridge.Node{}})
		case "]", "}":
			g.pop()
		case "H":
			g.emit(bridge.HoleN())
		case "F":
			g.emit(&bridge.Node{K: bridge.Func})
		}
		return otto.UndefinedValue()
	})
	g.VM.Set("__key", func(call otto.FunctionCall) otto.Value {
		k, _ := call.Argument(0).ToString()
		g.key = append(g.key, k)
		return otto.UndefinedValue()
	})
	g.VM.Set("__leaf", func(call otto.FunctionCall) otto.Value {
		g.emit(LeafNode(call.Argument(0)))
		return otto.UndefinedValue()
	})
	if res := ox.Run(g.VM, Prelude); res.Err != nil || res.Panicked {
		panic(fmt.Sprint("c15 prelude: ", res.Err, res.PanicVal))
	}
	return g
}

func LeafNode(v otto.Value) *bridge.Node {
	switch {
	case v.IsUndefined():
		return bridge.U()
	case v.IsNull():
		return bridge.NullN()
	case v.IsBoolean():
		b, _ := v.ToBoolean()
		return bridge.B(b)
	case v.IsNumber():
		f, _ := v.ToFloat()
		return bridge.N(f)
	case v.IsString():
		return bridge.S16(ox.StringUnits(v))
	}
	return &bridge.Node{K: bridge.Func}
}

func (g *Rig) push(n *bridge.Node) {
	g.emit(n)
	g.stk = append(g.stk, n)
}

func (g *Rig) pop() {
	if len(g.stk) > 0 {
		g.stk = g.stk[:len(g.stk)-1]
	}
}

func (g *Rig) emit(n *bridge.Node) {
	if len(g.stk) == 0 {
		g.root = n
		return
	}
	top := g.stk[len(g.stk)-1]
	if top.K == bridge.Arr {
		top.Elem = append(top.Elem, n)
		return
	}
	if len(g.key) == 0 {
		g.bad = "value without key"
		return
	}
	k := g.key[len(g.key)-1]
	g.key = g.key[:len(g.key)-1]
	top.Set(k, n)
}

// view runs the traversal script on the global x and returns the canonical
// rendering of what the script saw.
func (g *Rig) View(expr string) string {
	g.root, g.stk, g.key, g.bad = nil, nil, nil, ""
	res := ox.Run(g.VM, "__view("+expr+")")
	switch {
	case res.Panicked:
		return "PANIC: " + OneLine(fmt.Sprint(res.PanicVal))
	case res.Err != nil:
		return "error: " + ox.ErrClass(res.Err)
	case g.bad != "" || g.root == nil:
		return "harness: " + g.bad
	}
	return g.root.Canon()
}

// ViewNode is View returning the tree itself (nil and a reason on failure).
func (g *Rig) ViewNode(expr string) (*bridge.Node, string) {
	g.root, g.stk, g.key, g.bad = nil, nil, nil, ""
	res := ox.Run(g.VM, "__view("+expr+")")
	switch {
	case res.Panicked:
		return nil, "PANIC: " + OneLine(fmt.Sprint(res.PanicVal))
	case res.Err != nil:
		return nil, "error: " + ox.ErrClass(res.Err)
	case g.bad != "" || g.root == nil:
		return nil, "harness: " + g.bad
	}
	return g.root, ""
}

// probe runs __probe(expr) and returns the recorded in-language observations.
func (g *Rig) Probe(expr string) *Obs {
	g.Rec = NewObs()
	res := ox.Run(g.VM, "__probe("+expr+")")
	if res.Panicked {
		g.Rec.Put("probe", "PANIC: "+OneLine(fmt.Sprint(res.PanicVal)))
	} else if res.Err != nil {
		g.Rec.Put("probe", "error: "+ox.ErrClass(res.Err))
	}
	return g.Rec
}

// evalCanon runs an expression and renders its primitive result canonically.
func (g *Rig) EvalCanon(src string) string {
	res := ox.Run(g.VM, src)
	switch {
	case res.Panicked:
		return "PANIC: " + OneLine(fmt.Sprint(res.PanicVal))
	case res.Err != nil:
		return "error: " + ox.ErrClass(res.Err)
	}
	return ox.Canon(res.Value)
}

// goSide renders the Go API's view of a Value: every accessor separately
// guarded, so that a panic in one does not hide the others.
func GoSide(o *Obs, prefix string, v otto.Value, withIsNaN bool) {
	o.Put(prefix+"Export", Safe(func() string {
		e, err := v.Export()
		if err != nil {
			return ErrStr(err)
		}
		return bridge.Render(e)
	}))
	o.Put(prefix+"ToInteger", Safe(func() string {
		i, err := v.ToInteger()
		if err != nil {
			return ErrStr(err)
		}
		return fmt.Sprint(i)
	}))
	o.Put(prefix+"ToFloat", Safe(func() string {
		f, err := v.ToFloat()
		if err != nil {
			return ErrStr(err)
		}
		return "d:" + ox.Num(f)
	}))
	o.Put(prefix+"ToString", Safe(func() string {
		s, err := v.ToString()
		if err != nil {
			return ErrStr(err)
		}
		return ox.Str16(ox.Units(s))
	}))
	o.Put(prefix+"ToBoolean", Safe(func() string {
		b, err := v.ToBoolean()
		if err != nil {
			return ErrStr(err)
		}
		return fmt.Sprint(b)
	}))
	o.Put(prefix+"MarshalJSON", Safe(func() string {
		b, err := v.MarshalJSON()
		if err != nil {
			return "err"
		}
		return string(b)
	}))
	o.Put(prefix+"Is", Safe(func() string { return Predicates(v, withIsNaN) }))
}

func B01(b bool) string {
	if b {
		return "1"
	}
	return "0"
}

func Predicates(v otto.Value, withIsNaN bool) string {
	s := "undef" + B01(v.IsUndefined()) + " def" + B01(v.IsDefined()) + " null" + B01(v.IsNull()) +
		" bool" + B01(v.IsBoolean()) + " num" + B01(v.IsNumber()) + " str" + B01(v.IsString()) +
		" obj" + B01(v.IsObject()) + " fn" + B01(v.IsFunction()) + " prim" + B01(v.IsPrimitive()) +
		" class=" + v.Class()
	if withIsNaN {
		s += " nan" + B01(v.IsNaN())
	}
	return s
}

// PredicatesFor renders the predicate vector the in-language observations imply.
func PredicatesFor(typeof string, isNull bool, class string, isNaN string) string {
	isObj := (typeof == "object" && !isNull) || typeof == "function"
	s := "undef" + B01(typeof == "undefined") + " def" + B01(typeof != "undefined") + " null" + B01(isNull) +
		" bool" + B01(typeof == "boolean") + " num" + B01(typeof == "number") + " str" + B01(typeof == "string") +
		" obj" + B01(isObj) + " fn" + B01(typeof == "function") + " prim" + B01(!isObj) +
		" class=" + class
	if isNaN != "" {
		s += " nan" + isNaN
	}
	return s
}

func SortedKeys(m map[string]string) []string {
	l := make([]string, 0, len(m))
	for k := range m {
		l = append(l, k)
	}
	sort.Strings(l)
	return l
}
