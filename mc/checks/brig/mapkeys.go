package brig

import (
	"encoding/json"
	"fmt"
	"math"
	"reflect"
	"sort"
	"strconv"
	"strings"

	"verif/mc/engine"
	"verif/mc/ox"
	"verif/mc/ref/bridge"
)

// mapkeys: property NAMES against the keys of bridged maps of every key kind
// (signed, unsigned, 8-bit and 64-bit integers, float64, float32, bool, string).
// The live Go map is the single source of truth and a key has exactly ONE name:
// the decimal digits Go prints for an integer, the ES5 Number-to-String text of
// a float, "true"/"false", the string itself. Every name of an alphabet of
// canonical and look-alike spellings ("-0", "+0", "00", "0.0", "0e0", " 0",
// "010", "0x10", "1_0", "+1", "1e3", "+1000", ".5", "inf", "t", ...) is used for
// read / in / write / delete on a fresh map: a non-canonical name must read
// undefined, be "in" nothing, and must not write or delete another name's entry.
// Enumeration (Object.keys, for-in, JSON.stringify) must list exactly the
// canonical names and each listed name must read its entry back.

type mkMap struct {
	name string
	mk   func() interface{}
}

func mkMaps() []mkMap {
	return []mkMap{
		{"map[int]string", func() interface{} { return map[int]string{0: "z", 1: "one", -1: "neg", 1000: "k"} }},
		{"map[int8]string", func() interface{} { return map[int8]string{0: "z", -128: "min", 127: "max"} }},
		{"map[int64]string", func() interface{} {
			return map[int64]string{0: "z", 1<<53 + 1: "big", 1 << 53: "even", math.MinInt64: "min"}
		}},
		{"map[uint]string", func() interface{} { return map[uint]string{0: "z", 1: "one", 1000: "k"} }},
		{"map[uint8]string", func() interface{} { return map[uint8]string{0: "z", 255: "max"} }},
		{"map[uint64]string", func() interface{} { return map[uint64]string{0: "z", 1: "one", math.MaxUint64: "max"} }},
		{"map[float64]string", func() interface{} {
			return map[float64]string{0: "z", 1000: "k", 0.5: "h", -1.5: "n", 1e21: "e"}
		}},
		{"map[float32]string", func() interface{} { return map[float32]string{0.5: "h", 0.1: "t", 1: "one"} }},
		{"map[bool]string", func() interface{} { return map[bool]string{true: "yes", false: "no"} }},
		{"map[string]string", func() interface{} { return map[string]string{"0": "z", "-0": "mz", "": "empty", "1e3": "sci"} }},
	}
}

func mkNames() []string {
	return []string{
		"0", "1", "-1", "1000", "127", "-128", "255", "5", "0.5", "-1.5", "1e+21", "true", "false",
		"9007199254740992", "9007199254740993", "18446744073709551615", "18446744073709552000", "-9223372036854775808", "0.10000000149011612",
		"-0", "+0", "-00", "00", "0.0", "0e0", " 0", "0 ", "-", "+", "", "010", "0x10", "0b1", "1_0", "+1", "1.0", "1e0", "01",
		"1e3", "+1000", "1000.0", "1E3", ".5", "0.50", "5e-1", "+0.5", "-1.50", "1e21", "0.1", "Infinity", "inf", "NaN", "nan", "0x1p-1",
		"t", "T", "TRUE", "True", "f", "abc",
	}
}

// keyFor returns the key of type kt that the property name denotes (canonical
// spelling only).
func keyFor(kt reflect.Type, name string) (reflect.Value, bool) {
	out := reflect.New(kt).Elem()
	switch kt.Kind() {
	case reflect.String:
		out.SetString(name)
		return out, true
	case reflect.Bool:
		if name == "true" || name == "false" {
			out.SetBool(name == "true")
			return out, true
		}
	case reflect.Int, reflect.Int8, reflect.Int16, reflect.Int32, reflect.Int64:
		if i, err := strconv.ParseInt(name, 10, kt.Bits()); err == nil && strconv.FormatInt(i, 10) == name {
			out.SetInt(i)
			return out, true
		}
	case reflect.Uint, reflect.Uint8, reflect.Uint16, reflect.Uint32, reflect.Uint64:
		if u, err := strconv.ParseUint(name, 10, kt.Bits()); err == nil && strconv.FormatUint(u, 10) == name {
			out.SetUint(u)
			return out, true
		}
	case reflect.Float32, reflect.Float64:
		if f, err := strconv.ParseFloat(name, 64); err == nil && !math.IsNaN(f) && bridge.NumberToString(f) == name {
			if kt.Kind() == reflect.Float32 && float64(float32(f)) != f {
				return out, false
			}
			out.SetFloat(f)
			return out, true
		}
	}
	return out, false
}

func canonicalKeyName(k reflect.Value) string {
	switch k.Kind() {
	case reflect.Float32, reflect.Float64:
		return bridge.NumberToString(k.Float())
	}
	return bridge.KeyString(k)
}

func renderMap(m reflect.Value) string {
	var l []string
	for _, k := range m.MapKeys() {
		l = append(l, canonicalKeyName(k)+"="+m.MapIndex(k).String())
	}
	sort.Strings(l)
	return "{" + strings.Join(l, ", ") + "}"
}

func jsName(n string) string {
	b, _ := json.Marshal(n)
	return string(b)
}

func runMK(g *Rig, src string) string {
	res := ox.Run(g.VM, src)
	switch {
	case res.Panicked:
		return "PANIC: " + OneLine(fmt.Sprint(res.PanicVal))
	case res.Err != nil:
		c := ox.ErrClass(res.Err)
		if c == "TypeError" || c == "RangeError" {
			return "loud"
		}
		return "error: " + OneLine(res.Err.Error())
	}
	s, _ := res.Value.ToString()
	return "ok:" + s
}

// RunMapKeys is the family body shared by the C15 and C16 checks.
func RunMapKeys(r *engine.Run) {
	maps := mkMaps()
	names := mkNames()
	r.Bound("maps", fmt.Sprint(len(maps)))
	r.Bound("names", fmt.Sprint(len(names)))
	var g *Rig
	for _, mm := range maps {
		// enumeration
		if key := mm.name + "/enumerate"; r.MineKey(key) {
			if g == nil {
				g = NewRig()
			}
			m := reflect.ValueOf(mm.mk())
			g.VM.Set("c", m.Interface())
			r.Begin(key)
			var want []string
			for _, k := range m.MapKeys() {
				want = append(want, canonicalKeyName(k)+"="+m.MapIndex(k).String())
			}
			sort.Strings(want)
			exp, got := NewObs(), NewObs()
			exp.Put("Object.keys with read-back", "ok:"+strings.Join(want, ","))
			got.Put("Object.keys with read-back", runMK(g, `Object.keys(c).map(function(k){ return k + "=" + c[k] }).sort().join()`))
			exp.Put("for-in with read-back", "ok:"+strings.Join(want, ","))
			got.Put("for-in with read-back", runMK(g, `(function(){ var l = []; for (var k in c) l.push(k + "=" + c[k] + ((k in c) ? "" : "(not in)")); return l.sort().join() })()`))
			exp.Put("JSON.stringify members", fmt.Sprint(len(want)))
			got.Put("JSON.stringify members", func() string {
				out := runMK(g, "JSON.stringify(c)")
				var x map[string]interface{}
				if !strings.HasPrefix(out, "ok:") || json.Unmarshal([]byte(out[3:]), &x) != nil {
					return out
				}
				return fmt.Sprint(len(x))
			}())
			r.End()
			r.Eval(true)
			r.Tree(1, 1)
			r.Outcome(got.String())
			Compare(r, key, "c = "+renderMap(m)+" ("+mm.name+"); enumerate", exp, got, map[string]string{"map": mm.name, "op": "enumerate"})
			if strings.Contains(got.String(), "PANIC") {
				g = nil
			}
		}
		for _, n := range names {
			key := mm.name + "/" + jsName(n)
			if !r.MineKey(key) {
				continue
			}
			if g == nil {
				g = NewRig()
			}
			kt := reflect.TypeOf(mm.mk()).Key()
			k, canonical := keyFor(kt, n)
			exp, got := NewObs(), NewObs()
			r.Begin(key)
			// read / in
			m := reflect.ValueOf(mm.mk())
			g.VM.Set("c", m.Interface())
			wantRead := "ok:undefined,undefined,false"
			if canonical {
				if v := m.MapIndex(k); v.IsValid() {
					wantRead = "ok:string," + v.String() + ",true"
				}
			}
			exp.Put("read", wantRead)
			got.Put("read", runMK(g, fmt.Sprintf("[typeof c[%s], String(c[%s]), (%s in c)].join()", jsName(n), jsName(n), jsName(n))))
			// write
			m = reflect.ValueOf(mm.mk())
			g.VM.Set("c", m.Interface())
			before := renderMap(m)
			model := reflect.ValueOf(mm.mk())
			if canonical {
				model.SetMapIndex(k, reflect.ValueOf("w"))
			}
			out := runMK(g, fmt.Sprintf("c[%s] = \"w\"; 0", jsName(n)))
			switch {
			case canonical:
				exp.Put("write", "ok:0 -> "+renderMap(model))
			case out == "loud":
				exp.Put("write", "loud -> "+before)
			default:
				exp.Put("write", "loud -> "+before+" (or completed without touching the map)")
				if out == "ok:0" && renderMap(m) == before {
					exp.Put("write", out+" -> "+renderMap(m))
				}
			}
			got.Put("write", out+" -> "+renderMap(m))
			// delete
			m = reflect.ValueOf(mm.mk())
			g.VM.Set("c", m.Interface())
			before = renderMap(m)
			model = reflect.ValueOf(mm.mk())
			if canonical {
				model.SetMapIndex(k, reflect.Value{})
			}
			out = runMK(g, fmt.Sprintf("delete c[%s]; 0", jsName(n)))
			if canonical || out == "loud" || out == "ok:0" {
				exp.Put("delete", out+" -> "+renderMap(model))
			} else {
				exp.Put("delete", "ok:0 -> "+renderMap(model))
			}
			got.Put("delete", out+" -> "+renderMap(m))
			r.End()
			r.Eval(canonical)
			r.Tree(1, 1)
			r.Outcome(got.String())
			if r.WantSample() && !canonical {
				r.Sample(mm.name + ": name " + jsName(n) + " => " + got.M["read"])
			}
			Compare(r, key, "c = "+before+" ("+mm.name+"); name "+jsName(n), exp, got, map[string]string{"map": mm.name, "name": n, "canonical": fmt.Sprint(canonical)})
			if strings.Contains(got.String(), "PANIC") {
				g = nil
			}
		}
	}
}
