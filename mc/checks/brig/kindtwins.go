package brig

import (
	"fmt"
	"math"
	"reflect"
	"strconv"
	"strings"

	"github.com/robertkrimen/otto"

	"verif/mc/engine"
	"verif/mc/ox"
	"verif/mc/ref/bridge"
)

// Kind twins: otto holds a JavaScript number with a Go kind (an integer literal
// is int64, arithmetic gives float64, v|0 int32, v>>>0 uint32) and its JS->Go
// numeric conversion branches on that kind. Every number of the lattice (each
// integer width's min-1/min/max/max+1 and some fractions) is therefore sent, in
// every representation that denotes it, into every Go numeric width through
// every conversion sink: call parameter, struct field write, slice and map
// element write, array -> typed slice, object -> typed map, object -> struct.
// Oracles: (differential, model-free) every representation must give the
// outcome of the integer-literal/decimal-literal representation; (model) the
// outcome is the exact value when representable in the width, otherwise a
// RangeError/TypeError with nothing stored and the callee not called.

type ktWidth struct {
	name string
	t    reflect.Type
}

func ktWidths() []ktWidth {
	mk := func(x interface{}) reflect.Type { return reflect.TypeOf(x) }
	return []ktWidth{
		{"int8", mk(int8(0))}, {"int16", mk(int16(0))}, {"int32", mk(int32(0))}, {"int64", mk(int64(0))}, {"int", mk(int(0))},
		{"uint8", mk(uint8(0))}, {"uint16", mk(uint16(0))}, {"uint32", mk(uint32(0))}, {"uint64", mk(uint64(0))}, {"uint", mk(uint(0))},
		{"float32", mk(float32(0))}, {"float64", mk(float64(0))},
	}
}

func ktValues() []float64 {
	return []float64{
		-129, -128, 127, 128, 255, 256, 300,
		-32769, -32768, 32767, 32768, 65535, 65536,
		-2147483649, -2147483648, 2147483647, 2147483648, 4294967295, 4294967296,
		-9223372036854777856, -9223372036854775808, 9223372036854774784, 9223372036854775808,
		18446744073709549568, 18446744073709551616,
		-1, 0, 1, 0.5, -0.5, 1.5, 16777216, 16777217, 9007199254740992,
		math.Inf(1), math.Inf(-1), math.NaN(),
	}
}

type ktRep struct {
	name string
	src  string
}

// ktReps lists every representation that denotes exactly v.
func ktReps(v float64) []ktRep {
	var lit string
	switch {
	case math.IsNaN(v):
		return []ktRep{{"literal", "NaN"}, {"0/0", "(0/0)"}, {"Number()", "Number(\"x\")"}}
	case math.IsInf(v, 1):
		return []ktRep{{"literal", "Infinity"}, {"1/0", "(1/0)"}, {"Number()", "Number(\"Infinity\")"}}
	case math.IsInf(v, -1):
		return []ktRep{{"literal", "-Infinity"}, {"-1/0", "(-1/0)"}, {"Number()", "Number(\"-Infinity\")"}}
	}
	if v == math.Trunc(v) {
		lit = strconv.FormatFloat(v, 'f', 0, 64)
	} else {
		lit = strconv.FormatFloat(v, 'g', -1, 64)
	}
	reps := []ktRep{
		{"literal", lit},
		{"times1", "(" + lit + ")*1"},
		{"plus0", "(" + lit + ")+0"},
		{"Number()", "Number(\"" + lit + "\")"},
	}
	if v == math.Trunc(v) && v >= -2147483648 && v <= 2147483647 {
		reps = append(reps, ktRep{"or0", "(" + lit + "|0)"})
	}
	if v == math.Trunc(v) && v >= 0 && v <= 4294967295 {
		reps = append(reps, ktRep{"shr0", "(" + lit + ">>>0)"})
	}
	return reps
}

var ktSinks = []string{"call", "field", "slice-elem", "map-elem", "array-param", "objmap-param", "objstruct-param"}

type ktRig struct {
	vm     *otto.Otto
	called int
	last   reflect.Value
	p      reflect.Value            // *struct{Fint8 int8; ...}
	slices map[string]reflect.Value // name -> []T of length 1
	maps   map[string]reflect.Value // name -> map[string]T
	arrays map[string]reflect.Value // name -> *[1]T
}

func fieldName(w string) string { return "F" + w }

func newKTRig() *ktRig {
	k := &ktRig{vm: otto.New(), slices: map[string]reflect.Value{}, maps: map[string]reflect.Value{}, arrays: map[string]reflect.Value{}}
	ws := ktWidths()
	var fields []reflect.StructField
	for _, w := range ws {
		fields = append(fields, reflect.StructField{Name: fieldName(w.name), Type: w.t})
	}
	k.p = reflect.New(reflect.StructOf(fields))
	k.vm.Set("p", k.p.Interface())
	tString := reflect.TypeOf("")
	for _, w := range ws {
		t := w.t
		rec := func(args []reflect.Value, pick func(reflect.Value) reflect.Value) []reflect.Value {
			k.called++
			k.last = pick(args[0])
			return []reflect.Value{k.last}
		}
		echo := reflect.MakeFunc(reflect.FuncOf([]reflect.Type{t}, []reflect.Type{t}, false), func(a []reflect.Value) []reflect.Value {
			return rec(a, func(v reflect.Value) reflect.Value { return v })
		})
		first := reflect.MakeFunc(reflect.FuncOf([]reflect.Type{reflect.SliceOf(t)}, []reflect.Type{t}, false), func(a []reflect.Value) []reflect.Value {
			return rec(a, func(v reflect.Value) reflect.Value {
				if v.Len() == 0 {
					return reflect.Zero(t)
				}
				return v.Index(0)
			})
		})
		mapk := reflect.MakeFunc(reflect.FuncOf([]reflect.Type{reflect.MapOf(tString, t)}, []reflect.Type{t}, false), func(a []reflect.Value) []reflect.Value {
			return rec(a, func(v reflect.Value) reflect.Value {
				e := v.MapIndex(reflect.ValueOf("k"))
				if !e.IsValid() {
					return reflect.Zero(t)
				}
				return e
			})
		})
		st := reflect.StructOf([]reflect.StructField{{Name: "F", Type: t}})
		stf := reflect.MakeFunc(reflect.FuncOf([]reflect.Type{st}, []reflect.Type{t}, false), func(a []reflect.Value) []reflect.Value {
			return rec(a, func(v reflect.Value) reflect.Value { return v.Field(0) })
		})
		last := reflect.MakeFunc(reflect.FuncOf([]reflect.Type{reflect.SliceOf(t)}, []reflect.Type{t}, true), func(a []reflect.Value) []reflect.Value {
			return rec(a, func(v reflect.Value) reflect.Value {
				if v.Len() == 0 {
					return reflect.Zero(t)
				}
				return v.Index(v.Len() - 1)
			})
		})
		k.vm.Set("last_"+w.name, last.Interface())
		k.arrays[w.name] = reflect.New(reflect.ArrayOf(1, t))
		k.vm.Set("a_"+w.name, k.arrays[w.name].Interface())
		k.vm.Set("echo_"+w.name, echo.Interface())
		k.vm.Set("first_"+w.name, first.Interface())
		k.vm.Set("mapk_"+w.name, mapk.Interface())
		k.vm.Set("st_"+w.name, stf.Interface())
		k.slices[w.name] = reflect.MakeSlice(reflect.SliceOf(t), 1, 1)
		k.vm.Set("s_"+w.name, k.slices[w.name].Interface())
		k.maps[w.name] = reflect.MakeMap(reflect.MapOf(tString, t))
		k.vm.Set("m_"+w.name, k.maps[w.name].Interface())
	}
	return k
}

// run sends src into the sink for width w and renders the outcome.
func (k *ktRig) run(sink string, w ktWidth, src string) string {
	k.called, k.last = 0, reflect.Value{}
	var script string
	var stored func() reflect.Value
	switch sink {
	case "call":
		script = "echo_" + w.name + "(" + src + ")"
	case "array-param":
		script = "first_" + w.name + "([" + src + "])"
	case "objmap-param":
		script = "mapk_" + w.name + "({k: " + src + "})"
	case "objstruct-param":
		script = "st_" + w.name + "({F: " + src + "})"
	case "field":
		f := k.p.Elem().FieldByName(fieldName(w.name))
		f.Set(reflect.Zero(w.t))
		script = "p." + fieldName(w.name) + " = " + src
		stored = func() reflect.Value { return f }
	case "slice-elem":
		k.slices[w.name].Index(0).Set(reflect.Zero(w.t))
		script = "s_" + w.name + "[0] = " + src
		stored = func() reflect.Value { return k.slices[w.name].Index(0) }
	case "variadic":
		script = "last_" + w.name + "(" + src + ")"
	case "variadic-tail":
		script = "last_" + w.name + "(0, " + src + ")"
	case "array-elem":
		k.arrays[w.name].Elem().Index(0).Set(reflect.Zero(w.t))
		script = "a_" + w.name + "[0] = " + src
		stored = func() reflect.Value { return k.arrays[w.name].Elem().Index(0) }
	case "map-elem":
		k.maps[w.name].SetMapIndex(reflect.ValueOf("k"), reflect.Value{})
		script = "m_" + w.name + ".k = " + src
		stored = func() reflect.Value { return k.maps[w.name].MapIndex(reflect.ValueOf("k")) }
	}
	res := ox.Run(k.vm, script+"; 0")
	switch {
	case res.Panicked:
		return "PANIC: " + OneLine(fmt.Sprint(res.PanicVal))
	case res.Err != nil:
		c := ox.ErrClass(res.Err)
		extra := ""
		if k.called != 0 {
			extra = " but the callee was called"
		}
		if stored != nil {
			if v := stored(); v.IsValid() && !v.IsZero() {
				extra = " but " + bridge.Render(v.Interface()) + " was stored"
			}
		}
		if c == "TypeError" || c == "RangeError" {
			c = "loud"
		}
		return c + extra
	}
	if stored != nil {
		v := stored()
		if !v.IsValid() {
			return "ok: nothing stored"
		}
		return "ok:" + bridge.Render(v.Interface())
	}
	if k.called != 1 || !k.last.IsValid() {
		return fmt.Sprintf("ok but the callee was called %d times", k.called)
	}
	return "ok:" + bridge.Render(k.last.Interface())
}

// ktModel: the acceptable outcomes for value v into width w through sink.
func ktModel(sink string, w ktWidth, v float64) []string {
	out := reflect.New(w.t).Elem()
	switch w.t.Kind() {
	case reflect.Float64:
		out.SetFloat(v)
		return []string{"ok:" + bridge.Render(out.Interface())}
	case reflect.Float32:
		if math.Abs(v) > math.MaxFloat32 && !math.IsInf(v, 0) {
			return []string{"loud"}
		}
		out.SetFloat(v)
		ok := "ok:" + bridge.Render(out.Interface())
		if bridge.FitsFloat32(v) {
			return []string{ok}
		}
		// float32 rounds to nearest (pinned by call_test.go, known finding F-C16-004);
		// the element stores reject values that underflow
		return []string{ok, "loud"}
	case reflect.Int, reflect.Int8, reflect.Int16, reflect.Int32, reflect.Int64:
		if i, ok := bridge.FitsInt(v, w.t.Bits()); ok {
			out.SetInt(i)
			return []string{"ok:" + bridge.Render(out.Interface())}
		}
	default:
		if u, ok := bridge.FitsUint(v, w.t.Bits()); ok {
			out.SetUint(u)
			return []string{"ok:" + bridge.Render(out.Interface())}
		}
	}
	return []string{"loud"}
}

// RunKindTwins is the family body shared by the C15 and C16 checks.
func RunKindTwins(r *engine.Run, withModel bool) {
	ws := ktWidths()
	vals := ktValues()
	r.Bound("widths", fmt.Sprint(len(ws)))
	r.Bound("values", fmt.Sprint(len(vals)))
	r.Bound("sinks", strings.Join(ktSinks, ", "))
	r.Bound("representations", "decimal literal, (v)*1, (v)+0, Number(\"v\"), (v|0) within int32, (v>>>0) within uint32")
	var k *ktRig
	for _, sink := range ktSinks {
		for _, w := range ws {
			for _, v := range vals {
				key := sink + "/" + w.name + "/" + ox.Num(v)
				if !r.MineKey(key) {
					continue
				}
				if k == nil {
					k = newKTRig()
				}
				r.Begin(key)
				reps := ktReps(v)
				outs := make([]string, len(reps))
				dirty := false
				for i, rep := range reps {
					outs[i] = k.run(sink, w, rep.src)
					if strings.HasPrefix(outs[i], "PANIC") {
						dirty = true
						k = newKTRig()
					}
				}
				r.End()
				exp, got := NewObs(), NewObs()
				for i, rep := range reps {
					if i == 0 {
						continue
					}
					exp.Put(rep.name+" "+rep.src, outs[0])
					got.Put(rep.name+" "+rep.src, outs[i])
				}
				if withModel {
					acc := ktModel(sink, w, v)
					for i, rep := range reps {
						okay := false
						for _, a := range acc {
							if outs[i] == a {
								okay = true
							}
						}
						name := "model " + rep.name
						if okay {
							exp.Put(name, outs[i])
						} else {
							exp.Put(name, strings.Join(acc, " | "))
						}
						got.Put(name, outs[i])
					}
				}
				r.Eval(strings.HasPrefix(outs[0], "ok:"))
				r.Tree(1, 1)
				r.Outcome(w.name + "|" + strings.Join(outs, "|"))
				if r.WantSample() && !strings.HasPrefix(outs[0], "ok:") {
					r.Sample(sink + " " + w.name + " <- " + reps[len(reps)-1].src + " => " + outs[len(reps)-1])
				}
				Compare(r, key, sink+" of width "+w.name+" receives "+ox.Num(v)+" as "+reps[0].src+" and as its kind twins", exp, got,
					map[string]string{"sink": sink, "width": w.name, "value": ox.Num(v), "literal": outs[0]})
				_ = dirty
			}
		}
	}
}
