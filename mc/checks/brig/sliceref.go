package brig

import (
	"fmt"
	"reflect"
	"strings"

	"verif/mc/engine"
	"verif/mc/ox"
	"verif/mc/ref/bridge"
)

// sliceref: histories of two or three LENGTH-CHANGING operations through one
// RETAINED script reference to a bridged slice (var l = box.Items; l.push(4);
// l.push(5); ...), for a slice field and a nested slice field of a struct bridged
// by pointer (addressable: every new header must reach the Go field), a slice
// held in a map and a top-level slice (by value: the Go side keeps its header,
// the backing array stays shared within the capacity). After EVERY step four
// views are compared with the reference: the retained reference (traversal,
// length), its Export, the Go owner (field / map entry / variable), and a second
// alias bridged afresh from the owner (box.Items again).
//
// Reference: the ES5 15.4.4 algorithms over a memory model of Go slices (backing
// arrays + headers), see MemModel.

type memHeader struct{ arr, n, c int }

// MemModel is a script-held slice header and its owner's header over shared
// backing arrays.
type MemModel struct {
	arrays      [][]int
	js, owner   memHeader
	addressable bool // the owner's header is rewritten after every change
}

func newMemModel(cells []int, n int, addressable bool) *MemModel {
	return &MemModel{arrays: [][]int{cells}, js: memHeader{0, n, len(cells)}, owner: memHeader{0, n, len(cells)}, addressable: addressable}
}

func (m *MemModel) sync() {
	if m.addressable {
		m.owner = m.js
	}
}

func (m *MemModel) get(i int) int { return m.arrays[m.js.arr][i] }

func (m *MemModel) put(i, v int) {
	switch {
	case i < m.js.n:
		m.arrays[m.js.arr][i] = v
	case i == m.js.n:
		if m.js.n < m.js.c {
			m.arrays[m.js.arr][i] = v
			m.js.n++
		} else {
			na := make([]int, m.js.n+1, 2*m.js.n+2)
			copy(na, m.arrays[m.js.arr][:m.js.n])
			na[m.js.n] = v
			na = na[:cap(na)]
			m.arrays = append(m.arrays, na)
			m.js = memHeader{len(m.arrays) - 1, m.js.n + 1, len(na)}
		}
	}
	m.sync()
}

func (m *MemModel) del(i int) {
	if i < m.js.n {
		m.arrays[m.js.arr][i] = 0
	}
}

func (m *MemModel) setLength(n int) {
	switch {
	case n == m.js.n:
	case n < m.js.c:
		m.js.n = n
	default:
		na := make([]int, n)
		copy(na, m.arrays[m.js.arr][:m.js.n])
		m.arrays = append(m.arrays, na)
		m.js = memHeader{len(m.arrays) - 1, n, n}
	}
	m.sync()
}

func (m *MemModel) jsView() []int    { return append([]int{}, m.arrays[m.js.arr][:m.js.n]...) }
func (m *MemModel) ownerView() []int { return append([]int{}, m.arrays[m.owner.arr][:m.owner.n]...) }

type srOp struct {
	name, src string
	do        func(m *MemModel)
}

func srOps() []srOp {
	push := func(m *MemModel, vs ...int) {
		for _, v := range vs {
			m.put(m.js.n, v)
		}
		m.setLength(m.js.n)
	}
	return []srOp{
		{"push(4)", "l.push(4)", func(m *MemModel) { push(m, 4) }},
		{"push(5,6)", "l.push(5, 6)", func(m *MemModel) { push(m, 5, 6) }},
		{"l[l.length]=7", "l[l.length] = 7", func(m *MemModel) { m.put(m.js.n, 7) }},
		{"pop()", "l.pop()", func(m *MemModel) {
			if m.js.n > 0 {
				m.del(m.js.n - 1)
				m.setLength(m.js.n - 1)
			}
		}},
		{"length=0", "l.length = 0", func(m *MemModel) { m.setLength(0) }},
		{"length=2", "l.length = 2", func(m *MemModel) { m.setLength(2) }},
		{"length=len+2", "l.length = l.length + 2", func(m *MemModel) { m.setLength(m.js.n + 2) }},
		{"splice(1,1)", "l.splice(1, 1)", func(m *MemModel) {
			n := m.js.n
			if n < 2 {
				return
			}
			for k := 1; k < n-1; k++ {
				m.put(k, m.get(k+1))
			}
			m.del(n - 1)
			m.setLength(n - 1)
		}},
		{"shift()", "l.shift()", func(m *MemModel) {
			n := m.js.n
			if n == 0 {
				return
			}
			for k := 1; k < n; k++ {
				m.put(k-1, m.get(k))
			}
			m.del(n - 1)
			m.setLength(n - 1)
		}},
		{"unshift(9)", "l.unshift(9)", func(m *MemModel) {
			for k := m.js.n; k > 0; k-- {
				m.put(k, m.get(k-1))
			}
			m.put(0, 9)
		}},
	}
}

// SRBox is the pointer-bridged owner of the slices.
type SRBox struct {
	Items []int
	In    SRInner
	M     map[string][]int
}

type SRInner struct{ Items []int }

type srHolder struct {
	name        string
	ref         string // script expression of the slice, from the global box / s
	addressable bool
	owner       func(b *SRBox, top *[]int) []int
	install     func(b *SRBox, top *[]int, s []int)
}

func srHolders() []srHolder {
	return []srHolder{
		{"field", "box.Items", true, func(b *SRBox, top *[]int) []int { return b.Items }, func(b *SRBox, top *[]int, s []int) { b.Items = s }},
		{"nested-field", "box.In.Items", true, func(b *SRBox, top *[]int) []int { return b.In.Items }, func(b *SRBox, top *[]int, s []int) { b.In.Items = s }},
		{"map-value", "box.M.k", false, func(b *SRBox, top *[]int) []int { return b.M["k"] }, func(b *SRBox, top *[]int, s []int) { b.M["k"] = s }},
		{"top-level", "s", false, func(b *SRBox, top *[]int) []int { return *top }, func(b *SRBox, top *[]int, s []int) { *top = s }},
	}
}

// RunSliceRef is the family body shared by the C15 and C16 checks.
func RunSliceRef(r *engine.Run) {
	ops := srOps()
	holders := srHolders()
	var seqs [][]int
	for i := range ops {
		for j := range ops {
			seqs = append(seqs, []int{i, j})
		}
	}
	n3 := 4
	if r.Thorough() {
		n3 = len(ops)
	}
	for i := 0; i < n3; i++ {
		for j := 0; j < n3; j++ {
			for k := 0; k < n3; k++ {
				seqs = append(seqs, []int{i, j, k})
			}
		}
	}
	r.Bound("holders", "slice field, nested slice field, map value, top-level slice; each with cap == len and cap > len")
	r.Bound("operations", fmt.Sprint(len(ops)))
	r.Bound("sequences", fmt.Sprintf("%d (length 2 and 3) through one retained reference", len(seqs)))
	var g *Rig
	for _, h := range holders {
		for _, c := range []int{3, 6} {
			for _, seq := range seqs {
				names := make([]string, len(seq))
				for i, o := range seq {
					names[i] = ops[o].name
				}
				key := fmt.Sprintf("%s/cap%d/%s", h.name, c, strings.Join(names, " ; "))
				if !r.MineKey(key) {
					continue
				}
				if g == nil {
					g = NewRig()
				}
				r.Begin(key)
				backing := make([]int, 3, c)
				backing[0], backing[1], backing[2] = 1, 2, 3
				box := &SRBox{M: map[string][]int{}}
				var top []int
				h.install(box, &top, backing)
				g.VM.Set("box", box)
				g.VM.Set("s", top)
				cells := make([]int, c)
				copy(cells, backing)
				m := newMemModel(cells, 3, h.addressable)
				exp, got := NewObs(), NewObs()
				if res := ox.Run(g.VM, "var l = "+h.ref+"; 0"); res.Err != nil || res.Panicked {
					got.Put("setup", fmt.Sprint(res.Err, res.PanicVal))
					exp.Put("setup", "ok")
				}
				dirty := false
				for step, oi := range seq {
					op := ops[oi]
					op.do(m)
					res := ox.Run(g.VM, op.src+"; 0")
					tag := fmt.Sprintf("step %d %s: ", step+1, op.name)
					outcome := "ok"
					switch {
					case res.Panicked:
						outcome = "PANIC: " + OneLine(fmt.Sprint(res.PanicVal))
						dirty = true
					case res.Err != nil:
						outcome = "error: " + res.Err.Error()
					}
					exp.Put(tag+"outcome", "ok")
					got.Put(tag+"outcome", outcome)
					if dirty {
						break
					}
					wantJS := bridge.Counterpart(m.jsView()).Canon()
					wantOwner := bridge.Render(m.ownerView())
					exp.Put(tag+"retained reference", wantJS)
					got.Put(tag+"retained reference", g.View("l"))
					exp.Put(tag+"l.length", fmt.Sprintf("d:%d", m.js.n))
					got.Put(tag+"l.length", g.EvalCanon("l.length"))
					exp.Put(tag+"Export of the reference", bridge.Render(m.jsView()))
					got.Put(tag+"Export of the reference", Safe(func() string {
						x, err := g.VM.Get("l")
						if err != nil {
							return err.Error()
						}
						e, _ := x.Export()
						if v := reflect.ValueOf(e); v.IsValid() && v.Kind() == reflect.Slice && v.Len() == 0 {
							return bridge.Render([]int{})
						}
						return bridge.Render(e)
					}))
					o := h.owner(box, &top)
					if o == nil {
						o = []int{}
					}
					exp.Put(tag+"Go owner", wantOwner)
					got.Put(tag+"Go owner", bridge.Render(append([]int{}, o...)))
					// a second alias bridged afresh from the owner shows the owner's contents
					if h.name == "top-level" {
						// s IS the retained object (there is no Go slot to bridge afresh)
						exp.Put(tag+"second alias "+h.ref, wantJS)
					} else {
						exp.Put(tag+"second alias "+h.ref, bridge.Counterpart(m.ownerView()).Canon())
					}
					got.Put(tag+"second alias "+h.ref, g.View(h.ref))
				}
				r.End()
				r.Eval(!dirty)
				r.Tree(1, int64(len(seq)))
				r.Outcome(got.String())
				if r.WantSample() {
					r.Sample(key + " => Go owner " + bridge.Render(h.owner(box, &top)))
				}
				Compare(r, key, fmt.Sprintf("%s = make([]int, 3, %d){1,2,3}; var l = %s; %s", h.ref, c, h.ref, strings.Join(names, "; ")), exp, got,
					map[string]string{"holder": h.name, "cap": fmt.Sprint(c)})
				if dirty {
					g = nil
				}
			}
		}
	}
}
