package brig

import (
	"fmt"
	"strings"

	"github.com/robertkrimen/otto"

	"verif/mc/engine"
	"verif/mc/ox"
)

// samenamed: ordered pairs and triples of DISTINCT Go struct types that print
// the same (reflect.Type.String() == "brig.Point": a local type declared in
// several functions) but lay the fields X, Y, Z out differently (permuted,
// one more, one fewer, promoted from an embedded struct). The values are
// bridged by pointer into ONE runtime and touched one after another: every
// field is read by name, tested with `in`, written from the script (the Go side
// is read after every single write: exactly the named field changed), and a JS
// object is converted to a struct parameter of each type. After all of them
// were touched each one is observed a second time. Nothing resolved for one
// type may be reused for another type of the same printed name.

type snVal struct {
	name   string
	ptr    interface{}
	fields []string              // declared names, in Go order
	get    func() map[string]int // Go-side contents by name
	fn     interface{}           // func(Point) string: renders the received struct by name
}

func snRender(m map[string]int, fields []string) string {
	var parts []string
	for _, f := range []string{"X", "Y", "Z"} {
		for _, d := range fields {
			if d == f {
				parts = append(parts, fmt.Sprintf("%s=%d", f, m[f]))
			}
		}
	}
	return strings.Join(parts, " ")
}

func snXY() snVal {
	type Point struct{ X, Y int }
	p := &Point{X: 1, Y: 2}
	return snVal{"Point{X,Y}", p, []string{"X", "Y"}, func() map[string]int { return map[string]int{"X": p.X, "Y": p.Y} },
		func(q Point) string { return fmt.Sprintf("X=%d Y=%d", q.X, q.Y) }}
}

func snYX() snVal {
	type Point struct{ Y, X int }
	p := &Point{X: 10, Y: 20}
	return snVal{"Point{Y,X}", p, []string{"Y", "X"}, func() map[string]int { return map[string]int{"X": p.X, "Y": p.Y} },
		func(q Point) string { return fmt.Sprintf("X=%d Y=%d", q.X, q.Y) }}
}

func snZXY() snVal {
	type Point struct{ Z, X, Y int }
	p := &Point{X: 100, Y: 200, Z: 300}
	return snVal{"Point{Z,X,Y}", p, []string{"Z", "X", "Y"}, func() map[string]int { return map[string]int{"X": p.X, "Y": p.Y, "Z": p.Z} },
		func(q Point) string { return fmt.Sprintf("X=%d Y=%d Z=%d", q.X, q.Y, q.Z) }}
}

func snYZX() snVal {
	type Point struct{ Y, Z, X int }
	p := &Point{X: 1000, Y: 2000, Z: 3000}
	return snVal{"Point{Y,Z,X}", p, []string{"Y", "Z", "X"}, func() map[string]int { return map[string]int{"X": p.X, "Y": p.Y, "Z": p.Z} },
		func(q Point) string { return fmt.Sprintf("X=%d Y=%d Z=%d", q.X, q.Y, q.Z) }}
}

func snY() snVal {
	type Point struct{ Y int }
	p := &Point{Y: 7}
	return snVal{"Point{Y}", p, []string{"Y"}, func() map[string]int { return map[string]int{"Y": p.Y} },
		func(q Point) string { return fmt.Sprintf("Y=%d", q.Y) }}
}

// SNInner carries the promoted field of the embedded layout.
type SNInner struct{ X int }

func snEmb() snVal {
	type Point struct {
		Z int
		SNInner
		Y int
	}
	p := &Point{Z: 33, SNInner: SNInner{X: 11}, Y: 22}
	return snVal{"Point{Z,SNInner{X},Y}", p, []string{"Z", "X", "Y"}, func() map[string]int { return map[string]int{"X": p.X, "Y": p.Y, "Z": p.Z} },
		nil}
}

func snCatalog() []func() snVal { return []func() snVal{snXY, snYX, snZXY, snYZX, snY, snEmb} }

func snHas(v snVal, f string) bool {
	for _, d := range v.fields {
		if d == f {
			return true
		}
	}
	return false
}

func snStr(vm *otto.Otto, src string) string {
	res := ox.Run(vm, src)
	switch {
	case res.Panicked:
		return "PANIC: " + OneLine(fmt.Sprint(res.PanicVal))
	case res.Err != nil:
		return "error: " + OneLine(res.Err.Error())
	}
	return res.Value.String()
}

// RunSameNamed is the family body shared by the C15 and C16 checks.
func RunSameNamed(r *engine.Run) {
	cat := snCatalog()
	var seqs [][]int
	for i := range cat {
		for j := range cat {
			if i == j {
				continue
			}
			seqs = append(seqs, []int{i, j})
			for k := range cat {
				if k != i && k != j {
					seqs = append(seqs, []int{i, j, k})
				}
			}
		}
	}
	r.Bound("types", fmt.Sprintf("%d distinct struct types printing brig.Point (layouts X,Y / Y,X / Z,X,Y / Y,Z,X / Y / Z,embedded X,Y)", len(cat)))
	r.Bound("sequences", fmt.Sprintf("%d ordered pairs and triples in one runtime (one process: the first sequence a worker runs fixes which type was touched first)", len(seqs)))
	all := []string{"X", "Y", "Z"}
	for _, seq := range seqs {
		vals := make([]snVal, len(seq))
		names := make([]string, len(seq))
		for i, c := range seq {
			vals[i] = cat[c]()
			names[i] = vals[i].name
		}
		key := strings.Join(names, " -> ")
		if !r.MineKey(key) {
			continue
		}
		r.Begin(key)
		vm := otto.New()
		exp, got := NewObs(), NewObs()
		for i, v := range vals {
			vm.Set(fmt.Sprintf("v%d", i), v.ptr)
			if v.fn != nil {
				vm.Set(fmt.Sprintf("f%d", i), v.fn)
			}
		}
		readAll := func(tag string, i int, v snVal) {
			m := v.get()
			var want, wantIn []string
			for _, f := range all {
				if snHas(v, f) {
					want = append(want, fmt.Sprintf("number:%d", m[f]))
					wantIn = append(wantIn, "true")
				} else {
					want = append(want, "undefined:undefined")
					wantIn = append(wantIn, "false")
				}
			}
			exp.Put(tag+"read X,Y,Z", strings.Join(want, ","))
			got.Put(tag+"read X,Y,Z", snStr(vm, fmt.Sprintf(`[typeof v%[1]d.X + ":" + v%[1]d.X, typeof v%[1]d.Y + ":" + v%[1]d.Y, typeof v%[1]d.Z + ":" + v%[1]d.Z].join(",")`, i)))
			exp.Put(tag+"in X,Y,Z", strings.Join(wantIn, ","))
			got.Put(tag+"in X,Y,Z", snStr(vm, fmt.Sprintf(`["X" in v%[1]d, "Y" in v%[1]d, "Z" in v%[1]d].join(",")`, i)))
		}
		for i, v := range vals {
			tag := fmt.Sprintf("%d %s: ", i+1, v.name)
			readAll(tag, i, v)
			// writes, one field at a time; the Go side after every write
			for wi, f := range v.fields {
				before := v.get()
				n := 500 + 50*i + wi
				before[f] = n
				exp.Put(tag+"write "+f, fmt.Sprintf("%d; Go: %s", n, snRender(before, v.fields)))
				w := snStr(vm, fmt.Sprintf("v%d.%s = %d", i, f, n))
				got.Put(tag+"write "+f, fmt.Sprintf("%s; Go: %s", w, snRender(v.get(), v.fields)))
			}
			readAll(tag+"after writes: ", i, v)
			if v.fn != nil {
				var props []string
				arg := map[string]int{}
				for fi, f := range v.fields {
					arg[f] = 9000 + 10*i + fi
					props = append(props, fmt.Sprintf("%s: %d", f, arg[f]))
				}
				exp.Put(tag+"object -> struct parameter", snRender(arg, v.fields))
				got.Put(tag+"object -> struct parameter", snStr(vm, fmt.Sprintf("f%d({%s})", i, strings.Join(props, ", "))))
			}
		}
		for i, v := range vals {
			readAll(fmt.Sprintf("%d %s: second round: ", i+1, v.name), i, v)
		}
		r.End()
		r.Eval(true)
		r.Tree(1, int64(len(seq)))
		r.Outcome(got.String())
		if r.WantSample() {
			r.Sample(key + " => " + OneLine(got.String()))
		}
		Compare(r, key, "bridged by pointer as v0, v1, ..: "+key+"; per value read/in/write X,Y,Z, f({..}), then all read again", exp, got, nil)
	}
}
