package brig

import (
	"fmt"
	"reflect"
	"sort"
	"strings"

	"github.com/robertkrimen/otto"

	"verif/mc/engine"
	"verif/mc/ox"
	"verif/mc/ref/bridge"
)

// restore: RE-ENTRANT conversions. The value being stored is an object whose
// conversion (valueOf / toString, run by the bridge while it converts the value
// for the Go element type) MUTATES the very container that is being stored into:
// push beyond or within the capacity, length = 0, length = 1, a write to another
// element, replacing the field. The store is part of [[Put]]: it must land in
// the LIVE container as it is after the conversion ran - reference: the memory
// model of sliceref with "mutate, then put" (for push: the index is read before).
//
// earlyexit: enumeration of a bridged value left EARLY (break, return, labelled
// continue, throw) at every position: the body must have run exactly k+1 times
// and, for kinds with a defined order, over the prefix of the full enumeration.

type rsMut struct {
	name, src string
	do        func(m *MemModel)
}

func rsMuts() []rsMut {
	return []rsMut{
		{"push(7)", "l.push(7)", func(m *MemModel) { m.put(m.js.n, 7); m.setLength(m.js.n) }},
		{"push(7,8)", "l.push(7, 8)", func(m *MemModel) { m.put(m.js.n, 7); m.put(m.js.n, 8) }},
		{"length=0", "l.length = 0", func(m *MemModel) { m.setLength(0) }},
		{"length=1", "l.length = 1", func(m *MemModel) { m.setLength(1) }},
		{"length=4", "l.length = 4", func(m *MemModel) { m.setLength(4) }},
		{"l[1]=5", "l[1] = 5", func(m *MemModel) { m.put(1, 5) }},
		{"pop()", "l.pop()", func(m *MemModel) {
			if m.js.n > 0 {
				m.del(m.js.n - 1)
				m.setLength(m.js.n - 1)
			}
		}},
		{"nothing", "0", func(m *MemModel) {}},
	}
}

type rsStore struct {
	name string
	src  string // uses OBJ
	do   func(m *MemModel, mutate func())
}

func rsStores() []rsStore {
	return []rsStore{
		{"l[0]=OBJ", "l[0] = OBJ", func(m *MemModel, mut func()) { mut(); m.put(0, 9) }},
		{"l[1]=OBJ", "l[1] = OBJ", func(m *MemModel, mut func()) { mut(); m.put(1, 9) }},
		{"l[l.length]=OBJ", "l[l.length] = OBJ", func(m *MemModel, mut func()) { n := m.js.n; mut(); m.put(n, 9) }},
		{"l.push(OBJ)", "l.push(OBJ)", func(m *MemModel, mut func()) {
			n := m.js.n
			mut()
			if n > m.js.n {
				return // [[Put]] beyond the (shrunken) length throws: push stops there
			}
			m.put(n, 9)
			m.setLength(n + 1)
		}},
	}
}

// RunReentrantStore is the family body shared by the C15 and C16 checks.
func RunReentrantStore(r *engine.Run) {
	muts, stores := rsMuts(), rsStores()
	holders := srHolders()
	r.Bound("mutations_inside_the_conversion", fmt.Sprint(len(muts)))
	r.Bound("stores", fmt.Sprint(len(stores)))
	r.Bound("holders", "slice field, nested slice field, map value, top-level slice; cap == len and cap > len; []int via valueOf, []string via toString")
	var g *Rig
	for _, h := range holders {
		for _, c := range []int{2, 4} {
			for _, st := range stores {
				for _, mu := range muts {
					key := fmt.Sprintf("%s/cap%d/%s/while converting: %s", h.name, c, st.name, mu.name)
					if !r.MineKey(key) {
						continue
					}
					if g == nil {
						g = NewRig()
					}
					r.Begin(key)
					backing := make([]int, 2, c)
					backing[0], backing[1] = 1, 2
					box := &SRBox{M: map[string][]int{}}
					var top []int
					h.install(box, &top, backing)
					g.VM.Set("box", box)
					g.VM.Set("s", top)
					cells := make([]int, c)
					copy(cells, backing)
					m := newMemModel(cells, 2, h.addressable)
					st.do(m, func() { mu.do(m) })
					src := "var l = " + h.ref + "; var OBJ = {valueOf: function () { " + mu.src + "; return 9; }}; " + st.src + "; 0"
					res := ox.Run(g.VM, src)
					exp, got := NewObs(), NewObs()
					outcome := "ok"
					switch {
					case res.Panicked:
						outcome = "PANIC: " + OneLine(fmt.Sprint(res.PanicVal))
					case res.Err != nil:
						outcome = "error: " + res.Err.Error()
					}
					exp.Put("outcome", "ok")
					if st.name == "l.push(OBJ)" && (mu.name == "length=0" || mu.name == "length=1" || mu.name == "pop()") {
						// push's index lies beyond the shrunken length: [[Put]] with throw refuses it
						exp.Put("outcome", "error: TypeError")
						if strings.HasPrefix(outcome, "error: TypeError") {
							outcome = "error: TypeError"
						}
					}
					got.Put("outcome", outcome)
					if outcome == "ok" || outcome == "error: TypeError" {
						exp.Put("script view of l", bridge.Counterpart(m.jsView()).Canon())
						got.Put("script view of l", g.View("l"))
						exp.Put("Export of l", bridge.Render(m.jsView()))
						got.Put("Export of l", Safe(func() string {
							x, _ := g.VM.Get("l")
							e, _ := x.Export()
							if v := reflect.ValueOf(e); v.IsValid() && v.Kind() == reflect.Slice && v.Len() == 0 {
								return bridge.Render([]int{})
							}
							return bridge.Render(e)
						}))
						o := h.owner(box, &top)
						exp.Put("Go owner", bridge.Render(m.ownerView()))
						got.Put("Go owner", bridge.Render(append([]int{}, o...)))
					}
					r.End()
					r.Eval(outcome == "ok")
					r.Tree(1, 1)
					r.Outcome(got.String())
					if r.WantSample() && mu.name != "nothing" {
						r.Sample(key + " => " + got.M["script view of l"])
					}
					Compare(r, key, fmt.Sprintf("%s = make([]int, 2, %d){1,2}; %s", h.ref, c, src), exp, got, map[string]string{"holder": h.name, "store": st.name, "mutation": mu.name})
					if strings.HasPrefix(outcome, "PANIC") {
						g = nil
					}
				}
			}
		}
	}
	// []string via toString, map value and struct field stores
	type direct struct{ name, setup, src, view, want string }
	directs := []direct{
		{"[]string: push while converting", "", `s[0] = {toString: function () { s.push("c"); return "X"; }}; s.join()`, "s", `["X","b","c"]`},
		{"[]string: truncate while converting", "", `s[0] = {toString: function () { s.length = 0; return "Z"; }}; s.join()`, "s", `["Z"]`},
		{"[]string: shrink below the index", "", `s[1] = {toString: function () { s.length = 1; return "Z"; }}; s.join()`, "s", `["a","Z"]`},
		{"map[string]int: delete while converting", "", `m.k = {valueOf: function () { delete m.k; m.z = 1; return 9; }}; 0`, "m", `{"k":9,"z":1}`},
		{"struct string field: replace a sibling while converting", "", `b.S = {toString: function () { b.N = 7; return "u"; }}; 0`, "b", `{"N":7,"S":"u"}`},
	}
	for _, d := range directs {
		key := "direct/" + d.name
		if !r.MineKey(key) {
			continue
		}
		if g == nil {
			g = NewRig()
		}
		r.Begin(key)
		ss := []string{"a", "b"}
		mm := map[string]int{"k": 1}
		bb := &struct {
			N int
			S string
		}{1, "t"}
		g.VM.Set("s", ss)
		g.VM.Set("m", mm)
		g.VM.Set("b", bb)
		res := ox.Run(g.VM, d.src)
		exp, got := NewObs(), NewObs()
		outcome := "ok"
		if res.Panicked {
			outcome = "PANIC: " + OneLine(fmt.Sprint(res.PanicVal))
			g = nil
		} else if res.Err != nil {
			outcome = "error: " + res.Err.Error()
		}
		exp.Put("outcome", "ok")
		got.Put("outcome", outcome)
		if outcome == "ok" {
			exp.Put("script view", d.want)
			got.Put("script view", g.View(d.view))
			switch d.view {
			case "m":
				exp.Put("Go view", "map[k:9 z:1]")
				got.Put("Go view", fmt.Sprint(mm))
			case "b":
				exp.Put("Go view", strings.NewReplacer(`{"N":`, "{", `,"S":"`, " ", `"}`, "}").Replace(d.want))
				got.Put("Go view", fmt.Sprint(*bb))
			}
		}
		r.End()
		r.Eval(outcome == "ok")
		r.Tree(1, 1)
		r.Outcome(got.String())
		Compare(r, key, d.src, exp, got, map[string]string{"case": d.name})
	}
}

// ---------------------------------------------------------------------------

type eeAccount struct {
	Owner   string
	Balance int
	hidden  int
}

func (a *eeAccount) Deposit(n int) int { a.Balance += n; return a.Balance }
func (a eeAccount) Total() int         { return a.Balance }

type eeNM map[string]int

func (m eeNM) Sum() int { return len(m) }

const eePrelude = `
function eeFull(o) { var l = []; for (var k in o) l.push(k); return l; }
function eeBreak(o, n) { var l = []; for (var k in o) { l.push(k); if (l.length > n) break; } return l; }
function eeReturn(o, n) { var l = []; (function () { for (var k in o) { l.push(k); if (l.length > n) return; } })(); return l; }
function eeContinue(o, n) { var l = []; outer: for (var i = 0; i < 1; i++) { for (var k in o) { l.push(k); if (l.length > n) continue outer; } } return l; }
function eeThrow(o, n) { var l = []; try { for (var k in o) { l.push(k); if (l.length > n) throw 1; } } catch (e) {} return l; }
function eeFirst(o) { for (var k in o) return k; }
`

// RunEarlyExit is the family body shared by the C15 and C16 checks.
func RunEarlyExit(r *engine.Run) {
	type kind struct {
		name    string
		mk      func() interface{}
		ordered bool
		expando bool
	}
	kinds := []kind{
		{"*struct with methods", func() interface{} { return &eeAccount{"o", 1, 2} }, true, true},
		{"struct by value with methods", func() interface{} { return eeAccount{"o", 1, 2} }, true, true},
		{"map[string]int", func() interface{} { return map[string]int{"a": 1, "b": 2, "c": 3} }, false, false},
		{"map[int]string", func() interface{} { return map[int]string{1: "a", 2: "b", 3: "c"} }, false, false},
		{"named map with method", func() interface{} { return eeNM{"a": 1, "b": 2} }, false, false},
		{"[]int", func() interface{} { return []int{5, 6, 7} }, true, true},
		{"[3]int", func() interface{} { return [3]int{5, 6, 7} }, true, true},
		{"*[3]int", func() interface{} { return &[3]int{5, 6, 7} }, true, true},
		{"[]interface{}", func() interface{} { return []interface{}{1, "x", nil} }, true, false},
	}
	exits := []string{"eeBreak", "eeReturn", "eeContinue", "eeThrow"}
	r.Bound("bridged_kinds", fmt.Sprint(len(kinds)))
	r.Bound("exits", "break, return, labelled continue, throw; at every position; in-language and through Value.Call")
	var vm *otto.Otto
	for _, k := range kinds {
		for _, withExpando := range []bool{false, true} {
			if withExpando && !k.expando {
				continue
			}
			key := k.name
			if withExpando {
				key += " + script-added properties"
			}
			if !r.MineKey(key) {
				continue
			}
			if vm == nil {
				vm = otto.New()
				ox.Run(vm, eePrelude)
			}
			r.Begin(key)
			vm.Set("c", k.mk())
			if withExpando {
				ox.Run(vm, "c.extra1 = 1; c.extra2 = 2;")
			}
			list := func(src string) []string {
				res := ox.Run(vm, src+".join(\"\\u0001\")")
				if res.Panicked || res.Err != nil {
					return []string{fmt.Sprint("FAILED: ", res.Err, res.PanicVal)}
				}
				s, _ := res.Value.ToString()
				if s == "" {
					return nil
				}
				return strings.Split(s, "\u0001")
			}
			full := list("eeFull(c)")
			exp, got := NewObs(), NewObs()
			fullSet := map[string]bool{}
			for _, n := range full {
				fullSet[n] = true
			}
			for _, ex := range exits {
				for n := 0; n <= len(full); n++ {
					visited := list(fmt.Sprintf("%s(c, %d)", ex, n))
					want := n + 1
					if want > len(full) {
						want = len(full)
					}
					name := fmt.Sprintf("%s at %d", ex, n)
					if k.ordered {
						exp.Put(name, strings.Join(full[:want], ","))
						got.Put(name, strings.Join(visited, ","))
					} else {
						// map order is not fixed: the right number of distinct keys of the map
						okay := len(visited) == want
						seen := map[string]bool{}
						for _, v := range visited {
							if !fullSet[v] || seen[v] {
								okay = false
							}
							seen[v] = true
						}
						sv := append([]string{}, visited...)
						sort.Strings(sv)
						exp.Put(name, fmt.Sprintf("%d distinct keys", want))
						if okay {
							got.Put(name, fmt.Sprintf("%d distinct keys", want))
						} else {
							got.Put(name, fmt.Sprintf("%d visited: %s", len(visited), strings.Join(sv, ",")))
						}
					}
				}
			}
			// the first key, through Value.Call
			if fn, err := vm.Get("eeFirst"); err == nil && len(full) > 0 {
				cv, _ := vm.Get("c")
				v, cerr := fn.Call(otto.UndefinedValue(), cv)
				s, _ := v.ToString()
				if cerr != nil {
					s = "error " + cerr.Error()
				}
				if k.ordered {
					exp.Put("Value.Call first key", full[0])
					got.Put("Value.Call first key", s)
				} else {
					exp.Put("Value.Call first key", "a key")
					if fullSet[s] {
						got.Put("Value.Call first key", "a key")
					} else {
						got.Put("Value.Call first key", s)
					}
				}
			}
			r.End()
			r.Eval(len(full) > 0)
			r.Tree(1, int64(len(exits)*(len(full)+1)))
			r.Outcome(k.name + "|" + strings.Join(full, ","))
			if r.WantSample() {
				r.Sample(key + ": for-in order " + strings.Join(full, ","))
			}
			Compare(r, key, "c = "+bridge.Render(k.mk())+"; for-in left early at every position", exp, got, map[string]string{"kind": key})
		}
	}
}
