package c19

import (
	"fmt"
	"strings"

	"github.com/robertkrimen/otto"

	"verif/mc/engine"
	"verif/mc/ox"
)

// Environment histories: what a script did to the error-related globals BEFORE
// the interpreter raises an error. The error the interpreter raises itself must
// still be an instance of the ES5-specified native error constructor, i.e. of
// the ORIGINAL intrinsic (ES5 15.11.6: "the initial value of ..."; the native
// constructors' prototype properties are non-writable, so instanceof against the
// original constructor is decided by the intrinsic prototype), whatever the
// global bindings now hold.

var errorGlobals = []string{"Error", "EvalError", "RangeError", "ReferenceError", "SyntaxError", "TypeError", "URIError"}

func each(f func(n string) string) string {
	var sb strings.Builder
	for _, n := range errorGlobals {
		sb.WriteString(f(n))
	}
	return sb.String()
}

type history struct {
	id          string
	pre         string // statements run in global code before the program
	open, close string // wrapper around the program (shadowing by parameter / local variable)
	name        string // expected e.name when the history changes it ("" = the class)
	toString    string // value of String(e) when Error.prototype.toString was replaced
}

var histories = []history{
	{id: "none"},
	{id: "reassigned-function", pre: each(func(n string) string { return n + " = function(){}; " })},
	{id: "reassigned-number", pre: each(func(n string) string { return n + " = 42; " })},
	{id: "reassigned-other-native", pre: "var t0 = TypeError; TypeError = RangeError; RangeError = ReferenceError; ReferenceError = SyntaxError; SyntaxError = URIError; URIError = t0; "},
	{id: "deleted", pre: each(func(n string) string { return "delete " + n + "; " })},
	// (global code reached from inside the wrapper - indirect eval, Function code - needs the global nop)
	{id: "shadowed-parameter", pre: "function nop(){} ", open: "(function(" + strings.Join(errorGlobals, ", ") + "){ ", close: " })(1, 2, 3, 4, 5, 6, 7);"},
	{id: "shadowed-var", pre: "function nop(){} ", open: "(function(){ var " + strings.Join(errorGlobals, " = 0, ") + " = function(){}; ", close: " })();"},
	{id: "prototype-assigned", pre: each(func(n string) string { return n + ".prototype = {name: \"Fake\"}; " })},
	{id: "prototype-constructor-edited", pre: each(func(n string) string { return n + ".prototype.constructor = Object; " })},
	{id: "prototype-name-edited", pre: each(func(n string) string { return n + ".prototype.name = \"Renamed\"; " }), name: "Renamed"},
	{id: "prototype-name-deleted", pre: each(func(n string) string {
		if n == "Error" {
			return ""
		}
		return "delete " + n + ".prototype.name; "
	}), name: "Error"},
	// (otto's NativeError prototypes carry an own toString, a shape matter of C14: replace them all)
	{id: "toString-replaced", pre: each(func(n string) string { return n + `.prototype.toString = function(){ return "custom"; }; ` }), toString: "custom"},
	{id: "Object-prototype-polluted", pre: `Object.prototype.name = "Polluted"; Object.prototype.message = "pm"; Object.prototype.stack = "ps"; `},
	{id: "getPrototypeOf-replaced", pre: `Object.getPrototypeOf = function(){ return null; }; `},
}

// the prelude captures the original intrinsics before any history runs
const histProbeSrc = `
(function(g){
  var O = {}, names = ["Error", "EvalError", "RangeError", "ReferenceError", "SyntaxError", "TypeError", "URIError"];
  for (var i = 0; i < names.length; i++) O[names[i]] = {c: g[names[i]], p: g[names[i]].prototype};
  var gpo = Object.getPrototypeOf, ets = Error.prototype.toString, hop = Object.prototype.hasOwnProperty, ev = eval, S = String;
  g.__hprobe = function(src, cname, custom){
    try { ev(src); } catch (e) {
      if (e === null || (typeof e !== "object" && typeof e !== "function")) return "value|" + S(e);
      var o = O[cname], text = ets.call(e);
      return ["error", e instanceof o.c, gpo(e) === o.p, e instanceof O.Error.c, S(e.name), hop.call(e, "message") && typeof e.message,
              typeof e.message === "string" && e.message.length > 0, text === e.name + ": " + e.message,
              S(e) === (custom !== "" ? custom : text), text].join("|");
    }
    return "nothrow";
  };
})(this)
`

func runHistories(r *engine.Run) {
	var ks []int
	for i, k := range constructs {
		if k.interpreterRaised() && !k.noTrace && !k.nested && !strings.HasPrefix(k.group, "invalid-lhs") && k.group != "arraylength" && k.group != "arraylength-store" {
			ks = append(ks, i)
		}
	}
	sl := [][]shape{nil, {shDecl}, {shGetter}, {shForEach}}
	if r.Thorough() {
		sl = shapeLists1()
	}
	lay := layout{sepLine: true, pre: preNone, term: 0}
	r.Bound("histories", fmt.Sprint(len(histories)))
	r.Bound("history.constructs", fmt.Sprint(len(ks)))
	r.Bound("history.shapes", fmt.Sprint(len(sl)))
	for _, h := range histories {
		for _, ki := range ks {
			k := constructs[ki]
			for _, sh := range sl {
				c := tcase{shapes: sh, ki: ki, lay: lay, mode: modeCompileNamed, limit: 10}
				key := c.key() + "/hist-" + h.id
				if !mine(r, key) {
					continue
				}
				g := c.gen()
				src := h.pre + h.open + g.build() + h.close
				input := showSrc(src)
				ax := aux(g, c)
				ax["history"] = h.id
				r.Begin(key)
				vm := newVM(10)
				if pr := ox.Run(vm, histProbeSrc); pr.Err != nil || pr.Panicked {
					r.HarnessError(fmt.Sprintf("history probe prelude failed: %v %v", pr.Err, pr.PanicVal))
					r.End()
					return
				}
				vm.Set("__src", src)
				vm.Set("__cname", k.class)
				vm.Set("__custom", h.toString)
				probe := ox.Run(vm, `__hprobe(__src, __cname, __custom)`)
				res := execute(one(src, c.mode), c.mode, c.limit)
				r.End()
				r.Tree(1, 1)
				r.Eval(h.id != "none")

				obs := ""
				switch {
				case probe.Panicked:
					obs = fmt.Sprint("Go panic: ", probe.PanicVal)
				case probe.Err != nil:
					obs = "escaped the catch clause: " + probe.Err.Error()
				default:
					obs, _ = probe.Value.ToString()
				}
				r.Outcome(h.id + obs)
				if r.WantSample() && h.id != "none" {
					r.Sample(input + " => catch sees " + obs)
				}
				f := strings.SplitN(obs, "|", 10)
				name := k.class
				if h.name != "" {
					name = h.name
				}
				S := ""
				msg := ""
				if len(f) == 10 {
					S = f[9]
					if i := strings.Index(S, ": "); i >= 0 {
						msg = S[i+2:]
					}
				}
				wantS := "<name: message>"
				if S != "" {
					wantS = S
				}
				exp := strings.Join([]string{"error", "true", "true", "true", name, "string", "true", "true", "true", wantS}, "|")
				if exp != obs {
					r.Mismatch(engine.Mismatch{Key: key + "#script", Input: input, Expected: exp, Observed: obs, Aux: ax})
				}
				if len(f) != 10 {
					continue
				}
				// Go side: *otto.Error whose text is "Name: message" of the thrown value
				got := ""
				switch {
				case res.Panicked:
					got = fmt.Sprint("Go panic: ", res.PanicVal)
				case res.Err == nil:
					got = "no error"
				default:
					got = res.Err.Error()
					if _, isOtto := res.Err.(*otto.Error); !isOtto {
						got = fmt.Sprintf("(%T) %s", res.Err, got)
					}
				}
				ax["class"] = k.class
				ax["message"] = msg
				ax["expected_name"] = name
				if got != S {
					r.Mismatch(engine.Mismatch{Key: key + "#text", Input: input, Expected: S, Observed: got, Aux: ax})
				}
			}
		}
	}
}
