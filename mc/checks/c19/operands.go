package c19

// operand-order lattice of the two relational operators that raise on a
// non-object operand. The class "an error check that a fast path on the OTHER
// operand can skip (or overtake)" needs the full cross of both operands' kinds:
//
//	V instanceof F   11.8.6 steps 5-7, 15.3.5.3 steps 1-4, 15.3.4.5.3
//	  V: primitives, objects with a null [[Prototype]], ordinary objects, an
//	     instance made before F.prototype was replaced, functions
//	  F: function whose prototype property holds each kind of value; a bound
//	     function of it (twice bound, too); a built-in function (no own
//	     prototype) with an accessor that returns that value or throws a
//	     RangeError; non-callable objects; primitives
//	K in R           11.8.7 steps 5-6
//	  K: primitives, an object whose toString throws a RangeError, an object
//	     without any conversion method; R: primitives and objects
//
// The expected outcome is computed from the ES5 step order only.
func operandOrderCases(add func(site, expr, want, rule string)) {
	type lv struct {
		src string
		obj bool
	}
	lefts := []lv{
		{"1", false}, {`"s"`, false}, {"undefined", false}, {"null", false}, {"true", false}, {"NaN", false},
		{"Object.create(null)", true}, {"Object.prototype", true}, {"Object.create(Object.create(null))", true},
		{"({})", true}, {"[]", true}, {"I", true}, {"fn", true}, {"F", true}, {"Function.prototype", true}, {"new String(\"s\")", true}, {"Math", true},
	}
	protos := []lv{
		{"({})", true}, {"Object.prototype", true}, {"Object.create(null)", true}, {"fn", true}, {"[]", true},
		{"1", false}, {"undefined", false}, {"null", false}, {`"s"`, false}, {"true", false}, {"0", false}, {"NaN", false},
	}
	for _, p := range protos {
		for _, v := range lefts {
			want, rule := "", "15.3.5.3 step 1: V is not an object -> false"
			if v.obj {
				if p.obj {
					rule = "15.3.5.3 step 4: walk the chain"
				} else {
					want, rule = "TypeError", "15.3.5.3 steps 2-3: Type(F.prototype) is not Object -> TypeError, whatever V's chain is"
				}
			}
			pre := "function F(){} var I = new F; F.prototype = " + p.src + "; "
			add("instanceof operands", "(function(){ "+pre+"return "+v.src+" instanceof F; })()", want, rule)
			add("instanceof operands (bound)", "(function(){ "+pre+"var B = F.bind(null); return "+v.src+" instanceof B; })()", want, "15.3.4.5.3 -> "+rule)
			add("instanceof operands (bound twice)", "(function(){ "+pre+"var B = F.bind(null).bind({}, 1); B.prototype = {}; return "+v.src+" instanceof B; })()", want, "15.3.4.5.3 -> "+rule)
			// a built-in function has no own "prototype": an accessor shows when (and whether) step 2 runs
			acc := "function F(){} var I = new F; var N = String.prototype.trim; Object.defineProperty(N, \"prototype\", {get: function(){ return " + p.src + "; }, configurable: true}); "
			add("instanceof operands (accessor)", "(function(){ "+acc+"try { return "+v.src+" instanceof N; } finally { delete N.prototype; } })()", want, rule)
			if p.src == "({})" {
				w, ru := "", "15.3.5.3 step 1 precedes the Get of step 2"
				if v.obj {
					w, ru = "RangeError", "15.3.5.3 step 2: Get(F, \"prototype\") runs the accessor"
				}
				thr := "function F(){} var I = new F; var N = String.prototype.trim; Object.defineProperty(N, \"prototype\", {get: function(){ throw new RangeError(\"g\"); }, configurable: true}); "
				add("instanceof operands (throwing accessor)", "(function(){ "+thr+"try { return "+v.src+" instanceof N; } finally { delete N.prototype; } })()", w, ru)
				// built-in without the property: Get gives undefined
				w, ru = "", "15.3.5.3 step 1"
				if v.obj {
					w, ru = "TypeError", "15.3.5.3 step 3: a built-in function has no prototype property"
				}
				add("instanceof operands (built-in)", "(function(){ function F(){} var I = new F; return "+v.src+" instanceof String.prototype.trim; })()", w, ru)
				for _, r := range []string{"({})", "({prototype: {}})", "Object.create(null)", "Math", "[]", "I", "Object.prototype", "1", `"s"`, "undefined", "null", "true"} {
					add("instanceof right operand x left", "(function(){ function F(){} var I = new F; return "+v.src+" instanceof "+r+"; })()", "TypeError", "11.8.6 steps 5-6: whatever the left operand is")
				}
			}
		}
	}
	keys := []struct{ src, throws string }{
		{`"a"`, ""}, {"1", ""}, {"undefined", ""}, {"null", ""}, {"true", ""}, {"({})", ""}, {"fn", ""},
		{`({toString: function(){ throw new RangeError("k"); }})`, "RangeError"},
		{`({toString: function(){ return {}; }, valueOf: function(){ throw new RangeError("k"); }})`, "RangeError"},
		{"Object.create(null)", "TypeError"},
	}
	rights := []lv{
		{"1", false}, {`"s"`, false}, {`"a"`, false}, {"undefined", false}, {"null", false}, {"true", false}, {"NaN", false},
		{"({})", true}, {"({a: 1})", true}, {"[]", true}, {"fn", true}, {"Object.create(null)", true}, {"Object.prototype", true}, {`new String("abc")`, true}, {"Math", true},
	}
	for _, k := range keys {
		for _, rr := range rights {
			want, rule := "TypeError", "11.8.7 step 5: Type(rval) is not Object -> TypeError before ToString(lval)"
			if rr.obj {
				want, rule = k.throws, "11.8.7 step 6: ToString(lval)"
			}
			add("in operands", "(function(){ return "+k.src+" in "+rr.src+"; })()", want, rule)
		}
	}
}
