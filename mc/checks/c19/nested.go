package c19

import (
	"fmt"
	"strings"

	"verif/mc/engine"
)

// Nested error constructs: two (or more) error-raising constructs in ONE
// expression, one inside the other's callee / operand / argument / key
// position. The error that surfaces must be the one the ES5 evaluation order
// reaches first (11.2.1 member access: base value, then the key expression,
// then CheckObjectCoercible; 11.2.2 new and 11.2.3 call: callee reference,
// GetValue of it, then the arguments left to right, and only then the "not a
// function" TypeError; 11.13.1/11.13.2 assignment: the left-hand side
// reference (and, compound, its value) before the right-hand side; binary
// operators: left GetValue, right GetValue, then the operator's own checks).

const nestedSetup = "var u, nl = null, n = 5, o = {}, a = []; function fn(){}"

// nestedConstructs are appended to the construct table (flag nested).
func nestedConstructs() []construct {
	var l []construct
	add := func(text, class, at string) {
		i := strings.Index(text, at)
		if i < 0 {
			panic("nested construct " + text + ": no " + at)
		}
		l = append(l, construct{id: "nested:" + text, setup: vars(nestedSetup), text: text, anchor: i, class: class, group: "nested", nested: true})
	}
	const R, T = "ReferenceError", "TypeError"
	// call: callee value, then arguments, then the callability check
	add("u(zzz)", R, "zzz")
	add("nl(zzz)", R, "zzz")
	add("n(zzz, yyy)", R, "zzz")
	add("o.p(zzz)", R, "zzz")
	add(`o["p"](zzz)`, R, "zzz")
	add("(void 0)(zzz)", R, "zzz")
	add("5(zzz)", R, "zzz")
	add("fn()(zzz)", R, "zzz")
	add("zzz(yyy)", R, "zzz")
	add("zzz.m(yyy)", R, "zzz")
	add("u.p(zzz)", T, "u.p")
	add("nl[\"p\"](zzz)", T, "nl[")
	add("u.x.y(zzz)", T, "u.x")
	add("o[zzz](yyy)", R, "zzz")
	add("nl[zzz](yyy)", R, "zzz")
	add("fn(zzz, yyy)", R, "zzz")
	add("fn((void 0).x, zzz)", T, "void")
	add("fn(fn(zzz), yyy)", R, "zzz")
	add("fn(1, zzz, (void 0).x)", R, "zzz")
	add("u((void 0).x)", T, "void")
	// new
	add("new u(zzz)", R, "zzz")
	add("new n(zzz)", R, "zzz")
	add("new nl(yyy, zzz)", R, "yyy")
	add("new o.C(zzz)", R, "zzz")
	add(`new o["C"](zzz)`, R, "zzz")
	add("new (void 0)(zzz)", R, "zzz")
	add("new 5(zzz)", R, "zzz")
	add("new zzz(yyy)", R, "zzz")
	add("new u.C(zzz)", T, "u.C")
	add("new u((void 0).x)", T, "void")
	add("new fn(zzz)", R, "zzz")
	// member access: base value, key expression, then the base check
	add("u[zzz]", R, "zzz")
	add("nl[zzz]", R, "zzz")
	add("u[zzz] = 1", R, "zzz")
	add("u[(void 0).x]", T, "void")
	add("u[nl.x]", T, "nl.x")
	add("zzz.x", R, "zzz")
	add("zzz[yyy]", R, "zzz")
	add("u.x[zzz]", T, "u.x")
	add("typeof zzz.x", R, "zzz")
	add("delete u.x", T, "u.x")
	// assignment
	add("a[zzz] = (void 0).x", R, "zzz")
	add("o.q = (void 0).x", T, "void")
	add("u.q = zzz", T, "u.q")
	add("nl[\"q\"] = zzz", T, "nl[")
	add("o.q = zzz", R, "zzz")
	add("zzz += (void 0).x", R, "zzz")
	add("u.q += zzz", T, "u.q")
	add("o.q += zzz", R, "zzz")
	add("o.q -= (void 0).x", T, "void")
	add("u.x++", T, "u.x")
	add("var v1 = zzz, v2 = yyy", R, "zzz")
	// binary operators and the rest
	add("n instanceof (zzz)", R, "zzz")
	add("zzz instanceof n", R, "zzz")
	add("(zzz) in 1", R, "zzz")
	add(`"a" in zzz`, R, "zzz")
	add("u.x instanceof n", T, "u.x")
	add("1 + zzz * (void 0).x", R, "zzz")
	add("(void 0).x + zzz", T, "void")
	add("zzz < (void 0).x", R, "zzz")
	add("(void 0).x == zzz", T, "void")
	add("[zzz, (void 0).x]", R, "zzz")
	add("({p: (void 0).x, q: zzz})", T, "void")
	add("zzz ? 1 : yyy", R, "zzz")
	add("1 && zzz", R, "zzz")
	add("0 || (void 0).x", T, "void")
	add("zzz, yyy", R, "zzz")
	// natives: the arguments are evaluated before the native can complain
	add("n.toFixed(zzz)", R, "zzz")
	add("n.toFixed(21, zzz)", R, "zzz")
	add("JSON.parse(zzz)", R, "zzz")
	add("new Array(-1, zzz)", R, "zzz")
	add("throw new TypeError(zzz)", R, "zzz")
	add("throw zzz", R, "zzz")
	add(`eval((void 0).x)`, T, "void")
	// operands whose conversion to a string / number would throw: the check that ES5
	// places BEFORE the conversion must win (11.2.1 step 5 CheckObjectCoercible before
	// step 6 ToString(key); 11.8.7 step 5 before ToString(lval); 11.2.2/11.2.3 callability)
	const tkSetup = nestedSetup + " var tk = {toString: function(){ throw new RangeError(\"conv\"); }, valueOf: function(){ throw new RangeError(\"conv\"); }};"
	addk := func(text, at string, kind ckind, group string) {
		i := strings.Index(text, at)
		if i < 0 {
			panic("nested construct " + text + ": no " + at)
		}
		l = append(l, construct{id: "nested:" + text, setup: vars(tkSetup), text: text, anchor: i, kind: kind, class: T, group: group, nested: true})
	}
	addk("nl[tk]", "nl[", ckRef, "nested")
	addk("u[tk]", "u[", ckRef, "nested")
	addk("null[tk]", "null[", ckRef, "nested")
	addk("u[tk] = 1", "u[", ckRef, "nested")
	addk("nl[tk]()", "nl[", ckRef, "nested")
	addk("new u[tk]", "u[", ckRef, "nested")
	addk("delete nl[tk]", "nl[", ckRef, "nested")
	addk("nl[tk] += 1", "nl[", ckRef, "nested")
	addk("nl[tk]++", "nl[", ckRef, "nested")
	addk("typeof nl[tk]", "nl[", ckRef, "nested")
	addk("u[tk][tk]", "u[", ckRef, "nested")
	addk("tk()", "tk", ckRef, "nested")
	addk("new tk", "tk", ckRef, "nested")
	addk("new tk(zzz)", "zzz", ckRef, "nested")
	addk("(0, tk)()", "0", ckNonRef, "nested")
	addk("tk in n", "tk", ckUnpos, "operator")
	addk("n instanceof tk", "n inst", ckUnpos, "operator")
	l[len(l)-4].class = R // new tk(zzz): the argument is evaluated first
	return l
}

func nestedIndexes() []int {
	var l []int
	for i, k := range constructs {
		if k.nested {
			l = append(l, i)
		}
	}
	return l
}

func runNested(r *engine.Run) {
	ks := nestedIndexes()
	sl := [][]shape{nil, {shDecl}, {shMethodDot}, {shCtor}, {shGetter}, {shEvalDirect}, {shFunction}, {shIIFE}}
	lays := []layout{{sepLine: true, pre: preNone, term: 0}, {sepLine: true, pre: preSpaces, term: 2}, {sepLine: false, pre: preCall, term: 0}}
	wrapsUsed := []int{0}
	if r.Thorough() {
		sl = shapeLists1()
		lays = append(lays, layout{sepLine: true, pre: preTab, term: 1}, layout{sepLine: true, pre: preBr2, term: 3}, layout{sepLine: true, pre: preThrowEval, term: 0})
		wrapsUsed = []int{0, 1, 6}
	}
	r.Bound("constructs", fmt.Sprint(len(ks)))
	r.Bound("shapes", fmt.Sprint(len(sl)))
	r.Bound("layouts", fmt.Sprint(len(lays)))
	for _, ki := range ks {
		for _, sh := range sl {
			for li, lay := range lays {
				for _, wi := range wrapsUsed {
					m := modeCompileNamed
					if li == 0 {
						m = modeRun
					}
					runTrace(r, tcase{shapes: sh, ki: ki, lay: lay, mode: m, limit: 10, wrap: wi})
				}
			}
		}
		if r.Expired() {
			r.Cap("time budget")
			return
		}
	}
}
