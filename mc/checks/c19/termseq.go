package c19

import (
	"fmt"
	"regexp"
	"strings"

	"github.com/robertkrimen/otto"

	"verif/mc/engine"
	"verif/mc/ox"
)

// ---------------------------------------------------------------------------
// syntax / termseq: every SEQUENCE of line terminators before the offending token
// ---------------------------------------------------------------------------
//
// The other syntax cases repeat ONE terminator kind per source text. A line
// counter that carries state from one character to the next (the "previous was
// CR" flag that makes CR LF one terminator) can only go wrong on a run of
// DIFFERENT characters, so this part enumerates every string of length 0..n over
//
//	{ LF, CR, U+2028, U+2029, one space, the statement "q;" }
//
// (all four ES5 7.3 LineTerminators, adjacent or separated by ordinary text),
// bare or inside a block comment, after an empty or a non-empty first line, in
// front of every bad construct. The expected position is refPos: one line per
// LineTerminatorSequence (CR LF is one, every other terminator one each), column
// from the end of the last one. Observed through Run, Compile, parser.ParseFile
// and as the "Line L:C" of the SyntaxError a script catches from eval(src).

var termSeqAlphabet = []struct{ id, s string }{
	{"LF", "\n"}, {"CR", "\r"}, {"LS", "\u2028"}, {"PS", "\u2029"}, {"SP", " "}, {"ST", "q;"},
}

var evalPosRE = regexp.MustCompile(`Line (\d+):(\d+)`)

func runSyntaxTermSeq(r *engine.Run) {
	maxLen := 3
	if r.Thorough() {
		maxLen = 4
	}
	r.Bound("termseq.alphabet", fmt.Sprint(len(termSeqAlphabet)))
	r.Bound("termseq.max_len", fmt.Sprint(maxLen))
	heads := []struct{ id, s string }{{"empty", ""}, {"stmt", "var a;"}}
	wraps := []struct{ id, open, close string }{{"bare", "", ""}, {"comment", "/*", "*/"}}
	na := len(termSeqAlphabet)
	vm := otto.New()
	for n := 0; n <= maxLen; n++ {
		total := 1
		for i := 0; i < n; i++ {
			total *= na
		}
		for code := 0; code < total; code++ {
			ids := make([]string, 0, n)
			var seq strings.Builder
			for i, c := 0, code; i < n; i++ {
				a := termSeqAlphabet[c%na]
				c /= na
				ids = append(ids, a.id)
				seq.WriteString(a.s)
			}
			seqID := strings.Join(ids, ".")
			if n == 0 {
				seqID = "-"
			}
			for _, h := range heads {
				for _, w := range wraps {
					if w.id == "comment" && n == 0 {
						continue
					}
					for _, b := range badSyntaxes {
						key := fmt.Sprintf("termseq/%s/%s/%s/%s", b.id, h.id, w.id, seqID)
						if !mine(r, key) {
							continue
						}
						prefix := h.s + w.open + seq.String() + w.close
						off := len(prefix) + b.anchor
						src := prefix + b.text
						if b.anchor < 0 {
							off = len(src)
						}
						line, col := refPos(src, off)
						r.Begin(key)
						checkSyntax(r, key, src, line, col)
						checkEvalSyntax(r, vm, key, src, line, col)
						r.End()
						r.Tree(1, 1)
					}
				}
			}
		}
	}
}

// checkEvalSyntax: the SyntaxError a script catches from eval(src) names the same
// line and column (the only place an eval syntax error shows its position).
func checkEvalSyntax(r *engine.Run, vm *otto.Otto, key, src string, line, col int) {
	exp := fmt.Sprintf("SyntaxError %d:%d", line, col)
	obs := ""
	res := ox.Guard(func() (otto.Value, error) {
		if err := vm.Set("__src", src); err != nil {
			return otto.Value{}, err
		}
		return vm.Run(`(function(){ try { eval(__src); return "no error"; } catch (e) { return (e instanceof SyntaxError ? "SyntaxError" : "other:" + e.name) + "|" + e.message; } })()`)
	})
	switch {
	case res.Panicked:
		obs = fmt.Sprint("Go panic: ", res.PanicVal)
	case res.Err != nil:
		obs = "error: " + res.Err.Error()
	default:
		s := res.Value.String()
		i := strings.IndexByte(s, '|')
		if i < 0 {
			obs = s
		} else if m := evalPosRE.FindStringSubmatch(s[i+1:]); m == nil {
			obs = s[:i] + " (no position in message " + fmt.Sprintf("%q", s[i+1:]) + ")"
		} else {
			obs = s[:i] + " " + m[1] + ":" + m[2]
		}
	}
	r.Eval(line > 1 || col > 1)
	r.Outcome(obs)
	r.Check(key+"#eval", showSrc(src), exp, obs)
}
