package c19

import (
	"fmt"
	"regexp"
	"strconv"
	"strings"
)

// ---------------------------------------------------------------------------
// Positions
// ---------------------------------------------------------------------------

// refPos is the generator's own line/column of byte offset off in src: ES5 7.3
// line terminators (LF, CR, CRLF as one, U+2028, U+2029), columns 1-based. The
// generated sources are ASCII apart from the terminators themselves, so bytes
// and characters coincide on every asserted line.
func refPos(src string, off int) (line, col int) {
	line = 1
	start := 0
	// only the text before the offset matters (an offset produced by an
	// alternative model may fall inside a multi-byte terminator)
	src = src[:off]
	for i := 0; i < off; i++ {
		switch {
		case src[i] == '\r':
			if i+1 < len(src) && src[i+1] == '\n' {
				i++
			}
			line++
			start = i + 1
		case src[i] == '\n':
			line++
			start = i + 1
		case src[i] == 0xE2 && i+2 < len(src) && src[i+1] == 0x80 && (src[i+2] == 0xA8 || src[i+2] == 0xA9):
			i += 2
			line++
			start = i + 1
		}
	}
	return line, off - start + 1
}

// lfPos is the alternative model of finding F-C19-001: only "\n" ends a line.
func lfPos(src string, off int) (line, col int) {
	pre := src[:off]
	line = strings.Count(pre, "\n") + 1
	if i := strings.LastIndex(pre, "\n"); i >= 0 {
		return line, off - i
	}
	return line, off + 1
}

// ---------------------------------------------------------------------------
// Defect flags (alternative models used only by known-finding signatures)
// ---------------------------------------------------------------------------

type defect uint

const (
	dLineTerm defect = 1 << iota
	dNonRef
	dEvalLeak
	dImplicit
	dUnpos
	dLimit0
	nDefects = 6
)

var defectNames = []string{"position-lf-only", "nonref-callee", "eval-file-leak", "implicit-call-site", "unpositioned-operator", "limit-zero"}

func (d defect) names() []string {
	var l []string
	for i := 0; i < nDefects; i++ {
		if d&(1<<uint(i)) != 0 {
			l = append(l, defectNames[i])
		}
	}
	return l
}

// ---------------------------------------------------------------------------
// Expected trace
// ---------------------------------------------------------------------------

type eframe struct {
	native  bool
	name    string
	wild    bool // location not asserted (Function-constructor code has no file)
	unknown bool // "<unknown>" (only alternative models produce it)
	file    string
	line    int
	col     int
	colEnd  int // > col: only "column within [col, colEnd]" is asserted
}

func (e eframe) String() string {
	if e.native {
		return "<native>"
	}
	loc := ""
	switch {
	case e.wild:
		loc = "*"
	case e.unknown:
		loc = "<unknown>"
	case e.colEnd > e.col:
		loc = fmt.Sprintf("%s:%d:%d..%d", e.file, e.line, e.col, e.colEnd)
	default:
		loc = fmt.Sprintf("%s:%d:%d", e.file, e.line, e.col)
	}
	if e.name != "" {
		return e.name + " (" + loc + ")"
	}
	return loc
}

func renderTrace(l []eframe) string {
	p := make([]string, len(l))
	for i, e := range l {
		p[i] = e.String()
	}
	return "[" + strings.Join(p, " | ") + "]"
}

type fstate struct {
	fr     *frame
	file   *gfile
	idx    int // file.Idx as otto records it (offset+1); 0 = nothing recorded; -1 = "no position"
	weak   bool
	wo, we int
}

// model computes the trace for the generated program: with d == 0 this is the
// convention (the oracle); with defect bits set it is the alternative model of
// the corresponding known findings. withOptional selects whether the optional
// innermost native frame is listed.
func (g *gen) model(d defect, limit int, withOptional bool) []eframe {
	var list []fstate // innermost first
	for i := len(g.frames) - 1; i >= 0; i-- {
		fr := g.frames[i]
		if fr.native {
			if fr.optional && !withOptional {
				continue
			}
			list = append(list, fstate{fr: fr})
			continue
		}
		st := fstate{fr: fr, file: fr.home}
		text := fr.home // the text in which the offsets of the following events were measured
		for _, ev := range fr.events {
			// parser.ParseFunction wraps the body: "(function(" + params + ") {\n" + body + "\n})"
			shift := 0
			if text.fnbody && !ev.abs {
				shift = len("(function() {\n")
			}
			switch ev.kind {
			case evRef:
				st.idx = ev.off + 1 + shift
			case evNonRef:
				if d&dNonRef != 0 {
					st.idx = -1
				} else {
					st.idx = ev.off + 1 + shift
				}
			case evImplicit:
				if d&dImplicit == 0 {
					st.weak, st.wo, st.we = true, ev.off, ev.end
				}
			case evUnpos:
				if d&dUnpos == 0 {
					st.weak, st.wo, st.we = true, ev.off, ev.end
				}
			case evEnterEval:
				st.file = ev.file
				text = ev.file
			case evEvalDone:
				if d&dEvalLeak != 0 {
					st.file = ev.file
				}
			}
		}
		list = append(list, st)
	}
	pos := refPos
	if d&dLineTerm != 0 {
		pos = lfPos
	}
	render := func(st fstate) eframe {
		if st.fr.native {
			return eframe{native: true}
		}
		e := eframe{name: st.fr.name}
		if st.file.fnbody {
			e.wild = true
			return e
		}
		e.file = st.file.display()
		if st.weak {
			if st.wo >= len(st.file.src) {
				e.unknown = true
				return e
			}
			e.line, e.col = pos(st.file.src, st.wo)
			e.colEnd = e.col + (st.we - st.wo)
			return e
		}
		off := st.idx - 1
		if off < 0 || off >= len(st.file.src) {
			e.unknown = true
			return e
		}
		e.line, e.col = pos(st.file.src, off)
		return e
	}
	var out []eframe
	if limit == 0 && d&dLimit0 == 0 {
		return out
	}
	n := limit
	for i, st := range list {
		if i == 0 {
			out = append(out, render(st))
			continue
		}
		n--
		if n == 0 {
			break
		}
		if !st.fr.native && !st.weak && st.idx < 0 {
			continue
		}
		out = append(out, render(st))
	}
	return out
}

// hasOptional reports whether the program has an optional innermost native frame.
func (g *gen) hasOptional() bool {
	return len(g.frames) > 0 && g.frames[len(g.frames)-1].optional
}

// ---------------------------------------------------------------------------
// Observed trace
// ---------------------------------------------------------------------------

type oframe struct {
	name, loc string
}

var goLoc = regexp.MustCompile(`\.go:\d+$`)

func (o oframe) native() bool { return o.loc == "<native code>" || goLoc.MatchString(o.loc) }

func (o oframe) String() string {
	if o.native() {
		return "<native>"
	}
	if o.name != "" {
		return o.name + " (" + o.loc + ")"
	}
	return o.loc
}

// parseTrace splits Error.String() into the head line and the frames.
func parseTrace(s string) (head string, frames []oframe, ok bool) {
	lines := strings.Split(s, "\n")
	if len(lines) == 0 || lines[len(lines)-1] != "" {
		return "", nil, false
	}
	lines = lines[:len(lines)-1]
	first := len(lines)
	for first > 0 && strings.HasPrefix(lines[first-1], "    at ") {
		first--
	}
	head = strings.Join(lines[:first], "\n")
	for _, l := range lines[first:] {
		rest := strings.TrimPrefix(l, "    at ")
		if strings.HasSuffix(rest, ")") {
			if i := strings.Index(rest, " ("); i >= 0 {
				frames = append(frames, oframe{name: rest[:i], loc: rest[i+2 : len(rest)-1]})
				continue
			}
		}
		frames = append(frames, oframe{loc: rest})
	}
	return head, frames, true
}

func renderObserved(l []oframe) string {
	p := make([]string, len(l))
	for i, o := range l {
		p[i] = o.String()
	}
	return "[" + strings.Join(p, " | ") + "]"
}

func matchFrame(e eframe, o oframe) bool {
	if e.native {
		return o.native()
	}
	if o.native() || e.name != o.name {
		return false
	}
	switch {
	case e.wild:
		return true
	case e.unknown:
		return o.loc == "<unknown>"
	case e.colEnd > e.col:
		i := strings.LastIndex(o.loc, ":")
		if i < 0 {
			return false
		}
		j := strings.LastIndex(o.loc[:i], ":")
		if j < 0 {
			return false
		}
		col, err1 := strconv.Atoi(o.loc[i+1:])
		line, err2 := strconv.Atoi(o.loc[j+1 : i])
		return err1 == nil && err2 == nil && o.loc[:j] == e.file && line == e.line && col >= e.col && col <= e.colEnd
	}
	return o.loc == fmt.Sprintf("%s:%d:%d", e.file, e.line, e.col)
}

func matchTrace(exp []eframe, obs []oframe) bool {
	if len(exp) != len(obs) {
		return false
	}
	for i := range exp {
		if !matchFrame(exp[i], obs[i]) {
			return false
		}
	}
	return true
}

// matches tries the model under d against the observation (both variants of
// the optional native frame) and returns the rendering of the matching or, on
// failure, of the first variant.
func (g *gen) matches(d defect, limit int, obs []oframe) (bool, string) {
	a := g.model(d, limit, false)
	if matchTrace(a, obs) {
		return true, renderTrace(a)
	}
	if g.hasOptional() {
		b := g.model(d, limit, true)
		if matchTrace(b, obs) {
			return true, renderTrace(b)
		}
		return false, renderTrace(a) + " or " + renderTrace(b)
	}
	return false, renderTrace(a)
}

// explain finds the smallest set of known defects whose alternative model
// reproduces the observation exactly.
func (g *gen) explain(limit int, obs []oframe) (defect, string, bool) {
	for size := 1; size <= nDefects; size++ {
		for d := defect(1); d < 1<<nDefects; d++ {
			if popcount(uint(d)) != size {
				continue
			}
			if ok, alt := g.matches(d, limit, obs); ok {
				return d, alt, true
			}
		}
	}
	return 0, "", false
}

func popcount(x uint) int {
	n := 0
	for ; x != 0; x &= x - 1 {
		n++
	}
	return n
}
