package c19

import (
	"strings"

	"verif/mc/engine"
)

// Signatures of the known findings of C19. Every trace signature accepts a
// mismatch only when (1) the check itself verified that the observed trace is
// exactly the alternative model of the named defect set (Aux["alt_matches"]),
// (2) the mismatch is the share of this defect (Aux["defect"]) and (3) the case
// belongs to the input class in which the defect can act at all.
func registerSignatures() {
	trace := func(name string, class func(a map[string]string) bool) {
		engine.RegisterSignature("c19-"+name, func(m *engine.Mismatch) bool {
			a := m.Aux
			return a != nil && a["defect"] == name && a["alt_matches"] == "1" &&
				strings.HasSuffix(m.Key, "#trace/"+name) && class(a)
		})
	}
	// file.Position counts only "\n": CR, U+2028 and U+2029 do not start a new line.
	trace("position-lf-only", func(a map[string]string) bool {
		return a["has_break"] == "1" && (a["term"] == "CR" || a["term"] == "LS" || a["term"] == "PS")
	})
	// call/new whose callee is not identifier/dot/bracket records offset -1: the
	// caller's frame is dropped (and still consumes the limit); an error raised at
	// such a call has location <unknown>.
	trace("nonref-callee", func(a map[string]string) bool { return a["has_nonref"] == "1" })
	// a completed direct eval leaves its source as the file of the calling frame.
	trace("eval-file-leak", func(a map[string]string) bool { return a["has_evaldone"] == "1" })
	// implicit calls (getter, setter, ToPrimitive) record no call site: the frame
	// shows the last recorded offset of that frame or <unknown>.
	trace("implicit-call-site", func(a map[string]string) bool { return a["has_implicit"] == "1" })
	// instanceof / in / array length store raise without position: last recorded
	// offset of the frame or <unknown>.
	trace("unpositioned-operator", func(a map[string]string) bool {
		return a["group"] == "operator" || a["group"] == "arraylength-store"
	})
	// SetStackTraceLimit(0) lists every frame.
	trace("limit-zero", func(a map[string]string) bool { return a["limit"] == "0" })

	// RangeError for an invalid array length has an empty message (pinned by array_test.go).
	engine.RegisterSignature("c19-empty-message-array-length", func(m *engine.Mismatch) bool {
		a := m.Aux
		if a != nil && (a["site"] == "new Array(len)" || a["site"] == "Array(len)" || a["site"] == "array length store" || a["site"] == "array length defineProperty") {
			// lattice family: every invalid length of the lattice
			return a["want"] == "RangeError" && strings.HasSuffix(m.Key, "#script") &&
				strings.HasPrefix(m.Expected, "throws|RangeError|true|RangeError|true") && m.Observed == "throws|RangeError|true|RangeError|false"
		}
		if a == nil || (a["group"] != "arraylength" && a["group"] != "arraylength-store") {
			return false
		}
		switch {
		case strings.HasSuffix(m.Key, "#script"):
			return m.Expected == "error|true|true|true|RangeError|string|true|true|RangeError" &&
				m.Observed == "error|true|true|true|RangeError|undefined|false|false|RangeError"
		case strings.HasSuffix(m.Key, "#text"):
			return m.Expected == "RangeError: <message>" && m.Observed == "RangeError"
		}
		return false
	})
	// RegExp constructor: pattern syntax errors found by the translator are TypeError.
	engine.RegisterSignature("c19-regexp-typeerror", func(m *engine.Mismatch) bool {
		a := m.Aux
		if a == nil || a["group"] != "regexp" {
			return false
		}
		switch {
		case strings.HasSuffix(m.Key, "#script"):
			f := strings.SplitN(m.Observed, "|", 9)
			return len(f) == 9 && strings.Join(f[:8], "|") == "error|false|false|true|TypeError|string|true|true" &&
				strings.HasPrefix(f[8], "TypeError: ") && strings.HasPrefix(m.Expected, "error|true|true|true|SyntaxError|string|true|true|")
		case strings.HasSuffix(m.Key, "#text"):
			return m.Expected == "SyntaxError: <message>" && strings.HasPrefix(m.Observed, "TypeError: ")
		}
		return false
	})
	// Error() is the name and message captured at construction, not of the thrown value.
	engine.RegisterSignature("c19-error-text-snapshot", func(m *engine.Mismatch) bool {
		a := m.Aux
		if a != nil && (a["history"] == "prototype-name-edited" || a["history"] == "prototype-name-deleted") {
			// the name an interpreter-raised error shows to the script comes from the (edited)
			// prototype; the Go-side text uses the internal class name
			return strings.HasSuffix(m.Key, "#text") && a["expected_name"] != a["class"] &&
				m.Expected == a["expected_name"]+": "+a["message"] && m.Observed == a["class"]+": "+a["message"]
		}
		if a == nil || a["group"] != "throw-modified" {
			return false
		}
		if strings.HasSuffix(m.Key, "#script") {
			// through a Go host function (Value.Call + re-panic) the catch clause receives
			// a new object built from the same snapshot (only reachable once F-C19-010 is repaired)
			if a["shapes"] != "host" {
				return false
			}
			switch a["construct"] {
			case "throw-modified-message":
				return m.Expected == "error|true|true|true|Error|string|true|true|Error: m2" &&
					m.Observed == "error|true|true|true|Error|string|true|true|Error: m"
			case "throw-modified-name":
				return m.Expected == "error|true|true|true|Custom|string|true|true|Custom: m" &&
					m.Observed == "error|true|true|true|TypeError|string|true|true|TypeError: m"
			}
			return false
		}
		if !strings.HasSuffix(m.Key, "#text") {
			return false
		}
		switch a["construct"] {
		case "throw-modified-message":
			return m.Expected == "Error: m2" && m.Observed == "Error: m"
		case "throw-modified-name":
			return m.Expected == "Custom: m" && m.Observed == "TypeError: m"
		}
		return false
	})
	// an *otto.Error re-panicked by a Go host function bypasses the script's catch clause.
	engine.RegisterSignature("c19-repanicked-error-uncatchable", func(m *engine.Mismatch) bool {
		a := m.Aux
		if a == nil || a["shapes"] != "host" || !strings.HasSuffix(m.Key, "#script") {
			return false
		}
		u := a["uncaught"]
		return u != "" && u != "no error" && !strings.HasPrefix(u, "Go panic") && !strings.HasPrefix(u, "(") &&
			m.Observed == "escaped the catch clause: TypeError: invalid value (struct): missing runtime: "+a["uncaught"]+" (otto.Error)"
	})
	// lattice family: site-specific signatures (Aux: site, expr, want)
	engine.RegisterSignature("c19-number-methods-generic", func(m *engine.Mismatch) bool {
		a := m.Aux
		if a == nil || a["want"] != "TypeError" {
			return false
		}
		switch a["site"] {
		case "Number.prototype.toFixed receiver", "Number.prototype.toExponential receiver", "Number.prototype.toPrecision receiver":
		default:
			return false
		}
		if strings.HasSuffix(m.Key, "#script") {
			return m.Observed == "returns"
		}
		return strings.HasSuffix(m.Key, "#text") && m.Observed == "returns"
	})
	engine.RegisterSignature("c19-getownpropertynames-primitive", func(m *engine.Mismatch) bool {
		a := m.Aux
		return a != nil && a["site"] == "Object.getOwnPropertyNames argument" && a["want"] == "TypeError" && m.Observed == "returns" &&
			(strings.HasSuffix(m.Key, "#script") || strings.HasSuffix(m.Key, "#text"))
	})
	// eval / Function code with an invalid assignment target: SyntaxError instead of ReferenceError
	engine.RegisterSignature("c19-invalid-lhs-syntaxerror", func(m *engine.Mismatch) bool {
		a := m.Aux
		if a == nil || !strings.HasPrefix(a["group"], "invalid-lhs") {
			return false
		}
		switch {
		case strings.HasSuffix(m.Key, "#script"):
			f := strings.SplitN(m.Observed, "|", 9)
			return len(f) == 9 && strings.Join(f[:8], "|") == "error|false|false|true|SyntaxError|string|true|true" &&
				strings.HasPrefix(f[8], "SyntaxError: ") && strings.Contains(f[8], "invalid left-hand side in assignment") &&
				strings.HasPrefix(m.Expected, "error|true|true|true|ReferenceError|string|true|true|")
		case strings.HasSuffix(m.Key, "#text"):
			return m.Expected == "ReferenceError: <message>" && strings.HasPrefix(m.Observed, "SyntaxError: ") &&
				strings.Contains(m.Observed, "invalid left-hand side in assignment")
		}
		return false
	})
	// a thrown value whose ToString throws escapes Run as a Go panic
	engine.RegisterSignature("c19-unprintable-thrown-value-panics", func(m *engine.Mismatch) bool {
		a := m.Aux
		return a != nil && a["group"] == "throw-value" && a["unprintable"] == "1" && strings.HasSuffix(m.Key, "#text") &&
			m.Expected == "Run returns an error" && strings.HasPrefix(m.Observed, "Go panic: ")
	})
	// base[key] with an undefined/null base converts an object key before raising the TypeError
	engine.RegisterSignature("c19-bracket-key-converted-first", func(m *engine.Mismatch) bool {
		a := m.Aux
		if a == nil || a["group"] != "nested" || !strings.Contains(a["construct"], "[tk]") {
			return false
		}
		switch {
		case strings.HasSuffix(m.Key, "#text"):
			return m.Expected == "TypeError: <message>" && m.Observed == "RangeError: conv"
		case strings.HasSuffix(m.Key, "#script"):
			return strings.HasPrefix(m.Expected, "error|true|true|true|TypeError|string|true|true|") &&
				m.Observed == "error|false|false|true|RangeError|string|true|true|RangeError: conv"
		}
		return false
	})
	latticeReturns := func(name, site string, expr func(string) bool) {
		engine.RegisterSignature(name, func(m *engine.Mismatch) bool {
			a := m.Aux
			return a != nil && a["site"] == site && a["want"] != "" && expr(a["expr"]) && m.Observed == "returns" &&
				(strings.HasSuffix(m.Key, "#script") || strings.HasSuffix(m.Key, "#text"))
		})
	}
	any := func(string) bool { return true }
	// RegExp.prototype.toString is generic; Error.prototype.toString accepts primitives
	latticeReturns("c19-regexp-tostring-generic", "RegExp.prototype.toString receiver", any)
	latticeReturns("c19-error-tostring-primitive", "Error.prototype.toString receiver", any)
	// Function constructor: parameters and body are only parsed spliced into one text, so a comment
	// opened in the parameters or a body that closes the wrapper early is accepted
	latticeReturns("c19-function-ctor-spliced-parse", "Function constructor parameters", func(e string) bool {
		return strings.Contains(e, "/*") || strings.Contains(e, `"}); (function(){"`) || strings.Contains(e, `"}, function(){"`)
	})
}
