package c19

import (
	"fmt"
	"math"
	"strings"

	"github.com/robertkrimen/otto"

	"verif/mc/engine"
	"verif/mc/ox"
)

// lattice: every raise site of an interpreter-raised error is driven with a
// small receiver x argument lattice instead of one typical input, so that
// special-value fast paths in front of (or behind) the check are seen. The
// model is the ES5.1 step order of each algorithm; the oracle is, as elsewhere:
// the right native error class, catchable with the right prototype chain and a
// non-empty message, the same class in the error Run returns - or no error at
// all where ES5 raises none (return values themselves belong to C06/C08).

type jsv struct {
	src   string
	num   float64 // ToNumber
	undef bool
	isNum bool // Type(v) is Number
}

func nv(src string, f float64) jsv { return jsv{src: src, num: f, isNum: true} }

var nan = math.NaN()

// argument values with their ToNumber
var argLattice = []jsv{
	nv("1", 1), nv("37", 37), nv("0", 0), nv("-1", -1), nv("NaN", nan), nv("Infinity", math.Inf(1)), nv("-Infinity", math.Inf(-1)),
	{src: `"x"`, num: nan}, {src: "null", num: 0}, {src: "undefined", num: nan, undef: true}, nv("10", 10), nv("2", 2), nv("36", 36),
	{src: `"16"`, num: 16}, nv("2.9", 2.9), nv("1.9", 1.9), nv("36.9", 36.9), {src: "true", num: 1}, nv("21", 21), nv("20", 20), nv("20.9", 20.9),
	nv("101", 101), nv("-0.5", -0.5), nv("1e21", 1e21), nv("22", 22), {src: "[]", num: 0}, {src: "[2]", num: 2}, {src: "({})", num: nan},
	{src: `"1.5"`, num: 1.5}, nv("1.5", 1.5), nv("4294967296", 4294967296), nv("3", 3), {src: `"3"`, num: 3},
}

type recv struct {
	src string
	num float64
}

var numberReceivers = []recv{
	{"(0)", 0}, {"(-0)", math.Copysign(0, -1)}, {"(1)", 1}, {"(-1.5)", -1.5}, {"(NaN)", nan}, {"(Infinity)", math.Inf(1)}, {"(-Infinity)", math.Inf(-1)},
	{"(123.456)", 123.456}, {"(1e21)", 1e21}, {"(new Number(0))", 0}, {"(new Number(NaN))", nan}, {"(new Number(-Infinity))", math.Inf(-1)}, {"(new Number(7))", 7},
}

func toInteger(f float64) float64 {
	if math.IsNaN(f) {
		return 0
	}
	if math.IsInf(f, 0) || f == 0 {
		return f
	}
	return math.Trunc(f)
}

func toUint32(f float64) float64 {
	if math.IsNaN(f) || math.IsInf(f, 0) {
		return 0
	}
	m := math.Mod(math.Trunc(f), 4294967296)
	if m < 0 {
		m += 4294967296
	}
	return m
}

type lcase struct {
	site string // raise site
	expr string // JavaScript expression statement
	want string // expected native error class, "" = completes normally
	rule string // the ES5 step that decides
}

func latticeCases() []lcase {
	var l []lcase
	add := func(site, expr, want, rule string) { l = append(l, lcase{site, expr, want, rule}) }
	small := map[string]bool{}
	for _, a := range argLattice {
		small[a.src] = true
	}
	for _, r := range numberReceivers {
		special := math.IsNaN(r.num) || math.IsInf(r.num, 0)
		for _, a := range argLattice {
			i := toInteger(a.num)
			// 15.7.4.2 toString(radix): undefined -> 10; ToInteger(radix) outside 2..36 -> RangeError, whatever the receiver
			w := ""
			if !a.undef && (i < 2 || i > 36) {
				w = "RangeError"
			}
			add("Number.prototype.toString", r.src+".toString("+a.src+")", w, "15.7.4.2: radix not in 2..36 -> RangeError (receiver irrelevant)")
			// 15.7.4.5 toFixed: step 2 RangeError precedes the NaN check of step 4
			w = ""
			if i < 0 || i > 20 {
				w = "RangeError"
			}
			add("Number.prototype.toFixed", r.src+".toFixed("+a.src+")", w, "15.7.4.5 step 2 before step 4")
			// 15.7.4.6 toExponential: NaN (step 3) and Infinity (step 6) return before the range check (step 7)
			w = ""
			if !special && !a.undef && (i < 0 || i > 20) {
				w = "RangeError"
			}
			add("Number.prototype.toExponential", r.src+".toExponential("+a.src+")", w, "15.7.4.6 steps 3,6 before step 7")
			// 15.7.4.7 toPrecision: undefined (step 2), NaN (4), Infinity (5-7) return before the range check (8)
			w = ""
			if !special && !a.undef && (i < 1 || i > 21) {
				w = "RangeError"
			}
			add("Number.prototype.toPrecision", r.src+".toPrecision("+a.src+")", w, "15.7.4.7 steps 2,4,7 before step 8")
		}
	}
	// the Number.prototype functions are not generic
	for _, m := range []string{"toString", "toFixed", "toExponential", "toPrecision", "valueOf"} {
		for _, t := range []string{`"5"`, "({})", "undefined", "null", "true", "[5]"} {
			add("Number.prototype."+m+" receiver", "Number.prototype."+m+".call("+t+", 2)", "TypeError", "15.7.4: not generic")
		}
	}
	// 15.4.2.2 new Array(len) / Array(len): a Number len with ToUint32(len) != len -> RangeError
	for _, a := range argLattice {
		if a.num > 1000 && toUint32(a.num) == a.num {
			continue // a huge valid length: allocation, not this property
		}
		w := ""
		if a.isNum && toUint32(a.num) != a.num {
			w = "RangeError"
		}
		add("new Array(len)", "new Array("+a.src+")", w, "15.4.2.2")
		add("Array(len)", "Array("+a.src+")", w, "15.4.2.2 via 15.4.1")
		// 15.4.5.1 step 3.c/d: ToUint32(v) != ToNumber(v) -> RangeError
		w = ""
		if toUint32(a.num) != a.num {
			w = "RangeError"
		}
		if a.num > 1000 && w == "" {
			continue
		}
		add("array length store", "[1, 2, 3].length = "+a.src, w, "15.4.5.1 step 3.d")
		add("array length defineProperty", `Object.defineProperty([1, 2, 3], "length", {value: `+a.src+`})`, w, "15.4.5.1 step 3.d")
	}
	// 15.3.4.3 apply: argArray null/undefined -> no arguments; not an Object -> TypeError
	for _, a := range []struct{ src, want string }{{"undefined", ""}, {"null", ""}, {"[]", ""}, {"[1, 2]", ""}, {"({length: 1})", ""}, {"({})", ""},
		{"(function(){})", ""}, {"(function(){ return arguments; })(1)", ""}, {"1", "TypeError"}, {`"ab"`, "TypeError"}, {"true", "TypeError"}, {"NaN", "TypeError"}} {
		add("Function.prototype.apply argArray", "fn.apply(null, "+a.src+")", a.want, "15.3.4.3 steps 2-3")
		add("Function.prototype.apply argArray", "Math.max.apply(null, "+a.src+")", a.want, "15.3.4.3 steps 2-3")
	}
	for _, t := range []string{"({})", "1", `"f"`, "undefined", "null", "[]", "/a/"} {
		add("Function.prototype.apply receiver", "Function.prototype.apply.call("+t+", null, [])", "TypeError", "15.3.4.3 step 1")
		add("Function.prototype.call receiver", "Function.prototype.call.call("+t+", null)", "TypeError", "15.3.4.4 step 1")
		add("Function.prototype.bind receiver", "Function.prototype.bind.call("+t+", null)", "TypeError", "15.3.4.5 step 2")
	}
	// callbacks that are not callable (15.4.4.16-22 step 4)
	for _, m := range []string{"forEach", "map", "filter", "some", "every", "reduce", "reduceRight"} {
		for _, cb := range []string{"1", "undefined", "null", "({})", `"f"`} {
			add("Array.prototype."+m+" callback", "[1, 2]."+m+"("+cb+")", "TypeError", "15.4.4.x step 4")
			add("Array.prototype."+m+" callback", "[]."+m+"("+cb+")", "TypeError", "15.4.4.x step 4 (before the loop)")
		}
	}
	add("Array.prototype.reduce empty", "[].reduce(fn)", "TypeError", "15.4.4.21 step 5")
	add("Array.prototype.reduceRight empty", "[].reduceRight(fn)", "TypeError", "15.4.4.22 step 5")
	add("Array.prototype.reduce empty", "[,,].reduce(fn)", "TypeError", "15.4.4.21 step 8.c")
	add("Array.prototype.reduce empty", "[].reduce(fn, 0)", "", "15.4.4.21")
	// Object.* on non-objects (15.2.3.x step 1)
	for _, f := range []string{"getPrototypeOf", "getOwnPropertyNames", "keys", "freeze", "seal", "preventExtensions", "isFrozen", "isSealed", "isExtensible"} {
		for _, t := range []string{"1", `"s"`, "true", "undefined", "null"} {
			add("Object."+f+" argument", "Object."+f+"("+t+")", "TypeError", "15.2.3.x step 1")
		}
	}
	for _, t := range []string{"1", `"s"`, "true", "undefined"} {
		add("Object.create argument", "Object.create("+t+")", "TypeError", "15.2.3.5 step 1")
		add("Object.defineProperty descriptor", `Object.defineProperty({}, "x", `+t+`)`, "TypeError", "8.10.5 step 1")
		add("Object.defineProperty target", "Object.defineProperty("+t+`, "x", {})`, "TypeError", "15.2.3.6 step 1")
		add("Object.getOwnPropertyDescriptor target", "Object.getOwnPropertyDescriptor("+t+`, "x")`, "TypeError", "15.2.3.3 step 1")
	}
	add("Object.create argument", "Object.create(null)", "", "15.2.3.5")
	add("descriptor", `Object.defineProperty({}, "x", {get: 1})`, "TypeError", "8.10.5 step 7.b")
	add("descriptor", `Object.defineProperty({}, "x", {set: "s"})`, "TypeError", "8.10.5 step 8.b")
	add("descriptor", `Object.defineProperty({}, "x", {get: fn, value: 1})`, "TypeError", "8.10.5 step 9")
	add("descriptor", `Object.defineProperty({}, "x", {get: undefined})`, "", "8.10.5 step 7.b")
	// instanceof / in
	for _, t := range []string{"1", `"s"`, "undefined", "null", "({})", "[]", "Math"} {
		add("instanceof right operand", "({}) instanceof "+t, "TypeError", "11.8.6 steps 5-6")
	}
	add("instanceof prototype", "(function(){ function F(){} F.prototype = 1; return ({}) instanceof F; })()", "TypeError", "15.3.5.3 step 3")
	add("instanceof prototype", "(function(){ function F(){} F.prototype = 1; return 1 instanceof F; })()", "", "15.3.5.3 step 1")
	for _, t := range []string{"1", `"s"`, "undefined", "null", "true"} {
		add("in right operand", `"a" in `+t, "TypeError", "11.8.7 step 5")
	}
	// RegExp constructor
	add("RegExp flags", `new RegExp("a", "gg")`, "SyntaxError", "15.10.4.1")
	add("RegExp flags", `new RegExp("a", "x")`, "SyntaxError", "15.10.4.1")
	add("RegExp flags", `new RegExp("a", "gim")`, "", "15.10.4.1")
	add("RegExp pattern", `new RegExp(/a/, "g")`, "TypeError", "15.10.4.1")
	add("RegExp pattern", `RegExp("[")`, "SyntaxError", "15.10.4.1")
	add("RegExp pattern", `RegExp("a**")`, "SyntaxError", "15.10.4.1")
	add("RegExp pattern", `RegExp(")")`, "SyntaxError", "15.10.4.1")
	add("RegExp method receiver", `RegExp.prototype.exec.call({}, "a")`, "TypeError", "15.10.6")
	add("RegExp method receiver", `RegExp.prototype.test.call("a", "a")`, "TypeError", "15.10.6")
	// JSON
	for _, t := range []string{`"{"`, `""`, `"undefined"`, `"{a:1}"`, `"[1,]"`, `"'a'"`, `"01"`, `"{\"a\":1,}"`, `"\u0009\u000B1"`, "undefined"} {
		add("JSON.parse text", "JSON.parse("+t+")", "SyntaxError", "15.12.2 step 2")
	}
	add("JSON.parse text", `JSON.parse(" [1] ")`, "", "15.12.2")
	add("JSON.stringify cyclic", "(function(){ var c = []; c[0] = c; return JSON.stringify(c); })()", "TypeError", "15.12.3 Str/JA step 1")
	add("JSON.stringify cyclic", "(function(){ var c = {a: {b: {}}}; c.a.b.c = c.a; return JSON.stringify(c); })()", "TypeError", "15.12.3 JO step 1")
	add("JSON.stringify cyclic", "(function(){ var c = {}; c.toJSON = function(){ return c; }; return JSON.stringify({c: c}); })()", "", "15.12.3 (toJSON result is not walked again through toJSON of the holder: c is serialised once)")
	add("JSON.stringify cyclic", "(function(){ var c = {a: 1}; return JSON.stringify([c, c]); })()", "", "15.12.3 (shared, not cyclic)")
	// cycles that only come into being DURING the walk: closed by what toJSON, the replacer
	// function or a getter returns (15.12.3 Str steps 2-3 run before JO/JA step 1 looks at the stack)
	dyn := func(body, want, rule string) {
		add("JSON.stringify dynamic cycle", "(function(){ "+body+" })()", want, rule)
	}
	dyn(`var n = 0; return JSON.stringify({}, function(k, v){ return n++ < 2 ? this : 1; });`, "TypeError", "15.12.3: replacer returns the holder")
	dyn(`var n = 0; return JSON.stringify([], function(k, v){ return n++ < 2 ? this : 1; });`, "TypeError", "15.12.3: replacer returns the holder")
	dyn(`var n = 0, root = {c: {toJSON: function(){ return n++ < 1 ? root : 1; }}}; return JSON.stringify(root);`, "TypeError", "15.12.3: toJSON returns the root")
	dyn(`var root = {c: {toJSON: function(){ return root; }}}; return JSON.stringify(root);`, "TypeError", "15.12.3: toJSON returns the root")
	dyn(`var p = {}; p.k = {toJSON: function(){ return p; }}; return JSON.stringify({top: p});`, "TypeError", "15.12.3: toJSON returns the parent")
	dyn(`var a = []; a[0] = {toJSON: function(){ return a; }}; return JSON.stringify(a);`, "TypeError", "15.12.3: toJSON returns the array")
	dyn(`var a = []; a[0] = {toJSON: function(){ return a; }}; return JSON.stringify({x: [a]});`, "TypeError", "15.12.3: toJSON returns an ancestor array")
	dyn(`var r = {a: {}}; return JSON.stringify(r, function(k, v){ return k === "a" ? r : v; });`, "TypeError", "15.12.3: replacer returns the root")
	dyn(`var r = {a: {b: {}}}; return JSON.stringify(r, function(k, v){ return k === "b" ? r.a : v; });`, "TypeError", "15.12.3: replacer returns the parent")
	dyn(`var r = {a: [0]}; return JSON.stringify(r, function(k, v){ return k === "0" ? r : v; });`, "TypeError", "15.12.3: replacer returns the root for an array element")
	dyn(`var r = {}; Object.defineProperty(r, "g", {enumerable: true, get: function(){ return r; }}); return JSON.stringify(r);`, "TypeError", "15.12.3: getter returns the holder")
	dyn(`var p = {k: {}}; Object.defineProperty(p.k, "up", {enumerable: true, get: function(){ return p; }}); return JSON.stringify(p);`, "TypeError", "15.12.3: getter returns the parent")
	dyn(`var r = {}, n = 0; Object.defineProperty(r, "g", {enumerable: true, get: function(){ return n++ < 1 ? r : 1; }}); return JSON.stringify([r]);`, "TypeError", "15.12.3: getter returns the holder once")
	dyn(`var s = {toJSON: function(){ return s; }}; return JSON.stringify(s);`, "", "15.12.3: toJSON returning the value itself closes no cycle")
	dyn(`return JSON.stringify({a: 1}, function(k, v){ return k === "" ? v : 2; });`, "", "15.12.3")
	dyn(`var c = {x: 1}; return JSON.stringify({a: {toJSON: function(){ return c; }}, b: {toJSON: function(){ return c; }}});`, "", "15.12.3: shared, not cyclic")
	dyn(`var n = 0; return JSON.stringify({}, function(k, v){ return n++ < 1 ? {d: 1} : v; });`, "", "15.12.3")
	// URI
	for _, f := range []string{"decodeURI", "decodeURIComponent"} {
		for _, t := range []string{`"%"`, `"%G0"`, `"%4"`, `"%E0%A4%A"`, `"%C0%80"`, `"%80"`, `"%E0%A4"`, `"%F8%80%80%80%80"`} {
			add(f, f+"("+t+")", "URIError", "15.1.3 Decode")
		}
		add(f, f+`("%41%E0%A4%A1")`, "", "15.1.3 Decode")
	}
	// Date
	add("Date.prototype.toISOString", "new Date(NaN).toISOString()", "RangeError", "15.9.5.43")
	add("Date method receiver", "Date.prototype.getTime.call({})", "TypeError", "15.9.5")
	add("Date method receiver", "Date.prototype.valueOf.call(1)", "TypeError", "15.9.5")
	// wrapper methods that are not generic
	add("String.prototype.toString receiver", "String.prototype.toString.call(1)", "TypeError", "15.5.4.2")
	add("String.prototype.valueOf receiver", "String.prototype.valueOf.call({})", "TypeError", "15.5.4.3")
	add("Boolean.prototype.toString receiver", "Boolean.prototype.toString.call(1)", "TypeError", "15.6.4.2")
	add("Boolean.prototype.valueOf receiver", `Boolean.prototype.valueOf.call("true")`, "TypeError", "15.6.4.3")
	add("Function.prototype.toString receiver", "Function.prototype.toString.call({})", "TypeError", "15.3.4.2")
	// ToObject / CheckObjectCoercible of the receiver
	// (only null: Function.prototype.call/apply replace an undefined thisArg by the global
	// object in otto - a matter of this-binding, C01/C05 - so undefined never reaches the callee)
	for _, t := range []string{"null"} {
		add("Array.prototype generic receiver", "Array.prototype.forEach.call("+t+", fn)", "TypeError", "15.4.4.18 step 1")
		add("Array.prototype generic receiver", "Array.prototype.join.call("+t+")", "TypeError", "15.4.4.5 step 1")
		add("String.prototype generic receiver", "String.prototype.trim.call("+t+")", "TypeError", "15.5.4.20 step 1")
		add("String.prototype generic receiver", "String.prototype.charAt.call("+t+", 0)", "TypeError", "15.5.4.4 step 1")
		add("Object.prototype generic receiver", `Object.prototype.hasOwnProperty.call(`+t+`, "x")`, "TypeError", "15.2.4.5 step 2")
		add("Object.prototype generic receiver", "Object.prototype.valueOf.call("+t+")", "TypeError", "15.2.4.4 step 1")
	}
	// ToPrimitive without a primitive result (8.12.8 step 5)
	add("DefaultValue", `"" + {toString: function(){ return {}; }, valueOf: function(){ return {}; }}`, "TypeError", "8.12.8 step 5")
	add("DefaultValue", `+{toString: 1, valueOf: 2}`, "TypeError", "8.12.8 step 5")
	add("DefaultValue", `String(Object.create(null))`, "TypeError", "8.12.8 step 5")
	// constructors of non-constructors
	add("new built-in function", "new Math.max()", "TypeError", "11.2.2 step 4 (no [[Construct]])")
	add("new built-in function", "new parseInt(1)", "TypeError", "11.2.2 step 4")
	add("new built-in function", "new Math()", "TypeError", "11.2.2 step 3")
	add("call non-callable object", "Math()", "TypeError", "11.2.3 step 5")
	add("call non-callable object", "JSON()", "TypeError", "11.2.3 step 5")
	// non-generic toString methods (C14 hand-over)
	for _, t := range []string{"({})", "1", `"s"`, "undefined", "null", "[]", "fn"} {
		if t != "undefined" {
			add("RegExp.prototype.toString receiver", "RegExp.prototype.toString.call("+t+")", "TypeError", "15.10.6: this must be a RegExp object")
		}
		w := ""
		if t == "1" || t == `"s"` || t == "null" {
			w = "TypeError"
		}
		if t != "undefined" {
			add("Error.prototype.toString receiver", "Error.prototype.toString.call("+t+")", w, "15.11.4.4 step 2: Type(O) is not Object")
		}
	}
	// 15.3.2.1 Function(p1, ..., pn, body): P = the parameter arguments joined with ","; P must be a
	// FormalParameterList_opt and body a FunctionBody, each on its own; SyntaxError otherwise
	pieces := []string{"", "a", "a,b", "a, b", " a ", "a b", "a,", ",a", "a,,b", "a=1", "a)", "a/*", "*/", "1", "this", "a\n", "a,a", "/*", "b*/", "a){", "...a"}
	bodies := []struct {
		src   string
		valid bool
	}{{"return 1", true}, {"", true}, {"var = 1", false}, {"*/){", false}, {"}); (function(){", false}, {"}, function(){", false}}
	var plists [][]string
	for _, p := range pieces {
		plists = append(plists, []string{p})
	}
	for _, p := range pieces {
		for _, q := range pieces {
			plists = append(plists, []string{p, q})
		}
	}
	few := []string{"a", "b c", "", "/*", "*/", "c"}
	for _, p := range few {
		for _, q := range few {
			for _, t := range few {
				plists = append(plists, []string{p, q, t})
			}
		}
	}
	plists = append(plists, nil)
	for _, pl := range plists {
		for _, b := range bodies {
			args := make([]string, 0, len(pl)+1)
			for _, p := range pl {
				args = append(args, ox.JSLit(strings.ReplaceAll(p, "\\n", "\n")))
			}
			args = append(args, ox.JSLit(b.src))
			real := make([]string, len(pl))
			for i, p := range pl {
				real[i] = strings.ReplaceAll(p, "\\n", "\n")
			}
			w := ""
			if !validFormalParameters(strings.Join(real, ",")) || !b.valid {
				w = "SyntaxError"
			}
			for _, form := range []string{"new Function(", "Function("} {
				add("Function constructor parameters", form+strings.Join(args, ", ")+")", w, "15.3.2.1 steps 5-9")
			}
		}
	}
	operandOrderCases(add)
	_ = small
	return l
}

var reservedWords = map[string]bool{"break": true, "case": true, "catch": true, "continue": true, "debugger": true, "default": true, "delete": true,
	"do": true, "else": true, "finally": true, "for": true, "function": true, "if": true, "in": true, "instanceof": true, "new": true, "return": true,
	"switch": true, "this": true, "throw": true, "try": true, "typeof": true, "var": true, "void": true, "while": true, "with": true,
	"class": true, "const": true, "enum": true, "export": true, "extends": true, "import": true, "super": true, "null": true, "true": true, "false": true}

// validFormalParameters decides whether p is a FormalParameterList_opt (ES5 13):
// identifiers separated by commas; white space, line terminators and comments
// may separate the tokens (7.2-7.4); anything else is a SyntaxError.
func validFormalParameters(p string) bool {
	var toks []string
	for i := 0; i < len(p); {
		c := p[i]
		switch {
		case c == ' ' || c == '\t' || c == '\n' || c == '\r' || c == '\v' || c == '\f':
			i++
		case strings.HasPrefix(p[i:], "/*"):
			j := strings.Index(p[i+2:], "*/")
			if j < 0 {
				return false
			}
			i += 2 + j + 2
		case strings.HasPrefix(p[i:], "//"):
			j := strings.IndexAny(p[i:], "\n\r")
			if j < 0 {
				i = len(p)
			} else {
				i += j
			}
		case c == ',':
			toks = append(toks, ",")
			i++
		case c == '_' || c == '$' || (c >= 'a' && c <= 'z') || (c >= 'A' && c <= 'Z'):
			j := i
			for j < len(p) && (p[j] == '_' || p[j] == '$' || (p[j] >= 'a' && p[j] <= 'z') || (p[j] >= 'A' && p[j] <= 'Z') || (p[j] >= '0' && p[j] <= '9')) {
				j++
			}
			if reservedWords[p[i:j]] {
				return false
			}
			toks = append(toks, "id")
			i = j
		default:
			return false
		}
	}
	if len(toks) == 0 {
		return true
	}
	for i, t := range toks {
		if (i%2 == 0) != (t == "id") {
			return false
		}
	}
	return len(toks)%2 == 1
}

const latticeProbe = `
(function(g){
  var O = {}, names = ["Error", "EvalError", "RangeError", "ReferenceError", "SyntaxError", "TypeError", "URIError"];
  for (var i = 0; i < names.length; i++) O[names[i]] = g[names[i]];
  var gpo = Object.getPrototypeOf;
  g.fn = function(){};
  g.__lprobe = function(src){
    var ev = eval;
    try { ev(src); } catch (e) {
      if (e === null || (typeof e !== "object" && typeof e !== "function")) return "value|" + String(e);
      var cls = "?";
      for (var n in O) if (gpo(e) === O[n].prototype) cls = n;
      return ["throws", cls, e instanceof O.Error, String(e.name), typeof e.message === "string" && e.message.length > 0, String(e)].join("|");
    }
    return "returns";
  };
})(this)
`

func runLattice(r *engine.Run) {
	cases := latticeCases()
	sites := map[string]bool{}
	for _, c := range cases {
		sites[c.site] = true
	}
	r.Bound("cases", fmt.Sprint(len(cases)))
	r.Bound("raise_sites", fmt.Sprint(len(sites)))
	var vm *otto.Otto
	fresh := func() *otto.Otto {
		v := otto.New()
		if pr := ox.Run(v, latticeProbe); pr.Err != nil || pr.Panicked {
			r.HarnessError(fmt.Sprintf("lattice probe prelude failed: %v %v", pr.Err, pr.PanicVal))
			return nil
		}
		return v
	}
	for _, c := range cases {
		key := c.site + "/" + c.expr
		if !mine(r, key) {
			continue
		}
		// the expressions have no lasting effect on the global environment: one runtime per
		// worker, replaced after anything unexpected
		if vm == nil {
			if vm = fresh(); vm == nil {
				return
			}
		}
		src := c.expr + ";"
		r.Begin(key)
		vm.Set("__src", src)
		probe := ox.Run(vm, `__lprobe(__src)`)
		res := ox.Run(vm, src)
		r.End()
		r.Tree(1, 1)
		r.Eval(c.want != "")
		obs := ""
		switch {
		case probe.Panicked:
			obs = fmt.Sprint("Go panic: ", probe.PanicVal)
		case probe.Err != nil:
			obs = "escaped the catch clause: " + probe.Err.Error()
		default:
			obs, _ = probe.Value.ToString()
		}
		S := ""
		if f := strings.SplitN(obs, "|", 6); len(f) == 6 {
			S = f[5]
			obs = strings.Join(f[:5], "|")
		}
		exp := "returns"
		if c.want != "" {
			exp = "throws|" + c.want + "|true|" + c.want + "|true"
		}
		r.Outcome(c.site + obs)
		if r.WantSample() && c.want != "" {
			r.Sample(c.expr + " => " + obs + " (" + c.rule + ")")
		}
		ax := map[string]string{"site": c.site, "expr": c.expr, "want": c.want, "rule": c.rule}
		if exp != obs {
			r.Mismatch(engine.Mismatch{Key: key + "#script", Input: src, Expected: exp + "  [" + c.rule + "]", Observed: obs, Aux: ax})
			vm = nil
		}
		// Go side
		got := "returns"
		switch {
		case res.Panicked:
			got = fmt.Sprint("Go panic: ", res.PanicVal)
			vm = nil
		case res.Err != nil:
			if _, isOtto := res.Err.(*otto.Error); isOtto {
				got = "error " + res.Err.Error()
			} else {
				got = fmt.Sprintf("error (%T) %s", res.Err, res.Err)
			}
		}
		expGo := "returns"
		if obs != "returns" && S != "" {
			expGo = "error " + S // what the catch clause saw
		}
		if c.want != "" && !strings.HasPrefix(got, "error "+c.want) {
			expGo = "error " + c.want + ": <message>"
		}
		if got != expGo && !(c.want != "" && expGo == "error "+c.want+": <message>" && strings.HasPrefix(got, "error "+c.want+": ") && exp != obs) {
			r.Mismatch(engine.Mismatch{Key: key + "#text", Input: src, Expected: expGo, Observed: got, Aux: ax})
		}
	}
}
