// Package c19 checks property C19: errors surface with the right class, message
// and source position.
//
// The generator places one error-raising construct inside generated nesting of
// functions, methods, constructors, accessors, callbacks, eval and Function
// code at a generated (line, column), so the oracle is the generator itself.
//
// # Convention (derived from the pinned tests and otto's documentation)
//
// Error.String() is "<Error()>\n" followed by one line "    at <frame>\n" per
// frame, innermost first (README "func (Error) String"; error_test.go
// TestErrorContext, TestErrorStackProperty). A frame is "<name> (<location>)",
// or the bare location when the function has no declared name; the name is the
// function's own declared name (FunctionDeclaration / named FunctionExpression),
// never the name of the variable or property it was called through
// (TestErrorContext "def (<anonymous>:3:17)"; getters, methods and anonymous
// expressions print bare). A location is file:line:column with "<anonymous>"
// for the empty file name, lines and columns 1-based, a tab counting one column
// (TestErrorContext file1.js: four tabs then "throw new Error" gives 2:15).
//
// There is one frame per active JavaScript function invocation plus the frame
// of the program (top level of Run, or of an indirect eval), and one native
// frame per active native function (forEach, call, apply, replace, eval when
// called indirectly: error_native_test.go, native_stack_test.go); native frames
// are compared by kind only. A bound function adds no frame of its own
// (15.3.4.5.1 calls the target). Direct eval code runs in the frame of its
// caller: the frame keeps the caller's name but its location is inside the eval
// source, whose file name is empty (TestErrorContext: eval("xyz();") gives a
// single frame "<anonymous>:1:1").
//
// The position of a frame that is not innermost is the start of the callee
// expression of the call that is active in it, parentheses not included
// ("abc (<anonymous>:6:17)" for def(); "<anonymous>:2:14" for ({}).abc()); for
// `new F()` it is the start of F, not of `new` ("<anonymous>:2:23" for throw
// new Error). Calls, `new` expressions and accessor reads evaluated inside the
// argument list of that call do not move it: the frame reports the callee of
// the call that is active, not of the call evaluated last (generated as
// argument-list variants of every call site, see argVariants).
// Code that temporarily switches a frame's file or offset (direct eval, indirect
// eval, Function-constructor code, a nested script run by a host function, an
// accessor) leaves no trace in the frame once it is done, whether it returned
// or was left by an exception caught in that frame or further out (preceding
// material kinds throw-*).
// The position of the innermost frame is the error site:
//
//   - call / new of a non-function: start of the callee expression (pinned);
//   - property read or write on undefined / null: start of the member
//     expression, i.e. of its leftmost object (pinned: "C (file1.js:7:5)");
//   - unresolvable identifier: start of the identifier (pinned);
//   - throw new X(..) / throw X(..): start of X (pinned 2:23 / 2:19); the error
//     carries the trace of the place where it was constructed;
//   - errors raised inside a native function (toFixed, JSON.parse, decodeURI,
//     Object.defineProperty, eval/Function/RegExp syntax errors, new Array(-1)):
//     the call site of that native by the rule above, optionally preceded by
//     the native's own frame (the tests pin both: Error("x") pops it,
//     TestErrorContextNative lists it), so both are accepted;
//   - errors raised by operators that are no call, member or identifier
//     (instanceof, in, array length store) and the call sites of implicit calls
//     (getter, setter, ToPrimitive): no test pins a column; only the file, the
//     line and "column inside the extent of the expression" are asserted.
//
// Class and prototype chain of interpreter-raised errors are those of the
// original intrinsics (ES5 15.11.6/15.11.7), whatever a script did earlier to
// the global bindings or to the mutable parts of the prototypes (hist.go).
//
// When one expression holds several error constructs the one ES5's evaluation
// order reaches first surfaces (nested.go). The trace limit is a property of
// the runtime however it was obtained (New, Copy, Copy of Copy; limits family).
//
// Errors raised by a built-in before or instead of running code (parse failures
// of eval / Function / RegExp / JSON.parse, argument checks of natives), also
// when the built-in is reached through call / apply / an array callback or an
// indirect eval, list exactly the active calls: no frame for code that never
// started. Each raise site is also driven over a receiver x argument lattice
// with the ES5 step order as the model (lattice.go).
//
// Only a call of the built-in eval through the identifier eval is a direct eval;
// any other value called through a name spelled eval / Function / arguments is an
// ordinary call with its own frame. The frame of a native that raises is listed
// (required), except where the tests pin its absence (Error("x") pops it; direct
// eval enters no scope).
//
// Code created by the Function constructor has no file in otto and the tests
// pin nothing for it: such frames must be present with the right name, their
// location is not asserted. At most `limit` frames are listed
// (SetStackTraceLimit: "an upper limit to the number of stack frames").
// Message wording is never compared. Columns on lines with non-ASCII text are
// recorded (family nonascii), not asserted.
package c19

import (
	"fmt"
	"sort"
	"strings"
	"time"

	"github.com/robertkrimen/otto"
	"github.com/robertkrimen/otto/parser"

	"verif/mc/engine"
	"verif/mc/ox"
)

func init() {
	engine.Register(&engine.Check{
		ID:    "C19",
		Title: "Errors surface with the right class, message and source position",
		Rule: "full products: error construct x nesting shapes (stacks of 0..4) x layout (separator, preceding material, line terminator) x argument list of every call site (none, nested call, call on a later line, several calls, new, getter, method call) x entry (Run(string), Compile(\"\"), Compile(\"t.js\")) x trace limit; " +
			"syntax errors: bad construct x lines before x terminator kind, and x every string of length <= 3 (thorough 4) over {LF, CR, U+2028, U+2029, space, statement} before the offending token (bare / inside a block comment), through Run, Compile, parser.ParseFile and eval; " +
			"every case runs the generated program on a fresh runtime and compares class, Error() text and every frame of Error.String() with the generator's own positions; " +
			"a case is non-trivial when at least one frame position is asserted away from 1:1 or more than one frame is expected",
		Families: []engine.Family{
			{Name: "script", Run: runScript},
			{Name: "single", Run: runSingle},
			{Name: "stack2", Run: runStack2},
			{Name: "stack3", Run: runStack3},
			{Name: "stack4", Run: runStack4, ThoroughOnly: true},
			{Name: "limits", Run: runLimits},
			{Name: "wrap", Run: runWrap},
			{Name: "nested", Run: runNested},
			{Name: "lattice", Run: runLattice},
			{Name: "files", Run: runFiles},
			{Name: "syntax", Run: runSyntax},
			{Name: "nonascii", Run: runNonASCII, Solo: true},
		},
		Assumptions: []string{
			"the frame/position convention is the one written in the package documentation of verif/mc/checks/c19, derived from error_test.go, error_native_test.go, native_stack_test.go, function_stack_test.go and README.md",
			"script-side observations (instanceof, getPrototypeOf, String) are made by the runtime under test inside a catch clause",
			"message wording, native frame names, locations of Function-constructor code and columns on non-ASCII lines are not asserted",
		},
		CrashIsViolation: true,
		QuickBudget:      4 * time.Minute,
		ThoroughBudget:   25 * time.Minute,
	})
	registerSignatures()
}

// ---------------------------------------------------------------------------
// Running a generated program
// ---------------------------------------------------------------------------

const (
	modeRun = iota
	modeCompileAnon
	modeCompileNamed
	nModes
)

var modeNames = []string{"run", "compile-anon", "compile-t.js"}

func modeFile(m int) string {
	if m == modeCompileNamed {
		return "t.js"
	}
	return ""
}

// newVM returns a fresh runtime with the harness' host function: it calls its
// argument through the Go API and re-panics the error, the idiom pinned by
// error_native_test.go.
func newVM(limit int) *otto.Otto { return newVMFrom(originFresh, limit) }

// Where the runtime comes from and how its trace limit was configured.
const (
	originFresh          = iota // otto.New(), limit set before anything is compiled
	originSetLate               // otto.New(), limit set after the scripts were compiled, before the last Run
	originCopy                  // Copy() of a runtime with stack depth limit S set first, then trace limit L
	originCopyDepthLast         // Copy() of a runtime with trace limit L set first, then stack depth limit S
	originCopyOfCopy            // Copy() of a Copy()
	originCopyThenChange        // Copy(), then the ORIGINAL's limit is changed: the copy keeps its own
	originCopyDefault           // Copy() of a runtime whose limit was never set (default 10; only with limit 10)
	nOrigins
)

var originNames = []string{"fresh", "set-late", "copy", "copy-depth-last", "copy-of-copy", "copy-then-change", "copy-default"}

// stackDepthLimit is the stack depth limit given to copied runtimes: larger
// than any generated stack, different from every trace limit used.
const stackDepthLimit = 200

func newVMFrom(origin, limit int) *otto.Otto {
	vm := otto.New()
	set := func(v *otto.Otto) {
		if limit != 10 {
			v.SetStackTraceLimit(limit)
		}
	}
	switch origin {
	case originFresh:
		set(vm)
	case originSetLate:
		// set by execute
	case originCopy:
		vm.SetStackDepthLimit(stackDepthLimit)
		vm.SetStackTraceLimit(limit)
		vm = vm.Copy()
	case originCopyDepthLast:
		vm.SetStackTraceLimit(limit)
		vm.SetStackDepthLimit(stackDepthLimit)
		vm = vm.Copy()
	case originCopyOfCopy:
		vm.SetStackDepthLimit(stackDepthLimit)
		vm.SetStackTraceLimit(limit)
		vm = vm.Copy().Copy()
	case originCopyThenChange:
		vm.SetStackDepthLimit(stackDepthLimit)
		vm.SetStackTraceLimit(limit)
		c := vm.Copy()
		vm.SetStackTraceLimit(limit + 5)
		vm.SetStackDepthLimit(stackDepthLimit + 5)
		vm = c
	case originCopyDefault:
		vm.SetStackDepthLimit(stackDepthLimit)
		vm = vm.Copy()
	}
	// hostrun runs a nested script through the Go API and re-panics its error
	vm.Set("hostrun", func(call otto.FunctionCall) otto.Value {
		src, _ := call.Argument(0).ToString()
		v, err := call.Otto.Run(src)
		if err != nil {
			panic(err)
		}
		return v
	})
	vm.Set("host", func(call otto.FunctionCall) otto.Value {
		v, err := call.Argument(0).Call(otto.UndefinedValue())
		if err != nil {
			panic(err)
		}
		return v
	})
	return vm
}

// script is one source unit handed to the runtime.
type script struct{ name, src string }

// execute runs the scripts in order on a fresh runtime; every script but the
// last must complete; the result is that of the last one.
func execute(scripts []script, mode, limit int) ox.Result {
	return executeFrom(originFresh, scripts, mode, limit)
}

func executeFrom(origin int, scripts []script, mode, limit int) ox.Result {
	vm := newVMFrom(origin, limit)
	return ox.Guard(func() (otto.Value, error) {
		var v otto.Value
		for i, sc := range scripts {
			var err error
			if origin == originSetLate && i == len(scripts)-1 && mode == modeRun {
				vm.SetStackTraceLimit(limit)
			}
			if mode == modeRun {
				v, err = vm.Run(sc.src)
			} else {
				var s *otto.Script
				s, err = vm.Compile(sc.name, sc.src)
				if err != nil {
					return otto.Value{}, fmt.Errorf("compile: %w", err)
				}
				if origin == originSetLate && i == len(scripts)-1 {
					vm.SetStackTraceLimit(limit)
				}
				v, err = vm.Run(s)
			}
			if err != nil {
				if i < len(scripts)-1 {
					return otto.Value{}, fmt.Errorf("script %d of %d failed: %w", i+1, len(scripts), err)
				}
				return v, err
			}
		}
		return v, nil
	})
}

func one(src string, mode int) []script { return []script{{modeFile(mode), src}} }

type tcase struct {
	shapes []shape
	ki     int
	lay    layout
	mode   int
	limit  int
	wrap   int
	files  bool // every level is a declaration in a file of its own (family files)
	args   int  // argument-list variant of the call sites (argVariants)
	origin int  // where the runtime comes from (originNames)
}

func (c tcase) key() string {
	k := fmt.Sprintf("%s/%s/%s/%s/L%d", constructs[c.ki].id, shapesID(c.shapes), c.lay.id(), modeNames[c.mode], c.limit)
	if c.wrap != 0 {
		k += "/" + wraps[c.wrap].id
	}
	if c.files {
		k += "/files"
	}
	if c.args != 0 {
		k += "/args-" + argVariants[c.args]
	}
	if c.origin != 0 {
		k += "/vm-" + originNames[c.origin]
	}
	return k
}

func (c tcase) gen() *gen {
	return &gen{shapes: c.shapes, k: constructs[c.ki], lay: c.lay, fname: modeFile(c.mode), wrap: c.wrap, args: c.args}
}

func aux(g *gen, c tcase) map[string]string {
	b := func(v bool) string {
		if v {
			return "1"
		}
		return "0"
	}
	return map[string]string{
		"term":         terms[c.lay.term].id,
		"has_break":    b(c.lay.hasBreak()),
		"has_nonref":   b(g.hasNonRef),
		"has_implicit": b(g.hasImplicit),
		"has_evaldone": b(g.hasEvalDone),
		"group":        g.k.group,
		"construct":    g.k.id,
		"unprintable":  b(g.k.unprintable),
		"class":        g.k.class,
		"shapes":       shapesID(c.shapes),
		"limit":        fmt.Sprint(c.limit),
	}
}

// mine is r.MineKey, except that a replay key may carry the "#<sub-check>"
// suffix of the mismatch it was recorded from.
func mine(r *engine.Run, key string) bool {
	if rk := r.ReplayKey; rk != "" {
		if i := strings.IndexByte(rk, '#'); i >= 0 {
			rk = rk[:i]
		}
		return rk == key
	}
	return r.MineKey(key)
}

// runTrace executes one trace case: Go-side class and text, and every frame.
func runTrace(r *engine.Run, c tcase) {
	key := c.key()
	if !mine(r, key) {
		return
	}
	g := c.gen()
	var scripts []script
	if c.files {
		scripts = g.buildFiles()
	} else {
		scripts = one(g.build(), c.mode)
	}
	r.Begin(key)
	res := executeFrom(c.origin, scripts, c.mode, c.limit)
	var stackLines = -1
	if c.origin != originFresh {
		stackLines = stackInCatch(c.origin, scripts, c.mode, c.limit)
	}
	r.End()
	r.Tree(1, 1)
	input := showScripts(scripts)
	k := g.k
	want := "*otto.Error " + k.class
	switch {
	case res.Panicked:
		r.Eval(true)
		r.Mismatch(engine.Mismatch{Key: key, Input: input, Expected: want, Observed: fmt.Sprint("Go panic: ", res.PanicVal)})
		return
	case res.Err == nil:
		r.Eval(true)
		r.Mismatch(engine.Mismatch{Key: key, Input: input, Expected: want, Observed: "no error; value " + ox.Canon(res.Value)})
		return
	}
	oe, ok := res.Err.(*otto.Error)
	if !ok {
		r.Eval(true)
		r.Mismatch(engine.Mismatch{Key: key, Input: input, Expected: want, Observed: fmt.Sprintf("%T: %v", res.Err, res.Err)})
		return
	}
	// class and text
	text := oe.Error()
	head, frames, ok := parseTrace(oe.String())
	if !ok || head != text {
		r.Eval(true)
		r.Mismatch(engine.Mismatch{Key: key + "#format", Input: input, Expected: "String() = Error() + newline + frames (\"    at ...\")", Observed: fmt.Sprintf("%q", oe.String())})
		return
	}
	ax := aux(g, c)
	expText := k.class + ": " + k.msg
	obsText := text
	if k.msg == "" {
		// interpreter-raised: "Class: <non-empty message>"; wording not compared
		expText = k.class + ": <message>"
		if strings.HasPrefix(text, k.class+": ") && len(text) > len(k.class)+2 {
			obsText = expText
		}
	}
	if expText != obsText {
		r.Mismatch(engine.Mismatch{Key: key + "#text", Input: input, Expected: expText, Observed: obsText, Aux: ax})
		if text != k.class && !strings.HasPrefix(text, k.class+": ") {
			// an error of another class surfaced: its trace is not the one modelled
			r.Eval(true)
			r.Outcome(text)
			return
		}
	}
	// e.stack seen by a catch clause on a runtime of the same origin obeys the same limit
	if c.origin != originFresh && c.limit >= 1 && (stackLines < 1 || stackLines > c.limit) {
		r.Mismatch(engine.Mismatch{Key: key + "#stack", Input: input, Expected: fmt.Sprintf("e.stack lists between 1 and %d frames", c.limit),
			Observed: fmt.Sprintf("%d frames", stackLines), Aux: ax})
	}
	// caught: e.stack read in a catch clause lists the same frames (all but the outermost,
	// whose file is that of the wrapper)
	if k.group == "indirect" && c.origin == originFresh && c.limit == 10 && !c.files {
		if st, ok := stackTextInCatch(scripts, c.mode, c.limit); !ok {
			r.Mismatch(engine.Mismatch{Key: key + "#stack", Input: input, Expected: "e.stack is a string", Observed: st, Aux: ax})
		} else {
			// the wrapper evaluates the program text: its file name is the empty one
			want := renderObserved(frames[:len(frames)-1])
			if f := modeFile(c.mode); f != "" {
				want = strings.ReplaceAll(want, f+":", "<anonymous>:")
			}
			if _, sf, ok2 := parseTrace(st); !ok2 || len(sf) < len(frames)-1 || renderObserved(sf[:len(frames)-1]) != want {
				r.Mismatch(engine.Mismatch{Key: key + "#stack", Input: input, Expected: "e.stack begins with " + want, Observed: renderObserved(sf), Aux: ax})
			}
		}
	}
	// trace
	okTrace, expR := g.matches(0, c.limit, frames)
	obsR := renderObserved(frames)
	nontrivial := len(frames) > 1
	for _, f := range frames {
		if !f.native() && f.loc != "<unknown>" && !strings.HasSuffix(f.loc, ":1:1") {
			nontrivial = true
		}
	}
	r.Eval(nontrivial)
	r.Outcome(text + obsR)
	if r.WantSample() && len(c.shapes) > 0 && c.lay.hasBreak() {
		r.Sample(fmt.Sprintf("%s (limit %d) => %s %s", input, c.limit, text, obsR))
	}
	if okTrace {
		return
	}
	d, alt, explained := g.explain(c.limit, frames)
	if !explained {
		note := ""
		for i := 0; i < nDefects; i++ {
			_, m := g.matches(defect(1)<<uint(i), c.limit, frames)
			note += defectNames[i] + ": " + m + "; "
		}
		r.Mismatch(engine.Mismatch{Key: key + "#trace", Input: input, Expected: expR, Observed: obsR, Aux: ax, Note: "single-defect models: " + note})
		return
	}
	// one mismatch per contributing defect: each is matched by its own finding, so
	// repairing one defect leaves the others' entries exact.
	for _, name := range d.names() {
		a := map[string]string{}
		for ak, av := range ax {
			a[ak] = av
		}
		a["defect"] = name
		a["explained_by"] = strings.Join(d.names(), "+")
		a["alt"] = alt
		a["alt_matches"] = "1"
		r.Mismatch(engine.Mismatch{Key: key + "#trace/" + name, Input: input, Expected: expR, Observed: obsR,
			Note: "observed equals the alternative model {" + a["explained_by"] + "}: " + alt, Aux: a})
	}
}

// stackTextInCatch returns e.stack as read by a catch clause around the last script.
func stackTextInCatch(scripts []script, mode, limit int) (string, bool) {
	last := scripts[len(scripts)-1]
	wrapped := append(append([]script{}, scripts[:len(scripts)-1]...),
		script{last.name, "var __ev = eval, __st; try { __ev(" + ox.JSLit(last.src) + "); } catch (e) { __st = e.stack; } __st;"})
	res := executeFrom(originFresh, wrapped, mode, limit)
	if res.Panicked || res.Err != nil || !res.Value.IsString() {
		return fmt.Sprintf("%v %v %v", res.PanicVal, res.Err, ox.Canon(res.Value)), false
	}
	s, _ := res.Value.ToString()
	return s, true
}

// stackInCatch runs the scripts on a runtime of the given origin inside a catch
// clause and returns the number of frames e.stack lists (-1: no such string).
func stackInCatch(origin int, scripts []script, mode, limit int) int {
	last := scripts[len(scripts)-1]
	wrapped := append(append([]script{}, scripts[:len(scripts)-1]...),
		script{last.name, "var __ev = eval, __st; try { __ev(" + ox.JSLit(last.src) + "); } catch (e) { __st = e.stack; } __st;"})
	res := executeFrom(origin, wrapped, mode, limit)
	if res.Panicked || res.Err != nil || !res.Value.IsString() {
		return -1
	}
	s, _ := res.Value.ToString()
	return strings.Count(s, "\n    at ")
}

// ---------------------------------------------------------------------------
// Alphabets of the families
// ---------------------------------------------------------------------------

func traceConstructs() []int {
	var l []int
	for i, k := range constructs {
		if !k.nonErr && !k.noTrace && !k.nested {
			l = append(l, i)
		}
	}
	return l
}

func shapeLists1() [][]shape {
	l := [][]shape{nil}
	for s := shape(0); s < nShapes; s++ {
		l = append(l, []shape{s})
	}
	return l
}

func layouts(thorough bool) []layout {
	var l []layout
	nt := 4
	if thorough {
		nt = len(terms)
	}
	for _, sepLine := range []bool{true, false} {
		if !sepLine && !thorough {
			continue
		}
		for p := preKind(0); p < nPre; p++ {
			for t := 0; t < nt; t++ {
				if p.isThrow() && (t == 1 || t == 4 || (!thorough && t == 3)) {
					continue // excursions left by an exception: LF, CR (and U+2028 in thorough)
				}
				lay := layout{sepLine: sepLine, pre: p, term: t}
				if t != 0 && !lay.hasBreak() {
					continue // no line terminator in the program: identical to LF
				}
				l = append(l, lay)
			}
		}
	}
	return l
}

var stackLayoutsQuick = []layout{
	{sepLine: true, pre: preNone, term: 0},
	{sepLine: true, pre: preCall, term: 2},
	{sepLine: false, pre: preEvalL, term: 0},
	{sepLine: true, pre: preBr2, term: 3},
	{sepLine: true, pre: preThrowEval, term: 0},
	{sepLine: true, pre: preThrowEvalL, term: 2},
}

func stackLayouts(thorough bool) []layout {
	l := append([]layout{}, stackLayoutsQuick...)
	if thorough {
		l = append(l,
			layout{sepLine: true, pre: preSpaces, term: 1},
			layout{sepLine: true, pre: preTab, term: 4},
			layout{sepLine: true, pre: preStmt, term: 2},
			layout{sepLine: true, pre: preEval1, term: 0},
			layout{sepLine: false, pre: preBr1, term: 2},
			layout{sepLine: false, pre: preCall, term: 0},
			layout{sepLine: true, pre: preNone, term: 0, rotate: true},
			layout{sepLine: true, pre: preStmt, term: 2, rotate: true},
			layout{sepLine: false, pre: preTab, term: 3, rotate: true},
			layout{sepLine: true, pre: preThrowEvalCall, term: 0},
			layout{sepLine: true, pre: preThrowIndirect, term: 2},
			layout{sepLine: false, pre: preThrowFunction, term: 0},
			layout{sepLine: true, pre: preThrowGetter, term: 3},
			layout{sepLine: true, pre: preThrowHost, term: 0},
			layout{sepLine: true, pre: preThrowCallee, term: 2},
			layout{sepLine: false, pre: preThrowCallee2, term: 0},
		)
	}
	return l
}

func ids(names ...string) []int {
	l := make([]int, len(names))
	for i, n := range names {
		l[i] = constructIndex(n)
	}
	return l
}

var stackShapesSmall = []shape{shDecl, shMethodDot, shCtor, shGetter, shForEach, shBound, shEvalDirect, shEvalAlias, shFunction, shIIFE}

// ---------------------------------------------------------------------------
// Families
// ---------------------------------------------------------------------------

func runSingle(r *engine.Run) {
	ks := traceConstructs()
	sl := shapeLists1()
	lays := layouts(r.Thorough())
	allModes := []int{modeCompileNamed, modeRun, modeCompileAnon}
	r.Bound("constructs", fmt.Sprint(len(ks)))
	r.Bound("shapes", fmt.Sprint(len(sl)))
	r.Bound("layouts", fmt.Sprint(len(lays)))
	r.Bound("entries", fmt.Sprint(len(allModes)))
	for _, ki := range ks {
		for _, sh := range sl {
			for li, lay := range lays {
				if !r.Thorough() && constructs[ki].group == "calleename" && li%6 != 0 {
					continue // quick: the callee-name constructs on every sixth layout
				}
				modes := allModes
				if !r.Thorough() && li != 0 && li != 6 {
					modes = allModes[:1] // quick: the three entries only for two layouts
				}
				for _, m := range modes {
					runTrace(r, tcase{shapes: sh, ki: ki, lay: lay, mode: m, limit: 10})
				}
			}
			if r.Expired() {
				r.Cap("time budget")
				return
			}
		}
	}
	runSingleArgs(r)
}

// argLayouts: layouts of the argument-list cases (all with line structure, so
// that a call on a later line of the argument list also changes the line).
func argLayouts(thorough bool) []layout {
	l := []layout{{sepLine: true, pre: preNone, term: 0}, {sepLine: true, pre: preSpaces, term: 2}, {sepLine: true, pre: preCall, term: 0}}
	if thorough {
		l = append(l, layout{sepLine: true, pre: preTab, term: 1}, layout{sepLine: true, pre: preBr2, term: 3}, layout{sepLine: true, pre: preEval1, term: 4})
	}
	return l
}

func allTakeArgs(l []shape) bool {
	for _, s := range l {
		if !takesArgs(s) {
			return false
		}
	}
	return len(l) > 0
}

// runSingleArgs: every call site carries an argument list in which further calls
// are evaluated; the caller's frame must still report the callee of the outer call.
func runSingleArgs(r *engine.Run) {
	ks := ids("call-undef", "unresolvable", "write-dot-null", "throw-new-TypeError", "toFixed-21", "instanceof-number", "toFixed-argcall", "throw-new-argcall")
	if r.Thorough() {
		ks = traceConstructs()
	}
	lays := argLayouts(r.Thorough())
	r.Bound("args.constructs", fmt.Sprint(len(ks)))
	r.Bound("args.variants", fmt.Sprint(nArgVariants-1))
	r.Bound("args.layouts", fmt.Sprint(len(lays)))
	for _, ki := range ks {
		for _, sh := range shapeLists1() {
			if !allTakeArgs(sh) {
				continue
			}
			for a := 1; a < nArgVariants; a++ {
				for li, lay := range lays {
					m := modeCompileNamed
					if li == 0 && a <= 2 {
						m = modeRun
					}
					runTrace(r, tcase{shapes: sh, ki: ki, lay: lay, mode: m, limit: 10, args: a})
				}
			}
		}
		if r.Expired() {
			r.Cap("time budget")
			return
		}
	}
}

func runStack2(r *engine.Run) {
	ks := ids("call-undef", "read-dot-undef", "unresolvable", "new-number", "instanceof-number", "toFixed-21", "throw-new-TypeError", "call-literal", "eval-syntax", "eval-alias-syntax", "eval-call-syntax", "json-parse-map")
	lays := stackLayouts(r.Thorough())
	r.Bound("constructs", fmt.Sprint(len(ks)))
	r.Bound("shape_pairs", fmt.Sprint(int(nShapes)*int(nShapes)))
	r.Bound("layouts", fmt.Sprint(len(lays)))
	for a := shape(0); a < nShapes; a++ {
		for b := shape(0); b < nShapes; b++ {
			for _, ki := range ks {
				for _, lay := range lays {
					runTrace(r, tcase{shapes: []shape{a, b}, ki: ki, lay: lay, mode: modeCompileNamed, limit: 10})
				}
			}
		}
		if r.Expired() {
			r.Cap("time budget")
			return
		}
	}
	// argument-list variants on both call sites
	aks := ids("unresolvable", "toFixed-argcall")
	alays := argLayouts(r.Thorough())
	if !r.Thorough() {
		alays = alays[:2]
	}
	r.Bound("args.constructs", fmt.Sprint(len(aks)))
	r.Bound("args.variants", fmt.Sprint(nArgVariants-1))
	r.Bound("args.layouts", fmt.Sprint(len(alays)))
	for a := shape(0); a < nShapes; a++ {
		for b := shape(0); b < nShapes; b++ {
			// at least one of the two call sites must have an argument list
			if !takesArgs(a) && !takesArgs(b) {
				continue
			}
			if !r.Thorough() && !(takesArgs(a) && takesArgs(b)) {
				continue
			}
			for v := 1; v < nArgVariants; v++ {
				for _, ki := range aks {
					for _, lay := range alays {
						runTrace(r, tcase{shapes: []shape{a, b}, ki: ki, lay: lay, mode: modeCompileNamed, limit: 10, args: v})
					}
				}
			}
		}
		if r.Expired() {
			r.Cap("time budget")
			return
		}
	}
}

func runStack3(r *engine.Run) {
	ks := ids("unresolvable", "throw-new-RangeError", "write-dot-null")
	lays := stackLayouts(r.Thorough())
	if !r.Thorough() {
		lays = []layout{lays[0], lays[1], lays[4]}
	} else {
		lays = []layout{lays[0], lays[1], lays[3], lays[12], lays[4], lays[5]}
	}
	alpha := stackShapesSmall
	if r.Thorough() {
		alpha = nil
		for s := shape(0); s < nShapes; s++ {
			alpha = append(alpha, s)
		}
	}
	r.Bound("constructs", fmt.Sprint(len(ks)))
	r.Bound("shape_triples", fmt.Sprint(len(alpha)*len(alpha)*len(alpha)))
	r.Bound("layouts", fmt.Sprint(len(lays)))
	for _, a := range alpha {
		for _, b := range alpha {
			for _, c := range alpha {
				for _, ki := range ks {
					for _, lay := range lays {
						runTrace(r, tcase{shapes: []shape{a, b, c}, ki: ki, lay: lay, mode: modeCompileNamed, limit: 10})
					}
				}
			}
			if r.Expired() {
				r.Cap("time budget")
				return
			}
		}
	}
	// argument-list variants on all three call sites
	aalpha := []shape{shDecl, shMethodDot, shCtor, shBound, shFunction, shIIFE}
	variants := []int{argCall, argCallNextLine, argCalls}
	if r.Thorough() {
		aalpha = nil
		for s := shape(0); s < nShapes; s++ {
			if takesArgs(s) {
				aalpha = append(aalpha, s)
			}
		}
		variants = nil
		for v := 1; v < nArgVariants; v++ {
			variants = append(variants, v)
		}
	}
	alay := argLayouts(false)[1]
	aki := constructIndex("unresolvable")
	r.Bound("args.shape_triples", fmt.Sprint(len(aalpha)*len(aalpha)*len(aalpha)))
	r.Bound("args.variants", fmt.Sprint(len(variants)))
	for _, a := range aalpha {
		for _, b := range aalpha {
			for _, c := range aalpha {
				for _, v := range variants {
					runTrace(r, tcase{shapes: []shape{a, b, c}, ki: aki, lay: alay, mode: modeCompileNamed, limit: 10, args: v})
				}
			}
		}
		if r.Expired() {
			r.Cap("time budget")
			return
		}
	}
}

func runStack4(r *engine.Run) {
	ks := ids("unresolvable", "throw-new-TypeError")
	all := stackLayouts(true)
	lays := []layout{all[1], all[12], all[5]}
	alpha := stackShapesSmall
	r.Bound("constructs", fmt.Sprint(len(ks)))
	r.Bound("shape_quadruples", fmt.Sprint(len(alpha)*len(alpha)*len(alpha)*len(alpha)))
	r.Bound("layouts", fmt.Sprint(len(lays)))
	for _, a := range alpha {
		for _, b := range alpha {
			for _, c := range alpha {
				for _, d := range alpha {
					for _, ki := range ks {
						for _, lay := range lays {
							runTrace(r, tcase{shapes: []shape{a, b, c, d}, ki: ki, lay: lay, mode: modeCompileNamed, limit: 10})
						}
					}
				}
				if r.Expired() {
					r.Cap("time budget")
					return
				}
			}
		}
	}
}

// wrap: the construct inside statement contexts that add no frame.
func runWrap(r *engine.Run) {
	ks := traceConstructs()
	sl := [][]shape{nil, {shDecl}, {shGetter}}
	lays := []layout{{sepLine: true, pre: preNone, term: 0}, {sepLine: true, pre: preSpaces, term: 2}, {sepLine: false, pre: preCall, term: 0}}
	if r.Thorough() {
		sl = shapeLists1()
		lays = append(lays, layout{sepLine: true, pre: preBr2, term: 3}, layout{sepLine: true, pre: preEval1, term: 1})
	}
	r.Bound("constructs", fmt.Sprint(len(ks)))
	r.Bound("wraps", fmt.Sprint(len(wraps)-1))
	r.Bound("shapes", fmt.Sprint(len(sl)))
	r.Bound("layouts", fmt.Sprint(len(lays)))
	for _, ki := range ks {
		for wi := 1; wi < len(wraps); wi++ {
			for _, sh := range sl {
				for _, lay := range lays {
					runTrace(r, tcase{shapes: sh, ki: ki, lay: lay, mode: modeCompileNamed, limit: 10, wrap: wi})
				}
			}
		}
		if r.Expired() {
			r.Cap("time budget")
			return
		}
	}
}

// files: every function of the chain lives in a script of its own (the
// embedding pattern of TestErrorContext: file1.js / file2.js / file3.js).
func runFiles(r *engine.Run) {
	ks := ids("call-undef", "write-dot-null", "unresolvable", "throw-new-Error", "toFixed-21", "instanceof-number")
	lays := layouts(r.Thorough())
	maxDepth := 3
	if r.Thorough() {
		maxDepth = 5
	}
	r.Bound("constructs", fmt.Sprint(len(ks)))
	r.Bound("depth", fmt.Sprint(maxDepth))
	r.Bound("layouts", fmt.Sprint(len(lays)))
	for depth := 1; depth <= maxDepth; depth++ {
		shapes := make([]shape, depth)
		for _, ki := range ks {
			for _, lay := range lays {
				for _, m := range []int{modeCompileNamed, modeRun} {
					runTrace(r, tcase{shapes: shapes, ki: ki, lay: lay, mode: m, limit: 10, files: true})
				}
			}
			for v := 1; v < nArgVariants; v++ {
				for _, lay := range argLayouts(r.Thorough()) {
					runTrace(r, tcase{shapes: shapes, ki: ki, lay: lay, mode: modeCompileNamed, limit: 10, files: true, args: v})
				}
			}
		}
	}
}

// limits: stacks deeper and shallower than the limit.
func runLimits(r *engine.Run) {
	patterns := [][]shape{
		{shDecl},
		{shDecl, shForEach},
		{shMethodDot, shIIFE, shCtor},
		{shNamed, shGetter, shCall, shEvalDirect},
	}
	ks := ids("unresolvable", "toFixed-21")
	lays := []layout{{sepLine: true, pre: preNone, term: 0}}
	if r.Thorough() {
		lays = append(lays, layout{sepLine: true, pre: preCall, term: 2}, layout{sepLine: false, pre: preBr1, term: 3})
	}
	maxDepth := 14
	r.Bound("depth", fmt.Sprint(maxDepth))
	r.Bound("limits", "0..12")
	for pi, pat := range patterns {
		for depth := 1; depth <= maxDepth; depth++ {
			shapes := make([]shape, depth)
			for i := range shapes {
				shapes[i] = pat[i%len(pat)]
			}
			for limit := 0; limit <= 12; limit++ {
				for _, ki := range ks {
					for _, lay := range lays {
						runTrace(r, tcase{shapes: shapes, ki: ki, lay: lay, mode: modeCompileNamed, limit: limit})
					}
				}
			}
			// the same stacks on runtimes of every other origin
			if pi >= 2 && !r.Thorough() {
				continue
			}
			for origin := 1; origin < nOrigins; origin++ {
				for limit := 0; limit <= 12; limit++ {
					if origin == originCopyDefault && limit != 10 {
						continue
					}
					if !r.Thorough() && limit > 0 && limit%3 != 0 && limit != 10 && limit != 1 {
						continue
					}
					m := modeCompileNamed
					if origin == originSetLate && depth%2 == 0 {
						m = modeRun
					}
					runTrace(r, tcase{shapes: shapes, ki: ks[0], lay: lays[0], mode: m, limit: limit, origin: origin})
				}
			}
		}
	}
}

// ---------------------------------------------------------------------------
// script: what a catch clause sees, and the text Run returns
// ---------------------------------------------------------------------------

const probeSrc = `
(function(g){
  g.__probe = function(src, cname){
    var ev = eval;
    try { ev(src); } catch (e) {
      if (e === null || (typeof e !== "object" && typeof e !== "function")) return "value|" + String(e);
      var C = g[cname];
      if (typeof C !== "function") { var s; try { s = String(e); } catch (x) { return "unprintable"; } return "value|" + s; }
      return ["error", e instanceof C, Object.getPrototypeOf(e) === C.prototype, e instanceof Error, String(e.name), typeof e.message,
              typeof e.message === "string" && e.message.length > 0, String(e) === e.name + ": " + e.message, String(e)].join("|");
    }
    return "nothrow";
  };
})(this)
`

func runScript(r *engine.Run) {
	sl := shapeLists1()
	lay := layout{sepLine: true, pre: preNone, term: 0}
	r.Bound("constructs", fmt.Sprint(len(constructs)))
	r.Bound("shapes", fmt.Sprint(len(sl)))
	for ki, k := range constructs {
		for _, sh := range sl {
			if k.nonErr && len(sh) > 0 && sh[0] == shHost {
				// Value.Call turns a thrown non-Error value into a plain Go error; re-panicking
				// that is not the idiom under test (bridging of Go errors belongs to C16)
				continue
			}
			c := tcase{shapes: sh, ki: ki, lay: lay, mode: modeCompileNamed, limit: 10}
			key := c.key()
			if !mine(r, key) {
				continue
			}
			g := c.gen()
			src := g.build()
			input := showSrc(src)
			ax := aux(g, c)
			r.Begin(key)
			vm := newVM(10)
			var probe ox.Result
			if pr := ox.Run(vm, probeSrc); pr.Err != nil || pr.Panicked {
				r.HarnessError(fmt.Sprintf("probe prelude failed: %v %v", pr.Err, pr.PanicVal))
				r.End()
				return
			}
			vm.Set("__src", src)
			vm.Set("__cname", k.class)
			probe = ox.Run(vm, `__probe(__src, __cname)`)
			res := execute(one(src, c.mode), c.mode, c.limit)
			r.End()
			r.Tree(1, 1)
			r.Eval(true)

			obs := ""
			switch {
			case probe.Panicked:
				obs = fmt.Sprint("Go panic: ", probe.PanicVal)
			case probe.Err != nil:
				obs = "escaped the catch clause: " + probe.Err.Error()
			default:
				obs, _ = probe.Value.ToString()
			}
			r.Outcome(obs)
			if r.WantSample() {
				r.Sample(input + " => catch sees " + obs)
			}
			// Go side: the text is "Name: message" of the thrown value = what String(e) shows in the script
			got := ""
			switch {
			case res.Panicked:
				got = fmt.Sprint("Go panic: ", res.PanicVal)
			case res.Err == nil:
				got = "no error"
			default:
				got = res.Err.Error()
				if _, isOtto := res.Err.(*otto.Error); !isOtto && !k.nonErr {
					got = fmt.Sprintf("(%T) %s", res.Err, got)
				}
			}
			ax["uncaught"] = got
			// script side
			S := ""
			if k.unprintable {
				// ToString of the thrown value throws: the catch clause still gets the value, and Run
				// must hand back SOME error (which one is not specified by the statement)
				if obs != "unprintable" {
					r.Mismatch(engine.Mismatch{Key: key + "#script", Input: input, Expected: "unprintable", Observed: obs, Aux: ax})
				}
				if res.Panicked || res.Err == nil {
					r.Mismatch(engine.Mismatch{Key: key + "#text", Input: input, Expected: "Run returns an error", Observed: got, Aux: ax})
				}
				continue
			}
			if k.nonErr {
				if strings.HasPrefix(obs, "value|") {
					S = obs[len("value|"):]
				} else {
					r.Mismatch(engine.Mismatch{Key: key + "#script", Input: input, Expected: "value|<String(e)>", Observed: obs, Aux: ax})
					continue
				}
			} else {
				f := strings.SplitN(obs, "|", 9)
				name := k.class
				if k.name != "" {
					name = k.name
				}
				if len(f) == 9 {
					S = f[8]
				}
				wantS := S
				if S == "" {
					wantS = "<String(e)>"
				}
				if k.msg != "" {
					wantS = name + ": " + k.msg
				}
				exp := strings.Join([]string{"error", "true", "true", "true", name, "string", "true", "true", wantS}, "|")
				if exp != obs {
					r.Mismatch(engine.Mismatch{Key: key + "#script", Input: input, Expected: exp, Observed: obs, Aux: ax})
				}
				if len(f) != 9 {
					continue
				}
			}
			if got != S {
				r.Mismatch(engine.Mismatch{Key: key + "#text", Input: input, Expected: S, Observed: got, Aux: ax})
			}
		}
	}
	runHistories(r)
}

// ---------------------------------------------------------------------------
// syntax: line and column of the offending token
// ---------------------------------------------------------------------------

type badSyntax struct {
	id, text string
	anchor   int  // offset of the first offending token; -1 = end of input
	eof      bool // the construct only fails at end of input: nothing may follow
}

var badSyntaxes = []badSyntax{
	{"missing-initialiser", "var x = ;", 8, false},
	{"double-assign", "x = = 1", 4, false},
	{"two-identifiers", "a b", 2, false},
	{"close-paren", ")", 0, false},
	{"close-brace", "}", 0, false},
	{"if-missing-paren", "if (1 {}", 6, false},
	{"dangling-plus", "x = 1 +;", 7, false},
	{"anonymous-declaration", "function (){}", 9, false},
	{"object-missing-value", "var a = {a: };", 12, false},
	{"illegal-character", "@", 0, false},
	{"argument-missing", "foo(1, ;", 7, false},
	{"keyword-as-name", "var if", 4, false},
	{"case-without-expression", "switch (1) { case }", 18, false},
	{"number-after-dot", "a.1", 1, false},
	{"unterminated-string", `x = "abc`, 4, true},
	{"illegal-return", "return 1", 0, false},
	{"illegal-break", "break", 0, false},
	{"for-eof", "for (;;", -1, true},
	{"array-eof", "x = [1,", -1, true},
	{"block-eof", "{", -1, true},
	{"member-eof", "a.", -1, true},
}

func runSyntax(r *engine.Run) {
	defer runSyntaxUTF8(r)
	defer runSyntaxTermSeq(r)
	type pre struct{ id, s string }
	pres := []pre{{"none", ""}, {"spaces", "   "}, {"tab", "\t"}, {"stmt", "var q = 1; "}, {"stmts", "q = 1; r = 2;  "}}
	maxLines := 3
	nt := 4
	if r.Thorough() {
		maxLines = 6
		nt = len(terms)
	}
	r.Bound("constructs", fmt.Sprint(len(badSyntaxes)))
	r.Bound("lines_before", fmt.Sprint(maxLines))
	r.Bound("terminators", fmt.Sprint(nt))
	for _, b := range badSyntaxes {
		for lines := 0; lines <= maxLines; lines++ {
			for t := 0; t < nt; t++ {
				if lines == 0 && t != 0 {
					continue
				}
				for _, p := range pres {
					for suffix := 0; suffix < 2; suffix++ {
						if suffix == 1 && (b.eof || lines == 0) {
							continue
						}
						key := fmt.Sprintf("%s/%d/%s/%s/%d", b.id, lines, terms[t].id, p.id, suffix)
						if !mine(r, key) {
							continue
						}
						T := terms[t].s
						var sb strings.Builder
						for i := 0; i < lines; i++ {
							fmt.Fprintf(&sb, "var a%d = %d;%s", i, i, T)
							if i%2 == 1 {
								sb.WriteString(T) // an empty line
							}
						}
						sb.WriteString(p.s)
						off := sb.Len() + b.anchor
						sb.WriteString(b.text)
						if b.anchor < 0 {
							off = sb.Len()
						}
						if suffix == 1 {
							sb.WriteString(T + "var z = 1;")
						}
						src := sb.String()
						line, col := refPos(src, off)
						r.Begin(key)
						checkSyntax(r, key, src, line, col)
						r.End()
						r.Tree(1, 1)
					}
				}
			}
		}
	}
}

// runSyntaxUTF8: errors raised by the lexer's own read(): bytes that are not UTF-8, in
// every lexical context. The offending "token" is the first bad byte.
func runSyntaxUTF8(r *engine.Run) {
	bads := []struct{ id, s string }{
		{"ff", "\xff"}, {"overlong-c080", "\xc0\x80"}, {"truncated2", "\xc3"}, {"truncated3", "\xe2\x82"}, {"truncated4", "\xf0\x9f\x98"},
		{"continuation", "\x80"}, {"surrogate-ed", "\xed\xa0\x80"}, {"fe", "\xfe"},
	}
	ctxs := []struct {
		id, before, after string
		lineOnly          bool
	}{
		{"bare", "", ";", false},
		{"after-statement", "var a; ", "", false},
		{"string", `var s = "ab`, `cd";`, false},
		{"string-single", "var s = 'ab", "cd';", false},
		{"block-comment", "/* x ", " */ var a;", false},
		{"line-comment", "// x ", "", false},
		{"regexp", "var r = /a", "b/;", false},
		{"identifier", "var a", "b;", false},
		{"after-multibyte-same-line", "var s = \"\u00e9\u20ac\"; ", ";", true},
	}
	maxLines, nt := 2, 4
	if r.Thorough() {
		maxLines, nt = 4, len(terms)
	}
	r.Bound("utf8.sequences", fmt.Sprint(len(bads)))
	r.Bound("utf8.contexts", fmt.Sprint(len(ctxs)))
	for _, b := range bads {
		for _, c := range ctxs {
			for lines := 0; lines <= maxLines; lines++ {
				for t := 0; t < nt; t++ {
					if lines == 0 && t != 0 {
						continue
					}
					for mb := 0; mb < 2; mb++ {
						if mb == 1 && lines == 0 {
							continue
						}
						key := fmt.Sprintf("utf8/%s/%s/%d/%s/%d", b.id, c.id, lines, terms[t].id, mb)
						if !mine(r, key) {
							continue
						}
						T := terms[t].s
						var sb strings.Builder
						for i := 0; i < lines; i++ {
							if mb == 1 {
								// multi-byte characters on the lines before do not move the column
								fmt.Fprintf(&sb, "var m%d = \"\u00e9\u20ac\U0001F600\";%s", i, T)
							} else {
								fmt.Fprintf(&sb, "var a%d = %d;%s", i, i, T)
							}
						}
						sb.WriteString(c.before)
						off := sb.Len()
						sb.WriteString(b.s)
						sb.WriteString(c.after)
						src := sb.String()
						line, col := refPos(src, off)
						if c.lineOnly {
							col = -1
						}
						r.Begin(key)
						checkSyntax(r, key, src, line, col)
						r.End()
						r.Tree(1, 1)
					}
				}
			}
		}
	}
}

func firstSyntaxError(err error) (file string, line, col int, desc string) {
	if err == nil {
		return "", 0, 0, "no error"
	}
	var el parser.ErrorList
	switch e := err.(type) {
	case *parser.ErrorList:
		el = *e
	default:
		return "", 0, 0, fmt.Sprintf("%T: %v", err, err)
	}
	if len(el) == 0 {
		return "", 0, 0, "empty error list"
	}
	p := el[0].Position
	return p.Filename, p.Line, p.Column, ""
}

func checkSyntax(r *engine.Run, key, src string, line, col int) {
	input := showSrc(src)
	type api struct {
		name, file string
		f          func() error
	}
	apis := []api{
		{"Run", "", func() error { _, err := otto.New().Run(src); return err }},
		{"Compile", "t.js", func() error { _, err := otto.New().Compile("t.js", src); return err }},
		{"ParseFile", "p.js", func() error { _, err := parser.ParseFile(nil, "p.js", src, 0); return err }},
	}
	for _, a := range apis {
		var err error
		res := ox.Guard(func() (otto.Value, error) { err = a.f(); return otto.Value{}, nil })
		exp := fmt.Sprintf("%s:%d:%d", a.file, line, col)
		if col < 0 {
			exp = fmt.Sprintf("%s:%d:*", a.file, line) // column after non-ASCII text on the line: recorded, not asserted
		}
		obs := ""
		if res.Panicked {
			obs = fmt.Sprint("Go panic: ", res.PanicVal)
		} else if f, l, c, d := firstSyntaxError(err); d != "" {
			obs = d
		} else {
			obs = fmt.Sprintf("%s:%d:%d", f, l, c)
			if col < 0 {
				obs = fmt.Sprintf("%s:%d:*", f, l)
			}
		}
		r.Eval(line > 1 || col > 1)
		r.Outcome(obs)
		if r.WantSample() && line > 1 {
			r.Sample(a.name + " " + input + " => " + obs)
		}
		r.Check(key+"#"+a.name, input, exp, obs)
	}
}

// ---------------------------------------------------------------------------
// nonascii: record (do not assert) how columns are counted after non-ASCII text
// ---------------------------------------------------------------------------

func runNonASCII(r *engine.Run) {
	probes := []struct{ id, src string }{
		{"runtime-2byte", "var s = \"é\"; zz9;"},
		{"runtime-3byte", "var s = \"€\"; zz9;"},
		{"runtime-4byte", "var s = \"\U0001F600\"; zz9;"},
		{"runtime-identifier", "var é = 1; zz9;"},
	}
	var notes []string
	for _, p := range probes {
		if !mine(r, p.id) {
			continue
		}
		off := strings.Index(p.src, "zz9")
		chars := len([]rune(p.src[:off])) + 1
		units := len(ox.Units(p.src[:off])) + 1
		res := execute(one(p.src, modeCompileNamed), modeCompileNamed, 10)
		obs := "?"
		if oe, ok := res.Err.(*otto.Error); ok {
			if _, fr, ok := parseTrace(oe.String()); ok && len(fr) > 0 {
				obs = fr[0].loc
			}
		}
		_, serr := otto.New().Compile("t.js", p.src[:off]+"= ;")
		_, sl, sc, _ := firstSyntaxError(serr)
		r.Eval(true)
		r.Outcome(obs)
		notes = append(notes, fmt.Sprintf("%s: byte column %d, code-point column %d, UTF-16 column %d; runtime error reports %s, syntax error reports %d:%d",
			p.id, off+1, chars, units, obs, sl, sc))
	}
	sort.Strings(notes)
	for _, n := range notes {
		r.Note("recorded, not asserted: " + n)
	}
}
