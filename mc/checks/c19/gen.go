package c19

import (
	"fmt"
	"strconv"
	"strings"

	"verif/mc/ox"
)

// ---------------------------------------------------------------------------
// Generated source files and frames
// ---------------------------------------------------------------------------

// gfile is one source text known to the generator: the top-level program, the
// source handed to an eval call, or the body handed to the Function constructor.
type gfile struct {
	name   string // file name as given to Compile ("" for Run(string), eval)
	src    string // complete text (valid once the buffer is closed)
	fnbody bool   // Function-constructor body: otto keeps no file for it
}

func (f *gfile) display() string {
	if f.name == "" {
		return "<anonymous>"
	}
	return f.name
}

// tbuf accumulates the text of one gfile; offsets are known at write time
// because everything that precedes a site in its file is written before it.
type tbuf struct {
	f  *gfile
	sb strings.Builder
}

func (w *tbuf) off() int { return w.sb.Len() }
func (w *tbuf) put(s string) int {
	o := w.sb.Len()
	w.sb.WriteString(s)
	return o
}
func (w *tbuf) close() *gfile { w.f.src = w.sb.String(); return w.f }

type evKind int

const (
	evRef       evKind = iota // call/new with identifier/dot/bracket callee, or an error raised with an explicit position: offset recorded
	evNonRef                  // call/new whose callee is any other expression form (convention: start of that expression)
	evImplicit                // implicit call (getter, setter, ToPrimitive): only the extent [off,end] is known to the convention
	evUnpos                   // error raised by an operator that is not a call/member/identifier (instanceof, in, array length store): extent only
	evEnterEval               // direct eval entered: the frame continues in the eval source
	evEvalDone                // a direct eval completed normally in this frame
)

type event struct {
	abs  bool // the offset is not subject to the Function-constructor wrapper shift (it lies in an eval source)
	kind evKind
	off  int // byte offset in the frame's current file
	end  int // inclusive end offset for extent events
	file *gfile
}

// frame is one entry of the expected trace (outermost first in gen.frames).
type frame struct {
	name     string
	native   bool // native function frame: compared by kind only
	optional bool // innermost native frame of a native-raised error: may or may not be listed (both pinned)
	home     *gfile
	events   []event
}

// ---------------------------------------------------------------------------
// Alphabets
// ---------------------------------------------------------------------------

type term struct{ id, s string }

var terms = []term{{"LF", "\n"}, {"CRLF", "\r\n"}, {"CR", "\r"}, {"LS", "\u2028"}, {"PS", "\u2029"}}

type preKind int

const (
	preNone preKind = iota
	preSpaces
	preTab
	preStmt
	preCall  // a completed call statement on the same line (exposes stale call-site offsets)
	preEval1 // a completed direct eval of a one-byte source on the same line
	preEvalL // a completed direct eval of a long multi-line source
	preBr1   // one line break
	preBr2   // two line breaks and a space
	// excursions that temporarily switch the frame's file or offset and are LEFT BY AN
	// EXCEPTION which is caught before the site: the frame must be itself again
	preThrowEval     // direct eval whose code throws at run time, caught in the same function
	preThrowEvalL    // the same with a long multi-line eval source
	preThrowEvalCall // direct eval whose code calls a function that throws
	preThrowIndirect // indirect eval whose code throws
	preThrowFunction // Function-constructor code that throws
	preThrowGetter   // accessor (implicit call) that throws
	preThrowHost     // a Go host function runs a nested script that throws and re-panics the error
	preThrowCallee   // the direct eval is in a callee which does not catch; caught here (caller)
	preThrowCallee2  // ... caught by the caller's caller
	nPre
)

var preNames = []string{"none", "spaces", "tab", "stmt", "call", "eval1", "evalL", "br1", "br2",
	"throw-eval", "throw-evalL", "throw-evalcall", "throw-indirect", "throw-Function", "throw-getter", "throw-host", "throw-callee", "throw-callee2"}

// evalThrowLongSrc is a long multi-line direct-eval source that ends by throwing.
var evalThrowLongSrc = evalLongSrc + "\nthrow 1;"

const throwHelpers = ` function thrower(){ throw new Error("t"); } var ev = eval; var FT = new Function("throw new Error(\"f\")");` +
	` var gx = {get p(){ throw new Error("g"); }}; function hx1(){ eval("throw 1"); } function hx2(){ hx1(); }`

func (p preKind) isThrow() bool { return p >= preThrowEval && p < nPre }

// layout places every site of a program: structural separator before the
// preceding material, the preceding material itself, the line terminator.
type layout struct {
	sepLine bool // true: a line terminator separates definitions from sites; false: a space
	pre     preKind
	term    int
	rotate  bool // level j uses pre kind (pre+j) mod nPre
}

func (l layout) id() string {
	s := "sp"
	if l.sepLine {
		s = "nl"
	}
	r := ""
	if l.rotate {
		r = "~"
	}
	return s + "." + preNames[l.pre] + r + "." + terms[l.term].id
}

// hasBreak reports whether any line terminator can occur in a program using l.
func (l layout) hasBreak() bool {
	return l.sepLine || l.rotate || l.pre == preBr1 || l.pre == preBr2
}

// evalLongSrc is the source of the "long" completed eval: big enough that every
// offset of a small program lies inside it, with lines of different lengths.
var evalLongSrc = func() string {
	var sb strings.Builder
	sb.WriteString("1;")
	for i := 0; i < 40; i++ {
		sb.WriteString(strings.Repeat(" ", 3+i%7))
		sb.WriteString("\n")
	}
	sb.WriteString(strings.Repeat(" ", 1500))
	return sb.String()
}()

type shape int

const (
	shDecl shape = iota
	shAnon
	shNamed
	shMethodDot
	shMethodBr
	shCtor
	shCtorMember
	shGetter
	shSetter
	shConv
	shForEach
	shReplace
	shBound
	shCall
	shApply
	shEvalDirect
	shEvalAlias
	shEvalSeq
	shFunction
	shIIFE
	shIIFENamed
	shCallResult
	shNewCallResult
	shCondCallee
	shHost
	nShapes
)

var shapeNames = []string{"decl", "anon", "named", "method", "methodbr", "ctor", "ctormember", "getter", "setter", "conv",
	"forEach", "replace", "bound", "call", "apply", "evaldirect", "evalalias", "evalseq", "Function", "iife", "iifenamed",
	"callresult", "newcallresult", "condcallee", "host"}

type seg struct {
	text string
	call bool // a call/new with reference callee starting at the segment start (+skip)
	skip int  // offset of the callee inside the segment ("new " prefix)
}

type ckind int

const (
	ckRef    ckind = iota // position recorded (explicit position or call site of a native that raises)
	ckNonRef              // call/new of a non-function through a non-reference callee
	ckUnpos               // operator error without call/member/identifier anchor
)

// construct is one error-raising construct.
type construct struct {
	id          string
	setup       []seg
	text        string
	anchor      int // offset in text of the position the convention names
	kind        ckind
	native      bool         // raised inside a native function called (not constructed) by the construct: innermost native frame optional
	class       string       // expected constructor; "" for thrown non-Error values
	name        string       // expected e.name when it differs from class
	msg         string       // exact message when the script supplies it
	nonErr      bool         // a thrown value that is not an Error instance: Go side is a plain error with the value's ToString
	group       string       // input class used by signatures
	nested      bool         // two error constructs in one expression (family nested)
	natives     int          // native functions that are active (required frames) between the call site and the raise site: f.call, map, indirect eval
	unprintable bool         // thrown non-Error value whose ToString throws: Run must return an error (text not asserted), no Go panic
	nativeOpt   bool         // the frame of the raising native may be absent (pinned: Error("x") pops it; direct eval enters no scope)
	inner       []innerFrame // frames active between the current frame and the raise site (outermost first)
	noTrace     bool         // trace not asserted (error object created elsewhere)
	argCalls    []int        // offsets in text of calls evaluated in the construct's own argument list (recorded before the anchor)
}

// innerFrame is a frame the construct itself makes active.
type innerFrame struct {
	name    string
	native  bool
	off     int // offset of the frame's site: in the construct text, or in the setup text
	inSetup bool
}

func s(text string) seg                     { return seg{text: text} }
func c(text string) seg                     { return seg{text: text, call: true} }
func cn(text string) seg                    { return seg{text: text, call: true, skip: 4} }
func segs(l ...seg) []seg                   { return l }
func vars(decl string) []seg                { return []seg{s(decl)} }
func (k construct) isThrowNew() bool        { return strings.HasPrefix(k.text, "throw new ") }
func (k construct) interpreterRaised() bool { return k.msg == "" && !k.nonErr }

var nativeErrors = []string{"Error", "EvalError", "RangeError", "ReferenceError", "SyntaxError", "TypeError", "URIError"}

var constructs = buildConstructs()

func buildConstructs() []construct {
	var l []construct
	add := func(k construct) { l = append(l, k) }
	// call of undefined / null / number / object through an identifier, a member, a literal
	add(construct{id: "call-undef", setup: vars("var u;"), text: "u()", class: "TypeError", group: "call"})
	add(construct{id: "call-null", setup: vars("var nl = null;"), text: "nl()", class: "TypeError", group: "call"})
	add(construct{id: "call-number", setup: vars("var n = 5;"), text: "n()", class: "TypeError", group: "call"})
	add(construct{id: "call-object", setup: vars("var o = {};"), text: "o()", class: "TypeError", group: "call"})
	add(construct{id: "call-member", setup: vars("var o = {};"), text: "o.x()", class: "TypeError", group: "call"})
	add(construct{id: "call-memberbr", setup: vars("var o = {};"), text: `o["x"]()`, class: "TypeError", group: "call"})
	add(construct{id: "call-literal", text: "5()", kind: ckNonRef, class: "TypeError", group: "call"})
	add(construct{id: "call-callresult", setup: vars("function r0(){}"), text: "r0()()", kind: ckNonRef, class: "TypeError", group: "call"})
	// property read / write on undefined and null, dot and bracket
	for _, b := range []struct{ id, decl, v string }{{"undef", "var u;", "u"}, {"null", "var nl = null;", "nl"}} {
		add(construct{id: "read-dot-" + b.id, setup: vars(b.decl), text: b.v + ".x", class: "TypeError", group: "member"})
		add(construct{id: "read-br-" + b.id, setup: vars(b.decl), text: b.v + `["x"]`, class: "TypeError", group: "member"})
		add(construct{id: "write-dot-" + b.id, setup: vars(b.decl), text: b.v + ".x = 1", class: "TypeError", group: "member"})
		add(construct{id: "write-br-" + b.id, setup: vars(b.decl), text: b.v + `["x"] = 1`, class: "TypeError", group: "member"})
	}
	add(construct{id: "read-chain", setup: vars("var o = {};"), text: "o.x.y", class: "TypeError", group: "member"})
	// unresolvable identifier
	add(construct{id: "unresolvable", text: "zz9", class: "ReferenceError", group: "ident"})
	add(construct{id: "unresolvable-rhs", text: "1 + zz9", anchor: 4, class: "ReferenceError", group: "ident"})
	add(construct{id: "unresolvable-call", text: "zz9()", class: "ReferenceError", group: "ident"})
	add(construct{id: "unresolvable-incr", text: "zz9++", class: "ReferenceError", group: "ident"})
	// new of a non-function
	add(construct{id: "new-number", setup: vars("var n = 5;"), text: "new n()", anchor: 4, class: "TypeError", group: "new"})
	add(construct{id: "new-number-noargs", setup: vars("var n = 5;"), text: "new n", anchor: 4, class: "TypeError", group: "new"})
	add(construct{id: "new-member", setup: vars("var o = {};"), text: "new o.x()", anchor: 4, class: "TypeError", group: "new"})
	add(construct{id: "new-literal", text: "new 5", anchor: 4, kind: ckNonRef, class: "TypeError", group: "new"})
	// instanceof / in
	add(construct{id: "instanceof-number", setup: vars("var n = 5;"), text: "1 instanceof n", kind: ckUnpos, class: "TypeError", group: "operator"})
	add(construct{id: "instanceof-object", setup: vars("var o = {};"), text: "1 instanceof o", kind: ckUnpos, class: "TypeError", group: "operator"})
	add(construct{id: "in-number", setup: vars("var n = 5;"), text: `"a" in n`, kind: ckUnpos, class: "TypeError", group: "operator"})
	// array length
	add(construct{id: "array-ctor-negative", text: "new Array(-1)", anchor: 4, class: "RangeError", group: "arraylength"})
	add(construct{id: "array-call-negative", text: "Array(-1)", native: true, class: "RangeError", group: "arraylength"})
	add(construct{id: "array-length-fraction", setup: vars("var a = [];"), text: "a.length = 1.5", kind: ckUnpos, class: "RangeError", group: "arraylength-store"})
	// radix / precision
	add(construct{id: "toFixed-21", setup: vars("var n = 5;"), text: "n.toFixed(21)", native: true, class: "RangeError", group: "number"})
	add(construct{id: "toString-radix1", setup: vars("var n = 5;"), text: "n.toString(1)", native: true, class: "RangeError", group: "number"})
	add(construct{id: "toString-radix37", setup: vars("var n = 5;"), text: "n.toString(37)", native: true, class: "RangeError", group: "number"})
	add(construct{id: "toPrecision-0", setup: vars("var n = 5;"), text: "n.toPrecision(0)", native: true, class: "RangeError", group: "number"})
	add(construct{id: "toFixed-argcall", setup: vars("var n = 5;"), text: "n.toFixed(nop() || 21)", native: true, class: "RangeError", group: "number",
		argCalls: []int{10}})
	// syntax errors raised at run time
	add(construct{id: "eval-syntax", text: `eval("var = 1")`, native: true, nativeOpt: true, class: "SyntaxError", group: "syntax"})
	add(construct{id: "new-Function-syntax", text: `new Function("var = 1")`, anchor: 4, class: "SyntaxError", group: "syntax"})
	add(construct{id: "Function-syntax", text: `Function("var = 1")`, native: true, class: "SyntaxError", group: "syntax"})
	add(construct{id: "new-RegExp-syntax", text: `new RegExp("(")`, anchor: 4, class: "SyntaxError", group: "regexp"})
	add(construct{id: "RegExp-syntax", text: `RegExp("(")`, native: true, class: "SyntaxError", group: "regexp"})
	// errors raised by a built-in before / instead of running code, reached through other
	// built-ins or indirectly: the trace lists exactly the active calls
	add(construct{id: "eval-alias-syntax", setup: vars("var ev0 = eval;"), text: `ev0("var = 1")`, natives: 1, class: "SyntaxError", group: "indirect"})
	add(construct{id: "eval-seq-syntax", text: `(0,eval)("var = 1")`, anchor: 1, kind: ckNonRef, natives: 1, class: "SyntaxError", group: "indirect"})
	add(construct{id: "eval-call-syntax", text: `eval.call(null, "var = 1")`, natives: 2, class: "SyntaxError", group: "indirect"})
	add(construct{id: "eval-apply-syntax", text: `eval.apply(null, ["var = 1"])`, natives: 2, class: "SyntaxError", group: "indirect"})
	add(construct{id: "eval-map-syntax", text: `["var = 1"].map(eval)`, natives: 2, class: "SyntaxError", group: "indirect"})
	add(construct{id: "eval-member-syntax", setup: vars("var oe = {e: eval};"), text: `oe.e("var = 1")`, natives: 1, class: "SyntaxError", group: "indirect"})
	add(construct{id: "Function-call-syntax", text: `Function.call(null, "var = 1")`, natives: 1, native: true, class: "SyntaxError", group: "indirect"})
	add(construct{id: "RegExp-apply-syntax", text: `RegExp.apply(null, ["("])`, natives: 1, native: true, class: "SyntaxError", group: "indirect"})
	add(construct{id: "json-parse-call", text: `JSON.parse.call(null, "{")`, natives: 1, native: true, class: "SyntaxError", group: "indirect"})
	add(construct{id: "json-parse-map", text: `["{"].map(JSON.parse)`, natives: 1, native: true, class: "SyntaxError", group: "indirect"})
	add(construct{id: "decodeURI-call", text: `decodeURI.call(null, "%")`, natives: 1, native: true, class: "URIError", group: "indirect"})
	add(construct{id: "toFixed-call", text: `(5).toFixed.call(5, 21)`, anchor: 1, natives: 1, native: true, class: "RangeError", group: "indirect"})
	add(construct{id: "toString-forEach", text: `[5].forEach(Number.prototype.toString)`, natives: 1, native: true, class: "TypeError", group: "indirect"})
	add(construct{id: "defineProperty-apply", setup: segs(s("var fz = "), c("Object.freeze({})"), s(";")),
		text: `Object.defineProperty.apply(null, [fz, "x", {value: 1}])`, natives: 1, native: true, class: "TypeError", group: "indirect"})
	// JSON / URI / defineProperty
	add(construct{id: "json-cyclic", setup: vars("var cyc = {}; cyc.c = cyc;"), text: "JSON.stringify(cyc)", native: true, class: "TypeError", group: "json"})
	add(construct{id: "json-parse", text: `JSON.parse("{")`, native: true, class: "SyntaxError", group: "json"})
	add(construct{id: "decodeURI", text: `decodeURI("%")`, native: true, class: "URIError", group: "uri"})
	add(construct{id: "decodeURIComponent", text: `decodeURIComponent("%")`, native: true, class: "URIError", group: "uri"})
	add(construct{id: "defineProperty-frozen", setup: segs(s("var fz = "), c("Object.freeze({})"), s(";")),
		text: `Object.defineProperty(fz, "x", {value: 1})`, native: true, class: "TypeError", group: "object"})
	// explicit throws of the seven native constructors, new and call form
	for _, n := range nativeErrors {
		add(construct{id: "throw-new-" + n, text: `throw new ` + n + `("m")`, anchor: 10, class: n, msg: "m", group: "throw"})
	}
	for _, n := range nativeErrors {
		add(construct{id: "throw-call-" + n, text: `throw ` + n + `("m")`, anchor: 6, native: true, nativeOpt: n == "Error", class: n, msg: "m", group: "throw"})
	}
	add(construct{id: "throw-new-argcall", setup: vars("function mm(){ return \"m\"; }"), text: `throw new TypeError(mm())`, anchor: 10, class: "TypeError", msg: "m",
		group: "throw", argCalls: []int{20}})
	add(construct{id: "throw-call-argcall", setup: vars("function mm(){ return \"m\"; }"), text: `throw TypeError(mm())`, anchor: 6, native: true, class: "TypeError", msg: "m",
		group: "throw", argCalls: []int{16}})
	// thrown values that are not Error instances
	for _, v := range []struct{ id, expr string }{{"number", "1.5"}, {"string", `"s"`}, {"boolean", "true"}, {"null", "null"},
		{"undefined", "undefined"}, {"object", "{a: 1}"}, {"object-toString", `{toString: function(){ return "T"; }}`}, {"array", "[1, 2]"}} {
		add(construct{id: "throw-" + v.id, text: "throw " + v.expr, nonErr: true, group: "throw-value"})
	}
	// thrown Error objects whose name / message changed after construction; user-defined subclass
	add(construct{id: "throw-modified-message", setup: segs(s("var em = "), cn(`new Error("m")`), s(`; em.message = "m2";`)),
		text: "throw em", class: "Error", msg: "m2", group: "throw-modified", noTrace: true})
	add(construct{id: "throw-modified-name", setup: segs(s("var em = "), cn(`new TypeError("m")`), s(`; em.name = "Custom";`)),
		text: "throw em", class: "TypeError", name: "Custom", msg: "m", group: "throw-modified", noTrace: true})
	add(construct{id: "throw-subclass", setup: segs(s(`function MyErr(m){ this.message = m; } MyErr.prototype = `), cn(`new Error()`), s(`; MyErr.prototype.name = "MyErr";`)),
		text: `throw new MyErr("m")`, anchor: 10, nonErr: true, group: "throw-value"})
	l = append(l, extraConstructs()...)
	l = append(l, nestedConstructs()...)
	return l
}

func constructIndex(id string) int {
	for i, k := range constructs {
		if k.id == id {
			return i
		}
	}
	panic("no construct " + id)
}

// ---------------------------------------------------------------------------
// Program generation
// ---------------------------------------------------------------------------

// wraps are statement contexts around the construct (no call frame of their own).
var wraps = []struct{ id, pre, post string }{
	{"none", "", ""},
	{"try-finally", "try { ", " } finally { }"},
	{"rethrow", "try { ", " } catch (e) { throw e; }"},
	{"if", "if (1) { ", " }"},
	{"for", "for (var i = 0; i < 1; i++) { ", " }"},
	{"switch", "switch (1) { case 1: ", " }"},
	{"with", "with ({}) { ", " }"},
	{"do-while", "do { ", " } while (0)"},
	{"labelled", "L: { ", " }"},
}

type gen struct {
	shapes []shape
	k      construct
	lay    layout
	fname  string
	wrap   int
	args   int // argument-list variant of every explicit call site (argVariants)

	top    *gfile
	frames []*frame // outermost first
	// input-class facts for signatures
	hasNonRef, hasImplicit, hasEvalDone, hasFnBody bool
}

func (g *gen) T() string { return terms[g.lay.term].s }

func (g *gen) sep() string {
	if g.lay.sepLine {
		return g.T()
	}
	return " "
}

func (g *gen) push(name string, home *gfile) *frame {
	f := &frame{name: name, home: home}
	g.frames = append(g.frames, f)
	return f
}

func (g *gen) pushNative() *frame {
	f := &frame{native: true}
	g.frames = append(g.frames, f)
	return f
}

// pre writes the separator and the preceding material of the site of level lvl.
func (g *gen) pre(w *tbuf, fr *frame, lvl int) {
	w.put(g.sep())
	p := g.lay.pre
	if g.lay.rotate {
		p = preKind((int(p) + lvl) % int(nPre))
	}
	switch p {
	case preNone:
	case preSpaces:
		w.put("  ")
	case preTab:
		w.put("\t")
	case preStmt:
		w.put("var q = 1; ")
	case preCall:
		o := w.put("nop(); ")
		fr.events = append(fr.events, event{kind: evRef, off: o})
	case preEval1, preEvalL:
		o := w.off()
		f := &gfile{src: "1"}
		if p == preEval1 {
			w.put(`eval("1"); `)
		} else {
			f = &gfile{src: evalLongSrc}
			w.put(`eval(EV); `)
		}
		fr.events = append(fr.events, event{kind: evRef, off: o}, event{kind: evEvalDone, file: f})
		g.hasEvalDone = true
	case preBr1:
		w.put(g.T())
	case preBr2:
		w.put(g.T() + g.T() + " ")
	default:
		g.preThrow(w, fr, p)
	}
}

// preThrow writes an excursion that is left by an exception caught in this frame.
func (g *gen) preThrow(w *tbuf, fr *frame, p preKind) {
	ref := func(o int) { fr.events = append(fr.events, event{kind: evRef, off: o}) }
	w.put("try { ")
	switch p {
	case preThrowEval, preThrowEvalL, preThrowEvalCall:
		f := &gfile{src: "throw 1"}
		o := w.off()
		switch p {
		case preThrowEval:
			w.put(`eval("throw 1");`)
		case preThrowEvalL:
			f = &gfile{src: evalThrowLongSrc}
			w.put(`eval(EVT);`)
		case preThrowEvalCall:
			f = &gfile{src: "thrower()"}
			w.put(`eval("thrower()");`)
		}
		ref(o)
		if p == preThrowEvalCall {
			// the call made by the eval code is recorded in this frame (offset 0 of the eval source)
			fr.events = append(fr.events, event{kind: evRef, off: 0, abs: true})
		}
		// the eval code is done (by an exception): the frame has its own file again
		fr.events = append(fr.events, event{kind: evEvalDone, file: f})
		g.hasEvalDone = true
	case preThrowIndirect:
		ref(w.put(`ev("throw 1");`))
	case preThrowFunction:
		ref(w.put(`FT();`))
	case preThrowGetter:
		w.put(`gx.p;`)
	case preThrowHost:
		ref(w.put(`hostrun("zz8");`))
	case preThrowCallee:
		ref(w.put(`hx1();`))
	case preThrowCallee2:
		ref(w.put(`hx2();`))
	default:
		panic("pre kind")
	}
	w.put(" } catch (e) {} ")
}

func (g *gen) usesThrowHelpers() bool { return g.lay.pre.isThrow() || g.lay.rotate }

// header writes the global helpers at the start of the entry script; the one
// helper definition that is itself a call site (new Function) is recorded in
// the program's frame.
func (g *gen) header(w *tbuf, top *frame) {
	o := w.put("function nop(){}" + g.argHelpers() + g.preHelpers())
	if i := strings.Index(w.sb.String()[o:], "new Function("); i >= 0 {
		top.events = append(top.events, event{kind: evRef, off: o + i + 4})
	}
}

// preHelpers renders the global helpers the preceding material needs.
func (g *gen) preHelpers() string {
	h := ""
	if g.usesThrowHelpers() {
		h += throwHelpers
		h += " var EVT = " + ox.JSLit(evalThrowLongSrc) + ";"
	}
	return h
}

func (g *gen) usesEvalLong() bool {
	return g.lay.pre == preEvalL || g.lay.rotate
}

// build renders the program and the frame list.
func (g *gen) build() string {
	g.top = &gfile{name: g.fname}
	w := &tbuf{f: g.top}
	top := g.push("", g.top)
	g.header(w, top)
	w.put(g.sep())
	if g.usesEvalLong() {
		w.put(g.sep() + "var EV = " + ox.JSLit(evalLongSrc) + ";")
	}
	g.level(w, top, 0)
	w.close()
	return g.top.src
}

func (g *gen) body(w *tbuf, fr *frame, lvl int) {
	w.put(" ")
	g.level(w, fr, lvl)
	w.put(" ")
}

// level writes, into the body of frame pf, the definition and the invocation of
// level lvl (and recursively everything inside it), or the construct itself.
func (g *gen) level(w *tbuf, pf *frame, lvl int) {
	if lvl == len(g.shapes) {
		g.construct(w, pf, lvl)
		return
	}
	id := strconv.Itoa(lvl + 1)
	ref := func(o int) { pf.events = append(pf.events, event{kind: evRef, off: o}) }
	nonref := func(o int) {
		pf.events = append(pf.events, event{kind: evNonRef, off: o})
		g.hasNonRef = true
	}
	implicit := func(o, e int) {
		pf.events = append(pf.events, event{kind: evImplicit, off: o, end: e})
		g.hasImplicit = true
	}
	// call writes "<head>(<fixed><argument list variant>);" and records the call
	// site (start of the callee = start of head + skip) AFTER the calls made while
	// the arguments are evaluated (ES5 11.2.3: callee, then arguments, then the call).
	call := func(head string, skip int, fixed string, isRef bool) {
		o := w.put(head) + skip
		w.put("(" + fixed)
		g.argList(w, pf, fixed != "")
		w.put(");")
		if isRef {
			ref(o)
		} else {
			nonref(o)
		}
	}
	sep := g.sep()
	switch g.shapes[lvl] {
	case shDecl:
		w.put("function f" + id + "(){")
		g.body(w, g.push("f"+id, w.f), lvl+1)
		w.put("}")
		g.pre(w, pf, lvl)
		call("f"+id, 0, "", true)
	case shAnon:
		w.put("var f" + id + " = function(){")
		g.body(w, g.push("", w.f), lvl+1)
		w.put("};")
		g.pre(w, pf, lvl)
		call("f"+id, 0, "", true)
	case shNamed:
		w.put("var v" + id + " = function f" + id + "(){")
		g.body(w, g.push("f"+id, w.f), lvl+1)
		w.put("};")
		g.pre(w, pf, lvl)
		call("v"+id, 0, "", true)
	case shMethodDot, shMethodBr:
		w.put("var o" + id + " = {m: function(){")
		g.body(w, g.push("", w.f), lvl+1)
		w.put("}};")
		g.pre(w, pf, lvl)
		if g.shapes[lvl] == shMethodDot {
			call("o"+id+".m", 0, "", true)
		} else {
			call("o"+id+`["m"]`, 0, "", true)
		}
	case shCtor:
		w.put("function F" + id + "(){")
		g.body(w, g.push("F"+id, w.f), lvl+1)
		w.put("}")
		g.pre(w, pf, lvl)
		call("new F"+id, 4, "", true)
	case shCtorMember:
		w.put("var o" + id + " = {C: function F" + id + "(){")
		g.body(w, g.push("F"+id, w.f), lvl+1)
		w.put("}};")
		g.pre(w, pf, lvl)
		call("new o"+id+".C", 4, "", true)
	case shGetter:
		w.put("var o" + id + " = {get g(){")
		g.body(w, g.push("", w.f), lvl+1)
		w.put("}};")
		g.pre(w, pf, lvl)
		t := "o" + id + ".g"
		o := w.put(t + ";")
		implicit(o, o+len(t)-1)
	case shSetter:
		w.put("var o" + id + " = {set s(v){")
		g.body(w, g.push("", w.f), lvl+1)
		w.put("}};")
		g.pre(w, pf, lvl)
		t := "o" + id + ".s = 1"
		o := w.put(t + ";")
		implicit(o, o+len(t)-1)
	case shConv:
		w.put("var o" + id + " = {toString: function(){")
		g.body(w, g.push("", w.f), lvl+1)
		w.put("}};")
		g.pre(w, pf, lvl)
		t := `"" + o` + id
		o := w.put(t + ";")
		implicit(o, o+len(t)-1)
	case shForEach, shReplace, shCall, shApply, shHost:
		w.put("function f" + id + "(){")
		g.pushNative()
		g.body(w, g.push("f"+id, w.f), lvl+1)
		w.put("}")
		g.pre(w, pf, lvl)
		switch g.shapes[lvl] {
		case shForEach:
			ref(w.put("[1].forEach(f" + id + ");"))
		case shReplace:
			ref(w.put(`"a".replace("a", f` + id + ");"))
		case shCall:
			call("f"+id+".call", 0, "null", true)
		case shApply:
			ref(w.put("f" + id + ".apply(null, []);"))
		case shHost:
			// host is a Go function registered by the harness: it calls its argument
			// through Value.Call and re-panics the *otto.Error (error_native_test.go)
			ref(w.put("host(f" + id + ");"))
		}
	case shBound:
		w.put("function f" + id + "(){")
		g.body(w, g.push("f"+id, w.f), lvl+1)
		w.put("}" + sep + "var b" + id + " = ")
		ref(w.put("f" + id + ".bind(null);"))
		g.pre(w, pf, lvl)
		call("b"+id, 0, "", true)
	case shEvalDirect:
		g.pre(w, pf, lvl)
		o := w.off()
		f2 := &gfile{}
		pf.events = append(pf.events, event{kind: evRef, off: o}, event{kind: evEnterEval, file: f2})
		w2 := &tbuf{f: f2}
		g.level(w2, pf, lvl+1)
		w2.close()
		w.put("eval(" + ox.JSLit(f2.src) + ");")
	case shEvalAlias, shEvalSeq:
		f2 := &gfile{}
		if g.shapes[lvl] == shEvalAlias {
			w.put("var e" + id + " = eval;")
		}
		g.pre(w, pf, lvl)
		o := w.off()
		g.pushNative()
		cf := g.push("", f2)
		w2 := &tbuf{f: f2}
		g.level(w2, cf, lvl+1)
		w2.close()
		if g.shapes[lvl] == shEvalAlias {
			ref(o)
			w.put("e" + id + "(" + ox.JSLit(f2.src) + ");")
		} else {
			nonref(o + 1)
			w.put("(0,eval)(" + ox.JSLit(f2.src) + ");")
		}
	case shFunction:
		f2 := &gfile{fnbody: true}
		g.hasFnBody = true
		w.put("var F" + id + " = ")
		no := w.off() + 4
		// frames are pushed in outermost-first order: the body's frame follows pf
		cf := g.push("", f2)
		w2 := &tbuf{f: f2}
		g.level(w2, cf, lvl+1)
		w2.close()
		w.put("new Function(" + ox.JSLit(f2.src) + ");")
		ref(no)
		g.pre(w, pf, lvl)
		call("F"+id, 0, "", true)
	case shIIFE, shIIFENamed:
		g.pre(w, pf, lvl)
		name := ""
		if g.shapes[lvl] == shIIFENamed {
			name = "f" + id
		}
		io := w.put("(function ") + 1
		w.put(name + "(){")
		g.body(w, g.push(name, w.f), lvl+1)
		w.put("})(")
		g.argList(w, pf, false)
		w.put(");")
		nonref(io)
	case shCallResult, shNewCallResult:
		w.put("function mk" + id + "(){ return function f" + id + "(){")
		g.body(w, g.push("f"+id, w.f), lvl+1)
		w.put("}; }")
		g.pre(w, pf, lvl)
		if g.shapes[lvl] == shCallResult {
			call("mk"+id+"()", 0, "", false)
		} else {
			call("new (mk"+id+"())", 5, "", false)
		}
	case shCondCallee:
		w.put("function f" + id + "(){")
		g.body(w, g.push("f"+id, w.f), lvl+1)
		w.put("}")
		g.pre(w, pf, lvl)
		call("(1 ? f"+id+" : 0)", 1, "", false)
	default:
		panic("shape")
	}
}

func (g *gen) construct(w *tbuf, fr *frame, lvl int) {
	k := g.k
	so := w.off()
	for _, sg := range k.setup {
		o := w.put(sg.text)
		if sg.call {
			fr.events = append(fr.events, event{kind: evRef, off: o + sg.skip})
		}
	}
	g.pre(w, fr, lvl)
	w.put(wraps[g.wrap].pre)
	o := w.put(k.text + ";")
	w.put(wraps[g.wrap].post)
	for _, a := range k.argCalls {
		fr.events = append(fr.events, event{kind: evRef, off: o + a})
	}
	switch k.kind {
	case ckRef:
		fr.events = append(fr.events, event{kind: evRef, off: o + k.anchor})
	case ckNonRef:
		fr.events = append(fr.events, event{kind: evNonRef, off: o + k.anchor})
		g.hasNonRef = true
	case ckUnpos:
		fr.events = append(fr.events, event{kind: evUnpos, off: o, end: o + len(k.text) - 1})
	}
	for _, in := range k.inner {
		if in.native {
			g.pushNative()
			continue
		}
		f := g.push(in.name, w.f)
		base := o
		if in.inSetup {
			base = so
		}
		f.events = append(f.events, event{kind: evRef, off: base + in.off})
	}
	for i := 0; i < k.natives; i++ {
		g.pushNative()
	}
	if k.native {
		f := g.pushNative()
		f.optional = k.nativeOpt
	}
}

func shapesID(l []shape) string {
	if len(l) == 0 {
		return "global"
	}
	p := make([]string, len(l))
	for i, s := range l {
		p[i] = shapeNames[s]
	}
	return strings.Join(p, ">")
}

func showSrc(src string) string { return fmt.Sprintf("%q", src) }

// buildFiles renders the chain as one script per level: level i declares
// function f<i> in file "f<i>.js" (all anonymous when the entry is Run(string));
// the last script is the entry that calls f1. All shapes are declarations.
func (g *gen) buildFiles() []script {
	n := len(g.shapes)
	name := func(i int) string {
		if g.fname == "" {
			return ""
		}
		if i == 0 {
			return g.fname
		}
		return "f" + strconv.Itoa(i) + ".js"
	}
	files := make([]*gfile, n+1)
	bufs := make([]*tbuf, n+1)
	for i := range files {
		files[i] = &gfile{name: name(i)}
		bufs[i] = &tbuf{f: files[i]}
	}
	g.top = files[0]
	top := g.push("", files[0])
	prev := top
	// entry script (run last)
	g.header(bufs[0], top)
	bufs[0].put(g.sep())
	if g.usesEvalLong() {
		bufs[0].put("var EV = " + ox.JSLit(evalLongSrc) + ";" + g.sep())
	}
	for i := 1; i <= n; i++ {
		w := bufs[i]
		// a few lines of different length before the declaration so that equal
		// offsets in different files mean different positions
		for j := 0; j < i; j++ {
			w.put("var pad" + strconv.Itoa(i) + strconv.Itoa(j) + " = " + strconv.Itoa(j) + ";" + g.T())
		}
		w.put("function f" + strconv.Itoa(i) + "(){ ")
		fr := g.push("f"+strconv.Itoa(i), files[i])
		// call site of f<i> in the previous level
		pw := bufs[i-1]
		g.pre(pw, prev, i-1)
		co := pw.put("f" + strconv.Itoa(i) + "(")
		g.argList(pw, prev, false)
		pw.put(");")
		prev.events = append(prev.events, event{kind: evRef, off: co})
		if i > 1 {
			pw.put(" }")
		}
		prev = fr
	}
	g.construct(bufs[n], prev, n)
	if n > 0 {
		bufs[n].put(" }")
	}
	var out []script
	// the declaring scripts run first (they only declare); nop and EV live in the
	// entry script, which is run last and makes the first call
	for i := 1; i <= n; i++ {
		out = append(out, script{name(i), bufs[i].close().src})
	}
	out = append(out, script{name(0), bufs[0].close().src})
	return out
}

func showScripts(l []script) string {
	if len(l) == 1 {
		return showSrc(l[0].src)
	}
	p := make([]string, len(l))
	for i, sc := range l {
		p[i] = fmt.Sprintf("%s=%q", sc.name, sc.src)
	}
	return strings.Join(p, " ; ")
}

// ---------------------------------------------------------------------------
// Argument lists of the call sites
// ---------------------------------------------------------------------------

// argVariants are the argument lists given to every explicit call site of a
// program (call, method call, new, IIFE, ...). Calls made while the arguments
// are evaluated record their own call sites in the same frame first; the frame
// of the caller must still report the start of the callee of the OUTER call.
var argVariants = []string{"none", "call", "call-next-line", "calls", "new", "getter", "method-call", "nested-next-line"}

const (
	argNone = iota
	argCall
	argCallNextLine
	argCalls
	argNew
	argGetter
	argMethodCall
	argNestedNextLine
	nArgVariants
)

func (g *gen) argHelpers() string {
	if g.args == argNone {
		return ""
	}
	return " function id(x){ return x; } var gt = {get p(){ return nop(); }}; var o0 = {id: function(x){ return x; }};"
}

// argList writes the argument list variant into the call being written in w
// and records, in frame fr, the call sites evaluated on the way.
func (g *gen) argList(w *tbuf, fr *frame, more bool) {
	if g.args == argNone {
		return
	}
	if more {
		w.put(", ")
	}
	ref := func(o int) { fr.events = append(fr.events, event{kind: evRef, off: o}) }
	switch g.args {
	case argCall:
		ref(w.put("nop()"))
	case argCallNextLine:
		w.put(g.T() + "  ")
		ref(w.put("nop()"))
	case argCalls:
		ref(w.put("nop(), 1, "))
		o := w.put("id(")
		ref(w.put("nop()"))
		w.put(")")
		ref(o)
	case argNew:
		ref(w.put("new Object()") + 4)
	case argGetter:
		w.put("gt.p") // the getter's own call is recorded in the getter's frame
	case argMethodCall:
		o := w.put("o0.id(")
		ref(w.put("nop()"))
		w.put(")")
		ref(o)
	case argNestedNextLine:
		o := w.put("id(" + g.T())
		n := w.put("new Object(" + g.T())
		ref(w.put("nop()"))
		w.put("))")
		ref(n + 4)
		ref(o)
	}
}

// takesArgs reports whether the call site of shape s has an argument list the
// variants can extend.
func takesArgs(s shape) bool {
	switch s {
	case shDecl, shAnon, shNamed, shMethodDot, shMethodBr, shCtor, shCtorMember, shBound, shCall, shFunction,
		shIIFE, shIIFENamed, shCallResult, shNewCallResult, shCondCallee:
		return true
	}
	return false
}
