package c19

import "strings"

// extraConstructs: constructs added after the independent seeding rounds.
func extraConstructs() []construct {
	var l []construct
	// -----------------------------------------------------------------------
	// callee NAME: a call whose callee is an identifier spelled eval / Function /
	// arguments, bound to something that is not the built-in eval, through a
	// parameter, a local variable, a with object, a catch parameter. Only a call of
	// the real eval through the name eval is a direct eval; everything else is an
	// ordinary call and every active call (also of a native) is listed.
	const throwerSetup = "function thrower(){ zz9; }"
	zz := strings.Index(throwerSetup, "zz9")
	thrower := innerFrame{name: "thrower", off: zz, inSetup: true}
	native := innerFrame{native: true}
	for _, name := range []string{"eval", "Function", "arguments"} {
		for _, t := range []struct {
			id, value, args string
			inner           []innerFrame
			bindCall        bool // the value expression is itself a call (thrower.bind(null))
		}{
			{"native-callback", "JSON.parse", `"1", thrower`, []innerFrame{native, thrower}, false},
			{"host-callback", "host", "thrower", []innerFrame{native, thrower}, false},
			{"user", "thrower", "", []innerFrame{thrower}, false},
			{"bound", "thrower.bind(null)", "", []innerFrame{thrower}, true},
		} {
			call := name + "(" + t.args + ")"
			add := func(binder, text string, kind ckind, anchor int, inner []innerFrame, setup string) {
				k := construct{id: "name-" + name + "-" + binder + "-" + t.id, setup: vars(setup), text: text, anchor: anchor, kind: kind,
					class: "ReferenceError", group: "calleename", inner: inner}
				if t.bindCall {
					if i := strings.Index(text, "thrower.bind"); i >= 0 && i < anchor {
						k.argCalls = []int{i}
					}
				}
				l = append(l, k)
			}
			// with object
			text := "with ({" + name + ": " + t.value + "}) { " + call + "; }"
			add("with", text, ckRef, strings.Index(text, call), t.inner, throwerSetup)
			// catch parameter
			text = "try { throw " + t.value + "; } catch (" + name + ") { " + call + "; }"
			add("catch", text, ckRef, strings.Index(text, call), t.inner, throwerSetup)
			if t.bindCall {
				continue // the remaining binders evaluate the value in another frame
			}
			// parameter of a declared function (its call site is in the setup text)
			setup := throwerSetup + " function run(" + name + "){ return " + call + "; }"
			run := innerFrame{name: "run", off: strings.Index(setup, call), inSetup: true}
			add("param", "run("+t.value+")", ckRef, 0, append([]innerFrame{run}, t.inner...), setup)
			// local variable of a declared function
			setup = throwerSetup + " function runv(){ var " + name + " = " + t.value + "; return " + call + "; }"
			runv := innerFrame{name: "runv", off: strings.Index(setup, call), inSetup: true}
			add("var", "runv()", ckRef, 0, append([]innerFrame{runv}, t.inner...), setup)
		}
	}
	// the with object supplies the receiver: eval spelled callee bound to a generic array method
	for _, m := range []string{"forEach", "map", "some"} {
		text := "with ({eval: []." + m + ", 0: 1, length: 1}) { eval(thrower); }"
		l = append(l, construct{id: "name-eval-with-" + m, setup: vars(throwerSetup), text: text, anchor: strings.Index(text, "eval(thrower"),
			class: "ReferenceError", group: "calleename", inner: []innerFrame{native, thrower}})
	}
	// natives that raise themselves, reached through the name eval
	for _, t := range []struct{ id, value, arg, class string }{
		{"decodeURIComponent", "decodeURIComponent", `"%"`, "URIError"}, {"JSON.parse", "JSON.parse", `"{"`, "SyntaxError"},
		{"Function", "Function", `"var = 1"`, "SyntaxError"}, {"RegExp", "RegExp", `"("`, "SyntaxError"},
	} {
		text := "with ({eval: " + t.value + "}) { eval(" + t.arg + "); }"
		l = append(l, construct{id: "name-eval-with-raises-" + t.id, text: text, anchor: strings.Index(text, "eval("+t.arg), native: true, class: t.class, group: "calleename"})
		setup := "function runr(eval){ return eval(" + t.arg + "); }"
		l = append(l, construct{id: "name-eval-param-raises-" + t.id, setup: vars(setup), text: "runr(" + t.value + ")", native: true, class: t.class, group: "calleename",
			inner: []innerFrame{{name: "runr", off: strings.Index(setup, "eval("+t.arg), inSetup: true}}})
	}

	// -----------------------------------------------------------------------
	// cyclic structures that come into being during the JSON walk (toJSON / replacer / getter)
	l = append(l, construct{id: "json-cyclic-toJSON", setup: vars("var jn = 0, jroot = {}; jroot.c = {toJSON: function(){ return jn++ < 1 ? jroot : 1; }};"),
		text: "JSON.stringify(jroot)", native: true, class: "TypeError", group: "json"})
	l = append(l, construct{id: "json-cyclic-replacer", setup: vars("var jn = 0;"),
		text: "JSON.stringify({}, function(k, v){ return jn++ < 2 ? this : 1; })", native: true, class: "TypeError", group: "json"})
	l = append(l, construct{id: "json-cyclic-getter", setup: segs(s("var jg = {}; "), c(`Object.defineProperty(jg, "g", {enumerable: true, get: function(){ return jg; }})`), s(";")),
		text: "JSON.stringify([jg])", native: true, class: "TypeError", group: "json"})

	// -----------------------------------------------------------------------
	// early errors of eval / Function code that ES5 classifies as ReferenceError (11.13.1, 16)
	l = append(l, construct{id: "eval-invalid-lhs", text: `eval("1 = 2")`, native: true, nativeOpt: true, class: "ReferenceError", group: "invalid-lhs"})
	l = append(l, construct{id: "eval-invalid-lhs-call", text: `eval("nop() = 2")`, native: true, nativeOpt: true, class: "ReferenceError", group: "invalid-lhs-call"})
	l = append(l, construct{id: "new-Function-invalid-lhs", text: `new Function("1 = 2")`, anchor: 4, class: "ReferenceError", group: "invalid-lhs"})
	l = append(l, construct{id: "eval-alias-invalid-lhs", setup: vars("var ev0 = eval;"), text: `ev0("1 = 2")`, natives: 1, class: "ReferenceError", group: "invalid-lhs"})

	// -----------------------------------------------------------------------
	// thrown values whose conversion to a string is itself eventful: Run must still
	// return an error (never let a Go panic out)
	for _, v := range []struct{ id, expr string }{
		{"toString-throws", `{toString: function(){ throw new RangeError("inner"); }}`},
		{"toString-throws-primitive", `{toString: function(){ throw 1; }}`},
		{"no-prototype", `Object.create(null)`},
		{"toString-returns-object", `{toString: function(){ return {}; }, valueOf: function(){ return {}; }}`},
		{"toString-not-callable", `{toString: 1, valueOf: 2}`},
		{"valueOf-fallback", `{toString: null, valueOf: function(){ return "V"; }}`},
		{"function", `function thrown(){}`},
		{"getter-toString", `Object.defineProperty({}, "toString", {get: function(){ throw new TypeError("g"); }})`},
	} {
		l = append(l, construct{id: "throw-" + v.id, text: "throw " + v.expr, nonErr: true, unprintable: strings.Contains(v.id, "throws") || v.id == "no-prototype" ||
			v.id == "toString-returns-object" || v.id == "toString-not-callable" || v.id == "getter-toString", group: "throw-value"})
	}
	return l
}
