// Package c14 checks that the standard library has the ES5 shape: the finite
// table ref/shape is enumerated exhaustively against a fresh runtime, a copy,
// a copy of a copy and a runtime with underscore loaded; the reverse direction
// walks the real object graph and classifies everything not in the table.
package c14

import (
	"fmt"
	"sort"
	"strings"
	"time"

	"github.com/robertkrimen/otto"
	"github.com/robertkrimen/otto/underscore"

	"verif/mc/engine"
	"verif/mc/ox"
	"verif/mc/ref/shape"
)

func init() {
	underscore.Disable()
	// known findings: exact observed values (an alternative model of the recorded deviation)
	engine.RegisterSignature("c14-regexp-prototype-no-data-properties", func(m *engine.Mismatch) bool {
		return m.Family == "protokind" && strings.HasSuffix(m.Key, "/RegExp.prototype/kind") &&
			m.Observed == "[object RegExp],true,source:absent,global:absent,ignoreCase:absent,multiline:absent,lastIndex:absent"
	})
	engine.RegisterSignature("c14-bound-function-own-prototype", func(m *engine.Mismatch) bool {
		return m.Family == "dynfunc" && strings.Contains(m.Key, "prototype") && strings.Contains(m.Key, ".bind(null)") &&
			m.Expected == "false" && m.Observed == "true"
	})
	engine.Register(&engine.Check{
		ID:    "C14",
		Title: "The standard library has the ES5 shape",
		Rule: "finite table of every (owner, property) of ES5 15.1-15.12 x 4 configurations (fresh, Copy, Copy of Copy, underscore loaded), " +
			"each row checked for presence, kind, length, attributes, value, [[Construct]] and a distinguishing call; every row is a distinct non-trivial case. " +
			"Reverse walk: every own property of every object reachable from the global object is classified (table row / extension).",
		Families: []engine.Family{
			{Name: "table", Run: runTable, Solo: true},
			{Name: "objects", Run: runObjects, Solo: true},
			{Name: "reverse", Run: runReverse, Solo: true},
			{Name: "forin", Run: runForIn, Solo: true},
			{Name: "instances", Run: runInstances, Solo: true},
			{Name: "dynfunc", Run: runDynFunc, Solo: true},
			{Name: "identical", Run: runIdentical, Solo: true},
			{Name: "isolation", Run: runIsolation, Solo: true},
			{Name: "copyshape", Run: runCopyShape, Solo: true},
			{Name: "protokind", Run: runProtoKind, Solo: true},
			{Name: "zones", Run: runZones, Solo: true},
		},
		Assumptions: []string{
			"ref/shape is a faithful transcription of ES5.1 section 15 (trusted table)",
			"observations go through Object.getOwnPropertyDescriptor/typeof/Object.prototype.toString of the runtime under test",
		},
	})
}

var configs = []string{"fresh", "copy", "copycopy", "underscore"}

func build(cfg string) *otto.Otto {
	switch cfg {
	case "fresh":
		return otto.New()
	case "copy":
		return otto.New().Copy()
	case "copycopy":
		return otto.New().Copy().Copy()
	case "underscore":
		underscore.Enable()
		defer underscore.Disable()
		return otto.New()
	}
	panic(cfg)
}

const prelude = `
(function(global){
  var gopd = Object.getOwnPropertyDescriptor, ots = Object.prototype.toString;
  var hop = Object.prototype.hasOwnProperty, pie = Object.prototype.propertyIsEnumerable;
  global.__row = function(owner, name) {
    var d = gopd(owner, name);
    if (!d) return "absent";
    var acc = ("get" in d) || ("set" in d);
    var a = (acc ? "A" : (d.writable ? "1" : "0")) + (d.enumerable ? "1" : "0") + (d.configurable ? "1" : "0");
    var v = acc ? undefined : d.value;
    var s = typeof v + ":" + a;
    // every own-property observer must agree with the descriptor
    var names = Object.getOwnPropertyNames(owner), listed = false;
    for (var i = 0; i < names.length; i++) if (names[i] === String(name)) listed = true;
    var keys = Object.keys(owner), keyed = false;
    for (var i = 0; i < keys.length; i++) if (keys[i] === String(name)) keyed = true;
    var obs = [hop.call(owner, name), (name in owner), pie.call(owner, name) === !!d.enumerable, listed, keyed === !!d.enumerable];
    for (var i = 0; i < obs.length; i++) if (obs[i] !== true) s += ":observer" + i + "-disagrees";
    if (typeof v === "function") {
      var ld = gopd(v, "length");
      s += ":len=" + v.length + ":" + (ld ? ((ld.writable ? "1" : "0") + (ld.enumerable ? "1" : "0") + (ld.configurable ? "1" : "0")) : "absent");
      s += ":class=" + ots.call(v);
      s += ":proto=" + (Object.getPrototypeOf(v) === Function.prototype);
    }
    return s;
  };
  global.__ctor = function(f) {
    try { new f(); return "constructs"; } catch (e) {
      return (e instanceof TypeError) ? "TypeError" : "other:" + e;
    }
  };
})(this);
`

func key(cfg string, parts ...string) string { return cfg + "/" + strings.Join(parts, ".") }

func runTable(r *engine.Run) {
	if miss := shape.MissingProbes(); len(miss) > 0 {
		r.HarnessError("table rows without distinguishing call: " + strings.Join(miss, ","))
	}
	r.Bound("rows", fmt.Sprint(len(shape.Rows)))
	r.Bound("configurations", strings.Join(configs, ","))
	for _, cfg := range configs {
		vm := build(cfg)
		if res := ox.Run(vm, prelude); res.Err != nil || res.Panicked {
			r.HarnessError(fmt.Sprintf("prelude failed: %v %v", res.Err, res.PanicVal))
			return
		}
		for _, row := range shape.Rows {
			k := key(cfg, row.Owner, row.Name)
			if !r.MineKey(k) {
				continue
			}
			r.Begin(k)
			checkRow(r, vm, cfg, k, row)
			r.End()
			r.Eval(true)
		}
	}
}

func checkRow(r *engine.Run, vm *otto.Otto, cfg, k string, row shape.Row) {
	src := fmt.Sprintf("__row(%s, %q)", row.Owner, row.Name)
	res := ox.Run(vm, src)
	obs := ""
	switch {
	case res.Panicked:
		obs = fmt.Sprint("panic: ", res.PanicVal)
	case res.Err != nil:
		obs = "error: " + res.Err.Error()
	default:
		obs, _ = res.Value.ToString()
	}
	exp := row.Kind + ":" + row.Attrs
	if row.Kind == "function" && row.Len >= 0 {
		exp += fmt.Sprintf(":len=%d:000:class=[object Function]:proto=true", row.Len)
	} else if row.Kind == "function" {
		// "constructor" back-links: only kind and attributes
		if i := strings.Index(obs, ":len="); i >= 0 {
			obs = obs[:i]
		}
	}
	if r.WantSample() {
		r.Sample(src + " => " + obs)
	}
	r.Outcome(obs)
	r.Check(k, src, exp, obs)

	if row.Value != "" {
		vs := fmt.Sprintf("(function(a, b) { return a === b || (a !== a && b !== b) })(%s[%q], %s)", row.Owner, row.Name, row.Value)
		vr := ox.Run(vm, vs)
		o := "error"
		if vr.Err == nil && !vr.Panicked {
			o, _ = vr.Value.ToString()
		}
		r.Check(k+"#value", vs, "true", o)
	}
	if row.Kind == "function" && row.Len >= 0 {
		cs := fmt.Sprintf("__ctor(%s[%q])", row.Owner, row.Name)
		cr := ox.Run(vm, cs)
		o := "error"
		if cr.Err == nil && !cr.Panicked {
			o, _ = cr.Value.ToString()
		}
		want := "TypeError"
		if row.Ctor {
			want = "constructs"
		}
		if row.Ctor && o != "constructs" {
			// constructors may legitimately throw on missing arguments; none of ES5's do
			r.Check(k+"#construct", cs, want, o)
		} else if !row.Ctor {
			r.Check(k+"#construct", cs, want, o)
		}
	}
	if row.Probe != "" {
		// Each probe runs on a private copy-free scope: wrap in a function via eval-less
		// completion value of the program.
		pr := ox.Run(vm, row.Probe)
		o := ""
		switch {
		case pr.Panicked:
			o = fmt.Sprint("panic: ", pr.PanicVal)
		case pr.Err != nil:
			o = "error: " + pr.Err.Error()
		default:
			o, _ = pr.Value.ToString()
		}
		r.Check(k+"#probe", row.Probe, row.Want, o)
	}
}

func runObjects(r *engine.Run) {
	for _, cfg := range configs {
		vm := build(cfg)
		for _, o := range shape.Objects {
			if o.Class == "" {
				continue
			}
			k := key(cfg, o.Expr)
			if !r.MineKey(k) {
				continue
			}
			src := fmt.Sprintf(`Object.prototype.toString.call(%s) + "|" + (Object.getPrototypeOf(%s) === %s) + "|" + (typeof %s === "function") + "|" + Object.isExtensible(%s)`,
				o.Expr, o.Expr, o.Proto, o.Expr, o.Expr)
			res := ox.Run(vm, src)
			obs := "error"
			if res.Err == nil && !res.Panicked {
				obs, _ = res.Value.ToString()
			} else if res.Err != nil {
				obs = "error: " + res.Err.Error()
			}
			exp := fmt.Sprintf("[object %s]|true|%v|true", o.Class, o.Callable)
			r.Eval(true)
			r.Outcome(obs)
			if r.WantSample() {
				r.Sample(o.Expr + " => " + obs)
			}
			r.Check(k, src, exp, obs)
		}
	}
}

// reverse direction: BFS over the real graph; each own property of a reachable
// intrinsic is either a table row or an extension; extensions must be
// non-enumerable (so that for-in never shows a built-in).
const walkSrc = `
(function(global){
  // Everything the walk needs is captured here, so that it still works after a script has
  // deleted or replaced built-ins (no method calls on possibly edited prototypes).
  var gopn = Object.getOwnPropertyNames, gopd = Object.getOwnPropertyDescriptor, gpo = Object.getPrototypeOf;
  var isExt = Object.isExtensible, isSealed = Object.isSealed, isFrozen = Object.isFrozen;
  return function() {
    var seen = [], paths = [], nSeen = 0, out = "", first = true;
    function emit(line) { out += (first ? "" : "\n") + line; first = false; }
    function visit(o, path) {
      if (o === null || (typeof o !== "object" && typeof o !== "function")) return;
      for (var i = 0; i < nSeen; i++) if (seen[i] === o) return;
      seen[nSeen] = o; paths[nSeen] = path; nSeen++;
    }
    visit(global, "this");
    for (var i = 0; i < nSeen; i++) {
      var o = seen[i], path = paths[i];
      var names = gopn(o);
      for (var j = 0; j < names.length; j++) {
        var n = names[j];
        if (n[0] === "_" && n[1] === "_") continue;
        var d = gopd(o, n);
        var acc = ("get" in d) || ("set" in d);
        emit(path + "\t" + n + "\t" + (acc ? "accessor" : typeof d.value) + "\t" + (acc ? "A" : (d.writable ? 1 : 0)) + (d.enumerable ? 1 : 0) + (d.configurable ? 1 : 0) + "\t" + (acc ? (typeof d.get === "function" ? "g" : "-") + (typeof d.set === "function" ? "s" : "-") : (typeof d.value === "function" ? d.value.length : "")));
        var child = path === "this" ? n : path + "." + n;
        if (!acc) visit(d.value, child);
        else { visit(d.get, child + "<get>"); visit(d.set, child + "<set>"); }
      }
      emit(path + "\t[[Extensible]]\t" + isExt(o) + "\t" + (isSealed(o) ? "sealed" : "") + (isFrozen(o) ? "frozen" : "") + "\t");
      visit(gpo(o), path + ".[[Prototype]]");
    }
    return out;
  };
})(this)
`

// installWalk puts the walker closure into the runtime (global __walk, skipped by the walk itself).
func installWalk(vm *otto.Otto) error {
	res := ox.Run(vm, "this.__walk = "+walkSrc+"; 0")
	if res.Panicked {
		return fmt.Errorf("panic: %v", res.PanicVal)
	}
	return res.Err
}

func walk(vm *otto.Otto) ([]string, error) {
	if v, err := vm.Get("__walk"); err != nil || !v.IsFunction() {
		if err := installWalk(vm); err != nil {
			return nil, err
		}
	}
	res := ox.Guard(func() (otto.Value, error) {
		f, err := vm.Get("__walk")
		if err != nil {
			return otto.Value{}, err
		}
		return f.Call(otto.UndefinedValue())
	})
	if res.Panicked {
		return nil, fmt.Errorf("panic: %v", res.PanicVal)
	}
	if res.Err != nil {
		return nil, res.Err
	}
	s, _ := res.Value.ToString()
	return strings.Split(s, "\n"), nil
}

func runReverse(r *engine.Run) {
	inTable := map[string]bool{}
	for _, row := range shape.Rows {
		inTable[row.Owner+"\t"+row.Name] = true
	}
	for _, cfg := range []string{"fresh", "copy"} {
		vm := build(cfg)
		lines, err := walk(vm)
		if err != nil {
			r.Mismatch(engine.Mismatch{Key: cfg + "/walk", Input: "graph walk", Expected: "walk completes", Observed: err.Error()})
			continue
		}
		ext := 0
		objs := map[string]bool{}
		for _, l := range lines {
			f := strings.Split(l, "\t")
			if len(f) < 5 {
				continue
			}
			objs[f[0]] = true
			if f[1] == "[[Extensible]]" {
				continue
			}
			k := key(cfg, f[0], f[1])
			if !r.MineKey(k) {
				continue
			}
			r.Eval(true)
			r.Tree(1, 1)
			if inTable[f[0]+"\t"+f[1]] {
				continue
			}
			// function own properties every function object has (15.3.5): length, prototype (constructors)
			if f[1] == "length" || f[1] == "prototype" || f[1] == "constructor" || f[1] == "name" || f[1] == "caller" || f[1] == "arguments" {
				if f[3][1] == '1' {
					r.Mismatch(engine.Mismatch{Key: k, Input: l, Expected: "non-enumerable", Observed: "enumerable " + f[3]})
				}
				continue
			}
			ext++
			r.Outcome(f[0] + "." + f[1])
			if r.WantSample() {
				r.Sample("extension: " + f[0] + "." + f[1] + " " + f[2] + " " + f[3])
			}
			// Extensions on intrinsic objects must not be enumerable; extensions on the
			// global object (console) are host-defined globals and may be anything.
			if f[0] != "this" && f[3][1] == '1' {
				r.Mismatch(engine.Mismatch{Key: k, Input: l, Expected: "extension is non-enumerable", Observed: "enumerable " + f[3]})
			}
		}
		r.Note(fmt.Sprintf("%s: %d reachable objects, %d own properties, %d extensions beyond ES5 section 15", cfg, len(objs), len(lines), ext))
	}
}

func runForIn(r *engine.Run) {
	subjects := []struct{ expr, want string }{
		{`({})`, ""}, {`({a:1,b:2})`, "a,b"}, {`[]`, ""}, {`[1]`, "0"}, {`[1,2]`, "0,1"}, {`"ab"`, "0,1"}, {`new String("ab")`, "0,1"},
		{`(function(){})`, ""}, {`(function(){return arguments})(7)`, "0"}, {`new Date(0)`, ""},
		{`/a/g`, ""}, {`new Number(1)`, ""}, {`new Boolean(true)`, ""}, {`Math`, ""}, {`JSON`, ""}, {`Object.create({})`, ""},
		{`Object.create(Array.prototype)`, ""}, {`Object.create(String.prototype)`, ""}, {`Object.create(Function.prototype)`, ""},
		{`Object.create(Date.prototype)`, ""}, {`Object.create(RegExp.prototype)`, ""}, {`Object.create(Error.prototype)`, ""},
		{`Object.create(Number.prototype)`, ""}, {`Object.create(Boolean.prototype)`, ""}, {`Object.create(TypeError.prototype)`, ""},
		{`(function(){}).bind(null)`, ""}, {`Object`, ""}, {`Array`, ""}, {`String`, ""}, {`Number`, ""}, {`Date`, ""}, {`RegExp`, ""}, {`Error`, ""}, {`Function`, ""}, {`Boolean`, ""},
	}
	// String subjects over the code-unit classes: every string of length <= 3 over one character per
	// UTF-8 width (1, 2, 3 bytes) plus an astral pair (4 bytes, 2 UTF-16 units) and NUL, as a primitive
	// and as a String object: for-in shows exactly the index names 0..units-1 (ES5 15.5.5.2), nothing else.
	units := []struct {
		lit string
		n   int
	}{{"a", 1}, {`\u00e9`, 1}, {`\u20ac`, 1}, {`\ud83d\ude00`, 2}, {`\u0000`, 1}}
	var gen func(lit string, n, depth int)
	gen = func(lit string, n, depth int) {
		if depth > 0 {
			idx := make([]string, n)
			for i := range idx {
				idx[i] = fmt.Sprint(i)
			}
			want := strings.Join(idx, ",")
			subjects = append(subjects, struct{ expr, want string }{`"` + lit + `"`, want}, struct{ expr, want string }{`new String("` + lit + `")`, want},
				struct{ expr, want string }{`Object.keys(new String("` + lit + `"))`, want})
		}
		if depth == 3 {
			return
		}
		for _, u := range units {
			gen(lit+u.lit, n+u.n, depth+1)
		}
	}
	gen("", 0, 0)
	r.Bound("forin.string_subjects", "every string of length <= 3 over {1-, 2-, 3-byte, astral pair, NUL} x {primitive, String object, Object.keys}")
	for _, cfg := range configs {
		vm := build(cfg)
		for _, s := range subjects {
			k := key(cfg, s.expr)
			if !r.MineKey(k) {
				continue
			}
			src := fmt.Sprintf(`(function(o){ var k = []; for (var n in o) k.push(n); return k.join(); })(%s)`, s.expr)
			if strings.HasPrefix(s.expr, "Object.keys(") {
				src = fmt.Sprintf(`%s.join()`, s.expr)
			}
			res := ox.Run(vm, src)
			obs := "error"
			if res.Err == nil && !res.Panicked {
				obs, _ = res.Value.ToString()
			} else if res.Err != nil {
				obs = "error: " + res.Err.Error()
			}
			r.Eval(true)
			r.Outcome(obs)
			if r.WantSample() {
				r.Sample(s.expr + " for-in => [" + obs + "]")
			}
			r.Check(k, src, s.want, obs)
		}
	}
}

func runIdentical(r *engine.Run) {
	dumps := map[string]string{}
	for _, cfg := range []string{"fresh", "fresh2", "copy", "copycopy"} {
		c := cfg
		if c == "fresh2" {
			c = "fresh"
		}
		vm := build(c)
		lines, err := walk(vm)
		if err != nil {
			r.Mismatch(engine.Mismatch{Key: cfg + "/walk", Input: "graph walk", Expected: "walk completes", Observed: err.Error()})
			continue
		}
		sort.Strings(lines)
		dumps[cfg] = strings.Join(lines, "\n")
		r.Eval(true)
	}
	base := dumps["fresh"]
	for _, cfg := range []string{"fresh2", "copy", "copycopy"} {
		if !r.MineKey("identical/" + cfg) {
			continue
		}
		d, ok := dumps[cfg]
		if !ok {
			continue
		}
		if d != base {
			r.Mismatch(engine.Mismatch{Key: "identical/" + cfg, Input: "shape dump of " + cfg + " vs fresh", Expected: "identical", Observed: firstDiff(base, d)})
		}
		r.Outcome(fmt.Sprint(len(d)))
	}
	if r.WantSample() {
		r.Sample(fmt.Sprintf("shape dump: %d lines", strings.Count(base, "\n")+1))
	}
}

func firstDiff(a, b string) string {
	la, lb := strings.Split(a, "\n"), strings.Split(b, "\n")
	ma := map[string]bool{}
	for _, l := range la {
		ma[l] = true
	}
	mb := map[string]bool{}
	for _, l := range lb {
		mb[l] = true
	}
	var out []string
	for _, l := range la {
		if !mb[l] {
			out = append(out, "-"+l)
		}
	}
	for _, l := range lb {
		if !ma[l] {
			out = append(out, "+"+l)
		}
	}
	if len(out) > 6 {
		out = out[:6]
	}
	return strings.Join(out, " ; ")
}

// instance shapes (15.3.5, 15.4.5, 15.5.5, 15.10.7): own properties every instance carries.
func runInstances(r *engine.Run) {
	rows := []struct{ expr, name, want string }{
		{`[1,2]`, "length", "number:100"}, {`new Array(3)`, "length", "number:100"},
		{`new String("ab")`, "length", "number:000"}, {`new String("ab")`, "0", "string:010"},
		{`(function(a,b){})`, "length", "number:000"}, {`(function(a,b){})`, "prototype", "object:100"},
		{`new Function("a", "return a")`, "length", "number:000"}, {`new Function("a", "return a")`, "prototype", "object:100"},
		{`(function(){}).prototype`, "constructor", "function:101"},
		{`/a/g`, "source", "string:000"}, {`/a/g`, "global", "boolean:000"}, {`/a/g`, "ignoreCase", "boolean:000"},
		{`/a/g`, "multiline", "boolean:000"}, {`/a/g`, "lastIndex", "number:100"},
		{`new RegExp("a")`, "source", "string:000"}, {`new RegExp("a")`, "lastIndex", "number:100"},
		{`(function(){return arguments})(1)`, "length", "number:101"}, {`(function(){return arguments})(1)`, "callee", "function:101"},
		{`(function(){return arguments})(1)`, "0", "number:111"},
		{`(function(a){}).bind(null)`, "length", "number:000"},
	}
	for _, cfg := range configs {
		vm := build(cfg)
		if res := ox.Run(vm, prelude); res.Err != nil || res.Panicked {
			r.HarnessError("prelude failed")
			return
		}
		for _, row := range rows {
			k := key(cfg, row.expr, row.name)
			if !r.MineKey(k) {
				continue
			}
			src := fmt.Sprintf("__row(%s, %q)", row.expr, row.name)
			res := ox.Run(vm, src)
			obs := "error"
			if res.Err == nil && !res.Panicked {
				obs, _ = res.Value.ToString()
			} else if res.Err != nil {
				obs = "error: " + res.Err.Error()
			}
			if i := strings.Index(obs, ":len="); i >= 0 {
				obs = obs[:i]
			}
			r.Eval(true)
			r.Outcome(obs)
			if r.WantSample() {
				r.Sample(src + " => " + obs)
			}
			r.Check(k, src, row.want, obs)
		}
	}
}

// isolation: "every fresh runtime and every copy has the identical shape" must hold whatever
// other runtimes did before: runtime A deletes / redefines / adds properties on every intrinsic
// (one victim per owner per round, so that in-place edits of shared tables shift something),
// then a runtime created afterwards and a copy of a pristine template taken before must still
// produce the baseline shape dump and pass the table.
const vandalSrc = `
(function(global){
  // capture everything first: the vandal deletes built-ins, including the ones it uses
  var gopd = Object.getOwnPropertyDescriptor, gopn = Object.getOwnPropertyNames, gpo = Object.getPrototypeOf, dp = Object.defineProperty;
  var owners = [], nOwners = 0;
  function visit(o) {
    if (o === null || (typeof o !== "object" && typeof o !== "function")) return;
    for (var i = 0; i < nOwners; i++) if (owners[i] === o) return;
    owners[nOwners++] = o;
  }
  visit(global);
  for (var i = 0; i < nOwners; i++) {
    var o = owners[i], names = gopn(o);
    for (var j = 0; j < names.length; j++) {
      var d = gopd(o, names[j]);
      if (d && !("get" in d) && !("set" in d)) visit(d.value);
    }
    visit(gpo(o));
  }
  var n = 0;
  for (var round = 0; round < ROUNDS; round++) {
    for (var i = 0; i < nOwners; i++) {
      var o = owners[i];
      if (o === global) continue;
      var names = gopn(o);
      for (var j = 0; j + 1 < names.length; j++) {
        var d = gopd(o, names[j]);
        if (d && d.configurable) { try { if (delete o[names[j]]) { n++; break; } } catch (e) {} }
      }
      try { o["__vandal" + round] = round; n++; } catch (e) {}
      names = gopn(o);
      for (var j = names.length - 1; j >= 0; j--) {
        var d = gopd(o, names[j]);
        if (d && d.configurable && names[j][0] !== "_") {
          try { dp(o, names[j], {enumerable: true}); n++; } catch (e) {}
          break;
        }
      }
    }
  }
  return n;
})(this)
`

func runIsolation(r *engine.Run) {
	base := otto.New()
	baseLines, err := walk(base)
	if err != nil {
		r.HarnessError("baseline walk failed: " + err.Error())
		return
	}
	sort.Strings(baseLines)
	baseline := strings.Join(baseLines, "\n")
	template := otto.New()
	for _, rounds := range []int{1, 2, 3} {
		victim := otto.New()
		if rounds == 3 {
			victim = template.Copy() // vandalise a copy: the template and later copies must not notice
		}
		res := ox.Run(victim, strings.Replace(vandalSrc, "ROUNDS", fmt.Sprint(rounds), 1))
		if res.Panicked || res.Err != nil {
			r.Mismatch(engine.Mismatch{Key: fmt.Sprintf("vandal/%d", rounds), Input: "vandal script", Expected: "runs", Observed: fmt.Sprint(res.Err, res.PanicVal)})
			continue
		}
		edits, _ := res.Value.ToInteger()
		subjects := map[string]*otto.Otto{"fresh-after": otto.New(), "copy-of-pristine-template": template.Copy(), "template-itself": template}
		names := []string{"fresh-after", "copy-of-pristine-template", "template-itself"}
		for _, name := range names {
			k := fmt.Sprintf("isolation/%d/%s", rounds, name)
			if !r.MineKey(k) {
				continue
			}
			lines, err := walk(subjects[name])
			obs := ""
			if err != nil {
				obs = "walk failed: " + err.Error()
			} else {
				sort.Strings(lines)
				if d := strings.Join(lines, "\n"); d != baseline {
					obs = firstDiff(baseline, d)
					if obs == "" {
						obs = "dump differs (duplicate lines)"
					}
				}
			}
			r.Eval(true)
			r.Outcome(fmt.Sprint(rounds, name, obs == ""))
			if r.WantSample() {
				r.Sample(fmt.Sprintf("%d edits on every intrinsic of another runtime, then shape dump of %s", edits, name))
			}
			r.Check(k, fmt.Sprintf("runtime A applied %d deletes/adds/redefinitions to its intrinsics; shape dump of %s", edits, name), "", obs)
		}
	}
}

// copyshape: "every copy has the identical shape" also after a history on the source runtime:
// whatever the template's intrinsics look like (hardened, edited, vandalised), Copy() and
// Copy().Copy() must reproduce exactly that shape, extensibility flags included.
func runCopyShape(r *engine.Run) {
	histories := []struct{ name, src string }{
		{"pristine", `0`},
		{"hardened", `Object.freeze(Math); Object.seal(JSON); Object.preventExtensions(Array.prototype); Object.freeze(String.prototype); Object.seal(Object); Object.preventExtensions(Function.prototype); Object.preventExtensions(this); 0`},
		{"hardened-functions", `Object.freeze(parseInt); Object.seal(Array.prototype.push); Object.preventExtensions(Error); Object.freeze(RegExp.prototype); Object.seal(Date.prototype); 0`},
		{"edited", `delete Array.prototype.concat; Math.extra = 1; Object.defineProperty(String.prototype, "trim", {enumerable: true}); Object.defineProperty(JSON, "parse", {writable: false}); Number.prototype.toFixed = function(){ return "x" }; 0`},
		{"accessors", `Object.defineProperty(Math, "max", {set: function(v){ this.__m = v }, configurable: true}); Object.defineProperty(Array.prototype, "only_set", {set: function(v){}, configurable: true}); Object.defineProperty(Array.prototype, "only_get", {get: function(){ return 1 }, enumerable: true, configurable: true}); Object.defineProperty(String.prototype, "both", {get: function(){ return 2 }, set: function(v){}, configurable: false}); Object.defineProperty(JSON, "neither", {get: undefined, set: undefined, configurable: true}); Object.defineProperty(this, "gacc", {set: function(v){}, configurable: true}); 0`},
		{"vandal-1", strings.Replace(vandalSrc, "ROUNDS", "1", 1)},
		{"vandal-2", strings.Replace(vandalSrc, "ROUNDS", "2", 1)},
	}
	for _, h := range histories {
		t := otto.New()
		if err := installWalk(t); err != nil {
			r.HarnessError("installWalk: " + err.Error())
			return
		}
		if res := ox.Run(t, h.src); res.Panicked || res.Err != nil {
			r.Mismatch(engine.Mismatch{Key: "copyshape/" + h.name + "/history", Input: h.src, Expected: "runs", Observed: fmt.Sprint(res.Err, res.PanicVal)})
			continue
		}
		want, err := walk(t)
		if err != nil {
			r.Mismatch(engine.Mismatch{Key: "copyshape/" + h.name + "/walk", Input: h.name, Expected: "walk completes", Observed: err.Error()})
			continue
		}
		sort.Strings(want)
		base := strings.Join(want, "\n")
		c1 := t.Copy()
		c2 := c1.Copy()
		for _, sub := range []struct {
			name string
			vm   *otto.Otto
		}{{"copy", c1}, {"copycopy", c2}, {"template-after-copy", t}} {
			k := "copyshape/" + h.name + "/" + sub.name
			if !r.MineKey(k) {
				continue
			}
			obs := ""
			lines, err := walk(sub.vm)
			if err != nil {
				obs = "walk failed: " + err.Error()
			} else {
				sort.Strings(lines)
				if d := strings.Join(lines, "\n"); d != base {
					obs = firstDiff(base, d)
					if obs == "" {
						obs = "dump differs (duplicate lines)"
					}
				}
			}
			r.Eval(true)
			r.Outcome(h.name + sub.name + fmt.Sprint(obs == ""))
			if r.WantSample() {
				r.Sample("history " + h.name + ": shape dump of " + sub.name + " vs the template")
			}
			r.Check(k, "template history: "+h.name+"; shape dump (with [[Extensible]]/sealed/frozen per object) of "+sub.name, "", obs)
		}
	}
}

// dynfunc: the own properties of dynamically created function objects (13.2, 15.3.2.1, 15.3.4.5,
// 15.3.5): length values incl. bound functions (max(0, L - n)), prototype/constructor links.
func runDynFunc(r *engine.Run) {
	rows := []struct{ expr, want string }{
		{`(function(){}).length`, "0"}, {`(function(a,b,c){}).length`, "3"},
		{`new Function("a", "b", "return a").length`, "2"}, {`new Function("a,b", "c", "return a").length`, "3"}, {`Function().length`, "0"},
		{`(function(a,b,c){}).bind(null).length`, "3"}, {`(function(a,b,c){}).bind(null, 1).length`, "2"},
		{`(function(a,b,c){}).bind(null, 1, 2, 3).length`, "0"}, {`(function(a){}).bind(null, 1, 2).length`, "0"},
		{`(function(){}).bind(null, 1).length`, "0"}, {`Math.max.bind(null, 1, 2, 3).length`, "0"}, {`Math.max.bind(null, 1).length`, "1"},
		{`Array.bind(null, 1, 2, 3).length`, "0"}, {`Date.bind(null, 1, 2).length`, "5"}, {`String.prototype.concat.bind("s", "a", "b").length`, "0"},
		{`(function(a,b){}).bind(null, 1).bind(null, 2, 3).length`, "0"}, {`(function(a,b,c,d){}).bind(null, 1).bind(null, 2).length`, "2"},
		{`typeof (function(){}).bind(null)`, "function"},
		{`Object.prototype.toString.call((function(){}).bind(null))`, "[object Function]"},
		{`Object.getPrototypeOf((function(){}).bind(null)) === Function.prototype`, "true"},
		{`(function(){ var f = function(){}; return f.prototype.constructor === f && Object.getPrototypeOf(f.prototype) === Object.prototype })()`, "true"},
		{`(function(){ var f = new Function("return 1"); return f.prototype.constructor === f })()`, "true"},
		{`(function(){ function F(a){ this.a = a } var B = F.bind(null, 7); var o = new B(); return (o instanceof F) + "|" + o.a + "|" + (o instanceof B) })()`, "true|7|true"},
		// 15.3.4.5: bound functions have no "prototype" property (NOTE at the end of the clause);
		// "caller" and "arguments" are [[ThrowTypeError]] accessors (steps 20-21)
		{`(function(){}).bind(null).hasOwnProperty("prototype")`, "false"},
		{`("prototype" in Math.max.bind(null))`, "false"},
		{`(function(){ var b = (function(){}).bind(null), r = []; try { b.caller; r.push("read") } catch (e) { r.push(e.name) } try { b.caller = 1; r.push("written") } catch (e) { r.push(e.name) } try { b.arguments; r.push("read") } catch (e) { r.push(e.name) } try { b.arguments = 1; r.push("written") } catch (e) { r.push(e.name) } return r.join() })()`, "TypeError,TypeError,TypeError,TypeError"},
		{`(function(){ var b = (function(){}).bind(null), c = Object.getOwnPropertyDescriptor(b, "caller"), a = Object.getOwnPropertyDescriptor(b, "arguments"); return [typeof c.get, c.get === c.set, c.get === a.get, c.enumerable, c.configurable, a.enumerable, a.configurable].join() })()`, "function,true,true,false,false,false,false"},
		// 15.3.5.3 [[HasInstance]]: a primitive left operand gives false before "prototype" is looked at;
		// an object left operand with a non-object "prototype" is a TypeError
		{`[1 instanceof parseInt, "x" instanceof Function.prototype, null instanceof Math.max, undefined instanceof (function(){}).bind(null), 1 instanceof Number, (function(){ function F(){} F.prototype = 5; return 1 instanceof F })()].join()`, "false,false,false,false,false,false"},
		{`(function(){ var r = []; try { r.push(({}) instanceof parseInt) } catch (e) { r.push(e.name) } try { function F(){} F.prototype = 5; r.push(({}) instanceof F) } catch (e) { r.push(e.name) } try { r.push(({}) instanceof Math) } catch (e) { r.push(e.name) } return r.join() })()`, "TypeError,TypeError,TypeError"},
		{`(function(){ return arguments.length })(1, 2, 3)`, "3"}, {`(function(a){ return arguments.callee.length })()`, "1"},
	}
	for _, cfg := range configs {
		vm := build(cfg)
		for _, row := range rows {
			k := key(cfg, row.expr)
			if !r.MineKey(k) {
				continue
			}
			res := ox.Run(vm, "String("+row.expr+")")
			obs := "error"
			switch {
			case res.Panicked:
				obs = fmt.Sprint("panic: ", res.PanicVal)
			case res.Err != nil:
				obs = "error: " + res.Err.Error()
			default:
				obs, _ = res.Value.ToString()
			}
			r.Eval(true)
			r.Outcome(obs)
			if r.WantSample() {
				r.Sample(row.expr + " => " + obs)
			}
			r.Check(k, row.expr, row.want, obs)
		}
	}
}

// protokind: "each of the specified kind" for the prototype objects themselves. ES5 15.x.4 opens
// every prototype section with the kind of the prototype object: Array.prototype is itself an
// array (exotic length, 15.4.4), String.prototype a String object whose value is "" (15.5.4),
// Boolean.prototype a Boolean object whose value is false (15.6.4), Number.prototype a Number
// object whose value is +0 (15.7.4), Date.prototype a Date object whose time value is NaN
// (15.9.5), Function.prototype a function that accepts any arguments and returns undefined
// (15.3.4), RegExp.prototype a regular expression whose data properties are those of new RegExp()
// (15.10.6), Error.prototype an Error object (15.11.4); Math and JSON are neither callable nor
// constructible (15.8, 15.12). Behavioural probes, each on a runtime of its own (the probes
// write to the intrinsics), in every configuration.
var protoKindRows = []struct{ name, src, want string }{
	{"Array.prototype/index-write-extends-length", `var P = Array.prototype; P[2] = "x"; var a = P.length; delete P[2]; P.length = 0; a`, "3"},
	{"Array.prototype/length-write-truncates", `var P = Array.prototype; P[0] = 1; P[1] = 2; P[2] = 3; P.length = 1; var r = [P.hasOwnProperty("0"), P.hasOwnProperty("1"), P.hasOwnProperty("2"), P.length].join(); P.length = 0; r`, "true,false,false,1"},
	{"Array.prototype/isArray", `[Array.isArray(Array.prototype), Object.prototype.toString.call(Array.prototype), Array.prototype.length].join()`, "true,[object Array],0"},
	{"Array.prototype/as-receiver", `var P = Array.prototype; P.push("a", "b"); var r = [P.length, P.join("-"), [].concat(P).length].join(); P.length = 0; r + "," + (0 in [])`, "2,a-b,2,false"},
	{"Array.prototype/bad-length", `try { Array.prototype.length = -1; "no error" } catch (e) { e.name }`, "RangeError"},
	{"String.prototype/value", `[String.prototype.valueOf() === "", String.prototype.toString() === "", String.prototype.length, Object.prototype.toString.call(String.prototype), String.prototype.charAt(0) === ""].join()`, "true,true,0,[object String],true"},
	{"Boolean.prototype/value", `[Boolean.prototype.valueOf() === false, Boolean.prototype.toString(), Object.prototype.toString.call(Boolean.prototype)].join()`, "true,false,[object Boolean]"},
	{"Number.prototype/value", `[Number.prototype.valueOf() === 0, 1 / Number.prototype.valueOf(), Number.prototype.toString(), Object.prototype.toString.call(Number.prototype)].join()`, "true,Infinity,0,[object Number]"},
	{"Date.prototype/value", `[isNaN(Date.prototype.getTime()), isNaN(Date.prototype.valueOf()), isNaN(Date.prototype.getFullYear()), isNaN(Date.prototype.getUTCDay()), Object.prototype.toString.call(Date.prototype)].join()`, "true,true,true,true,[object Date]"},
	{"Function.prototype/callable", `[typeof Function.prototype, Function.prototype(), Function.prototype(1, 2, 3), Function.prototype.call({}, 1), Function.prototype.length, Object.prototype.toString.call(Function.prototype), Object.getPrototypeOf(Function.prototype) === Object.prototype].join()`, "function,,,,0,[object Function],true"},
	{"Error.prototype/kind", `[Object.prototype.toString.call(Error.prototype), Error.prototype.name, Error.prototype.message === "", Error.prototype.toString(), Object.getPrototypeOf(Error.prototype) === Object.prototype].join()`, "[object Error],Error,true,Error,true"},
	{"NativeError.prototype/kind", `var out = [], L = [EvalError, RangeError, ReferenceError, SyntaxError, TypeError, URIError]; for (var i = 0; i < L.length; i++) { var P = L[i].prototype; out.push([Object.prototype.toString.call(P), P.name, P.message === "", Object.getPrototypeOf(P) === Error.prototype, Object.getPrototypeOf(L[i]) === Function.prototype].join(":")); } out.join()`,
		"[object Error]:EvalError:true:true:true,[object Error]:RangeError:true:true:true,[object Error]:ReferenceError:true:true:true,[object Error]:SyntaxError:true:true:true,[object Error]:TypeError:true:true:true,[object Error]:URIError:true:true:true"},
	{"RegExp.prototype/kind", `var P = RegExp.prototype, n = new RegExp(), r = [Object.prototype.toString.call(P), P.test("x")], names = ["source", "global", "ignoreCase", "multiline", "lastIndex"]; for (var i = 0; i < names.length; i++) { var d = Object.getOwnPropertyDescriptor(P, names[i]), e = Object.getOwnPropertyDescriptor(n, names[i]); r.push(names[i] + ":" + (d ? [d.value === e.value, d.writable === e.writable, d.enumerable, d.configurable].join("/") : "absent")); } r.join()`,
		"[object RegExp],true,source:true/true/false/false,global:true/true/false/false,ignoreCase:true/true/false/false,multiline:true/true/false/false,lastIndex:true/true/false/false"},
	{"Object.prototype/kind", `[Object.getPrototypeOf(Object.prototype) === null, Object.isExtensible(Object.prototype), Object.prototype.toString.call(Object.prototype)].join()`, "true,true,[object Object]"},
	{"Math/not-a-function", `var r = [typeof Math, Object.prototype.toString.call(Math), Object.getPrototypeOf(Math) === Object.prototype]; try { Math(); r.push("called") } catch (e) { r.push(e.name) } try { new Math; r.push("constructed") } catch (e) { r.push(e.name) } r.join()`, "object,[object Math],true,TypeError,TypeError"},
	{"JSON/not-a-function", `var r = [typeof JSON, Object.prototype.toString.call(JSON), Object.getPrototypeOf(JSON) === Object.prototype]; try { JSON(); r.push("called") } catch (e) { r.push(e.name) } try { new JSON; r.push("constructed") } catch (e) { r.push(e.name) } r.join()`, "object,[object JSON],true,TypeError,TypeError"},
	{"global/kind", `var g = this; var r = [typeof g, Object.isExtensible(g)]; try { g(); r.push("called") } catch (e) { r.push(e.name) } try { new g; r.push("constructed") } catch (e) { r.push(e.name) } r.join()`, "object,true,TypeError,TypeError"},
}

func runProtoKind(r *engine.Run) {
	r.Bound("protokind_rows", fmt.Sprint(len(protoKindRows)))
	for _, cfg := range configs {
		for _, row := range protoKindRows {
			k := key(cfg, row.name)
			if !r.MineKey(k) {
				continue
			}
			r.Begin(k)
			vm := build(cfg)
			res := ox.Run(vm, row.src)
			r.End()
			obs := ""
			switch {
			case res.Panicked:
				obs = fmt.Sprint("panic: ", res.PanicVal)
			case res.Err != nil:
				obs = "error: " + res.Err.Error()
			default:
				obs, _ = res.Value.ToString()
			}
			r.Eval(true)
			r.Outcome(obs)
			if r.WantSample() {
				r.Sample(row.src + " => " + obs)
			}
			r.Check(k, row.src, row.want, obs)
		}
	}
}

// zones: the distinguishing calls of the Date rows separate a local-time operation from its UTC
// twin only when local time is not UTC (the workers run with TZ=UTC, where getMinutes and
// getUTCMinutes are the same function). The Date rows of the table are therefore probed again
// with the process-local zone set to fixed offsets that are not a whole number of hours - and,
// for the seconds twins, not a whole number of minutes (such offsets exist: local mean time) -
// on both sides of UTC. Every probe builds its date from local (or UTC) components and reads
// it back through the method under test, so its expected value does not depend on the zone;
// a method wired to its twin's operation reads back a different field value.
var zoneOffsets = []int{5*3600 + 45*60 + 7, -(3*3600 + 30*60 + 11), 13 * 3600, -11 * 3600}

func runZones(r *engine.Run) {
	saved := time.Local
	defer func() { time.Local = saved }()
	n := 0
	for _, off := range zoneOffsets {
		zname := fmt.Sprintf("tz%+d", off)
		time.Local = time.FixedZone(zname, off)
		for _, cfg := range []string{"fresh", "copy"} {
			vm := build(cfg)
			// the zone itself, as the runtime under test sees it (ES5 15.9.5.26: (t - LocalTime(t)) / msPerMinute)
			k := key(cfg, zname, "offset")
			if r.MineKey(k) {
				src := `[new Date(0).getTimezoneOffset() * 60, Date.UTC(2001, 2, 3, 4, 5, 6, 7) - new Date(2001, 2, 3, 4, 5, 6, 7).getTime()].join()`
				res := ox.Run(vm, src)
				obs := "error"
				if res.Err == nil && !res.Panicked {
					obs, _ = res.Value.ToString()
				}
				r.Eval(true)
				r.Check(k, src, fmt.Sprintf("%d,%d", -off, off*1000), obs)
			}
			for _, row := range shape.Rows {
				if row.Probe == "" || !(row.Owner == "Date" || row.Owner == "Date.prototype") {
					continue
				}
				n++
				k := key(cfg, zname, row.Owner, row.Name)
				if !r.MineKey(k) {
					continue
				}
				r.Begin(k)
				pr := ox.Run(vm, row.Probe)
				r.End()
				o := ""
				switch {
				case pr.Panicked:
					o = fmt.Sprint("panic: ", pr.PanicVal)
				case pr.Err != nil:
					o = "error: " + pr.Err.Error()
				default:
					o, _ = pr.Value.ToString()
				}
				r.Eval(true)
				r.Outcome(zname + ":" + o)
				if r.WantSample() {
					r.Sample(zname + ": " + row.Probe + " => " + o)
				}
				r.Check(k, zname+": "+row.Probe, row.Want, o)
			}
		}
	}
	r.Bound("zone_offsets_s", fmt.Sprint(zoneOffsets))
	r.Bound("zone_probes", fmt.Sprint(n))
}
