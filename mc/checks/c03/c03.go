// Package c03 checks that otto's parser builds the tree the ES5 grammar
// dictates: trees T are generated over the ES5 syntactic AST (ref/syntax),
// rendered to text in several ways, parsed by the real parser, converted 1:1
// back and compared node by node with T. Every rendering is first parsed by
// the independent reference recogniser of ref/syntax, which must reproduce T
// (oracle self-check: a failure there is a harness error, never a violation).
package c03

import (
	"encoding/base64"
	"encoding/json"
	"fmt"
	"strings"
	"time"

	"github.com/robertkrimen/otto/parser"

	"verif/mc/engine"
	"verif/mc/ref/syntax"
)

func init() {
	engine.Register(&engine.Check{
		ID:    "C03",
		Title: "The parser builds the tree the ES5 grammar dictates",
		Rule: "E1: trees from a generator over the ES5 syntactic AST x renderings (minimal parentheses spaced/compact, fully parenthesised, " +
			"<=2 deviations: extra parentheses around one subexpression, comment/newline/tab/NBSP/BOM at one token gap). Each case is one distinct " +
			"(tree, text); it is non-trivial when the reference recogniser reproduced the generating tree and otto's tree was compared node by node " +
			"(literal families: the literal's value). In the ASI matrix the reference tree is the oracle and the generator's prediction the self-check.",
		Families: []engine.Family{
			{Name: "pairs", Run: runPairs},
			{Name: "triples", Run: runTriples},
			{Name: "chains", Run: runChains},
			{Name: "forheaders", Run: runForHeaders},
			{Name: "noin", Run: runNoIn},
			{Name: "spellings", Run: runSpellings},
			{Name: "comments", Run: runComments},
			{Name: "statements", Run: runStatements},
			{Name: "nesting", Run: runNesting},
			{Name: "flatrepetition", Run: runFlatRepetition},
			{Name: "asi", Run: runASI},
			{Name: "restricted", Run: runRestricted},
			{Name: "regexdiv", Run: runRegexDiv},
			{Name: "objlit", Run: runObjLit},
			{Name: "arrays", Run: runArrays},
			{Name: "numlit", Run: runNumLit},
			{Name: "strlit", Run: runStrLit},
			{Name: "identifiers", Run: runIdentifiers},
			{Name: "deviate", Run: runDeviate},
		},
		Assumptions: []string{
			"ref/syntax (independent recursive-descent recogniser following ES5.1 Annex A production by production, with 7.9 ASI, restricted productions, NoIn variants, B.1 legacy octal forms) is a faithful model of the ES5.1 grammar; it was diffed against V8 at development time on all token strings of length <=5 over four 16-token alphabets (every difference is an ES2015+ feature)",
			"the generating tree is the oracle; the reference recogniser must reproduce it for every rendering (self-check), except in the ASI matrix where the reference tree is the oracle",
			"\\8 and \\9 in string literals denote the digit (as every engine and ES2021 B.1.2 do); ES5.1 leaves them undefined",
			"decimal literals are expected to round correctly to nearest even (7.8.3 lets an implementation choose either neighbour beyond 20 significant digits)",
			"redundant parentheses are not part of the tree (otto's AST does not record them)",
		},
		CrashIsViolation: true,
		QuickBudget:      80 * time.Second,
		ThoroughBudget:   14 * time.Minute,
	})
	for _, q := range syntax.AllQuirks() {
		q := q
		engine.RegisterSignature("c03-"+q.String(), func(m *engine.Mismatch) bool { return quirkExplains(m, q) })
	}
	engine.RegisterSignature("c03-inline-sourcemap", func(m *engine.Mismatch) bool {
		src, ok := m.Input.(string)
		return ok && m.Observed == "reject" && m.Expected != "reject" && BadInlineSourceMap(src)
	})
	engine.RegisterSignature("c03-int64-literal", sigInt64Literal)
	engine.RegisterSignature("c03-octal-literal-as-decimal", sigOctalAsDecimal)
	engine.RegisterSignature("c03-hex-literal-stepwise-rounding", sigHexStepwise)
}

// quirkExplains: the alternative model (the ES5 reference with exactly the
// named quirk, or with that quirk and one other quirk that also has an open
// known finding - two deviations can trigger two defects in one text) produces
// exactly otto's observed outcome on this input, and that outcome differs from
// the expected one.
func quirkExplains(m *engine.Mismatch, q syntax.Quirk) bool {
	src, ok := m.Input.(string)
	if !ok || m.Expected == m.Observed {
		return false
	}
	if syntax.Parse(src, syntax.Options{Quirk: q}).Outcome() == m.Observed {
		return true
	}
	for _, f := range engine.KnownFor("C03") {
		if f.Status != "open" || !strings.HasPrefix(f.Signature, "c03-") {
			continue
		}
		for _, q2 := range syntax.AllQuirks() {
			if q2 != q && "c03-"+q2.String() == f.Signature {
				if syntax.Parse(src, syntax.Options{Quirk: q}).Outcome() != m.Observed &&
					syntax.Parse(src, syntax.Options{Quirk: q2}).Outcome() != m.Observed &&
					syntax.Parse(src, syntax.Options{Quirk: q | q2}).Outcome() == m.Observed {
					return true
				}
			}
		}
	}
	return false
}

// BadInlineSourceMap: the last line of src is a `//# sourceMappingURL=data:application/json...,`
// comment whose payload decodes as base64 but is not a version-3 source map
// (the alternative model of F-C03-016 / F-C04-027: otto returns the source-map
// error instead of parsing the program).
func BadInlineSourceMap(src string) bool {
	lines := strings.Split(src, "\n")
	last := lines[len(lines)-1]
	if !strings.HasPrefix(last, "//# sourceMappingURL=data:application/json") {
		return false
	}
	_, payload, ok := strings.Cut(last, ",")
	if !ok {
		return false
	}
	raw, err := base64.StdEncoding.DecodeString(payload)
	if err != nil {
		return false
	}
	var m struct {
		Version int `json:"version"`
	}
	return json.Unmarshal(raw, &m) != nil || m.Version != 3
}

// Observe runs otto's parser on src and renders the outcome: the converted
// tree's dump, "reject" (with the message in detail), "accepted-with-bad-node"
// or "panic".
func Observe(src string) (outcome, detail string) {
	defer func() {
		if p := recover(); p != nil {
			outcome, detail = "panic", fmt.Sprint(p)
		}
	}()
	prog, err := parser.ParseFile(nil, "", src, 0)
	if err != nil {
		return "reject", err.Error()
	}
	d := Convert(prog).Dump()
	if strings.Contains(d, "Bad") && hasBad(Convert(prog)) {
		return "accepted-with-bad-node", d
	}
	return d, ""
}

func hasBad(n *syntax.Node) bool {
	if n == nil {
		return false
	}
	if n.Kind == "Bad" {
		return true
	}
	for _, k := range n.Kids {
		if hasBad(k) {
			return true
		}
	}
	return false
}

// program wraps an expression or statement list into a Program tree.
func program(nodes ...*syntax.Node) *syntax.Node {
	p := &syntax.Node{Kind: "Program"}
	for _, n := range nodes {
		if n.IsExpr() {
			n = syntax.N("Expr", "", n)
		}
		p.Kids = append(p.Kids, n)
	}
	return p
}

type harness struct {
	r        *engine.Run
	selfFail int
}

// check runs one (tree, text) case. T is the generating Program tree.
func (h *harness) check(key string, T *syntax.Node, src string) {
	r := h.r
	exp := T.Dump()
	ref := syntax.Parse(src, syntax.Options{})
	if !ref.Accepted() || ref.Tree.Dump() != exp {
		// oracle self-check: generator, renderer and reference disagree
		h.selfFail++
		if h.selfFail <= 5 {
			r.HarnessError(fmt.Sprintf("self-check %s: text %q generator %s reference %s", key, src, exp, ref.Outcome()))
		}
		r.Skip()
		return
	}
	h.compare(key, src, exp)
}

// compare parses src with otto and compares with the expected dump.
func (h *harness) compare(key, src, exp string) {
	r := h.r
	r.Begin(key)
	obs, detail := Observe(src)
	r.End()
	r.Eval(true)
	r.Outcome(obs)
	if r.WantSample() {
		r.Sample(fmt.Sprintf("%q => %s", clip(src, 300), clip(obs, 160)))
	}
	if obs != exp {
		r.Mismatch(engine.Mismatch{Key: key, Input: src, Expected: exp, Observed: obs, Note: detail})
	}
}

func clip(s string, n int) string {
	if len(s) > n {
		return s[:n] + "..."
	}
	return s
}

// renderings runs the three standard renderings of a Program tree.
func (h *harness) renderings(key string, T *syntax.Node) {
	r := h.r
	min, err := syntax.Tokens(T, syntax.RenderOpts{})
	if err != nil {
		r.Skip()
		return
	}
	if r.MineKey(key + "/min") {
		h.check(key+"/min", T, syntax.Join(min, false))
	}
	if r.MineKey(key + "/compact") {
		h.check(key+"/compact", T, syntax.Join(min, true))
	}
	if r.MineKey(key + "/full") {
		full, _ := syntax.Tokens(T, syntax.RenderOpts{Full: true})
		h.check(key+"/full", T, syntax.Join(full, false))
	}
}
