package c03

import (
	"fmt"
	"strings"

	"verif/mc/engine"
	"verif/mc/ref/syntax"
)

type N = syntax.Node

var n = syntax.N
var id = syntax.Id

// ctor is one expression constructor of the pair/depth-2 families.
type ctor struct {
	name   string
	arity  int
	refPos int // operand that must be a Reference form (11.13.1, 11.3, 11.4.4/5), or -1
	build  func(k []*N) *N
}

func fn(params []string, body ...*N) *N {
	p := &N{Kind: "Params"}
	for _, s := range params {
		p.Kids = append(p.Kids, id(s))
	}
	return n("Function", "", p, &N{Kind: "Body", Kids: body})
}

func newNoArgs(callee *N) *N {
	x := n("New", "", callee)
	x.NoArgs = true
	return x
}

func prop(kind, raw string, key []uint16, val *N) *N {
	p := n("Prop", kind+" "+syntax.Hex16(key), val)
	p.Raw = raw
	return p
}

func ctors() []ctor {
	var l []ctor
	for _, op := range syntax.BinaryOps() {
		op := op
		l = append(l, ctor{"bin" + op, 2, -1, func(k []*N) *N { return n("Binary", op, k[0], k[1]) }})
	}
	for _, op := range syntax.PrefixOps() {
		op := op
		ref := -1
		if op == "++" || op == "--" {
			ref = 0
		}
		l = append(l, ctor{"pre" + op, 1, ref, func(k []*N) *N { return n("Unary", op, k[0]) }})
	}
	for _, op := range []string{"++", "--"} {
		op := op
		l = append(l, ctor{"post" + op, 1, 0, func(k []*N) *N { return n("Postfix", op, k[0]) }})
	}
	l = append(l, ctor{"cond", 3, -1, func(k []*N) *N { return n("Cond", "", k[0], k[1], k[2]) }})
	for _, op := range syntax.AssignOps() {
		op := op
		l = append(l, ctor{"asg" + op, 2, 0, func(k []*N) *N { return n("Assign", op, k[0], k[1]) }})
	}
	l = append(l,
		ctor{"comma", 2, -1, func(k []*N) *N { return n("Comma", "", k[0], k[1]) }},
		ctor{"dot", 1, -1, func(k []*N) *N { return n("Dot", "p", k[0]) }},
		ctor{"index", 2, -1, func(k []*N) *N { return n("Index", "", k[0], k[1]) }},
		ctor{"call0", 1, -1, func(k []*N) *N { return n("Call", "", k[0]) }},
		ctor{"call1", 2, -1, func(k []*N) *N { return n("Call", "", k[0], k[1]) }},
		ctor{"new", 1, -1, func(k []*N) *N { return newNoArgs(k[0]) }},
		ctor{"new0", 1, -1, func(k []*N) *N { return n("New", "", k[0]) }},
		ctor{"new1", 2, -1, func(k []*N) *N { return n("New", "", k[0], k[1]) }},
		ctor{"array", 1, -1, func(k []*N) *N { return n("Array", "", k[0]) }},
		ctor{"object", 1, -1, func(k []*N) *N { return n("Object", "", prop("value", "k", GoUnits("k"), k[0])) }},
		ctor{"function", 1, -1, func(k []*N) *N { return fn(nil, n("Return", "", k[0])) }},
	)
	return l
}

type leafGen struct{ i int }

func (g *leafGen) next() *N {
	s := string(rune('a' + g.i))
	g.i++
	return id(s)
}

func (g *leafGen) fill(c ctor) *N {
	k := make([]*N, c.arity)
	for i := range k {
		k[i] = g.next()
	}
	return c.build(k)
}

func isRefCtor(c ctor) bool { return c.name == "dot" || c.name == "index" }

// runPairs: every constructor as root with every constructor in each operand
// position (all binary-operator pairs in both nestings, unary x binary,
// conditional in each position, assignment right/left nesting, comma, member /
// call / new pairs).
func runPairs(r *engine.Run) {
	h := &harness{r: r}
	cs := ctors()
	for _, root := range cs {
		for pos := 0; pos < root.arity; pos++ {
			for _, child := range cs {
				if root.refPos == pos && !isRefCtor(child) {
					continue
				}
				g := &leafGen{}
				k := make([]*N, root.arity)
				for i := range k {
					if i == pos {
						k[i] = g.fill(child)
					} else {
						k[i] = g.next()
					}
				}
				key := fmt.Sprintf("%s/%d/%s", root.name, pos, child.name)
				h.renderings(key, program(root.build(k)))
			}
		}
	}
	r.Bound("constructors", fmt.Sprint(len(cs)))
	r.Bound("depth", "2 (root x position x child)")
}

func pairTrees() []*N {
	var out []*N
	cs := ctors()
	for _, root := range cs {
		for pos := 0; pos < root.arity; pos++ {
			for _, child := range cs {
				if root.refPos == pos && !isRefCtor(child) {
					continue
				}
				g := &leafGen{}
				k := make([]*N, root.arity)
				for i := range k {
					if i == pos {
						k[i] = g.fill(child)
					} else {
						k[i] = g.next()
					}
				}
				out = append(out, program(root.build(k)))
			}
		}
	}
	return out
}

// runTriples: all triples of binary operators in all five tree shapes.
func runTriples(r *engine.Run) {
	h := &harness{r: r}
	ops := syntax.BinaryOps()
	a, b, c, d := id("a"), id("b"), id("c"), id("d")
	bin := func(op string, l, r *N) *N { return n("Binary", op, l, r) }
	for _, o1 := range ops {
		for _, o2 := range ops {
			for _, o3 := range ops {
				shapes := []*N{
					bin(o3, bin(o2, bin(o1, a, b), c), d),
					bin(o3, bin(o1, a, bin(o2, b, c)), d),
					bin(o2, bin(o1, a, b), bin(o3, c, d)),
					bin(o1, a, bin(o3, bin(o2, b, c), d)),
					bin(o1, a, bin(o2, b, bin(o3, c, d))),
				}
				for si, t := range shapes {
					key := fmt.Sprintf("%s/%s/%s/%d", o1, o2, o3, si)
					T := program(t)
					if r.MineKey(key + "/min") {
						toks, _ := syntax.Tokens(T, syntax.RenderOpts{})
						h.check(key+"/min", T, syntax.Join(toks, false))
					}
					if r.Thorough() && r.MineKey(key+"/full") {
						toks, _ := syntax.Tokens(T, syntax.RenderOpts{Full: true})
						h.check(key+"/full", T, syntax.Join(toks, true))
					}
				}
			}
			if r.Expired() {
				r.Cap("time budget reached in triples")
				return
			}
		}
	}
	r.Bound("shapes", "5 x 23^3")
}

// runChains: member/call/new chains: <= 4 suffixes from {.p, [e], (x)} on six
// bases, with `new` (with and without arguments) applied at one prefix position.
func runChains(r *engine.Run) {
	h := &harness{r: r}
	bases := []func() *N{
		func() *N { return id("a") },
		func() *N { return newNoArgs(id("a")) },
		func() *N { return n("New", "", id("a")) },
		func() *N { return newNoArgs(newNoArgs(id("a"))) },
		func() *N { return fn(nil) },
		func() *N { return n("This", "") },
	}
	suffix := []func(x *N) *N{
		func(x *N) *N { return n("Dot", "p", x) },
		func(x *N) *N { return n("Index", "", x, id("e")) },
		func(x *N) *N { return n("Call", "", x, id("x")) },
	}
	const maxLen = 4
	var rec func(bi int, seq []int)
	rec = func(bi int, seq []int) {
		// new at prefix position k (0..len) or nowhere (-1), two flavours
		for k := -1; k <= len(seq); k++ {
			for flavour := 0; flavour < 2; flavour++ {
				if k == -1 && flavour == 1 {
					continue
				}
				t := bases[bi]()
				for i := 0; i <= len(seq); i++ {
					if i == k {
						if flavour == 0 {
							t = newNoArgs(t)
						} else {
							t = n("New", "", t, id("y"))
						}
					}
					if i < len(seq) {
						t = suffix[seq[i]](t)
					}
				}
				key := fmt.Sprintf("b%d/%s/n%d.%d", bi, strings.Trim(fmt.Sprint(seq), "[]"), k, flavour)
				h.renderings(key, program(t))
			}
		}
		if len(seq) < maxLen {
			for s := range suffix {
				rec(bi, append(append([]int(nil), seq...), s))
			}
		}
	}
	for bi := range bases {
		rec(bi, nil)
	}
	r.Bound("suffixes", "<=4")
}

func inExpr() *N { return n("Binary", "in", id("p"), id("q")) }

// noInExprs: expressions that contain the `in` operator in every kind of
// nesting relevant to the NoIn grammar family.
func noInExprs() map[string]*N {
	return map[string]*N{
		"in":        inExpr(),
		"lt-in":     n("Binary", "<", id("a"), inExpr()),
		"in-lt":     n("Binary", "<", inExpr(), id("a")),
		"in-in":     n("Binary", "in", inExpr(), id("a")),
		"index":     n("Index", "", id("a"), inExpr()),
		"call":      n("Call", "", id("f"), inExpr()),
		"newarg":    n("New", "", id("f"), inExpr()),
		"array":     n("Array", "", inExpr()),
		"object":    n("Object", "", prop("value", "k", GoUnits("k"), inExpr())),
		"condmid":   n("Cond", "", id("a"), inExpr(), id("d")),
		"condtest":  n("Cond", "", inExpr(), id("b"), id("d")),
		"condalt":   n("Cond", "", id("a"), id("b"), inExpr()),
		"assign":    n("Assign", "=", id("a"), inExpr()),
		"comma-r":   n("Comma", "", id("a"), inExpr()),
		"comma-l":   n("Comma", "", inExpr(), id("a")),
		"not":       n("Unary", "!", inExpr()),
		"and":       n("Binary", "&&", inExpr(), id("c")),
		"and-r":     n("Binary", "&&", id("c"), inExpr()),
		"plus":      n("Binary", "+", inExpr(), id("c")),
		"funcbody":  fn(nil, n("Expr", "", inExpr())),
		"funcfor":   fn(nil, n("ForIn", "", id("k"), id("o"), n("Empty", ""))),
		"condcond":  n("Cond", "", id("a"), n("Cond", "", id("b"), inExpr(), id("c")), id("d")),
		"condalt2":  n("Cond", "", id("a"), id("b"), n("Cond", "", id("c"), inExpr(), id("d"))),
		"plain":     n("Binary", "<", id("a"), id("b")),
		"instance":  n("Binary", "instanceof", id("a"), id("b")),
		"parenlike": n("Dot", "p", inExpr()),
	}
}

func sortedKeys(m map[string]*N) []string {
	var ks []string
	for k := range m {
		ks = append(ks, k)
	}
	for i := 1; i < len(ks); i++ {
		for j := i; j > 0 && ks[j] < ks[j-1]; j-- {
			ks[j], ks[j-1] = ks[j-1], ks[j]
		}
	}
	return ks
}

func decl(name string, init *N) *N { return n("Decl", name, init) }

// runForHeaders: for / for-in headers and the no-in rule.
func runForHeaders(r *engine.Run) {
	h := &harness{r: r}
	es := noInExprs()
	body := func() *N { return n("Empty", "") }
	for _, k := range sortedKeys(es) {
		mk := func() *N { return es[k].Clone() }
		cases := map[string]*N{
			"init":    n("For", "", mk(), nil, nil, body()),
			"test":    n("For", "", nil, mk(), nil, body()),
			"update":  n("For", "", nil, nil, mk(), body()),
			"all":     n("For", "", mk(), mk(), mk(), body()),
			"var":     n("For", "", n("Var", "", decl("x", mk())), nil, nil, body()),
			"var2":    n("For", "", n("Var", "", decl("x", nil), decl("y", mk())), id("t"), nil, body()),
			"forin":   n("ForIn", "", id("x"), mk(), body()),
			"forinv":  n("ForIn", "", n("Var", "", decl("x", nil)), mk(), body()),
			"forinvi": n("ForIn", "", n("Var", "", decl("x", mk())), id("o"), body()),
			"forinm":  n("ForIn", "", n("Index", "", id("a"), mk()), id("o"), body()),
			"body":    n("For", "", nil, nil, nil, n("Expr", "", mk())),
		}
		for _, ck := range sortedKeys(cases) {
			h.renderings(k+"/"+ck, program(cases[ck]))
		}
	}
	// presence/absence of the three header parts, for-in target forms
	for m := 0; m < 8; m++ {
		var in, te, up *N
		if m&1 != 0 {
			in = n("Assign", "=", id("i"), syntax.NumLit("0", 0))
		}
		if m&2 != 0 {
			te = n("Binary", "<", id("i"), id("n"))
		}
		if m&4 != 0 {
			up = n("Postfix", "++", id("i"))
		}
		h.renderings(fmt.Sprintf("parts/%d", m), program(n("For", "", in, te, up, n("Block", ""))))
	}
	targets := map[string]*N{
		"id": id("x"), "dot": n("Dot", "p", id("a")), "idx": n("Index", "", id("a"), id("i")),
		"calldot": n("Dot", "p", n("Call", "", id("f"))), "var": n("Var", "", decl("x", nil)),
		"varinit": n("Var", "", decl("x", syntax.NumLit("1", 1))), "this": n("Dot", "p", n("This", "")),
	}
	for _, tk := range sortedKeys(targets) {
		for oi, obj := range []*N{id("o"), n("Comma", "", id("o"), id("p")), n("Object", ""), n("Assign", "=", id("o"), id("p"))} {
			h.renderings(fmt.Sprintf("target/%s/%d", tk, oi), program(n("ForIn", "", targets[tk].Clone(), obj, n("Expr", "", id("z")))))
		}
	}
	r.Bound("in-expressions", fmt.Sprint(len(es)))
}

// runNoIn: the NoIn matrix as raw texts. The reference tree is the oracle for
// the texts that are valid programs (where ES5 re-enables `in`); the invalid
// ones are C04's reject direction.
func runNoIn(r *engine.Run) {
	h := &harness{r: r}
	valid, invalid := 0, 0
	NoInTexts(func(key, src string) {
		if !r.MineKey(key) {
			return
		}
		ref := syntax.Parse(src, syntax.Options{})
		if !ref.Accepted() {
			invalid++
			r.Skip()
			return
		}
		if callTarget(ref.Tree) {
			r.Skip()
			return
		}
		valid++
		h.compare(key, src, ref.Tree.Dump())
	})
	r.Note(fmt.Sprintf("shard %d: %d valid texts compared, %d invalid skipped", r.Shard, valid, invalid))
}

// refOracle runs texts whose validity the reference decides: valid ones are
// compared with the reference tree, invalid ones are C04's reject direction.
func refOracle(r *engine.Run, gen func(f func(key, src string))) {
	h := &harness{r: r}
	valid, invalid := 0, 0
	gen(func(key, src string) {
		if !r.MineKey(key) {
			return
		}
		ref := syntax.Parse(src, syntax.Options{})
		if !ref.Accepted() {
			invalid++
			r.Skip()
			return
		}
		if callTarget(ref.Tree) {
			r.Skip()
			return
		}
		valid++
		h.compare(key, src, ref.Tree.Dump())
	})
	r.Note(fmt.Sprintf("shard %d: %d valid texts compared, %d invalid skipped", r.Shard, valid, invalid))
}

// runSpellings: contextual words (get/set, labels, dotted names, regexp flags)
// in every spelling that cooks to the same value.
func runSpellings(r *engine.Run) { refOracle(r, SpellingTexts) }

// runComments: comment contents, including source-map directives, never change the tree.
func runComments(r *engine.Run) {
	max := 4
	if r.Thorough() {
		max = 5
	}
	refOracle(r, func(f func(key, src string)) { CommentTexts(max, f) })
	r.Bound("pieces", fmt.Sprint(max))
}

// runRegexDiv: `/` after each token class: contexts in which a regular
// expression literal is expected versus those in which `/` divides.
func runRegexDiv(r *engine.Run) {
	h := &harness{r: r}
	bodies := []string{"b", "=b", "[/]", `\/`, `[\]/]`, "a|b", "(?:x)+", "b*?", "[^/]"}
	for bi, body := range bodies {
		for fi, flags := range []string{"", "g", "gim"} {
			if bi > 1 && fi > 1 {
				continue
			}
			re := func() *N { return syntax.RegexLit(body, flags) }
			ctx := map[string]*N{}
			add := func(k string, t ...*N) { ctx[k] = program(t...) }
			add("stmt", re())
			add("after-semi", id("a"), re())
			add("after-block", n("Block", ""), n("Expr", "", re()))
			add("in-block", n("Block", "", n("Expr", "", re())))
			add("if", n("If", "", id("x"), n("Expr", "", re()), nil))
			add("else", n("If", "", id("x"), n("Empty", ""), n("Expr", "", re())))
			add("do", n("Do", "", n("Expr", "", re()), id("y")))
			add("while", n("While", "", id("x"), n("Expr", "", n("Dot", "t", re()))))
			add("label", n("Label", "L", n("Expr", "", re())))
			add("return", n("FuncDecl", "", nfn("f", n("Return", "", re()))))
			add("throw", n("Throw", "", re()))
			add("case", n("Switch", "", re(), n("Case", "", re(), n("Expr", "", re()))))
			add("with", n("With", "", re(), n("Expr", "", re())))
			add("var", n("Var", "", decl("v", re())))
			add("arg", n("Call", "", id("f"), re(), re()))
			add("array", n("Array", "", re(), re()))
			add("object", n("Assign", "=", id("o"), n("Object", "", prop("value", "k", GoUnits("k"), re()))))
			add("index", n("Index", "", id("a"), re()))
			add("paren-dot", n("Dot", "source", re()))
			add("call-method", n("Call", "", n("Dot", "test", re()), id("s")))
			add("new", newNoArgs(re()))
			add("cond", n("Cond", "", re(), re(), re()))
			add("comma", n("Comma", "", re(), re()))
			add("for", n("For", "", re(), re(), re(), n("Expr", "", re())))
			add("forin", n("ForIn", "", id("k"), re(), n("Expr", "", re())))
			add("div-by-regex", n("Binary", "/", id("a"), re()))
			add("regex-div", n("Binary", "/", n("Binary", "/", re(), id("b")), id("c")))
			for _, op := range syntax.BinaryOps() {
				add("bin"+op, n("Binary", op, id("a"), re()))
			}
			for _, op := range syntax.AssignOps() {
				add("asg"+op, n("Assign", op, id("a"), re()))
			}
			for _, op := range []string{"delete", "void", "typeof", "+", "-", "~", "!"} {
				add("pre"+op, n("Unary", op, re()))
			}
			for _, k := range sortedKeys(ctx) {
				h.renderings(fmt.Sprintf("re%d.%d/%s", bi, fi, k), ctx[k])
			}
		}
	}
	// division after every kind of operand-ending token: L / b / c
	lefts := map[string]*N{
		"ident": id("a"), "num": syntax.NumLit("1", 1), "numdot": syntax.NumLit("1.", 1), "str": syntax.StrLit(`"s"`, GoUnits("s")),
		"this": n("This", ""), "null": n("Null", ""), "true": n("True", ""), "call": n("Call", "", id("f")),
		"index": n("Index", "", id("a"), syntax.NumLit("0", 0)), "dot": n("Dot", "p", id("a")), "post": n("Postfix", "++", id("a")),
		"paren": n("Binary", "+", id("a"), id("b")), "array": n("Array", "", id("a")), "regex": syntax.RegexLit("r", "g"),
		"function": fn(nil), "object": n("Object", ""), "new": newNoArgs(id("A")), "newargs": n("New", "", id("A")),
		"kwprop": n("Dot", "return", id("a")), "kwprop2": n("Dot", "typeof", id("a")), "kwprop3": n("Dot", "in", id("a")),
	}
	for _, k := range sortedKeys(lefts) {
		t := n("Binary", "/", n("Binary", "/", lefts[k], id("b")), id("g"))
		h.renderings("div/"+k, program(t))
		h.renderings("diveq/"+k, program(n("Assign", "/=", id("x"), n("Binary", "/", lefts[k].Clone(), id("g")))))
	}
	r.Bound("bodies", fmt.Sprint(len(bodies)))
}

func nfn(name string, body ...*N) *N {
	f := fn(nil, body...)
	f.Op = name
	return f
}

type keySpec struct {
	raw string
	key string // expected property name
}

func objKeys() []keySpec {
	return []keySpec{
		{"a", "a"}, {"$", "$"}, {"_x", "_x"}, {"if", "if"}, {"class", "class"}, {"null", "null"}, {"true", "true"},
		{"get", "get"}, {"set", "set"}, {"function", "function"}, {"in", "in"}, {"let", "let"},
		{`"s"`, "s"}, {`'q'`, "q"}, {`""`, ""}, {`"a b"`, "a b"}, {`"\x41"`, "A"}, {`"get"`, "get"},
		{"1", "1"}, {"0x10", "16"}, {"1.0", "1"}, {"1e3", "1000"}, {".5", "0.5"}, {"010", "8"}, {"1.50", "1.5"}, {"0", "0"},
		{"1e21", "1e+21"}, {"0.000001", "0.000001"}, {"1e-7", "1e-7"},
	}
}

// runObjLit: object literal keys and get/set disambiguation.
func runObjLit(r *engine.Run) {
	h := &harness{r: r}
	keys := objKeys()
	mk := func(kind string, k keySpec) *N {
		u := GoUnits(k.key)
		switch kind {
		case "get":
			return prop("get", k.raw, u, fn(nil, n("Return", "", id("g"))))
		case "set":
			return prop("set", k.raw, u, fn([]string{"v"}))
		}
		return prop("value", k.raw, u, id("v"))
	}
	kinds := []string{"value", "get", "set"}
	emit := func(key string, props ...*N) {
		T := program(n("Assign", "=", id("x"), n("Object", "", props...)))
		h.renderings(key, T)
		// trailing comma (11.1.5: { PropertyNameAndValueList , })
		if len(props) > 0 && r.MineKey(key+"/trailing") {
			toks, _ := syntax.Tokens(T, syntax.RenderOpts{})
			last := len(toks) - 2 // "}" before ";"
			with := append(append(append([]syntax.Token(nil), toks[:last]...), syntax.Token{Text: ","}), toks[last:]...)
			h.check(key+"/trailing", T, syntax.Join(with, false))
		}
	}
	for ki, k := range keys {
		for _, kind := range kinds {
			emit(fmt.Sprintf("one/%d/%s", ki, kind), mk(kind, k))
		}
	}
	for i, k1 := range keys {
		for j, k2 := range keys {
			for _, kd1 := range kinds {
				for _, kd2 := range kinds {
					if k1.key == k2.key && !(kd1 == "value" && kd2 == "value") && !(kd1 != kd2 && kd1 != "value" && kd2 != "value") {
						continue // 11.1.5 clash: not a valid program
					}
					if !r.Thorough() && (i+j)%5 != 0 && !(k1.raw == "get" || k1.raw == "set" || k2.raw == "get" || k2.raw == "set") {
						continue
					}
					emit(fmt.Sprintf("two/%d.%s/%d.%s", i, kd1, j, kd2), mk(kd1, k1), mk(kd2, k2))
				}
			}
		}
	}
	emit("empty")
	r.Bound("keys", fmt.Sprint(len(keys)))
}

// runArrays: elisions in every position of arrays up to length 4.
func runArrays(r *engine.Run) {
	h := &harness{r: r}
	for l := 0; l <= 4; l++ {
		for m := 0; m < 1<<uint(l); m++ {
			a := &N{Kind: "Array"}
			g := &leafGen{}
			for i := 0; i < l; i++ {
				if m&(1<<uint(i)) != 0 {
					a.Kids = append(a.Kids, n("Hole", ""))
				} else {
					a.Kids = append(a.Kids, g.next())
				}
			}
			h.renderings(fmt.Sprintf("len%d/%d", l, m), program(a))
			h.renderings(fmt.Sprintf("len%d/%d/assign", l, m), program(n("Assign", "=", id("x"), n("Array", "", a.Clone(), n("Comma", "", id("p"), id("q"))))))
		}
	}
	r.Bound("length", "<=4")
}
