package c03

import (
	"fmt"

	"verif/mc/engine"
	"verif/mc/ref/syntax"
)

// fillers are the white space / comment texts inserted at one token gap.
var fillers = []string{"/*c*/", "\t", "\u00a0", "\ufeff", "\n", "//c\n", "/*\n*/"}

const nonLTFillers = 4 // the first four contain no line terminator

// deviationBase: the trees whose renderings are deviated.
func deviationBase(thorough bool) []*N {
	base := pairTrees()
	for _, l := range leafStatements() {
		base = append(base, envFor(l.mk()))
	}
	if thorough {
		for _, c := range containers() {
			for _, l := range leafStatements() {
				t := envFor(c.wrap(l.mk()))
				if _, err := syntax.Tokens(t, syntax.RenderOpts{}); err == nil && validPlacement(t, "") {
					base = append(base, t)
				}
			}
		}
	}
	return base
}

// runDeviate: E1 choice-tree exploration. Point 0 picks the tree (free); then
// one deviation point per subexpression (extra parentheses) and one per token
// gap (filler). A line terminator is offered only at gaps where 7.9.1 cannot
// change the tree (not before the operand of return/throw, a break/continue
// label, or a postfix operator). All executions with at most `bound`
// deviations are run: quick 1, thorough 2.
func runDeviate(r *engine.Run) {
	h := &harness{r: r}
	base := deviationBase(r.Thorough())
	bound := 1
	if r.Thorough() {
		bound = 2
	}
	expired := false
	engine.Explore(r, bound, func(c *engine.Chooser) {
		ti := c.Pick(len(base))
		if r.ReplayKey == "" && r.NShards > 1 && ti%r.NShards != r.Shard {
			return // another shard owns this tree's subtree
		}
		if expired || r.Expired() {
			expired = true
			return
		}
		T := base[ti]
		extra := map[*N]int{}
		dev := 0
		for _, e := range T.Exprs() {
			if c.Deviate(2) == 1 {
				extra[e]++
				dev++
			}
		}
		toks, err := syntax.Tokens(T, syntax.RenderOpts{Extra: extra})
		if err != nil {
			return
		}
		fill := map[int]string{}
		for g := 0; g <= len(toks); g++ {
			nf := len(fillers)
			if g < len(toks) && toks[g].NoLT {
				nf = nonLTFillers
			}
			if f := c.Deviate(1 + nf); f > 0 {
				fill[g] = fillers[f-1]
				dev++
			}
		}
		if dev == 0 {
			return // the undeviated rendering belongs to the other families
		}
		key := c.Key()
		if r.Shard != 0 {
			r.Tree(1, 1)
		}
		h.check(key, T, syntax.JoinFill(toks, false, fill))
	})
	if expired {
		r.Cap("time budget reached")
	}
	r.Bound("deviations", fmt.Sprint(bound))
	r.Bound("base_trees", fmt.Sprint(len(base)))
}
