package c03

import (
	"fmt"
	"unicode/utf16"

	"github.com/robertkrimen/otto/ast"
	"github.com/robertkrimen/otto/token"

	"verif/mc/ref/syntax"
)

// Convert maps otto's AST 1:1 onto the generator AST of ref/syntax. Nothing is
// normalised beyond (a) dropping positions, (b) the redundant-parentheses
// distinction, which otto's AST does not record (a flat SequenceExpression is
// the left-nested comma tree; a parenthesised sequence in first position is the
// same tree), and (c) wrappers otto always allocates (the SequenceExpression
// around a for-initializer). Anything unexpected becomes a node of kind "?"
// so that it shows up as a difference.
func Convert(p *ast.Program) *syntax.Node {
	n := &syntax.Node{Kind: "Program"}
	for _, s := range p.Body {
		n.Kids = append(n.Kids, stmt(s))
	}
	return n
}

func odd(format string, args ...interface{}) *syntax.Node {
	return syntax.N("?", fmt.Sprintf(format, args...))
}

// GoUnits converts a Go string to UTF-16 units (invalid UTF-8 bytes become U+FFFD).
func GoUnits(s string) []uint16 { return utf16.Encode([]rune(s)) }

func stmts(l []ast.Statement) []*syntax.Node {
	out := make([]*syntax.Node, 0, len(l))
	for _, s := range l {
		out = append(out, stmt(s))
	}
	return out
}

func blockOf(s ast.Statement) *syntax.Node {
	b, ok := s.(*ast.BlockStatement)
	if !ok || b == nil {
		return odd("block expected, got %T", s)
	}
	return &syntax.Node{Kind: "Block", Kids: stmts(b.List)}
}

func decls(l []ast.Expression) *syntax.Node {
	v := &syntax.Node{Kind: "Var"}
	for _, e := range l {
		ve, ok := e.(*ast.VariableExpression)
		if !ok {
			v.Kids = append(v.Kids, expr(e))
			continue
		}
		v.Kids = append(v.Kids, syntax.N("Decl", ve.Name, optExpr(ve.Initializer)))
	}
	return v
}

func optExpr(e ast.Expression) *syntax.Node {
	if e == nil {
		return nil
	}
	return expr(e)
}

func optStmt(s ast.Statement) *syntax.Node {
	if s == nil {
		return nil
	}
	return stmt(s)
}

func label(id *ast.Identifier) string {
	if id == nil {
		return ""
	}
	return id.Name
}

func stmt(s ast.Statement) *syntax.Node {
	switch s := s.(type) {
	case *ast.BadStatement:
		return syntax.N("Bad", "")
	case *ast.BlockStatement:
		return blockOf(s)
	case *ast.BranchStatement:
		switch s.Token {
		case token.BREAK:
			return syntax.N("Break", label(s.Label))
		case token.CONTINUE:
			return syntax.N("Continue", label(s.Label))
		}
		return odd("branch token %v", s.Token)
	case *ast.DebuggerStatement:
		return syntax.N("Debugger", "")
	case *ast.DoWhileStatement:
		return syntax.N("Do", "", stmt(s.Body), expr(s.Test))
	case *ast.EmptyStatement:
		return syntax.N("Empty", "")
	case *ast.ExpressionStatement:
		return syntax.N("Expr", "", expr(s.Expression))
	case *ast.ForInStatement:
		var left *syntax.Node
		if ve, ok := s.Into.(*ast.VariableExpression); ok {
			left = decls([]ast.Expression{ve})
		} else {
			left = expr(s.Into)
		}
		return syntax.N("ForIn", "", left, expr(s.Source), stmt(s.Body))
	case *ast.ForStatement:
		var init *syntax.Node
		switch in := s.Initializer.(type) {
		case nil:
		case *ast.SequenceExpression:
			switch {
			case len(in.Sequence) == 0:
			case isVar(in.Sequence[0]):
				init = decls(in.Sequence)
			case len(in.Sequence) == 1:
				init = expr(in.Sequence[0])
			default:
				init = odd("for initializer with %d expressions", len(in.Sequence))
			}
		default:
			init = odd("for initializer %T", in)
		}
		return syntax.N("For", "", init, optExpr(s.Test), optExpr(s.Update), stmt(s.Body))
	case *ast.FunctionStatement:
		return syntax.N("FuncDecl", "", function(s.Function))
	case *ast.IfStatement:
		return syntax.N("If", "", expr(s.Test), stmt(s.Consequent), optStmt(s.Alternate))
	case *ast.LabelledStatement:
		return syntax.N("Label", label(s.Label), stmt(s.Statement))
	case *ast.ReturnStatement:
		return syntax.N("Return", "", optExpr(s.Argument))
	case *ast.SwitchStatement:
		sw := syntax.N("Switch", "", expr(s.Discriminant))
		def := -1
		for i, c := range s.Body {
			cn := syntax.N("Case", "", optExpr(c.Test))
			cn.Kids = append(cn.Kids, stmts(c.Consequent)...)
			sw.Kids = append(sw.Kids, cn)
			if c.Test == nil {
				def = i
			}
		}
		if def != s.Default {
			sw.Kids = append(sw.Kids, odd("Default index %d, default clause at %d", s.Default, def))
		}
		return sw
	case *ast.ThrowStatement:
		return syntax.N("Throw", "", expr(s.Argument))
	case *ast.TryStatement:
		t := syntax.N("Try", "", blockOf(s.Body), nil, nil)
		if s.Catch != nil {
			t.Kids[1] = syntax.N("Catch", label(s.Catch.Parameter), blockOf(s.Catch.Body))
		}
		if s.Finally != nil {
			t.Kids[2] = blockOf(s.Finally)
		}
		return t
	case *ast.VariableStatement:
		return decls(s.List)
	case *ast.WhileStatement:
		return syntax.N("While", "", expr(s.Test), stmt(s.Body))
	case *ast.WithStatement:
		return syntax.N("With", "", expr(s.Object), stmt(s.Body))
	}
	return odd("statement %T", s)
}

func isVar(e ast.Expression) bool {
	_, ok := e.(*ast.VariableExpression)
	return ok
}

func function(f *ast.FunctionLiteral) *syntax.Node {
	if f == nil {
		return odd("nil function")
	}
	params := &syntax.Node{Kind: "Params"}
	if f.ParameterList != nil {
		for _, p := range f.ParameterList.List {
			params.Kids = append(params.Kids, syntax.Id(p.Name))
		}
	}
	body := &syntax.Node{Kind: "Body"}
	if b, ok := f.Body.(*ast.BlockStatement); ok && b != nil {
		body.Kids = stmts(b.List)
	} else {
		body = odd("function body %T", f.Body)
	}
	return syntax.N("Function", label(f.Name), params, body)
}

var comparison = map[token.Token]bool{
	token.LESS: true, token.LESS_OR_EQUAL: true, token.GREATER: true, token.GREATER_OR_EQUAL: true,
	token.EQUAL: true, token.NOT_EQUAL: true, token.STRICT_EQUAL: true, token.STRICT_NOT_EQUAL: true,
}

// NumValue renders otto's NumberLiteral.Value: a float64, or an int64 that is
// exactly representable as a double. Any other carrier is reported verbatim.
func NumValue(v interface{}) string {
	switch v := v.(type) {
	case float64:
		return syntax.CanonNum(v)
	case int64:
		f := float64(v)
		if f < 9.3e18 && f > -9.3e18 && int64(f) == v {
			return syntax.CanonNum(f)
		}
		return fmt.Sprintf("int64!%d", v)
	}
	return fmt.Sprintf("%T!%v", v, v)
}

func expr(e ast.Expression) *syntax.Node {
	switch e := e.(type) {
	case *ast.ArrayLiteral:
		a := &syntax.Node{Kind: "Array"}
		for _, x := range e.Value {
			if _, hole := x.(*ast.EmptyExpression); hole {
				a.Kids = append(a.Kids, syntax.N("Hole", ""))
			} else {
				a.Kids = append(a.Kids, expr(x))
			}
		}
		return a
	case *ast.AssignExpression:
		op := "="
		if e.Operator != token.ASSIGN {
			op = e.Operator.String() + "="
		}
		return syntax.N("Assign", op, expr(e.Left), expr(e.Right))
	case *ast.BadExpression:
		return syntax.N("Bad", "")
	case *ast.BinaryExpression:
		b := syntax.N("Binary", e.Operator.String(), expr(e.Left), expr(e.Right))
		if comparison[e.Operator] != e.Comparison {
			b.Kids = append(b.Kids, odd("Comparison flag %v on %v", e.Comparison, e.Operator))
		}
		return b
	case *ast.BooleanLiteral:
		if e.Value {
			return syntax.N("True", "")
		}
		return syntax.N("False", "")
	case *ast.BracketExpression:
		return syntax.N("Index", "", expr(e.Left), expr(e.Member))
	case *ast.CallExpression:
		c := syntax.N("Call", "", expr(e.Callee))
		for _, a := range e.ArgumentList {
			c.Kids = append(c.Kids, expr(a))
		}
		return c
	case *ast.ConditionalExpression:
		return syntax.N("Cond", "", expr(e.Test), expr(e.Consequent), expr(e.Alternate))
	case *ast.DotExpression:
		return syntax.N("Dot", label(e.Identifier), expr(e.Left))
	case *ast.EmptyExpression:
		return syntax.N("Hole", "")
	case *ast.FunctionLiteral:
		return function(e)
	case *ast.Identifier:
		return syntax.Id(e.Name)
	case *ast.NewExpression:
		c := syntax.N("New", "", expr(e.Callee))
		for _, a := range e.ArgumentList {
			c.Kids = append(c.Kids, expr(a))
		}
		return c
	case *ast.NullLiteral:
		return syntax.N("Null", "")
	case *ast.NumberLiteral:
		return syntax.N("Num", NumValue(e.Value))
	case *ast.ObjectLiteral:
		o := &syntax.Node{Kind: "Object"}
		for _, p := range e.Value {
			o.Kids = append(o.Kids, syntax.N("Prop", p.Kind+" "+syntax.Hex16(GoUnits(p.Key)), expr(p.Value)))
		}
		return o
	case *ast.RegExpLiteral:
		return syntax.N("Regex", "/"+e.Pattern+"/"+e.Flags)
	case *ast.SequenceExpression:
		if len(e.Sequence) == 0 {
			return odd("empty sequence")
		}
		n := expr(e.Sequence[0])
		for _, x := range e.Sequence[1:] {
			n = syntax.N("Comma", "", n, expr(x))
		}
		return n
	case *ast.StringLiteral:
		return syntax.N("Str", syntax.Hex16(GoUnits(e.Value)))
	case *ast.ThisExpression:
		return syntax.N("This", "")
	case *ast.UnaryExpression:
		if e.Postfix {
			return syntax.N("Postfix", e.Operator.String(), expr(e.Operand))
		}
		return syntax.N("Unary", e.Operator.String(), expr(e.Operand))
	case *ast.VariableExpression:
		return syntax.N("Decl", e.Name, optExpr(e.Initializer))
	}
	return odd("expression %T", e)
}
